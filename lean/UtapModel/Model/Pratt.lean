/-
M-GRAM — the `Expression` sub-language of src/parser.y as an operator-precedence (Pratt) parser, together with the
renderings it is proved to invert (Lemmas/Pratt*.lean, Props/C02.lean).

Why an operator-precedence parser models bison here: for productions of the shape
`E : E op E | pre E | E post | E ? E : E | E [ E ] | E ( args ) | atom`, bison resolves every shift/reduce conflict by
comparing the precedence `p` of the rule that could be reduced with the precedence `b` of the look-ahead token
(reduce if `p > b`, or `p = b` and the level is %left; shift otherwise).  "The operand of a rule of level `p` keeps
consuming continuation tokens of level `b` while `b ≥ mn p`" (`mn p = p` for %right levels, `p+1` for %left levels)
is exactly that rule.  The numbers come from the table `Tbl`, which translate/exprgrammar.py regenerates from the
%left/%right block and the `Expression` productions of the *current* parser.y (Gen/ExprGrammar.lean); the
equivalence with bison's automaton is not assumed but checked on every run by the correspondence (checks/c02.py).

Core Lean only (no Mathlib): this file is linked into the driver executables.
-/
namespace UtapModel.Pratt

/-- atomic operands.  `intMin` is the production `T_MINUS T_POS_NEG_MAX` (the literal -2147483648). -/
inductive Atom where
  | nat (n : Nat)            -- T_NAT (0 ≤ n ≤ 2147483647 after the lexer's overflow check)
  | intMin
  | dbl (text : String)      -- T_FLOATING, kept as its literal text (conversion is atof's business)
  | str (s : String)         -- T_CHARARR
  | tru | fls | deadlock
  | ident (x : String)       -- NonTypeId
deriving DecidableEq, Repr, Inhabited

/-- Tokens of the expression language.  Operator symbols and keyword operators are `sym t` with `t` an index into the
generated token table; the same symbol can be prefix and infix (`-`) or prefix and postfix (`++`). -/
inductive Tok where
  | atom (a : Atom)
  | posNegMax                              -- the literal 2147483648 (only valid after a prefix minus)
  | sym (t : Nat)
  | quant (q : Nat) (id ty : String)       -- `forall ( id : ty )`, `exists (…)`, `sum (…)` heads; `ty` is opaque text
  | dot (name : String)                    -- `. name`
  | dotLoc                                 -- `. location`
  | fn (k : Nat) (arity : Nat)             -- builtin function name (BuiltinFunction1/2/3), followed by `(`
  | lp | rp | lb | rb | comma | quest | colon
deriving DecidableEq, Repr, Inhabited

/-- Syntax trees.  Operator nodes carry the *token* they were built from (`and` and `&&` are different tokens of the
same kind; `Kinds.lean`/the driver map tokens to `kind_t`).  Argument lists of calls are encoded as `acons/anil`
cells so that the type is not nested. -/
inductive Expr where
  | atom (a : Atom)
  | pre (t : Nat) (e : Expr)                       -- prefix operator token t: `-e`, `!e`, `not e`, `++e`, `--e`
  | quant (q : Nat) (id ty : String) (e : Expr)    -- forall / exists / sum
  | post (t : Nat) (e : Expr)                      -- `e++`, `e--`, `e'`
  | dot (name : String) (e : Expr)
  | dotLoc (e : Expr)
  | bin (t : Nat) (l r : Expr)                     -- binary and assignment operators
  | tern (c a b : Expr)                            -- inline if
  | index (a i : Expr)
  | fn1 (k : Nat) (a : Expr)
  | fn2 (k : Nat) (a b : Expr)
  | fn3 (k : Nat) (a b c : Expr)
  | call (f args : Expr)                           -- args is an `acons … anil` chain
  | anil
  | acons (e rest : Expr)
deriving DecidableEq, Repr, Inhabited

/-- Precedence table (see the file comment).  Levels are positive; higher binds tighter. -/
structure Tbl where
  isBin   : Nat → Bool      -- token usable as an infix operator `E t E` (binary, assignment family, imply)
  bp      : Nat → Nat       -- … and the level of that production
  isImply : Nat → Bool      -- `a imply b` is built as OR(NOT a, b)
  orTok   : Nat
  notTok  : Nat
  isPre   : Nat → Bool      -- token usable as prefix operator
  prePlus : Nat → Bool      -- … that builds no node (unary plus)
  isMinus : Nat → Bool      -- the prefix token that forms `- 2147483648`
  pp      : Nat → Nat       -- level of the prefix production
  isPost  : Nat → Bool      -- token usable as postfix operator (`++ -- '`)
  sp      : Nat → Nat       -- its level as a look-ahead token
  ra      : Nat → Bool      -- level ↦ %right ?
  questL  : Nat             -- level of the token `?`
  ternL   : Nat             -- level of the inline-if production (%prec)
  quantL  : Nat → Nat       -- level of the quantifier production q
  topL    : Nat             -- level of `(` `[` `.`

namespace Tbl
/-- minimal level a continuation token needs in order to be consumed by the operand of a rule of level `p` -/
def mn (T : Tbl) (p : Nat) : Nat := if T.ra p then p else p + 1
/-- minimal level at which the *left* operand of an operator of level `p` may appear without parentheses -/
def lctx (T : Tbl) (p : Nat) : Nat := if T.ra p then p + 1 else p
def mkBin (T : Tbl) (t : Nat) (l r : Expr) : Expr :=
  if T.isImply t then .bin T.orTok (.pre T.notTok l) r else .bin t l r
end Tbl

/-! ### the parser -/

mutual
/-- parse one operand-with-continuations whose continuation tokens must have level ≥ `q` -/
def parseE (T : Tbl) : Nat → Nat → List Tok → Option (Expr × List Tok)
  | 0, _, _ => none
  | f+1, q, ts =>
    match ts with
    | .atom a :: r => loop T f q (.atom a) r
    | .sym t :: .posNegMax :: r => if T.isPre t && T.isMinus t then loop T f q (.atom .intMin) r else none
    | .sym t :: r =>
      if T.isPre t then
        match parseE T f (T.mn (T.pp t)) r with
        | some (e, r') => loop T f q (if T.prePlus t then e else .pre t e) r'
        | none => none
      else none
    | .quant k id ty :: r =>
      match parseE T f (T.mn (T.quantL k)) r with
      | some (e, r') => loop T f q (.quant k id ty e) r'
      | none => none
    | .lp :: r =>
      match parseE T f 0 r with
      | some (e, .rp :: r') => loop T f q e r'
      | _ => none
    | .fn k 1 :: .lp :: r =>
      match parseE T f 0 r with
      | some (a, .rp :: r') => loop T f q (.fn1 k a) r'
      | _ => none
    | .fn k 2 :: .lp :: r =>
      match parseE T f 0 r with
      | some (a, .comma :: r1) =>
        match parseE T f 0 r1 with
        | some (b, .rp :: r') => loop T f q (.fn2 k a b) r'
        | _ => none
      | _ => none
    | .fn k 3 :: .lp :: r =>
      match parseE T f 0 r with
      | some (a, .comma :: r1) =>
        match parseE T f 0 r1 with
        | some (b, .comma :: r2) =>
          match parseE T f 0 r2 with
          | some (c, .rp :: r') => loop T f q (.fn3 k a b c) r'
          | _ => none
        | _ => none
      | _ => none
    | _ => none
/-- continuation loop: `lhs` is complete; consume operators of level ≥ `q` -/
def loop (T : Tbl) : Nat → Nat → Expr → List Tok → Option (Expr × List Tok)
  | 0, _, _, _ => none
  | f+1, q, lhs, ts =>
    match ts with
    | .sym t :: r =>
      if T.isBin t && decide (q ≤ T.bp t) then
        match parseE T f (T.mn (T.bp t)) r with
        | some (rhs, r') => loop T f q (T.mkBin t lhs rhs) r'
        | none => none
      else if T.isPost t && decide (q ≤ T.sp t) then loop T f q (.post t lhs) r
      else some (lhs, ts)
    | .quest :: r =>
      if q ≤ T.questL then
        match parseE T f 0 r with
        | some (a, .colon :: r1) =>
          match parseE T f (T.mn T.ternL) r1 with
          | some (b, r') => loop T f q (.tern lhs a b) r'
          | none => none
        | _ => none
      else some (lhs, ts)
    | .lb :: r =>
      if q ≤ T.topL then
        match parseE T f 0 r with
        | some (i, .rb :: r') => loop T f q (.index lhs i) r'
        | _ => none
      else some (lhs, ts)
    | .lp :: r =>
      if q ≤ T.topL then
        -- `ArgList ')'` with `ArgList : ε | Expression | ArgList ',' Expression` (so `f(,a)` has one argument)
        match r with
        | .rp :: r' => loop T f q (.call lhs .anil) r'
        | .comma :: _ =>
          match parseTail T f r with
          | some (args, r') => loop T f q (.call lhs args) r'
          | none => none
        | _ =>
          match parseE T f 0 r with
          | some (e, r1) =>
            match parseTail T f r1 with
            | some (rest, r') => loop T f q (.call lhs (.acons e rest)) r'
            | none => none
          | none => none
      else some (lhs, ts)
    | .dot n :: r => if q ≤ T.topL then loop T f q (.dot n lhs) r else some (lhs, ts)
    | .dotLoc :: r => if q ≤ T.topL then loop T f q (.dotLoc lhs) r else some (lhs, ts)
    | _ => some (lhs, ts)
/-- the rest of an argument list: `)` or `, Expression …` -/
def parseTail (T : Tbl) : Nat → List Tok → Option (Expr × List Tok)
  | 0, _ => none
  | f+1, ts =>
    match ts with
    | .rp :: r => some (.anil, r)
    | .comma :: r =>
      match parseE T f 0 r with
      | some (e, r1) =>
        match parseTail T f r1 with
        | some (rest, r') => some (.acons e rest, r')
        | none => none
      | none => none
    | _ => none
end

/-- the argument list after `(` as the `(`-branch of `loop` parses it -/
def argsAfterLp (T : Tbl) (f : Nat) (r : List Tok) : Option (Expr × List Tok) :=
  match r with
  | .rp :: r' => some (.anil, r')
  | .comma :: _ => parseTail T f r
  | _ =>
    match parseE T f 0 r with
    | some (e, r1) =>
      match parseTail T f r1 with
      | some (rest, r') => some (.acons e rest, r')
      | none => none
    | none => none

/-- whole-input parse with the fuel that is always sufficient (`parseE_fuel` in Lemmas/PrattFuel.lean) -/
def parseTop (T : Tbl) (ts : List Tok) : Option Expr :=
  match parseE T (ts.length + 1) 0 ts with
  | some (e, []) => some e
  | _ => none

/-! ### renderings -/

def atomToks (minusTok : Nat) : Atom → List Tok
  | .intMin => [.sym minusTok, .posNegMax]
  | a => [.atom a]

def wrap (b : Bool) (ts : List Tok) : List Tok := if b then [.lp] ++ ts ++ [.rp] else ts

/-- Rendering with parentheses exactly where the table requires them (`full = false`), or additionally around every
operator node (`full = true`: every operand that is not atomic is parenthesised, whatever the table says).
`mt` is the token of prefix minus (for the literal -2147483648). -/
def render (T : Tbl) (mt : Nat) (full : Bool) : Nat → Expr → List Tok
  | _, .atom a => atomToks mt a
  | ctx, .pre t x => wrap (full || decide (T.pp t < ctx)) (.sym t :: render T mt full (T.mn (T.pp t)) x)
  | ctx, .quant k id ty x =>
    wrap (full || decide (T.quantL k < ctx)) (.quant k id ty :: render T mt full (T.mn (T.quantL k)) x)
  | ctx, .post t x => wrap (full || decide (T.sp t < ctx)) (render T mt full (T.lctx (T.sp t)) x ++ [.sym t])
  | ctx, .dot n x => wrap (full || decide (T.topL < ctx)) (render T mt full (T.lctx T.topL) x ++ [.dot n])
  | ctx, .dotLoc x => wrap (full || decide (T.topL < ctx)) (render T mt full (T.lctx T.topL) x ++ [.dotLoc])
  | ctx, .bin t l r =>
    wrap (full || decide (T.bp t < ctx))
      (render T mt full (T.lctx (T.bp t)) l ++ [.sym t] ++ render T mt full (T.mn (T.bp t)) r)
  | ctx, .tern c a b =>
    wrap (full || decide (T.ternL < ctx))
      (render T mt full (T.lctx T.questL) c ++ [.quest] ++ render T mt full 0 a ++ [.colon] ++
        render T mt full (T.mn T.ternL) b)
  | ctx, .index a i =>
    wrap (full || decide (T.topL < ctx)) (render T mt full (T.lctx T.topL) a ++ [.lb] ++ render T mt full 0 i ++ [.rb])
  | _, .fn1 k a => [.fn k 1, .lp] ++ render T mt full 0 a ++ [.rp]
  | _, .fn2 k a b => [.fn k 2, .lp] ++ render T mt full 0 a ++ [.comma] ++ render T mt full 0 b ++ [.rp]
  | _, .fn3 k a b c =>
    [.fn k 3, .lp] ++ render T mt full 0 a ++ [.comma] ++ render T mt full 0 b ++ [.comma] ++ render T mt full 0 c ++ [.rp]
  | ctx, .call f args =>
    wrap (full || decide (T.topL < ctx)) (render T mt full (T.lctx T.topL) f ++ [.lp] ++ render T mt full 0 args ++ [.rp])
  | _, .anil => []
  | _, .acons x .anil => render T mt full 0 x
  | _, .acons x rest => render T mt full 0 x ++ [.comma] ++ render T mt full 0 rest

/-- Well-formedness of a tree w.r.t. a table: every operator node uses a token that the table admits in that role
(`args = false`: an expression; `args = true`: an argument list).  Decidable, so membership of a concrete tree in
the fragment the theorems speak about can be checked by evaluation. -/
def wf (T : Tbl) (mt : Nat) : Bool → Expr → Bool
  | false, .atom a => if a = .intMin then T.isPre mt && T.isMinus mt else true
  | false, .pre t x => T.isPre t && !T.prePlus t && wf T mt false x
  | false, .quant _ _ _ x => wf T mt false x
  | false, .post t x => T.isPost t && !T.isBin t && wf T mt false x
  | false, .dot _ x => wf T mt false x
  | false, .dotLoc x => wf T mt false x
  | false, .bin t l r => T.isBin t && !T.isImply t && !T.isPost t && wf T mt false l && wf T mt false r
  | false, .tern c a b => wf T mt false c && wf T mt false a && wf T mt false b
  | false, .index a i => wf T mt false a && wf T mt false i
  | false, .fn1 _ a => wf T mt false a
  | false, .fn2 _ a b => wf T mt false a && wf T mt false b
  | false, .fn3 _ a b c => wf T mt false a && wf T mt false b && wf T mt false c
  | false, .call f args => wf T mt false f && wf T mt true args
  | false, .anil => false
  | false, .acons _ _ => false
  | true, .anil => true
  | true, .acons x rest => wf T mt false x && wf T mt true rest
  | true, _ => false

end UtapModel.Pratt
