/- Line-protocol driver for C01 (imports only Model/Gen modules).
   `exceptions`                      -> one line per (production, stack) failing the local check, then `END`
   `wf`                              -> effect rows that are not well formed, then `END`
   `T <callback> <n> <thrown> F T R S E M U G L  F' T' R' S' E' M' U' G' L'`
                                     -> `ok` | `MISMATCH ...` : predicted vs observed stack sizes of one traced call of
                                        the real library (harness/c01_trace.cpp) -/
import UtapModel.Model.C01Effect
open UtapModel.C01 UtapModel.Gen.Grammar

def sigS (s : Stack) (B : NT) : Sig := (sigOf B).get s
def effS (s : Stack) (cb : CB) : Eff := effect cb s

def exceptionLines : List String :=
  prods.flatMap (fun p =>
    (Stack.all.filter (fun s => !lbProd (sigS s) (effS s) p)).map (fun s =>
      s!"EXC {prodKey p.id} {s.name} id={p.id} name={prodName p.id}"))

def wfLines : List String :=
  CB.all.flatMap (fun cb => (Stack.all.filter (fun s => !(effect cb s).wf)).map (fun s => s!"BADROW {cb.name} {s.name}"))

def observed : List Stack := [.F, .T, .R, .S]
def pointers : List Stack := [.E, .M, .U, .G, .L]

def checkTrace (ws : List String) : String :=
  match ws with
  | name :: rest =>
    match CB.ofName? name, rest.mapM String.toInt? with
    | some cb, some (n :: thrown :: nums) =>
      if nums.length != 18 then "bad-op" else
      let before := nums.take 9
      let after := nums.drop 9
      let n' := n.toNat
      let probs := (List.range 4).filterMap (fun i =>
        let s := observed.getD i .F
        let ef := effect cb s
        let b := before.getD i 0
        let a := after.getD i 0
        let need : Int := ((ef.need0 + ef.needN * n' : Nat) : Int)
        let dn := ef.d0 + ef.dN * n
        let dt := ef.t0 + ef.tN * n
        if ef.reset then (if a = 0 ∨ a = b then none else some s!"{s.name}: reset expected, {b}->{a}")
        else if need > b then some s!"{s.name}: needs {need} has {b}"
        else if a = b + dn ∨ (ef.canThrow ∧ a = b + dt) then none
        else some s!"{s.name}: {b}->{a} (outcome {thrown}) predicted {b + dn}{if ef.canThrow then s!" or {b + dt}" else ""}")
      -- pointer stacks: observed is null / non-null (0/1); the model counts sets
      let pprobs := (List.range 5).filterMap (fun i =>
        let s := pointers.getD i .E
        let ef := effect cb s
        let b := before.getD (4 + i) 0
        let a := after.getD (4 + i) 0
        -- (a dereference of a null pointer does not return: it shows up as a died op, not here)
        if ef.reset ∧ ef.bump then none
        else if ef.reset then (if a = 0 then none else some s!"{s.name}: reset expected, still set")
        else if ef.d0 > 0 then (if a = 1 ∨ (ef.canThrow ∧ a = b) then none else some s!"{s.name}: set expected, {b}->{a}")
        else if a = b then none else some s!"{s.name}: {b}->{a} but the table has no set/reset")
      -- the virtual stacks of `types`: n is the value of the static counter at the call
      let vprobs :=
        if cb.name == "type_array_of_type" then
          (if n < 1 then ["types: needs 1 has 0"] else []) ++
          (if before.getD 1 0 - n < 1 then [s!"typeBase: needs 1 has {before.getD 1 0 - n}"] else [])
        else if cb.name == "type_array_of_size" then
          (if before.getD 1 0 - n < 1 then [s!"typeBase: needs 1 has {before.getD 1 0 - n}"] else [])
        else []
      match probs ++ pprobs ++ vprobs with
      | [] => "ok"
      | l => "MISMATCH " ++ name ++ " " ++ String.intercalate "; " l
    | none, _ => "UNKNOWN-CALLBACK " ++ name
    | _, _ => "bad-op"
  | [] => "bad-op"

/-- `Q <callback> <n> <outcome> F Q F' Q'`: a call of the real TigaPropertyBuilder (forwarding tracer) -/
def checkQ (ws : List String) : String :=
  match ws with
  | name :: rest =>
    match CB.ofName? name, rest.mapM String.toInt? with
    | some cb, some [n, thrown, f0, q0, f1, q1] =>
      let one (s : Stack) (b a : Int) : Option String :=
        let ef := effect cb s
        let need : Int := ((ef.need0 + ef.needN * n.toNat : Nat) : Int)
        let dn := ef.d0 + ef.dN * n
        let dt := ef.t0 + ef.tN * n
        if need > b then some s!"{s.name}: needs {need} has {b}"
        else if a = b + dn ∨ (ef.canThrow ∧ a = b + dt) then none
        else some s!"{s.name}: {b}->{a} (outcome {thrown}) predicted {b + dn}{if ef.canThrow then s!" or {b + dt}" else ""}"
      match [one .F f0 f1, one .Q q0 q1].filterMap id with
      | [] => "ok"
      | l => "MISMATCH " ++ name ++ " " ++ String.intercalate "; " l
    | none, _ => "UNKNOWN-CALLBACK " ++ name
    | _, _ => "bad-op"
  | [] => "bad-op"

def stepLine (line : String) (out : IO.FS.Stream) : IO Unit := do
  let ws := (line.trimAscii.toString.splitOn " ").filter (· ≠ "")
  match ws with
  | ["exceptions"] => do
      for l in exceptionLines do out.putStrLn l
      out.putStrLn "END"
  | ["wf"] => do
      for l in wfLines do out.putStrLn l
      out.putStrLn "END"
  | "T" :: rest => out.putStrLn (checkTrace rest)
  | "Q" :: rest => out.putStrLn (checkQ rest)
  | _ => out.putStrLn "bad-op"

partial def loop (h : IO.FS.Stream) (out : IO.FS.Stream) : IO Unit := do
  let line ← h.getLine
  if line.isEmpty then return ()
  stepLine line out
  loop h out

def main : IO Unit := do
  let out ← IO.getStdout
  loop (← IO.getStdin) out
