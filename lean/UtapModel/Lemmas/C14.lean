/- Helper lemmas for Props/C14.lean and Props/C10.lean: finite quantification over `TK`, `type_t::is` on leaf kinds is
   a function of the terminal kind, symmetry of the regenerated recursive rules (by induction on the fuel). -/
import UtapModel.Lemmas.TypeBasics
namespace UtapModel.C14
open UtapModel.Types UtapModel.TypeClauses UtapModel.TypeBasics

set_option linter.unusedSimpArgs false


/-! ### `isSameScalarType` is symmetric (strong induction on the fuel)

`W t` is the wrapper test both operands are supposed to get: kind REF, CONSTANT or SYSTEM_META.  `body_W2` is where
the unfixed tree fails (it tests `EF` -- a kind no type node carries -- instead of `REF` for the second operand). -/
def W (t : Ty) : Bool := t.kind == .REF || t.kind == .CONSTANT || t.kind == .SYSTEM_META

theorem body_W1 (self) (t1 t2) (h : W t1 = true) : isSameScalarTypeBody self t1 t2 = self (t1.child 0) t2 := by
  simp only [W] at h
  simp only [isSameScalarTypeBody, h, if_true]

theorem body_W2 (self) (t1 t2) (h1 : W t1 = false) (h : W t2 = true) :
    isSameScalarTypeBody self t1 t2 = self t1 (t2.child 0) := by
  simp only [W] at h h1
  simp only [isSameScalarTypeBody, h, h1, if_true]
  simp

theorem body_W0 (self) (hs : ∀ x y, self x y = self y x) (t1 t2) (h1 : W t1 = false) (h2 : W t2 = false) :
    isSameScalarTypeBody self t1 t2 = isSameScalarTypeBody self t2 t1 := by
  simp only [W] at h1 h2
  simp only [isSameScalarTypeBody, h1, h2]
  simp only [hs (t2.child 0) (t1.child 0), Bool.and_comm (t2.kind == _), Bool.false_eq_true, if_false,
    BEq.comm (a := t2.getLabel 0), BEq.comm (a := (t2.getRange).1), BEq.comm (a := (t2.getRange).2)]

theorem sstF_symm : ∀ n, ∀ m, m ≤ n → ∀ t1 t2, isSameScalarTypeF m t1 t2 = isSameScalarTypeF m t2 t1 := by
  intro n
  induction n with
  | zero => intro m hm t1 t2; have : m = 0 := by omega
            subst this; rfl
  | succ n ih =>
    intro m hm t1 t2
    cases m with
    | zero => rfl
    | succ m =>
      have ihm := ih m (by omega)
      simp only [isSameScalarTypeF]
      cases h1 : W t1 <;> cases h2 : W t2
      · exact body_W0 _ (ihm) t1 t2 h1 h2
      · rw [body_W2 _ t1 t2 h1 h2, body_W1 _ t2 t1 h2]; exact ihm _ _
      · rw [body_W1 _ t1 t2 h1, body_W2 _ t2 t1 h2 h1]; exact ihm _ _
      · rw [body_W1 _ t1 t2 h1, body_W1 _ t2 t1 h2, ihm (t1.child 0) t2]
        cases m with
        | zero => rfl
        | succ k =>
          have ihk := ih k (by omega)
          simp only [isSameScalarTypeF]
          rw [body_W1 _ t2 _ h2]
          have := ihm (t2.child 0) t1
          simp only [isSameScalarTypeF] at this
          rw [this, body_W1 _ t1 _ h1]
          exact ihk _ _

theorem isSameScalarType_symm' (t1 t2 : Ty) : isSameScalarType t1 t2 = isSameScalarType t2 t1 := by
  simp only [isSameScalarType, Nat.add_comm t2.size]
  exact sstF_symm _ _ (Nat.le_refl _) t1 t2

/-! ### `areEquivalent` is symmetric -/
theorem areEquivalentBody_symm (self) (hs : ∀ x y, self x y = self y x) (a b : Ty) :
    areEquivalentBody self a b = areEquivalentBody self b a := by
  have hss := isSameScalarType_symm'
  simp only [areEquivalentBody]
  simp only [Bool.and_comm (ty_is_integer b), Bool.and_comm (ty_isBoolean b), Bool.and_comm (ty_is_clock b), Bool.and_comm (ty_is_channel b),
    Bool.and_comm (ty_is_record b), Bool.and_comm (ty_is_array b), Bool.and_comm (ty_is_scalar b), Bool.and_comm (ty_is_double b),
    Bool.and_comm (ty_is_string b), Bool.and_comm (ty_is_integer b.getArraySize), Bool.and_comm (ty_is_scalar b.getArraySize),
    hs (b.getSub) (a.getSub), hss b a, hss b.getArraySize a.getArraySize, hs (b.getSubI _) (a.getSubI _),
    BEq.comm (a := b.getRange.1), BEq.comm (a := b.getRange.2), BEq.comm (a := b.getArraySize.getRange.1), BEq.comm (a := b.getArraySize.getRange.2),
    BEq.comm (a := channelCapability b), BEq.comm (a := b.getRecordSize), bne_comm (a := b.getRecordLabel _),
    Bool.or_comm (!b.is TK.RANGE)]
  by_cases hsz : a.getRecordSize = b.getRecordSize
  · rw [hsz]
  · simp [hsz]

theorem areEquivalentF_symm : ∀ n a b, areEquivalentF n a b = areEquivalentF n b a := by
  intro n
  induction n with
  | zero => intro a b; rfl
  | succ n ih => intro a b; simp only [areEquivalentF]; exact areEquivalentBody_symm _ ih a b

theorem areEquivalent_symm' (a b : Ty) : areEquivalent a b = areEquivalent b a := by
  simp only [areEquivalent, Nat.add_comm b.size]
  exact areEquivalentF_symm _ a b

theorem areEqCompatible_symm' (a b : Ty) : areEqCompatible a b = areEqCompatible b a := by
  simp only [areEqCompatible, areEquivalent_symm' b a, Bool.and_comm (ty_is_integral b), Bool.and_comm (b.is _)]


/-! ### facts about `areEquivalent` used by the inline-if theorem -/
theorem areEquivalent_double_left (a : Ty) : areEquivalent (.prim .DOUBLE) a = (a.term == .DOUBLE) := by
  simp only [areEquivalent, Ty.size, Nat.add_comm 1, areEquivalentF, areEquivalentBody]
  unfold_type_preds
  simp (disch := decide) only [is_term, term_prim]
  simp
  generalize a.term = k; cases k <;> rfl

theorem areEquivalent_unknown_left (a : Ty) : areEquivalent Ty.unknown a = false := by
  simp only [areEquivalent, Ty.unknown, Ty.size, Nat.add_comm 1, areEquivalentF, areEquivalentBody]
  unfold_type_preds
  simp (disch := decide) only [is_term, term_prim]
  simp

theorem kind_unknown_term (a : Ty) (h : a.kind = .UNKNOWN) : a.term = .UNKNOWN := by
  cases a <;> simp_all [Ty.kind, Ty.term]
  rename_i p t; cases p <;> simp_all [Pfx.toTK]

/-- an inline-if whose result type has been chosen -/
def chk (T a b : Ty) : Option Ty := if (!(areInlineIfCompatible T a b)) then none else finish T false

theorem inlineIf_eq (c a b : Ty) :
    inlineIf c a b = if (!((h_is_integral c) || (h_is_guard c))) then none else chk (getInlineIfCommonType a b) a b := by
  rfl



def eqCls : TK → Bool
  | .INT | .BOOL | .CLOCK | .CHANNEL | .RECORD | .ARRAY | .SCALAR | .DOUBLE | .STRING => true
  | _ => false

def intK (k : TK) : Bool := ty_is_integral (.prim k)
/-- `areAssignmentCompatible x y false` as a function of the two terminal kinds and of `areEquivalent x y` -/
def acK (kx ky : TK) (e : Bool) : Bool :=
  ((kx == .CLOCK || kx == .DOUBLE) && (intK ky || ky == .DOUBLE || ky == .CLOCK)) || (intK kx && intK ky) || e

theorem AC_term (x y : Ty) : areAssignmentCompatible x y false = acK x.term y.term (areEquivalent x y) := by
  simp only [areAssignmentCompatible, acK, intK]
  unfold_type_preds
  simp (disch := decide) only [is_term, term_prim]
  generalize x.term = kx; generalize y.term = ky; generalize areEquivalent x y = e
  revert kx ky e; decide

theorem areEquivalentBody_term (self) (a b : Ty) (h : areEquivalentBody self a b = true) :
    a.term = b.term ∧ eqCls a.term = true := by
  simp only [areEquivalentBody] at h
  unfold_type_preds at h
  simp (disch := decide) only [is_term] at h
  repeat' split at h
  all_goals first
    | (exfalso; simp at h; done)
    | (simp_all [eqCls]; done)

theorem areEquivalent_term (a b : Ty) (h : areEquivalent a b = true) : a.term = b.term ∧ eqCls a.term = true := by
  unfold areEquivalent at h
  generalize a.size + b.size = n at h
  cases n with
  | zero => simp [areEquivalentF] at h
  | succ n => exact areEquivalentBody_term _ a b h

def obs (r : Option Ty) : Option TK := r.map Ty.term


/-- result-kind pairs on which the unchanged rules are NOT symmetric: two different integral kinds (the common type of
    an inline-if with two integral branches is the type of its *first* branch) -/
def kindExceptions : List (TK × TK) :=
  (TK.all.filter intK).flatMap fun k1 => ((TK.all.filter intK).filter (· != k1)).map fun k2 => (k1, k2)

def agree (x y : Option TK) : Bool :=
  x == y || (match x, y with
    | some k1, some k2 => kindExceptions.contains (k1, k2)
    | _, _ => false)

theorem obs_some (t : Ty) : obs (some t) = some t.term := rfl
theorem obs_none : obs none = none := rfl

theorem isUnknown_term (a : Ty) (h : a.isUnknown = true) : a.term = .UNKNOWN := by
  apply kind_unknown_term; simpa [Ty.isUnknown] using h

set_option maxRecDepth 100000 in
theorem iif_core (a b : Ty) :
    agree (obs (chk (getInlineIfCommonType a b) a b)) (obs (chk (getInlineIfCommonType b a) b a)) = true := by
  have hE : areEquivalent a b = true → a.term = b.term ∧ eqCls a.term = true := areEquivalent_term a b
  have hua := isUnknown_term a
  have hub := isUnknown_term b
  simp only [getInlineIfCommonType, apply_ite (fun T => chk T a b), apply_ite (fun T => chk T b a)]
  simp only [chk, areInlineIfCompatible, AC_term, finish, areEquivalent_symm' b a,
    areEquivalent_double_left, areEquivalent_unknown_left, ty_is_record, ty_is_clock]
  simp (disch := decide) only [is_term, term_prim]
  simp only [apply_ite obs, obs_some, obs_none, term_prim]
  have hd : (Ty.prim TK.DOUBLE).isUnknown = false := rfl
  have hu : Ty.unknown.isUnknown = true := rfl
  have hut : Ty.unknown.term = .UNKNOWN := rfl
  rw [hd, hu, hut]
  generalize a.term = ka at *
  generalize b.term = kb at *
  generalize areEquivalent a b = eab at *
  generalize areEquivalent a a = eaa at *
  generalize areEquivalent b b = ebb at *
  generalize a.isUnknown = ua at *
  generalize b.isUnknown = ub at *
  revert ka kb eab eaa ebb ua ub
  decide +kernel

/-! ### binary operators: outside EQ / NEQ the verdict depends on the terminal kinds only -/
theorem typeBin_prims (op : BinOp) (h : op ≠ .EQ ∧ op ≠ .NEQ) (a b : Ty) :
    typeBin op a b = typeBin op (.prim a.term) (.prim b.term) := by
  cases op <;> first
    | (exfalso; simp at h; done)
    | (unfold_type_cases; unfold_type_preds; simp (disch := decide) only [is_term, term_prim])

theorem typeUn_prims (op : UnOp) (a : Ty) : typeUn op a = typeUn op (.prim a.term) := by
  cases op <;> (unfold_type_cases; unfold_type_preds; simp (disch := decide) only [is_term, term_prim])

theorem typeQuant_prims (op : QOp) (a : Ty) : typeQuant op a = typeQuant op (.prim a.term) := by
  cases op <;> (unfold_type_cases; unfold_type_preds; simp (disch := decide) only [is_term, term_prim])

theorem typeBin_EQ_symm (a b : Ty) : typeBin .EQ a b = typeBin .EQ b a := by
  unfold_type_cases; unfold_type_preds
  simp (disch := decide) only [is_term, areEqCompatible_symm' b a]
  generalize a.term = ka; generalize b.term = kb; generalize areEqCompatible a b = e
  revert ka kb e; decide

theorem typeBin_NEQ_symm (a b : Ty) : typeBin .NEQ a b = typeBin .NEQ b a := by
  unfold_type_cases; unfold_type_preds
  simp (disch := decide) only [is_term, areEqCompatible_symm' b a]
  generalize a.term = ka; generalize b.term = kb; generalize areEqCompatible a b = e
  revert ka kb e; decide

end UtapModel.C14
