/- stub: line-protocol driver for C14 (to be written) -/
def main : IO Unit := pure ()
