/- Line-protocol driver of the C09 models (lexer model over the generated tables, operator-trace model).
   One op per input line, one canonical line out.  Payloads are hex encoded.
     lex <mask> <types|-> <hex>      lexemes of the text:  start:end:rule:tokens  separated by ' '
     toks <mask> <types|-> <hex>     token stream only
     hyp <mask> <types|-> <hex>      does the text satisfy the hypotheses of `C09.lex_render` (Renderable)?
     pratt <mask> <types|-> <hex>    callback trace of the small precedence-climbing parser the parenthesis theorem is about
     trace <mask> <types|-> <hex>    callback trace of the operator-precedence model on the token stream (or `unsupported`)
-/
import UtapModel.Model.C09Lex
import UtapModel.Model.C09Ops
import UtapModel.Model.C09Render
import UtapModel.Model.C09GenTbl
import UtapModel.Gen.C09Tables
open UtapModel.C09

def hexVal (c : Char) : Nat :=
  if '0' ≤ c ∧ c ≤ '9' then c.toNat - 48 else if 'a' ≤ c ∧ c ≤ 'f' then c.toNat - 87 else if 'A' ≤ c ∧ c ≤ 'F' then c.toNat - 55 else 0

def unhex : List Char → List Nat
  | a :: b :: r => (hexVal a * 16 + hexVal b) :: unhex r
  | _ => []

def showChs (s : List Ch) : String := String.ofList (s.map Char.ofNat)

def hexOf (s : List Ch) : String :=
  let d (n : Nat) : Char := if n < 10 then Char.ofNat (48 + n) else Char.ofNat (87 + n)
  String.ofList (s.flatMap fun c => [d (c / 16), d (c % 16)])

def tokName (t : TokId) : String := (Gen.tokNames[t]?).getD "?"

def showTok : Tok → String
  | .lit t => tokName t
  | .id s => "T_ID=" ++ hexOf s
  | .typename s => "T_TYPENAME=" ++ hexOf s
  | .nat n => "T_NAT=" ++ toString n
  | .posNegMax => "T_POS_NEG_MAX"
  | .overflow => "ERR_OVERFLOW"
  | .float s => "T_FLOATING=" ++ hexOf s
  | .str s => "T_CHARARR=" ++ hexOf s
  | .unknown => "ERR_UNKNOWN"
  | .newline => "NL"
  | .tooLong => "ERR_TOOLONG"
  | .commentNotClosed => "ERR_COMMENT"
  | .expect s => "EXPECT=" ++ hexOf s

def mkCfg (mask : Nat) (types : List (List Ch)) : Cfg :=
  { rules := Gen.rules, kws := Gen.keywordTable, maxLen := Gen.maxLen, mask := mask,
    bitOld := Gen.bitOLD, bitProperty := Gen.bitPROPERTY, bitProb := Gen.bitPROB,
    tConst := Gen.T_CONST, tOldConst := Gen.T_OLDCONST,
    isType := fun _ w => types.contains w, softLits := Gen.softLits, expectStops := Gen.expectStopsBeforeClose }

def parseTypes (s : String) : List (List Ch) :=
  if s == "-" then [] else (s.splitOn ",").map (fun x => x.toList.map Char.toNat)

/-- the text as a leading separator and items (lexeme + following trivia), following the lexer's own segmentation;
    `none` when the text contains something the theorem does not speak about (CRLF newlines, EXPECT comments,
    an unterminated comment) -/
partial def decomposeGo (cfg : Cfg) (s : List Ch) (sep0 : List Triv) (items : List Item) : Option (List Triv × List Item) :=
  let addTriv (t : Triv) : List Triv × List Item :=
    match items with
    | [] => (sep0 ++ [t], [])
    | it :: rest => (sep0, { it with sep := it.sep ++ [t] } :: rest)     -- items are kept in reverse order
  match s with
  | [] => some (sep0, items.reverse)
  | _ :: _ =>
    match best cfg.rules s with
    | none => none
    | some (r, len) =>
      let w := s.take len
      let rest := s.drop len
      match r with
      | .blanks => match w with
        | c :: b => let (a, b') := addTriv (.blanks c b); decomposeGo cfg rest a b'
        | [] => none
      | .newlines => let (a, b') := addTriv (.newlines w.tail); decomposeGo cfg rest a b'
      | .lineComment => let (a, b') := addTriv (.line (w.drop 2)); decomposeGo cfg rest a b'
      | .cont => let (a, b') := addTriv (.cont ((w.drop 1).dropLast)); decomposeGo cfg rest a b'
      | .crlf => none
      | .commentOpen =>
        -- the body up to the first "*/" as the <comment> state sees it
        let rec scan (body : List Ch) (t : List Ch) (fuel : Nat) : Option (List Ch × List Ch) :=
          match fuel with
          | 0 => none
          | fuel + 1 =>
            match commentStep cfg.expectStops t with
            | .eof => none
            | .expect _ => none
            | .close => some (body.reverse, t.drop 2)
            | .skip => match t with
              | c :: t' => scan (c :: body) t' fuel
              | [] => none
        match scan [] rest (rest.length + 1) with
        | some (body, rest') => let (a, b') := addTriv (.block body); decomposeGo cfg rest' a b'
        | none => none
      | _ => decomposeGo cfg rest sep0 ({ w := w, r := r, sep := [] } :: items)

def renderableText (cfg : Cfg) (s : List Ch) : String :=
  match decomposeGo cfg s [] [] with
  | none => "no:shape"
  | some (sep0, items) =>
    if sepText sep0 ++ renderItems items != s then "no:render"
    else if !(sepOK sep0 (renderItems items)) then "no:sep0"
    else if Renderable cfg items then "yes:" ++ toString items.length
    else
      -- name the first lexeme whose hypothesis fails
      let rec first (its : List Item) : String :=
        match its with
        | [] => "?"
        | it :: rest =>
          let after := sepText it.sep ++ renderItems rest
          if !(best cfg.rules it.w == some (it.r, it.w.length)) then "alone:" ++ hexOf it.w
          else if !(Closed cfg.rules it.w after) then "closed:" ++ hexOf it.w ++ ":" ++ hexOf (after.take 1)
          else if !(sepOK it.sep (renderItems rest)) then "sep:" ++ hexOf it.w
          else first rest
      "no:" ++ first items

def stepLine (line : String) : String :=
  let ws := (line.trimAscii.toString.splitOn " ").filter (· ≠ "")
  match ws with
  | [op, mask, types, hex] =>
    let cfg := mkCfg mask.toNat! (parseTypes types)
    let s := unhex hex.toList
    if op == "lex" then
      let ls := lexemesGo cfg (s.length + 1) false 0 0 s
      " ".intercalate (ls.map fun (a, b, r, ts) => s!"{a}:{b}:{r}:" ++ ",".intercalate (ts.map showTok))
    else if op == "toks" then
      " ".intercalate ((lex cfg s).map showTok)
    else if op == "hyp" then renderableText cfg s
    else if op == "pratt" then
      match prattTrace (lex cfg s) with
      | some tr => " ".intercalate tr
      | none => "unsupported"
    else if op == "trace" then
      match opsTraceT genTables (lex cfg s) with
      | some tr => " ".intercalate tr
      | none => "unsupported"
    else "bad-op"
  | _ => "bad-op"

partial def loop (h : IO.FS.Stream) (out : IO.FS.Stream) : IO Unit := do
  let line ← h.getLine
  if line.isEmpty then return ()
  out.putStrLn (stepLine line)
  loop h out

def main : IO Unit := do
  let out ← IO.getStdout
  loop (← IO.getStdin) out
