// C10 harness: formulas placed as location invariants and edge guards of real XML models, through the public entry
// points parse_XML_file / parse_XML_buffer / parse_XML_fd (XML reader -> parser -> DocumentBuilder -> TypeChecker).
// The three entry points set up their libxml2 readers separately, so each of them is a way the same label text reaches
// (or fails to reach) the type checker.
//   c10            one model per stdin line: `<path>` (= file) or `<file|buffer|fd> <path>`; for every model a block
//     BEGIN <path> rc=<rc>
//     L <index> inv=<type of location.invariant after checking>
//     E <index> guard=<type of edge.guard after checking>
//     ERROR "<msg>" path="<xpath>" <line:col>-<line:col>          (canonical diagnostics, common.hpp)
//     WARNING ...
//     END
#include "common.hpp"

#include <fcntl.h>
#include <fstream>
#include <sstream>
#include <unistd.h>

using namespace vh;

int main()
{
    std::ios::sync_with_stdio(false);
    std::string line;
    while (std::getline(std::cin, line)) {
        if (line.empty()) continue;
        std::string entry = "file", path = line;
        if (auto sp = line.find(' '); sp != std::string::npos) {
            entry = line.substr(0, sp);
            path = line.substr(sp + 1);
        }
        Document doc;
        int rc = -99;
        std::string exc;
        try {
            if (entry == "buffer") {
                std::ifstream in(path, std::ios::binary);
                std::stringstream ss;
                ss << in.rdbuf();
                rc = in ? parse_XML_buffer(ss.str().c_str(), &doc, true) : -98;
            } else if (entry == "fd") {
                int fd = open(path.c_str(), O_RDONLY);
                rc = fd >= 0 ? parse_XML_fd(fd, &doc, true) : -98;
                if (fd >= 0) close(fd);
            } else if (entry == "file") {
                rc = parse_XML_file(path.c_str(), &doc, true);
            } else {
                rc = -97;  // unknown entry point: the check treats any rc != 0 as a protocol failure
            }
        } catch (std::exception& ex) {
            exc = ex.what();
        }
        std::cout << "BEGIN " << path << " rc=" << rc << "\n";
        if (!exc.empty()) std::cout << "EXCEPTION " << quote(exc) << "\n";
        // the template called P carries the formulas; it is an ordinary or a dynamic template
        auto dump = [](template_t& t) {
            for (auto& l : t.locations) std::cout << "L " << l.nr << " inv=" << tsexp(l.invariant.empty() ? type_t() : l.invariant.get_type()) << "\n";
            for (auto& e : t.edges) std::cout << "E " << e.nr << " guard=" << tsexp(e.guard.empty() ? type_t() : e.guard.get_type()) << "\n";
        };
        bool found = false;
        for (auto& t : doc.get_templates())
            if (!found && t.uid.get_name() == "P") { dump(t); found = true; }
        if (!found)
            for (auto* t : doc.get_dynamic_templates())
                if (!found && t->uid.get_name() == "P") { dump(*t); found = true; }
        dumpDiags(std::cout, doc);
        std::cout << "END" << std::endl;
    }
    return 0;
}
