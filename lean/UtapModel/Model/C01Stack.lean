/- C01, stack discipline: data types, the executable local check (`lbProd`) and the trace semantics.
   Core Lean only.  One *stack* at a time: a height `h : Int`, events that need a number of entries and change the
   height.  The six stacks of the builder model are independent instances (see `Stack`).

   Stacks:  F fragments, T typeFragments, R frames, S fields/labels (struct fields under construction),
            C the static counter `types` of parser.y, P = |typeFragments| - types (the slot `type_array_of_type`
            rewrites is at absolute index P-1), Q the `properties` list of PropertyBuilder,
            E M U G L the pointers currentEdge / currentTemplate / currentFun / currentGantt / currentInstanceLine. -/
namespace UtapModel.C01

inductive Stack where
  | F | T | R | S | P | C | Q | E | M | U | G | L
  deriving DecidableEq, Repr

def Stack.all : List Stack := [.F, .T, .R, .S, .P, .C, .Q, .E, .M, .U, .G, .L]
def Stack.idx : Stack → Nat
  | .F => 0 | .T => 1 | .R => 2 | .S => 3 | .P => 4 | .C => 5 | .Q => 6
  | .E => 7 | .M => 8 | .U => 9 | .G => 10 | .L => 11
def Stack.name : Stack → String
  | .F => "fragments" | .T => "typeFragments" | .R => "frames" | .S => "fields" | .P => "typeBase" | .C => "types"
  | .Q => "properties" | .E => "currentEdge" | .M => "currentTemplate" | .U => "currentFun" | .G => "currentGantt"
  | .L => "currentInstanceLine"

/-- the "current object" pointers, modelled as counters: `≥ 1` iff the pointer is non-null (a set is a push, a
    `= nullptr` is a reset; nothing ever pops one) -/
def Stack.isPtr : Stack → Bool
  | .E | .M | .U | .G | .L => true
  | _ => false

/-! ### linear forms over the attribute values of a production's symbols -/

/-- `c + Σ v[i] * vals[i]` -/
structure Lin where
  c : Int
  v : List Int
  deriving DecidableEq, Repr

def dot : List Int → List Nat → Int
  | [], _ => 0
  | _ :: _, [] => 0
  | a :: as, e :: es => a * (e : Int) + dot as es

def addV : List Int → List Int → List Int
  | [], b => b
  | a, [] => a
  | x :: a, y :: b => (x + y) :: addV a b

def Lin.eval (l : Lin) (vals : List Nat) : Int := l.c + dot l.v vals
def Lin.zero : Lin := ⟨0, []⟩
def Lin.const (c : Int) : Lin := ⟨c, []⟩
def Lin.add (a b : Lin) : Lin := ⟨a.c + b.c, addV a.v b.v⟩
def Lin.scale (k : Int) (a : Lin) : Lin := ⟨k * a.c, a.v.map (k * ·)⟩
def Lin.sub (a b : Lin) : Lin := a.add (b.scale (-1))
def Lin.unit (pos : Nat) (k : Int) : Lin := ⟨0, List.replicate pos 0 ++ [k]⟩
def Lin.nonneg (a : Lin) : Bool := decide (0 ≤ a.c) && a.v.all (fun x => decide (0 ≤ x))
def Lin.isZero (a : Lin) : Bool := decide (a.c = 0) && a.v.all (fun x => decide (x = 0))

/-! ### grammar -/

inductive CArg where
  | none                -- the callback takes no operand count
  | cnt (l : Lin)       -- a literal or a count attribute `$k`  (value = `l.eval vals`, a natural number)
  | types               -- the current value of the static counter `types` (the effect must not depend on it)
  deriving DecidableEq, Repr

structure Call (CB : Type) where
  cb : CB
  arg : CArg
  deriving DecidableEq, Repr

inductive Item (CB NT : Type) where
  | tok                          -- a terminal
  | free                         -- an already recognised symbol of an abandoned production (its attribute is arbitrary)
  | act (cs : List (Call CB))    -- one action block (mid-rule or final); occupies a `$k` position
  | nt (n : NT)                  -- a nonterminal, completely derived
  | pnt (n : NT)                 -- a possibly abandoned run of `n` (bison `error`, or a parse call that may abort)
  deriving Repr

structure Prod (CB NT : Type) where
  id : Nat
  lhs : NT
  items : List (Item CB NT)
  attr : Lin                     -- `$$` as a form over the symbols' attributes
  deriving Repr

/-- effect of a callback on one stack: `need = need0 + needN*n` entries must be present; the height changes by
    `d0 + dN*n` on normal return and by `t0 + tN*n` when the callback throws a TypeException (caught by CALL). -/
structure Eff where
  need0 : Nat
  needN : Nat
  d0 : Int
  dN : Int
  t0 : Int
  tN : Int
  canThrow : Bool
  reset : Bool       -- the height becomes 0 (`types = 0`)
  bump : Bool        -- the height grows by an unknown amount (P when `types` is reset)
  deriving DecidableEq, Repr

def nop : Eff := ⟨0, 0, 0, 0, 0, 0, false, false, false⟩
/-- reads `need` deep, removes `pops` (≤ need), then pushes `pushes` -/
def e (need pops pushes : Nat) : Eff :=
  ⟨need, 0, (pushes : Int) - pops, 0, (pushes : Int) - pops, 0, false, false, false⟩
/-- same, with the alternative outcome (TypeException caught by CALL, or a guarded early return) -/
def eT (need pops pushes tpops tpushes : Nat) : Eff :=
  ⟨need, 0, (pushes : Int) - pops, 0, (tpushes : Int) - tpops, 0, true, false, false⟩
/-- count-dependent: needs `need0 + needN*n`, removes `pops0 + popsN*n`, pushes `pushes` -/
def eN (need0 needN pops0 popsN pushes : Nat) : Eff :=
  ⟨need0, needN, (pushes : Int) - pops0, -(popsN : Int), (pushes : Int) - pops0, -(popsN : Int), false, false, false⟩
def eNT (need0 needN pops0 popsN pushes tpops0 tpopsN tpushes : Nat) : Eff :=
  ⟨need0, needN, (pushes : Int) - pops0, -(popsN : Int), (tpushes : Int) - tpops0, -(tpopsN : Int), true, false, false⟩
def reset : Eff := ⟨0, 0, 0, 0, 0, 0, false, true, false⟩
def bump : Eff := ⟨0, 0, 0, 0, 0, 0, false, false, true⟩

/-- a callback never removes more than it is entitled to touch -/
def Eff.wf (e : Eff) : Bool :=
  decide (-e.d0 ≤ (e.need0 : Int)) && decide (-e.dN ≤ (e.needN : Int)) &&
  decide (-e.t0 ≤ (e.need0 : Int)) && decide (-e.tN ≤ (e.needN : Int))

/-- a row of the effect table: the stacks a callback touches (all others: `nop`) -/
def row (l : List (Stack × Eff)) (s : Stack) : Eff :=
  match l.find? (fun x => x.1 == s) with
  | some x => x.2
  | none => nop

/-- signature of a nonterminal on one stack: it may *access* `need` entries below its entry height; at symbol
    boundaries its height never goes more than `dip ≤ need` below the entry height; on exit the height is at least
    `entry + c0 + c1*attr` (`lo = some (c0,c1)`), or nothing is known but `≥ 0` (`lo = none`: the stack may be reset). -/
structure Sig where
  need : Nat
  dip : Nat
  lo : Option (Int × Int)
  deriving DecidableEq, Repr

structure SigRow where
  l : List Sig

def SigRow.get (r : SigRow) (s : Stack) : Sig := r.l.getD s.idx ⟨0, 0, some (0, 0)⟩

/-! ### the local check -/

/-- abstract height: `rel f` = at least `entry + f(vals)`; `abs a` = at least `a` (all that is known after a reset). -/
inductive AState where
  | rel (f : Lin)
  | abs (a : Nat)
  deriving Repr

section check
variable {CB NT : Type}
variable (sig : NT → Sig) (eff : CB → Eff)

def argLin : CArg → Lin
  | .none => Lin.zero
  | .cnt l => l
  | .types => Lin.zero

def argOk (e : Eff) : CArg → Bool
  | .types => decide (e.needN = 0) && decide (e.dN = 0) && decide (e.tN = 0)
  | .cnt l => l.nonneg
  | .none => true

def okState (dipA : Nat) (loA : Option (Int × Int)) : AState → Bool
  | .rel f => (f.add (Lin.const dipA)).nonneg
  | .abs _ => loA.isNone

def stepCall (needA : Nat) (st : AState) (c : Call CB) : Option AState :=
  let e := eff c.cb
  if !argOk e c.arg then none else
  let n := argLin c.arg
  let need := (Lin.const e.need0).add (n.scale e.needN)
  let dn := (Lin.const e.d0).add (n.scale e.dN)
  let dt := (Lin.const e.t0).add (n.scale e.tN)
  match st with
  | .abs a =>
    -- only count-independent callbacks are followed after a reset
    if !(decide (e.needN = 0) && decide (e.dN = 0) && decide (e.tN = 0) && decide (e.need0 ≤ a)) then none
    else if e.reset then some (.abs 0)
    else if e.bump then some (.abs a)
    else some (.abs ((a : Int) + (if e.canThrow then min e.d0 e.t0 else e.d0)).toNat)
  | .rel f =>
    if !((f.add (Lin.const needA)).sub need).nonneg then none
    else if e.reset then some (.abs 0)
    else if e.bump then some (.rel f)
    else if !e.canThrow then some (.rel (f.add dn))
    else if (dn.sub dt).nonneg then some (.rel (f.add dt))
    else if (dt.sub dn).nonneg then some (.rel (f.add dn))
    else none

def stepCalls (needA : Nat) : List (Call CB) → AState → Option AState
  | [], st => some st
  | c :: cs, st => (stepCall eff needA st c).bind (stepCalls needA cs)

def stepItem (needA dipA : Nat) (pos : Nat) (st : AState) : Item CB NT → Option AState
  | .tok => some st
  | .free => some st
  | .act cs => stepCalls eff needA cs st
  | .nt B =>
    let s := sig B
    match st with
    | .abs a =>
      if !decide (s.need ≤ a) then none
      else match s.lo with
        | none => some (.abs 0)
        | some (c0, c1) => if 0 ≤ c1 then some (.abs ((a : Int) + c0).toNat) else some (.abs 0)
    | .rel f =>
      if !(((f.add (Lin.const needA)).sub (Lin.const s.need)).nonneg &&
           ((f.add (Lin.const dipA)).sub (Lin.const s.dip)).nonneg) then none
      else match s.lo with
        | none => some (.abs 0)
        | some (c0, c1) => some (.rel ((f.add (Lin.const c0)).add (Lin.unit pos c1)))
  | .pnt B =>
    let s := sig B
    match st with
    | .abs a =>
      if !decide (s.need ≤ a) then none
      else match s.lo with
        | none => some (.abs 0)
        | some _ => some (.abs (a - s.dip))
    | .rel f =>
      if !(((f.add (Lin.const needA)).sub (Lin.const s.need)).nonneg &&
           ((f.add (Lin.const dipA)).sub (Lin.const s.dip)).nonneg) then none
      else match s.lo with
        | none => some (.abs 0)
        | some _ => some (.rel (f.sub (Lin.const s.dip)))

def checkItems (needA dipA : Nat) (loA : Option (Int × Int)) : Nat → List (Item CB NT) → AState → Option AState
  | _, [], st => if okState dipA loA st then some st else none
  | pos, it :: rest, st =>
    if okState dipA loA st then (stepItem sig eff needA dipA pos st it).bind (checkItems needA dipA loA (pos + 1) rest) else none

def finalOk (loA : Option (Int × Int)) (attr : Lin) : AState → Bool
  | .abs _ => loA.isNone
  | .rel f => match loA with
    | none => true
    | some (c0, c1) => ((f.sub (Lin.const c0)).sub (attr.scale c1)).nonneg

/-- the decidable obligation of one production on one stack -/
def lbProd (p : Prod CB NT) : Bool :=
  let s := sig p.lhs
  p.attr.nonneg && decide (s.dip ≤ s.need) &&
  match checkItems sig eff s.need s.dip s.lo 0 p.items (.rel Lin.zero) with
  | none => false
  | some st => finalOk s.lo p.attr st

end check

/-! ### concrete semantics: traces of callback instances and their effect on a height -/

structure CallInst (CB : Type) where
  cb : CB
  n : Nat          -- value of the count argument
  thrown : Bool    -- the callback threw a TypeException (caught by CALL)
  aux : Nat        -- amount by which a `bump` raises the height
  deriving Repr

def stepH {CB : Type} (eff : CB → Eff) (h : Int) (ci : CallInst CB) : Option Int :=
  let e := eff ci.cb
  if ((e.need0 + e.needN * ci.n : Nat) : Int) ≤ h then
    some (if e.reset then 0
          else if e.bump then h + ci.aux
          else if e.canThrow && ci.thrown then h + (e.t0 + e.tN * ci.n) else h + (e.d0 + e.dN * ci.n))
  else none

/-- run a trace from height `h`; `none` = some callback needed more entries than were there -/
def runH {CB : Type} (eff : CB → Eff) : Int → List (CallInst CB) → Option Int
  | h, [] => some h
  | h, ci :: tr => (stepH eff h ci).bind (fun h' => runH eff h' tr)

/-- which instances a call site can produce under the attribute assignment `vals` -/
def Call.admits {CB : Type} (c : Call CB) (vals : List Nat) (ci : CallInst CB) : Prop :=
  ci.cb = c.cb ∧
  match c.arg with
  | .none => ci.n = 0
  | .cnt l => (ci.n : Int) = l.eval vals
  | .types => True

inductive CallsAdmit {CB : Type} (vals : List Nat) : List (Call CB) → List (CallInst CB) → Prop
  | nil : CallsAdmit vals [] []
  | cons {c cs ci cis} : c.admits vals ci → CallsAdmit vals cs cis → CallsAdmit vals (c :: cs) (ci :: cis)

/-- `Run G part vals pos items tr`: the symbols `items` (starting at `$`-position `pos` of a production whose symbols
    carry the attribute values `vals`) emit the callback trace `tr`.  `part = true` allows the run to be abandoned at
    any symbol boundary (bison error recovery pops the production; a parse call aborts).  A nonterminal is expanded by
    any production of the table (a superset of what the LALR automaton accepts). -/
inductive Run {CB NT : Type} (G : List (Prod CB NT)) : Bool → List Nat → Nat → List (Item CB NT) → List (CallInst CB) → Prop
  | nil {b vals pos} : Run G b vals pos [] []
  | stop {vals pos items} : Run G true vals pos items []
  | tok {b vals pos rest tr} : Run G b vals (pos + 1) rest tr → Run G b vals pos (.tok :: rest) tr
  | free {b vals pos rest tr} : Run G b vals (pos + 1) rest tr → Run G b vals pos (.free :: rest) tr
  | act {b vals pos cs cis rest tr} : CallsAdmit vals cs cis → Run G b vals (pos + 1) rest tr →
      Run G b vals pos (.act cs :: rest) (cis ++ tr)
  | nt {b vals pos rest tr1 tr2} (p : Prod CB NT) (vals' : List Nat) :
      p ∈ G → Run G false vals' 0 p.items tr1 → ((vals.getD pos 0 : Nat) : Int) = p.attr.eval vals' →
      Run G b vals (pos + 1) rest tr2 → Run G b vals pos (.nt p.lhs :: rest) (tr1 ++ tr2)
  | ntPart {vals pos rest tr} (p : Prod CB NT) (vals' : List Nat) :
      p ∈ G → Run G true vals' 0 p.items tr → Run G true vals pos (.nt p.lhs :: rest) tr
  | pnt {b vals pos rest tr1 tr2} (p : Prod CB NT) (vals' : List Nat) :
      p ∈ G → Run G true vals' 0 p.items tr1 →
      Run G b vals (pos + 1) rest tr2 → Run G b vals pos (.pnt p.lhs :: rest) (tr1 ++ tr2)

/-- a (complete if `part = false`, possibly abandoned if `part = true`) run of nonterminal `B` with attribute `v` -/
def RunNT {CB NT : Type} (G : List (Prod CB NT)) (part : Bool) (B : NT) (v : Nat) (tr : List (CallInst CB)) : Prop :=
  ∃ p ∈ G, p.lhs = B ∧ ∃ vals, Run G part vals 0 p.items tr ∧ (v : Int) = p.attr.eval vals

end UtapModel.C01
