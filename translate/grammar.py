#!/usr/bin/env python3
"""Translator (tie T of C01): /repo/src/parser.y  ->  lean/UtapModel/Gen/Grammar.lean

Reads EVERY production of parser.y with its ordered action code (mid-rule actions kept in place), classifies every
statement of every action (CALL(...), `$$ = ...`, strncpy/strcpy, the static `types` counter) and fails closed on
anything else.  Runs `bison -x` on the same file and (a) cross-checks rule count / lhs / rhs symbol sequence against
its own reading, (b) extracts, for every automaton state that can shift `error`, the kernel items of that state: the
productions that may be *abandoned* when bison recovers there.  Each such site becomes a virtual nonterminal `Err_k`
whose productions are the suffixes (after the dot) of those kernel items.

Emitted (list-encoded, callbacks / nonterminals as generated enumerations):
   inductive CB, inductive NT, prods : List Prod, sigOf : NT -> SigRow (inferred hints; the Lean check does not trust
   them), cbName / CB.ofName?, prodNames.
"""
import os
import re
import subprocess
import sys
import tempfile
import xml.etree.ElementTree as ET


class TranslateError(Exception):
    pass


STACKS = ["F", "T", "R", "S", "P", "C", "Q", "E", "M", "U", "G", "L"]
# fragments, typeFragments, frames, fields, |T|-types, types, properties; pointers currentEdge/Template/Fun/Gantt/InstanceLine
POINTERS = {"E": "currentEdge", "M": "currentTemplate", "U": "currentFun", "G": "currentGantt", "L": "currentInstanceLine"}

# ---------------------------------------------------------------------------------------------------------------
# How callback arguments matter for the stack effect (everything else is names / kinds / positions):
#   count: index of the argument that is a *number of operands* (an attribute `$k`, a literal, or `types`)
#   flags: indices of literal arguments that select a variant of the callback (hasInvariant, hasER, ...)
#   ignore: indices of `$k` attribute arguments that do not influence any stack (checked by reading the C++)
# A `$k` argument referring to a <number>/<flag> nonterminal that is not listed here is an error (fail closed).
# ---------------------------------------------------------------------------------------------------------------
SPEC = {
    "expr_call_end": dict(count=0),
    "expr_spawn": dict(count=0),
    "expr_nary": dict(count=1),
    "expr_simulate": dict(count=0, flags=[1]),
    "decl_init_list": dict(count=0),
    "type_struct": dict(count=1),
    "instantiation_begin": dict(ignore=[1]),
    "instantiation_end": dict(count=3, ignore=[1]),
    "instance_name_end": dict(count=1),
    "decl_var": dict(count=1),
    "type_array_of_size": dict(count=0),
    "type_array_of_type": dict(count=0),
    "proc_location": dict(flags=[1, 2]),
    "decl_progress": dict(flags=[0]),
    "return_statement": dict(flags=[0]),
    "expr_optimize_exp": dict(flags=[1]),
    "instance_name": dict(flags=[1]),
}
NUM_TYPES = ("number", "flag")


# ---------------------------------------------------------------------------------------------------------------
# reading parser.y
# ---------------------------------------------------------------------------------------------------------------

def split_sections(src):
    # the two `%%` separators at line start
    idx = [m.start() for m in re.finditer(r"^%%\s*$", src, re.M)]
    if len(idx) < 2:
        raise TranslateError("parser.y: expected two %% separators")
    return src[:idx[0]], src[idx[0] + 2:idx[1]], src[idx[1] + 2:]


def lex_rules(text):
    """Tokens of the rules section: ('id',s) ('chr',s) ('punct',c) ('act',code) ('prec',sym)."""
    toks = []
    i, n = 0, len(text)
    while i < n:
        c = text[i]
        if c.isspace():
            i += 1
        elif text.startswith("/*", i):
            j = text.find("*/", i + 2)
            if j < 0:
                raise TranslateError("unterminated comment in rules")
            i = j + 2
        elif text.startswith("//", i):
            j = text.find("\n", i)
            i = n if j < 0 else j
        elif c == "{":
            depth, j = 0, i
            while j < n:
                d = text[j]
                if text.startswith("/*", j):
                    j = text.find("*/", j + 2) + 2
                    continue
                if text.startswith("//", j):
                    j = text.find("\n", j)
                    continue
                if d == '"':
                    j += 1
                    while text[j] != '"':
                        j += 2 if text[j] == "\\" else 1
                    j += 1
                    continue
                if d == "'":
                    j += 1
                    while text[j] != "'":
                        j += 2 if text[j] == "\\" else 1
                    j += 1
                    continue
                if d == "{":
                    depth += 1
                elif d == "}":
                    depth -= 1
                    if depth == 0:
                        break
                j += 1
            if depth != 0:
                raise TranslateError("unbalanced action braces")
            toks.append(("act", text[i + 1:j]))
            i = j + 1
        elif c == "'":
            j = i + 1
            while text[j] != "'":
                j += 2 if text[j] == "\\" else 1
            toks.append(("chr", text[i:j + 1]))
            i = j + 1
        elif c in ":|;":
            toks.append(("punct", c))
            i += 1
        elif c == "%":
            m = re.match(r"%prec\s+('(?:\\.|[^'])+'|[A-Za-z_][A-Za-z_0-9]*)", text[i:])
            if m:
                toks.append(("prec", m.group(1)))
                i += m.end()
                continue
            m = re.match(r"%empty\b", text[i:])
            if m:
                i += m.end()
                continue
            raise TranslateError("unknown %%-directive in rules near %r" % text[i:i + 30])
        else:
            m = re.match(r"[A-Za-z_][A-Za-z_0-9.]*", text[i:])
            if not m:
                raise TranslateError("unexpected character %r in rules near %r" % (c, text[i:i + 30]))
            toks.append(("id", m.group(0)))
            i += m.end()
    return toks


def parse_rules(toks):
    """-> list of (lhs, [elements]) ; element = ('sym', name) | ('act', code).  One entry per alternative, file order."""
    rules = []
    i, n = 0, len(toks)
    while i < n:
        if toks[i][0] != "id" or i + 1 >= n or toks[i + 1] != ("punct", ":"):
            raise TranslateError("expected `lhs :` at token %d: %r" % (i, toks[i:i + 3]))
        lhs = toks[i][1]
        i += 2
        alt = []
        while True:
            if i >= n:
                raise TranslateError("rule %s not terminated" % lhs)
            k, v = toks[i]
            if (k, v) == ("punct", "|"):
                rules.append((lhs, alt))
                alt = []
            elif (k, v) == ("punct", ";"):
                rules.append((lhs, alt))
                i += 1
                break
            elif k in ("id", "chr"):
                # a new rule may start without the optional ';' :  `id :`
                if k == "id" and i + 1 < n and toks[i + 1] == ("punct", ":"):
                    rules.append((lhs, alt))
                    break
                alt.append(("sym", v))
            elif k == "act":
                alt.append(("act", v))
            elif k == "prec":
                pass
            else:
                raise TranslateError("unexpected token %r in rule %s" % ((k, v), lhs))
            i += 1
    return rules


def split_args(s):
    out, depth, cur = [], 0, ""
    i = 0
    while i < len(s):
        c = s[i]
        if c in "([{":
            depth += 1
        elif c in ")]}":
            depth -= 1
        if c == '"':
            j = i + 1
            while s[j] != '"':
                j += 2 if s[j] == "\\" else 1
            cur += s[i:j + 1]
            i = j + 1
            continue
        if c == "'":
            j = i + 1
            while s[j] != "'":
                j += 2 if s[j] == "\\" else 1
            cur += s[i:j + 1]
            i = j + 1
            continue
        if c == "," and depth == 0:
            out.append(cur.strip())
            cur = ""
        else:
            cur += c
        i += 1
    if cur.strip():
        out.append(cur.strip())
    return out


def strip_comments(code):
    code = re.sub(r"/\*.*?\*/", " ", code, flags=re.S)
    code = re.sub(r"//[^\n]*", " ", code)
    return code


def split_statements(code):
    """top-level `;`-separated statements of an action"""
    out, depth, cur = [], 0, ""
    i = 0
    while i < len(code):
        c = code[i]
        if c in "([{":
            depth += 1
        elif c in ")]}":
            depth -= 1
        if c == '"':
            j = i + 1
            while code[j] != '"':
                j += 2 if code[j] == "\\" else 1
            cur += code[i:j + 1]
            i = j + 1
            continue
        if c == "'":
            j = i + 1
            while code[j] != "'":
                j += 2 if code[j] == "\\" else 1
            cur += code[i:j + 1]
            i = j + 1
            continue
        if c == ";" and depth == 0:
            if cur.strip():
                out.append(cur.strip())
            cur = ""
        else:
            cur += c
        i += 1
    if cur.strip():
        out.append(cur.strip())
    return out


class Act:
    """classified action: calls = [(variant_name, argspec)], attr = linear form or None"""

    def __init__(self):
        self.calls = []   # (name, arg) ; arg = None | ('lin', const, {pos:coef}) | ('types',)
        self.attr = None  # ('lin', const, {pos: coef})
        self.raw_calls = []


def parse_value_expr(e, where):
    """`$$ = e` for a <number>/<flag> nonterminal:  sums of integer literals, true/false and $k"""
    e = e.replace(" ", "")
    const, coefs = 0, {}
    for term in e.split("+"):
        if re.fullmatch(r"\d+", term):
            const += int(term)
        elif term == "true":
            const += 1
        elif term == "false":
            const += 0
        elif re.fullmatch(r"\$\d+", term):
            k = int(term[1:]) - 1
            coefs[k] = coefs.get(k, 0) + 1
        else:
            raise TranslateError("%s: cannot classify attribute expression %r" % (where, e))
    return ("lin", const, coefs)


def classify_action(code, where, lhs_type, sym_types, stats):
    a = Act()
    for st in split_statements(strip_comments(code)):
        m = re.fullmatch(r"CALL\s*\(\s*@(\d+)\s*,\s*@(\d+)\s*,\s*([A-Za-z_][A-Za-z_0-9]*)\s*\((.*)\)\s*\)", st, re.S)
        if m:
            name = m.group(3)
            args = split_args(m.group(4))
            spec = SPEC.get(name, {})
            variant = name
            for fi in spec.get("flags", []):
                if fi < len(args):
                    v = args[fi].split("::")[-1]
                    if not re.fullmatch(r"[A-Za-z_][A-Za-z_0-9]*", v):
                        raise TranslateError("%s: flag argument %r of %s is not a literal" % (where, args[fi], name))
                    variant += "_" + v
                else:
                    variant += "_dflt"
            arg = None
            for ai, av in enumerate(args):
                refs = re.findall(r"\$(\d+)", av)
                attr_refs = [int(r) - 1 for r in refs if sym_types.get(int(r) - 1) in NUM_TYPES]
                is_count = spec.get("count") == ai
                if "types" in re.findall(r"[A-Za-z_]+", av):
                    if not is_count or av.replace(" ", "") not in ("types", "types--"):
                        raise TranslateError("%s: `types` used in unclassifiable argument %r of %s" % (where, av, name))
                    arg = ("types",)
                    if av.replace(" ", "") == "types--":
                        arg = ("types--",)
                    continue
                if is_count:
                    if re.fullmatch(r"\d+", av.strip()):
                        arg = ("lin", int(av), {})
                    elif av.strip() in ("true", "false"):
                        arg = ("lin", 1 if av.strip() == "true" else 0, {})
                    elif re.fullmatch(r"\$\d+", av.strip()) and attr_refs:
                        arg = ("lin", 0, {attr_refs[0]: 1})
                    else:
                        raise TranslateError("%s: count argument %r of %s not classifiable" % (where, av, name))
                elif attr_refs and ai not in spec.get("ignore", []):
                    raise TranslateError("%s: attribute argument %r of %s is not classified in SPEC" % (where, av, name))
            if spec.get("count") is not None and arg is None:
                if spec["count"] >= len(args):
                    raise TranslateError("%s: %s called without its count argument" % (where, name))
            a.calls.append((variant, arg))
            a.raw_calls.append(name)
            stats["calls"] += 1
            continue
        m = re.fullmatch(r"\$\$\s*=\s*(.*)", st, re.S)
        if m:
            if lhs_type in NUM_TYPES:
                a.attr = parse_value_expr(m.group(1), where)
            elif lhs_type in ("kind", "prefix"):
                if not re.fullmatch(r"[A-Za-z_:][A-Za-z_0-9:]*", m.group(1).strip()):
                    raise TranslateError("%s: unexpected value %r for <%s>" % (where, m.group(1), lhs_type))
            else:
                raise TranslateError("%s: `$$ =` in a rule whose lhs has type %r" % (where, lhs_type))
            stats["assign"] += 1
            continue
        if re.fullmatch(r"strncpy\s*\(\s*\$\$\s*,\s*(\$\d+|\"[^\"]*\")\s*,\s*MAXLEN\s*\)", st):
            stats["strcpy"] += 1
            continue
        if re.fullmatch(r"strcpy\s*\(\s*rootTransId\s*,\s*\$\d+\s*\)", st):
            stats["strcpy"] += 1
            continue
        if re.fullmatch(r"types\s*=\s*0", st):
            a.calls.append(("ps_types_reset", None))
            stats["types"] += 1
            continue
        if re.fullmatch(r"types\s*\+\+", st):
            a.calls.append(("ps_types_inc", None))
            stats["types"] += 1
            continue
        raise TranslateError("%s: unclassifiable action statement %r" % (where, st))
    # `type_array_of_type(types--)`: the decrement happens after the call
    calls = []
    for name, arg in a.calls:
        if arg == ("types--",):
            calls.append((name, ("types",)))
            calls.append(("ps_types_dec", None))
        else:
            calls.append((name, arg))
    a.calls = calls
    return a


class Prod:
    def __init__(self, lhs, name):
        self.lhs = lhs
        self.name = name
        self.items = []     # ('tok', sym) | ('nt', sym) | ('act', [calls]) | ('err',) | ('free',) | ('pnt', NT)
        self.attr = ("lin", 0, {})
        self.has_error = False
        self.syms = []      # bison view: symbol names, '$@' for mid-rule actions
        self.final_action = False


def read_grammar(repo):
    src = open(os.path.join(repo, "src", "parser.y")).read()
    decls, rules_text, _ = split_sections(src)
    types = {}
    for m in re.finditer(r"^%type\s*<(\w+)>\s*([^\n]*)", decls, re.M):
        for s in m.group(2).split():
            types[s] = m.group(1)
    rules = parse_rules(lex_rules(rules_text))
    nts = []
    for lhs, _ in rules:
        if lhs not in nts:
            nts.append(lhs)
    ntset = set(nts)
    stats = dict(calls=0, assign=0, strcpy=0, types=0, midrule=0)
    prods, count = [], {}
    for lhs, alt in rules:
        count[lhs] = count.get(lhs, 0) + 1
        p = Prod(lhs, "%s#%d" % (lhs, count[lhs]))
        sym_types = {}
        for pos, (k, v) in enumerate(alt):
            if k == "sym" and v in ntset:
                sym_types[pos] = types.get(v)
        explicit_attr = None
        for pos, (k, v) in enumerate(alt):
            where = "%s (symbol %d)" % (p.name, pos + 1)
            if k == "sym":
                if v == "error":
                    p.items.append(("err",))
                    p.has_error = True
                    p.syms.append("error")
                elif v in ntset:
                    p.items.append(("nt", v))
                    p.syms.append(v)
                else:
                    p.items.append(("tok", v))
                    p.syms.append(v)
            else:
                last = pos == len(alt) - 1
                a = classify_action(v, where, types.get(lhs) if last else None, sym_types, stats)
                if not last:
                    stats["midrule"] += 1
                    if a.attr is not None:
                        raise TranslateError("%s: mid-rule action assigns $$" % where)
                    p.syms.append("$@")
                p.items.append(("act", a.calls))
                if last:
                    explicit_attr = a.attr
                    p.final_action = True
        if types.get(lhs) in NUM_TYPES:
            if explicit_attr is not None:
                p.attr = explicit_attr
            else:
                # bison's default `$$ = $1`
                if alt and alt[0][0] == "sym" and sym_types.get(0) in NUM_TYPES:
                    p.attr = ("lin", 0, {0: 1})
                else:
                    raise TranslateError("%s: <%s> nonterminal without `$$ =` and without typed $1" % (p.name, types[lhs]))
            for k in p.attr[2]:
                if sym_types.get(k) not in NUM_TYPES:
                    raise TranslateError("%s: `$$` refers to $%d which carries no number" % (p.name, k + 1))
        prods.append(p)
    return prods, nts, types, stats


# ---------------------------------------------------------------------------------------------------------------
# bison automaton
# ---------------------------------------------------------------------------------------------------------------

def bison_report(repo):
    d = tempfile.mkdtemp(prefix="grammar-", dir=os.environ.get("VERIF_CACHE", "/var/tmp/utap-verif-cache")
                         if os.path.isdir(os.environ.get("VERIF_CACHE", "/var/tmp/utap-verif-cache")) else None)
    try:
        xml = os.path.join(d, "parser.xml")
        r = subprocess.run(["bison", "-putap_", "--xml=" + xml, "--output=" + os.path.join(d, "parser.cpp"),
                            os.path.join(repo, "src", "parser.y")], stdout=subprocess.PIPE, stderr=subprocess.STDOUT, text=True)
        if r.returncode != 0 or not os.path.exists(xml):
            raise TranslateError("bison failed on parser.y:\n" + r.stdout[-2000:])
        root = ET.parse(xml).getroot()
    finally:
        import shutil
        shutil.rmtree(d, ignore_errors=True)
    brules = []
    for ru in root.find("grammar/rules"):
        lhs = ru.find("lhs").text
        rhs = [s.text for s in ru.find("rhs") if s.tag == "symbol"]
        brules.append((int(ru.get("number")), lhs, rhs))
    states = []
    for st in root.find("automaton"):
        items = [(int(it.get("rule-number")), int(it.get("dot"))) for it in st.find("itemset")]
        trans = [(t.get("symbol"), int(t.get("state")), t.get("type")) for t in st.find("actions/transitions")]
        states.append((int(st.get("number")), items, trans))
    return brules, states


def align(prods, brules):
    """map bison rule numbers to our productions; mid-rule rules ($@n / @n) map to (prod, position)."""
    ours = iter(prods)
    rule2prod = {}
    midrule_names = {}
    pending_mid = []
    for num, lhs, rhs in brules:
        if num == 0:
            continue
        if re.fullmatch(r"\$?@\d+", lhs):
            if rhs:
                raise TranslateError("bison mid-rule %s has a non-empty rhs" % lhs)
            pending_mid.append(lhs)
            rule2prod[num] = ("mid", lhs)
            continue
        try:
            p = next(ours)
        except StopIteration:
            raise TranslateError("bison has more rules than our reading of parser.y (rule %d %s)" % (num, lhs))
        mine = list(p.syms)
        their = [("$@" if re.fullmatch(r"\$?@\d+", s) else s) for s in rhs]
        if p.lhs != lhs or mine != their:
            raise TranslateError("rule %d: bison reads `%s: %s`, translator reads `%s: %s`" %
                                 (num, lhs, " ".join(their), p.lhs, " ".join(mine)))
        mids = [s for s in rhs if re.fullmatch(r"\$?@\d+", s)]
        if mids != pending_mid:
            raise TranslateError("rule %d: mid-rule actions out of step (%r vs %r)" % (num, mids, pending_mid))
        pending_mid = []
        rule2prod[num] = ("prod", p)
        p.bison_rule = num
    if next(ours, None) is not None:
        raise TranslateError("our reading of parser.y has more productions than bison")
    return rule2prod


def error_sites(prods, brules, states, rule2prod):
    """For every state that shifts `error`: kernel items (rule, dot>0) mapped to (prod, dot).  Returns
    sites: list of (state, [(prod, dot)]) and item2sites: {(prod.name, pos): [site index]}"""
    sites = []
    item2sites = {}
    rhs_of = {num: rhs for num, _, rhs in brules}
    for snum, items, trans in states:
        if not any(sym == "error" for sym, _, _ in trans):
            continue
        alts = []
        for rn, dot in items:
            kind = rule2prod.get(rn, ("accept",)) if rn != 0 else ("accept",)
            if kind[0] == "mid":
                continue
            if kind[0] == "accept":
                continue     # $accept -> . Uppaal $end : covered by the closure items of Uppaal (start alternatives, dot 0)
            p = kind[1]
            if dot > 0:
                alts.append((p, dot))
            nxt = rhs_of[rn][dot] if dot < len(rhs_of[rn]) else None
            if nxt == "error":
                item2sites.setdefault((p.name, dot), []).append(len(sites))
        if snum == 0:
            # initial state: everything is a closure item; the abandoned material is a partial run of a start alternative
            alts = [(kind[1], 0) for rn, dot in items for kind in [rule2prod.get(rn, ("x",))] if kind[0] == "prod" and kind[1].lhs == "Uppaal"]
        sites.append((snum, alts))
    # every error item of every error production must have a site
    for p in prods:
        for pos, it in enumerate(p.items):
            if it == ("err",) and (p.name, pos) not in item2sites:
                raise TranslateError("error item of %s at %d is in no automaton state" % (p.name, pos))
    return sites, item2sites


# ---------------------------------------------------------------------------------------------------------------
# linear forms (dense vectors), the same check as lean/UtapModel/Model/C01Stack.lean  -- used only to infer hints
# ---------------------------------------------------------------------------------------------------------------

class Lin:
    __slots__ = ("c", "v")

    def __init__(self, c=0, v=None):
        self.c = c
        self.v = dict(v or {})

    def add(self, o, k=1):
        r = Lin(self.c + k * o.c, self.v)
        for p, a in o.v.items():
            r.v[p] = r.v.get(p, 0) + k * a
        return r

    def addc(self, c):
        return Lin(self.c + c, self.v)

    def nonneg(self):
        return self.c >= 0 and all(a >= 0 for a in self.v.values())

    def iszero(self):
        return self.c == 0 and all(a == 0 for a in self.v.values())


def lin_of(arg):
    if arg is None or arg[0] != "lin":
        return Lin()
    return Lin(arg[1], arg[2])


def load_effects(verif):
    """parse the hand-written effect table lean/UtapModel/Model/C01Effect.lean (rows `| .name => row [(.F, e 1 1 0), ...]`)"""
    path = os.path.join(verif, "lean", "UtapModel", "Model", "C01Effect.lean")
    eff = {}
    if not os.path.exists(path):
        return eff
    src = open(path).read()
    for m in re.finditer(r"^\s*\|\s*\.([A-Za-z_0-9]+)\s*=>\s*row\s*\[(.*)\]\s*$", src, re.M):
        row = [dict(NOPE) for _ in STACKS]
        for st, cell in re.findall(r"\(\.([A-Z])\s*,\s*([^()]*?)\)", m.group(2)):
            ws = cell.split()
            kind, nums = ws[0], [int(x) for x in ws[1:]]
            e = dict(NOPE)
            if kind == "e":
                need, pops, pushes = nums
                e.update(need0=need, d0=pushes - pops, t0=pushes - pops)
            elif kind == "eT":
                need, pops, pushes, tp, tq = nums
                e.update(need0=need, d0=pushes - pops, t0=tq - tp, canThrow=True)
            elif kind == "eN":
                n0, nN, p0, pN, pushes = nums
                e.update(need0=n0, needN=nN, d0=pushes - p0, dN=-pN, t0=pushes - p0, tN=-pN)
            elif kind == "eNT":
                n0, nN, p0, pN, pushes, tp0, tpN, tq = nums
                e.update(need0=n0, needN=nN, d0=pushes - p0, dN=-pN, t0=tq - tp0, tN=-tpN, canThrow=True)
            elif kind == "reset":
                e.update(reset=True)
            elif kind == "bump":
                e.update(bump=True)
            elif kind == "nop":
                pass
            else:
                raise TranslateError("C01Effect.lean: unknown effect cell %r in row %s" % (cell, m.group(1)))
            row[STACKS.index(st)] = e
        eff[m.group(1)] = row
    return eff


NOPE = dict(need0=0, needN=0, d0=0, dN=0, t0=0, tN=0, canThrow=False, reset=False, bump=False)


def sim_items(items, pos0, st, sig, eff, si):
    """Symbolic run (python twin of checkItems), used only to infer hints.  st = Lin or None (only >= 0 known).
    Returns (ok, final st, required need, required dip, clobbered); ok None = a child signature is still unknown."""
    req = 0
    dip = 0
    clob = False
    pos = pos0
    for it in items:
        if it[0] == "act":
            for name, arg in it[1]:
                e = eff.get(name, [NOPE] * len(STACKS))[si]
                n = lin_of(arg)
                if arg is not None and arg[0] == "types" and (e["needN"] or e["dN"] or e["tN"]):
                    return False, None, req, dip, clob
                need = Lin(e["need0"]).add(n, e["needN"])
                dn = Lin(e["d0"]).add(n, e["dN"])
                dt = Lin(e["t0"]).add(n, e["tN"]) if e["canThrow"] else dn
                if dn.add(dt, -1).nonneg():
                    d = dt
                elif dt.add(dn, -1).nonneg():
                    d = dn
                else:
                    return False, None, req, dip, clob
                if st is None:
                    if not need.iszero():
                        return False, None, req, dip, clob
                    continue
                slack = st.add(need, -1)
                if any(a < 0 for a in slack.v.values()):
                    return False, None, req, dip, clob
                req = max(req, -slack.c)
                if e["reset"]:
                    st = None
                    clob = True
                    continue
                if e["bump"]:
                    continue
                st = st.add(d)
                if any(a < 0 for a in st.v.values()):
                    return False, None, req, dip, clob
        elif it[0] in ("nt", "pnt"):
            s = sig[it[1]][si]
            if s is None:          # not yet known (fixpoint in progress)
                return None, None, req, dip, clob
            needB, dipB, loB = s
            if st is None:
                if needB != 0:
                    return False, None, req, dip, clob
            else:
                if any(a < 0 for a in st.v.values()):
                    return False, None, req, dip, clob
                req = max(req, needB - st.c)
                dip = max(dip, dipB - st.c)
                if loB is None:
                    st = None
                    clob = True
                elif it[0] == "nt":
                    st = st.addc(loB[0]).add(Lin(0, {pos: 1}), loB[1])
                else:
                    st = st.addc(-dipB)
        if st is not None:
            dip = max(dip, -st.c)
        pos += 1
    return True, st, req, dip, clob


def infer_sigs(prods, nts, attr_nts, eff):
    """Hints only (the Lean check re-validates every production against them).
    lo  : from the error-free productions = what the nonterminal is *meant* to leave behind;
    need/dip : least fixpoint over the error-free productions, capped by CAPS (our specification of the discipline:
          how far below its entry level a nonterminal may reach by design -- nothing on the operand stacks, the declared
          type / the enclosing frame on T, P and R); productions needing more are left to be flagged;
    clobber (lo = none): any production, error productions included, that may reset the stack.
    virtual nonterminals (abandoned material at an `error`): fixpoint over all their suffix productions."""
    CAPS = {"F": 0, "T": 2, "R": 1, "S": 0, "P": 2, "C": 0, "Q": 0, "E": 0, "M": 1, "U": 1, "G": 1, "L": 0}
    sig = {nt: [None] * len(STACKS) for nt in nts}
    by_lhs = {}
    for p in prods:
        by_lhs.setdefault(p.lhs, []).append(p)
    virtual = [nt for nt in nts if nt.startswith("Err_")]
    real = [nt for nt in nts if not nt.startswith("Err_")]
    entry_nts = {"Uppaal"} | {nt for nt in nts if nt.startswith("Start_")}
    for si in range(len(STACKS)):
        cap = CAPS[STACKS[si]]
        lo = {nt: None for nt in nts}      # None = unknown yet ; 'clob' ; (c0,c1)

        def table(need, dipv):
            tmp = {k: [None] * len(STACKS) for k in nts}
            for k in nts:
                if lo[k] is not None:
                    tmp[k][si] = (need.get(k, 0), dipv.get(k, 0), None if lo[k] == "clob" else lo[k])
            return tmp

        # pass 1: lo of real nonterminals from their error-free productions
        for rnd in range(80):
            changed = False
            tmp = table({}, {})
            for nt in real:
                cands = []
                for p in by_lhs[nt]:
                    if p.has_error:
                        continue
                    ok, st, req, dp, clob = sim_items(p.items, 0, Lin(), tmp, eff, si)
                    if ok is True:
                        cands.append((st, p))
                if not cands:
                    continue
                if any(st is None for st, _ in cands):
                    new = "clob"
                else:
                    new = None
                    for c1 in ((1, 0) if nt in attr_nts else (0,)):
                        c0s, good = [], True
                        for st, p in cands:
                            rest = st.add(lin_of(p.attr), -c1)
                            if any(a < 0 for a in rest.v.values()) or (c1 and rest.c < 0):
                                good = False
                                break
                            c0s.append(rest.c)
                        if good:
                            new = (min(c0s), c1)
                            break
                    if new is None:
                        new = "clob"
                if lo[nt] == "clob":
                    continue       # sticky
                if lo[nt] != new and (lo[nt] is None or new == "clob" or new[0] < lo[nt][0] or new[1] != lo[nt][1]):
                    lo[nt] = new
                    changed = True
            if not changed:
                break
        else:
            raise TranslateError("signature inference did not converge on stack %s" % STACKS[si])
        for nt in real:
            if lo[nt] is None:
                lo[nt] = (0, 0)
        for nt in virtual:
            lo[nt] = (0, 0)
        # pass 2: need / dip by fixpoint; clobber flag from all productions
        need = {nt: 0 for nt in nts}
        dipv = {nt: 0 for nt in nts}
        for rnd in range(80):
            changed = False
            tmp = table(need, dipv)
            for nt in nts:
                wn, wd, clob = need[nt], dipv[nt], lo[nt] == "clob"
                for p in by_lhs.get(nt, []):
                    ok, st, req, dp, cl = sim_items(p.items, 0, Lin(), tmp, eff, si)
                    if ok is not True:
                        continue
                    clob = clob or cl or st is None
                    if nt in virtual:
                        wn, wd = max(wn, min(req, 6)), max(wd, min(dp, 6))
                    elif req <= (cap if nt not in entry_nts else (1 if STACKS[si] == "R" else 0)):
                        wn, wd = max(wn, req), max(wd, min(dp, req))
                if clob and lo[nt] != "clob":
                    lo[nt] = "clob"
                    changed = True
                if (wn, wd) != (need[nt], dipv[nt]):
                    need[nt], dipv[nt] = wn, max(wd, 0)
                    changed = True
            if not changed:
                break
        for nt in nts:
            d = min(dipv[nt], need[nt])
            if nt in virtual and lo[nt] != "clob":
                lo[nt] = (-d, 0)
            sig[nt][si] = (need[nt], d, None if lo[nt] == "clob" else lo[nt])
    return sig


# ---------------------------------------------------------------------------------------------------------------
# emit Lean
# ---------------------------------------------------------------------------------------------------------------

def lean_ident(s):
    return re.sub(r"[^A-Za-z0-9_]", "_", s)


def lin_lean(arg, width_hint=0):
    if arg is None:
        return "⟨0, []⟩"
    _, c, coefs = arg
    if not coefs:
        return "⟨%d, []⟩" % c
    w = max(coefs) + 1
    v = [coefs.get(i, 0) for i in range(w)]
    return "⟨%d, [%s]⟩" % (c, ", ".join(str(x) for x in v))


def translate(repo="/repo", verif=None):
    verif = verif or os.path.dirname(os.path.dirname(os.path.abspath(__file__)))
    prods, nts, types, stats = read_grammar(repo)
    brules, states = bison_report(repo)
    rule2prod = align(prods, brules)
    sites, item2sites = error_sites(prods, brules, states, rule2prod)
    # virtual nonterminals: one per *distinct* set of alternatives
    site_key = {}
    vnts, vprods = [], []
    site_nt = []
    for snum, alts in sites:
        key = tuple(sorted((p.name, d) for p, d in alts))
        if key not in site_key:
            name = "Err_%d" % len(site_key)
            site_key[key] = name
            vnts.append((name, snum, alts))
        site_nt.append(site_key[key])
    # replace `error` items by pnt(Err_k); an item that lives in several states gets the union site
    union_cache = {}
    for p in prods:
        for pos, it in enumerate(p.items):
            if it == ("err",):
                names = sorted({site_nt[i] for i in item2sites[(p.name, pos)]})
                if len(names) == 1:
                    p.items[pos] = ("pnt", names[0])
                else:
                    key = tuple(names)
                    if key not in union_cache:
                        uname = "Err_%d" % (len(site_key) + len(union_cache))
                        alts = []
                        for nme, _, al in vnts:
                            if nme in names:
                                for a in al:
                                    if a not in alts:
                                        alts.append(a)
                        union_cache[key] = (uname, alts)
                    p.items[pos] = ("pnt", union_cache[key][0])
    for key, (uname, alts) in union_cache.items():
        vnts.append((uname, -1, alts))
    for name, snum, alts in vnts:
        k = 0
        for q, dot in sorted(alts, key=lambda a: (a[0].name, a[1])):
            k += 1
            vp = Prod(name, "%s#%d" % (name, k))
            # the final action of an abandoned production never ran (it is the reduction itself)
            body = q.items[:-1] if q.final_action else q.items
            vp.items = [("free",)] * dot + body[dot:]
            vp.origin = (q.name, dot)
            vp.has_error = True
            vprods.append(vp)
    # one nonterminal per start alternative (= per xta_part_t entry point and syntax switch): `Start_<token>`
    snts, sprods = [], []
    for p in prods:
        if p.lhs == "Uppaal" and p.items and p.items[0][0] == "tok":
            name = "Start_" + p.items[0][1]
            sp = Prod(name, name + "#1")
            sp.items = list(p.items)
            sp.attr = p.attr
            sp.has_error = p.has_error
            sp.origin_start = p.name
            snts.append(name)
            sprods.append(sp)
    all_nts = nts + snts + [n for n, _, _ in vnts]
    all_prods = prods + sprods + vprods
    # callbacks
    cbs = []
    for p in all_prods:
        for it in p.items:
            if it[0] == "act":
                for name, _ in it[1]:
                    if name not in cbs:
                        cbs.append(name)
    attr_nts = {nt for nt in nts if types.get(nt) in NUM_TYPES}
    eff = load_effects(verif)
    ptr, ptr_reset = pointer_scan(repo, cbs)
    for variant, sts in ptr.items():
        if variant in eff:
            for st in sts:
                e = eff[variant][STACKS.index(st)]
                e["need0"] = max(e["need0"], 1)
    for variant, sts in ptr_reset.items():
        if variant in eff:
            for st in sts:
                eff[variant][STACKS.index(st)]["reset"] = True
    for name in properties_back_scan(repo):
        if name in cbs:
            ptr.setdefault(name, set()).add("Q")
            if name in eff:
                e = eff[name][STACKS.index("Q")]
                e["need0"] = max(e["need0"], 1)
    sig = infer_sigs(all_prods, all_nts, attr_nts, eff)
    info = dict(nonterminals=len(nts), productions=len(prods), error_productions=sum(1 for p in prods if p.has_error),
                callbacks=len([c for c in cbs if not c.startswith("ps_")]), callback_variants=len(cbs),
                error_states=len(sites), virtual_nonterminals=len(vnts), virtual_productions=len(vprods),
                action_statements=stats, attr_nonterminals=sorted(attr_nts), bison_rules=len(brules), bison_states=len(states),
                effect_rows_read=len(eff))
    out = []
    w = out.append
    w("/- GENERATED by translate/grammar.py from /repo/src/parser.y (and `bison -x` of the same file) -- do not edit.")
    w("   %d nonterminals, %d productions (%d with `error`), %d callback variants, %d error-shift states -> %d virtual" %
      (len(nts), len(prods), info["error_productions"], len(cbs), len(sites), len(vnts)))
    w("   nonterminals with %d suffix productions. -/" % len(vprods))
    w("import UtapModel.Model.C01Stack")
    w("namespace UtapModel.Gen.Grammar")
    w("open UtapModel.C01")
    w("")
    w("inductive CB where")
    for c in cbs:
        w("  | %s" % lean_ident(c))
    w("  deriving DecidableEq, Repr")
    w("")
    w("inductive NT where")
    for n in all_nts:
        w("  | %s" % lean_ident(n))
    w("  deriving DecidableEq, Repr")
    w("")
    w("def CB.all : List CB := [%s]" % ", ".join("." + lean_ident(c) for c in cbs))
    w("def CB.name : CB → String")
    for c in cbs:
        w("  | .%s => \"%s\"" % (lean_ident(c), c))
    w("def CB.ofName? (s : String) : Option CB := CB.all.find? (fun c => c.name == s)")
    w("def NT.all : List NT := [%s]" % ", ".join("." + lean_ident(n) for n in all_nts))
    w("def NT.name : NT → String")
    for n in all_nts:
        w("  | .%s => \"%s\"" % (lean_ident(n), n))
    w("")
    w("abbrev P := UtapModel.C01.Prod CB NT")
    w("abbrev I := UtapModel.C01.Item CB NT")

    def item_lean(it):
        if it[0] == "tok":
            return ".tok"
        if it[0] == "free":
            return ".free"
        if it[0] == "nt":
            return ".nt .%s" % lean_ident(it[1])
        if it[0] == "pnt":
            return ".pnt .%s" % lean_ident(it[1])
        if it[0] == "act":
            cs = []
            for name, arg in it[1]:
                if arg is None:
                    a = ".none"
                elif arg[0] == "types":
                    a = ".types"
                else:
                    a = ".cnt %s" % lin_lean(arg)
                cs.append("⟨.%s, %s⟩" % (lean_ident(name), a))
            return ".act [%s]" % ", ".join(cs)
        raise TranslateError("item %r" % (it,))

    lines = []
    for idx, p in enumerate(all_prods):
        lines.append("  ⟨%d, .%s, [%s], %s⟩" % (idx, lean_ident(p.lhs), ", ".join(item_lean(i) for i in p.items), lin_lean(p.attr)))
    CH = 40   # big list literals overflow the code generator: emit chunks
    nch = (len(lines) + CH - 1) // CH
    for c in range(nch):
        w("def prodsChunk%d : List P := [" % c)
        w(",\n".join(lines[c * CH:(c + 1) * CH]))
        w("]")
    w("def prods : List P := %s" % " ++ ".join("prodsChunk%d" % c for c in range(nch)))
    w("")
    w("def prodName : Nat → String")
    for idx, p in enumerate(all_prods):
        extra = ""
        if hasattr(p, "origin"):
            extra = " = suffix of %s after %d symbols" % p.origin
        w("  | %d => \"%s%s\"" % (idx, p.name, extra))
    w("  | _ => \"?\"")
    w("")
    w("/-- stable key of a production: `Lhs#k`, or `abandon:Lhs#k@d` for the suffix of an abandoned production -/")
    w("def prodKey : Nat → String")
    for idx, p in enumerate(all_prods):
        key = p.name if not hasattr(p, "origin") else "abandon:%s@%d" % p.origin
        if hasattr(p, "origin_start"):
            key = p.origin_start      # the same production as the start alternative it copies: one key
        w("  | %d => \"%s\"" % (idx, key))
    w("  | _ => \"?\"")
    w("")

    def sig_lean(s):
        need, dp, lo = s
        return "⟨%d, %d, %s⟩" % (need, dp, "none" if lo is None else "some (%d, %d)" % lo)

    w("/-- inferred hints (need, dip, lower bound of exit-entry as c0 + c1*attr); NOT trusted: `lbProd` re-checks every production -/")
    w("def sigOf : NT → SigRow")
    for n in all_nts:
        w("  | .%s => ⟨[%s]⟩" % (lean_ident(n), ", ".join(sig_lean(s) for s in sig[n])))
    w("")
    w("/-- GENERATED from the builder sources: callback dereferences the pointer without a guard -/")
    w("def ptrDeref : CB → Stack → Bool")
    for variant in cbs:
        for st in sorted(ptr.get(variant, [])):
            w("  | .%s, .%s => true" % (lean_ident(variant), st))
    w("  | _, _ => false")
    w("")
    w("/-- GENERATED from the builder sources: callback may leave the pointer null (`= nullptr` on some path) -/")
    w("def ptrMayReset : CB → Stack → Bool")
    for variant in cbs:
        for st in sorted(ptr_reset.get(variant, [])):
            w("  | .%s, .%s => true" % (lean_ident(variant), st))
    w("  | _, _ => false")
    w("")
    w("def startNT : NT := .Uppaal")
    w("def numRealProds : Nat := %d" % len(prods))
    w("def numStartProds : Nat := %d" % len(sprods))
    w("end UtapModel.Gen.Grammar")
    text = "\n".join(out) + "\n"
    info["callback_list"] = cbs
    info["pointer_derefs"] = {k: sorted(v) for k, v in sorted(ptr.items())}
    info["pointer_may_reset"] = {k: sorted(v) for k, v in sorted(ptr_reset.items())}
    info["prod_names"] = [p.name for p in all_prods]
    info["prods"] = all_prods
    info["sig"] = sig
    return text, info


def pointer_scan(repo, cbs):
    """Tie for the pointer stacks: which callbacks dereference a `current...` pointer without a guard.
    Reads the most derived definition of every callback in the builder sources.  -> {variant: set(stack letters)}"""
    bodies = {}
    rank = {"ExpressionBuilder": 0, "StatementBuilder": 1, "DocumentBuilder": 2}
    for f in ("ExpressionBuilder.cpp", "StatementBuilder.cpp", "DocumentBuilder.cpp"):
        src = strip_comments(open(os.path.join(repo, "src", f)).read())
        for m in re.finditer(r"^[A-Za-z_:<>\*&\s]+?\b(\w+)::(\w+)\s*\(([^)]*)\)\s*(?:const\s*)?\{", src, re.M):
            cls, name = m.group(1), m.group(2)
            if cls not in rank:
                continue
            i, depth = m.end(), 1
            while i < len(src) and depth:
                if src[i] == "{":
                    depth += 1
                elif src[i] == "}":
                    depth -= 1
                i += 1
            body = src[m.end():i - 1]
            key = (name, len([a for a in m.group(3).split(",") if a.strip()]))
            if key not in bodies or rank[cls] >= bodies[key][0]:
                bodies[key] = (rank[cls], body)
    by_name = {}
    for (name, ar), (r, body) in bodies.items():
        by_name.setdefault(name, []).append((ar, body))
    helpers = {"get_block": "U"}      # get_block() dereferences currentFun when no block is open

    def derefs(body):
        out = set()
        for st, ptr in POINTERS.items():
            pats = [r"\b%s\s*->" % ptr, r"\*\s*%s\b" % ptr]
            if st == "U":
                pats.append(r"\bget_block\s*\(\s*\)")
            first = None
            for pat in pats:
                mm = re.search(pat, body)
                if mm and (first is None or mm.start() < first):
                    first = mm.start()
            if first is None:
                continue
            before = body[:first]
            # an assignment that makes it non-null, or a guard, before the first dereference
            guard = re.search(r"!\s*%s\b|if\s*\(\s*%s\b|%s\s*(!=|==)\s*nullptr|%s\s*&&|%s\s*\?|\b%s\s*=[^=]" % ((ptr,) * 6), before)
            if st == "U" and re.search(r"\baddFunction\s*\(", before):
                guard = True
            if not guard:
                out.add(st)
        return out

    def may_reset(body):
        """the pointer can be left null by a conditional `= nullptr` (no unconditional set follows at statement level)"""
        out = set()
        for st, ptr in POINTERS.items():
            last = None
            for mm in re.finditer(r"\b%s\s*=\s*nullptr|\b%s\s*\.\s*reset\s*\(\s*\)" % (ptr, ptr), body):
                last = mm
            if last is None:
                continue
            after = body[last.end():]
            depth, top = 0, ""
            for ch in after:        # text at brace depth 0 after the last reset
                if ch == "{":
                    depth += 1
                elif ch == "}":
                    depth -= 1
                    if depth < 0:
                        depth = 0
                        top = ""    # we left the block that contained the reset: what follows is at an outer level
                        continue
                elif depth == 0:
                    top += ch
            if re.search(r"\b%s\s*=[^=]" % ptr, top) or (st == "U" and re.search(r"\baddFunction\s*\(", top)):
                continue
            out.add(st)
        return out

    res, res2 = {}, {}
    for variant in cbs:
        if variant.startswith("ps_"):
            continue
        base = variant
        while base not in by_name and "_" in base:
            base = base.rsplit("_", 1)[0]
        if base not in by_name:
            continue
        # the grammar uses the overload with the fewest parameters when a name is overloaded (proc_message(sync), ...)
        alts = sorted(by_name[base])
        body = alts[0][1]
        d = derefs(body)
        if d:
            res[variant] = d
        r = may_reset(body)
        if r:
            res2[variant] = r
    return res, res2


def properties_back_scan(repo):
    """Q stack: callbacks of the property builders that use `properties.back()` with no `properties.empty()` test before it."""
    src = strip_comments(open(os.path.join(repo, "src", "property.cpp")).read())
    out = []
    for m in re.finditer(r"^void\s+(\w+)::(\w+)\s*\(([^)]*)\)\s*\{", src, re.M):
        i, depth = m.end(), 1
        while i < len(src) and depth:
            if src[i] == "{":
                depth += 1
            elif src[i] == "}":
                depth -= 1
            i += 1
        body = src[m.end():i - 1]
        mm = re.search(r"\bproperties\s*\.\s*back\s*\(", body)
        if mm and not re.search(r"properties\s*\.\s*(empty|push_back|emplace_back)\s*\(", body[:mm.start()]):
            out.append(m.group(2))
    return sorted(set(out))


# ---------------------------------------------------------------------------------------------------------------
# search: a concrete input that drives the parser through a given production (used when a production fails the check)
# ---------------------------------------------------------------------------------------------------------------

def token_lexemes(repo):
    """token name -> a lexeme, from the literal rules of lexer.l and the keyword table of keywords.cpp"""
    lex = {}
    src = open(os.path.join(repo, "src", "lexer.l")).read()
    for m in re.finditer(r'^"((?:\\.|[^"\\])+)"\s*\{\s*return\s+([A-Za-z_0-9\']+|\'\\?.\')\s*;\s*\}', src, re.M):
        text = m.group(1).replace('\\"', '"').replace("\\\\", "\\")
        lex.setdefault(m.group(2), text)
    kw = open(os.path.join(repo, "src", "keywords.cpp")).read()
    for m in re.finditer(r'\{"([A-Za-z_0-9]+)",\s*Keyword\{(T_[A-Z_0-9]+)\s*,', kw):
        lex.setdefault(m.group(2), m.group(1))
    lex.update({"T_ID": "x", "T_NAT": "1", "T_FLOATING": "1.5", "T_CHARARR": '"a"', "T_TYPENAME": "int8_t", "T_POS_NEG_MAX": "2147483648",
                "'\\n'": "\n", "'\\''": "'", "T_OLDCONST": "const", "T_ERROR": "@"})
    return lex


START_MODE = {   # start alternative (its syntax-switch token) -> (trace-harness mode, newxta)
    "T_NEW": ("xta", 1), "T_NEW_DECLARATION": ("part:1", 1), "T_NEW_LOCAL_DECL": ("part:2", 1), "T_NEW_INST": ("part:3", 1),
    "T_NEW_SYSTEM": ("part:4", 1), "T_NEW_PARAMETERS": ("part:5", 1), "T_NEW_INVARIANT": ("part:6", 1), "T_NEW_SELECT": ("part:8", 1),
    "T_NEW_GUARD": ("part:9", 1), "T_NEW_SYNC": ("part:10", 1), "T_NEW_ASSIGN": ("part:11", 1), "T_PROBABILITY": ("part:16", 1),
    "T_OLD": ("xta", 0), "T_OLD_DECLARATION": ("part:1", 0), "T_OLD_LOCAL_DECL": ("part:2", 0), "T_OLD_INST": ("part:3", 0),
    "T_OLD_PARAMETERS": ("part:5", 0), "T_OLD_INVARIANT": ("part:6", 0), "T_OLD_GUARD": ("part:9", 0), "T_OLD_ASSIGN": ("part:11", 0),
    "T_PROPERTY": ("prop", 1), "T_EXPRESSION": ("part:12", 1), "T_EXPRESSION_LIST": ("part:13", 1), "T_XTA_PROCESS": ("part:15", 1),
    "T_EXPONENTIAL_RATE": ("part:7", 1), "T_MESSAGE": ("part:18", 1), "T_UPDATE": ("part:19", 1), "T_CONDITION": ("part:20", 1),
    "T_INSTANCE_LINE": ("part:17", 1),
}


def witness_sentences(repo, prod_name, limit=12):
    """Inputs (mode, newxta, text) whose parse uses production `prod_name` (for `abandon:X#k@d`: production X#k).
    Shortest expansions; `error` symbols become a token the grammar cannot continue with."""
    m = re.match(r"abandon:(.*)@\d+$", prod_name)
    if m:
        prod_name = m.group(1)
    prods, nts, types, stats = read_grammar(repo)
    lex = token_lexemes(repo)
    ntset = set(nts)
    by_lhs = {}
    for p in prods:
        by_lhs.setdefault(p.lhs, []).append(p)
    target = [p for p in prods if p.name == prod_name]
    if not target:
        return []
    target = target[0]

    def toks(p, expand):
        out = []
        for sym in p.syms:
            if sym == "$@":
                continue
            if sym == "error":
                out.append(None)
            elif sym in ntset:
                e = expand(sym)
                if e is None:
                    return None
                out += e
            else:
                if sym not in lex:
                    return None
                out.append(lex[sym])
        return out

    # shortest terminal expansion of every nonterminal (error-free productions only)
    best = {}
    changed = True
    while changed:
        changed = False
        for p in prods:
            if p.has_error:
                continue
            e = toks(p, lambda n: best.get(n))
            if e is not None and (p.lhs not in best or len(e) < len(best[p.lhs])):
                best[p.lhs] = e
                changed = True
    # shortest context: Uppaal alternative ... lhs(target) ... ; BFS over "nonterminal occurs in production"
    ctx = {}       # nt -> (prefix tokens, suffix tokens, start token) with the shortest total length
    for p in by_lhs["Uppaal"]:
        pass
    frontier = []
    for p in by_lhs["Uppaal"]:
        if p.has_error or not p.syms or p.syms[0] not in START_MODE:
            continue
        for i, sym in enumerate(p.syms):
            if sym in ntset:
                pre = toks_list(p.syms[1:i], best, lex, ntset)
                suf = toks_list(p.syms[i + 1:], best, lex, ntset)
                if pre is None or suf is None:
                    continue
                cand = (pre, suf, p.syms[0])
                if sym not in ctx or len(pre) + len(suf) < len(ctx[sym][0]) + len(ctx[sym][1]):
                    ctx[sym] = cand
                    frontier.append(sym)
    while frontier:
        nt = frontier.pop(0)
        pre0, suf0, st = ctx[nt]
        for p in by_lhs.get(nt, []):
            if p.has_error:
                continue
            for i, sym in enumerate(p.syms):
                if sym in ntset:
                    pre = toks_list(p.syms[:i], best, lex, ntset)
                    suf = toks_list(p.syms[i + 1:], best, lex, ntset)
                    if pre is None or suf is None:
                        continue
                    cand = (pre0 + pre, suf + suf0, st)
                    if sym not in ctx or len(cand[0]) + len(cand[1]) < len(ctx[sym][0]) + len(ctx[sym][1]):
                        ctx[sym] = cand
                        frontier.append(sym)
    if target.lhs == "Uppaal":
        if not target.syms or target.syms[0] not in START_MODE:
            return []
        bodies = [toks_list(target.syms[1:], best, lex, ntset, err=j) for j in ("@", ")", "", "}")]
        mode, nx = START_MODE[target.syms[0]]
        return [(mode, nx, " ".join(b)) for b in bodies if b is not None][:limit]
    if target.lhs not in ctx:
        return []
    pre, suf, st = ctx[target.lhs]
    mode, nx = START_MODE[st]
    out = []
    for junk in ("@", ")", "", "}", ";", "1 1"):
        body = toks_list(target.syms, best, lex, ntset, err=junk)
        if body is None:
            continue
        text = " ".join(pre + body + suf)
        if (mode, nx, text) not in out:
            out.append((mode, nx, text))
    # variants: the nonterminals of the target expanded by *every* production once (covers count > 0, nested forms)
    for i, sym in enumerate(target.syms):
        if sym in ntset:
            for q in by_lhs[sym][:8]:
                if q.has_error:
                    continue
                sub = toks_list(q.syms, best, lex, ntset)
                a = toks_list(target.syms[:i], best, lex, ntset, err="@")
                b = toks_list(target.syms[i + 1:], best, lex, ntset, err="@")
                if sub is None or a is None or b is None:
                    continue
                text = " ".join(pre + a + sub + b + suf)
                if (mode, nx, text) not in out:
                    out.append((mode, nx, text))
    return out[:limit]


def toks_list(syms, best, lex, ntset, err="@"):
    out = []
    for sym in syms:
        if sym == "$@":
            continue
        if sym == "error":
            if err:
                out.append(err)
        elif sym in ntset:
            if sym not in best:
                return None
            out += best[sym]
        else:
            if sym not in lex:
                return None
            out.append(lex[sym])
    return out


def source_need_scan(repo):
    """Tie for the `need` column: largest literal index used on each stack inside each builder callback body
    (fragments[k] -> k+1, fragments.pop(k) -> k, typeFragments[k] -> k+1).  Returns {callback: {'F': n, 'T': n}}."""
    res = {}
    for f in ("ExpressionBuilder.cpp", "StatementBuilder.cpp", "DocumentBuilder.cpp", "property.cpp"):
        src = strip_comments(open(os.path.join(repo, "src", f)).read())
        for m in re.finditer(r"^void\s+(\w+)::(\w+)\s*\(([^)]*)\)\s*(?:const\s*)?\{", src, re.M):
            cls, name = m.group(1), m.group(2)
            i, depth = m.end(), 1
            while i < len(src) and depth:
                if src[i] == "{":
                    depth += 1
                elif src[i] == "}":
                    depth -= 1
                i += 1
            body = src[m.end():i]
            fr = [int(x) + 1 for x in re.findall(r"\bfragments\s*\[\s*(\d+)\s*\]", body)]
            fr += [int(x) for x in re.findall(r"\bfragments\s*\.\s*pop\s*\(\s*(\d+)\s*\)", body)]
            if re.search(r"\bfragments\s*\.\s*pop\s*\(\s*\)", body):
                fr.append(1)
            tf = [int(x) + 1 for x in re.findall(r"\btypeFragments\s*\[\s*(\d+)\s*\]", body)]
            if re.search(r"\btypeFragments\s*\.\s*(pop|duplicate)\s*\(\s*\)", body):
                tf.append(1)
            calls = re.findall(r"\b(expr_\w+|type_\w+|addSelectSymbolToFrame)\s*\(", body)
            key = name
            prev = res.get(key)
            cur = {"F": max(fr) if fr else 0, "T": max(tf) if tf else 0, "cls": cls, "calls": calls,
                   "symbolicF": bool(re.search(r"\bfragments\s*\[\s*[A-Za-z_(]", body)) or bool(re.search(r"fragments\s*\.\s*pop\s*\(\s*[A-Za-z_]", body))}
            # the most derived definition wins (DocumentBuilder > StatementBuilder > ExpressionBuilder); property.cpp kept separately
            rank = {"ExpressionBuilder": 0, "StatementBuilder": 1, "DocumentBuilder": 2}.get(cls, -1)
            if rank < 0:
                res.setdefault("@" + cls + "::" + name, cur)
                continue
            if prev is None or rank >= prev.get("rank", -1):
                cur["rank"] = rank
                res[key] = cur
    return res


if __name__ == "__main__":
    repo = sys.argv[1] if len(sys.argv) > 1 else "/repo"
    text, info = translate(repo)
    sys.stdout.write(text if "--print" in sys.argv else "")
    for k, v in info.items():
        if k not in ("callback_list", "prod_names", "prods", "sig"):
            print(k, v)
