/- Line-protocol driver for C15.
   W <p0> <hex text>   a block parse (fresh document) starting with tracker.position = p0: does the position machinery
                       throw (uint32 wrap-around), and in which flex start condition?  -> `ok` | `throws <mode>`
   E                   the computed exception shapes of today's source -/
import UtapModel.Model.Globals
import UtapModel.Gen.LexRules

open UtapModel.Pos UtapModel.LexLines UtapModel.Globals

def hexVal (c : Char) : Nat :=
  if c.toNat ≥ 48 && c.toNat ≤ 57 then c.toNat - 48
  else if c.toNat ≥ 97 && c.toNat ≤ 102 then c.toNat - 87
  else if c.toNat ≥ 65 && c.toNat ≤ 70 then c.toNat - 55
  else 0

def unhex : List Char → List Char
  | a :: b :: rest => Char.ofNat (hexVal a * 16 + hexVal b) :: unhex rest
  | _ => []

def modeName : Mode → String
  | .initial => "INITIAL"
  | .comment => "comment"

def wrapOp (p0 : Nat) (text : List Char) : String :=
  let s0 : St := { tr := { line := 0, offset := 0, position := p0 % W, path := "" }, idx := [] }
  match s0.setPath "/blk" with
  | .error _ => "throws INITIAL"
  | .ok s1 =>
    match runLexemesMode s1 .initial (lexAll UtapModel.LexRulesGen.rules .initial text).1 with
    | .ok _ => "ok"
    | .error (_, m) => s!"throws {modeName m}"

def stepLine (line : String) : String :=
  let ws := (line.trimAscii.toString.splitOn " ").filter (· ≠ "")
  match ws with
  | ["W", p0, hex] => wrapOp (p0.toNat?.getD 0) (unhex hex.toList)
  | ["W", p0] => wrapOp (p0.toNat?.getD 0) []
  | ["E"] =>
    let shapes := ["history:position>=2^32"] ++ (if UtapModel.ParseGlobalsGen.yyllocInit then [] else ["history:empty-input-location"])
    ",".intercalate shapes
  | _ => "bad-op"

partial def loop (h : IO.FS.Stream) (out : IO.FS.Stream) : IO Unit := do
  let line ← h.getLine
  if line.isEmpty then return ()
  out.putStrLn (stepLine line)
  loop h out

def main : IO Unit := do
  let out ← IO.getStdout
  loop (← IO.getStdin) out
