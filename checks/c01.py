"""C01 -- no input crashes, corrupts memory or hangs any parsing entry point (DESIGN.md section 4, C01).  PARTIAL proof.

 A  the part that is logic (machine-checked):
    1 translate   src/parser.y (+ `bison -x` automaton) -> lean/UtapModel/Gen/Grammar.lean   (tie T, every run)
    2 tie         literal stack indices in the builder sources vs the `need` column of Model/C01Effect.lean
    3 prove       UtapModel.Props.C01: stack safety for every (recovering / abandoned) derivation outside the computed
                  exception set; today's exception set pinned by `decide +kernel`
    4 exceptions  printed by drv_c01; each confirmed on the real library (ASan) by its witness input -> finding / known
    5 correspond  TraceBuilder: every traced callback of the real parser on generated inputs, predicted vs observed stack
                  sizes (also after a TypeException) -> validates the hand-written effect table (tie C)
 B  the part that is runtime (TESTING, not proof): sanitizer stream of checks/c01_stream.py over all entry points.
"""
import base64
import json
import os
import re
import sys
import time

from vlib import core

sys.path.insert(0, os.path.join(core.VERIF, "translate"))
import grammar  # noqa: E402
import grammar_trace  # noqa: E402

GEN = os.path.join(core.LEAN_DIR, "UtapModel", "Gen", "Grammar.lean")
MODULE = "UtapModel.Props.C01"
OBS = ["F", "T", "R", "S"]
PARTS = {"S_XTA": 0, "S_DECLARATION": 1, "S_LOCAL_DECL": 2, "S_INST": 3, "S_SYSTEM": 4, "S_PARAMETERS": 5, "S_INVARIANT": 6,
         "S_EXPONENTIAL_RATE": 7, "S_SELECT": 8, "S_GUARD": 9, "S_SYNC": 10, "S_ASSIGN": 11, "S_EXPRESSION": 12,
         "S_EXPRESSION_LIST": 13, "S_PROPERTY": 14, "S_XTA_PROCESS": 15, "S_PROBABILITY": 16, "S_INSTANCE_LINE": 17,
         "S_MESSAGE": 18, "S_UPDATE": 19, "S_CONDITION": 20}

# witness inputs of the exception shapes (mode, newxta, text, callback that must be the last one before the crash)
WITNESS = {
    ("IfCondition#2", "fragments"): ("xta", 1, "void f(){ if () ; }\nprocess P(){ state A; init A; } system P;", "if_end",
                                     "error production `IfCondition: T_IF '(' error ')'` pushes no condition; if_end reads fragments[0] of an empty stack"),
    ("ArrayDecl2#3", "types"): ("xta", 1, "int a[int[0,1]][struct{int b[2];}];\nprocess P(){ state A; init A; } system P;",
                                "type_array_of_type",
                                "a nested array declarator resets the static counter `types`; the outer type_array_of_type(types--) runs with types = 0 and indexes typeFragments[-1]"),
    ("SelectList#1", "currentEdge"): ("xta", 1, "process P(){ state L0; init L0; trans X -> L0 { select i : int[0,1]; }; } system P;", "proc_select",
                                      "proc_edge_begin fails on an undeclared source location and creates no edge; proc_select dereferences the null currentEdge (the other label callbacks are guarded)"),
    ("SelectList#2", "currentEdge"): ("xta", 1, "process P(){ state L0; init L0; trans X -> L0 { select i : int[0,1], j : int[0,1]; }; } system P;", "proc_select",
                                      "proc_edge_begin fails on an undeclared source location and creates no edge; proc_select dereferences the null currentEdge"),
    ("InstanceLineExpression#1", "currentInstanceLine"): ("part:17", 1, "I", "instance_name",
                                      "parse_XTA(.., S_INSTANCE_LINE) on a builder without a current instance line: instance_name dereferences the null currentInstanceLine"),
    ("InstanceLineExpression#2", "currentInstanceLine"): ("pre:17", 1, "process I(int a){ state A; init A; }\nJ = I(1);\nsystem J;\x02I(1)", "instance_name_end",
                                      "parse_XTA(.., S_INSTANCE_LINE) `I(1)` with a matching template but no current instance line: instance_name_end -> instance_name dereferences the null currentInstanceLine"),
    ("Uppaal#29", "currentTemplate"): ("part:17", 1, "I", "instance_name",
                                      "parse_XTA(.., S_INSTANCE_LINE) on a builder with no current template / instance line (instance_name dereferences both; the instance line is hit first)"),
    ("StrategyAssignment#1", "properties"): ("tiga", 1, "strategy s = control: A[] undeclared_variable", "strategy_declaration",
                                             "PropertyBuilder::property() returns early on a type error without pushing a PropInfo; TigaPropertyBuilder::strategy_declaration takes &properties.back() of an empty list"),
}

XTA_SNIPPETS = [
    "int x = 1 + 2 * 3; const int N = 4; bool b = true; double d = 1.5; clock c; chan ch; urgent broadcast chan u[2];",
    "typedef int[0,3] id_t; typedef struct { int a; bool b[2]; } S; S s = { 1, { true, false } }; id_t v; int m[2][3] = { {1,2,3},{4,5,6} };",
    "int f(int a, int &r, const int c){ int l = a; r = l + c; if (a > 0) { l++; } else l--; for (l = 0; l < 3; l++) r += l; while (l > 0) l--; do { l++; } while (l < 2); return l; }",
    "void g(){ int i; for (i : int[0,3]) { i; } ; assert(true); return; }",
    "int h(int a){ return a > 0 ? a : -a; } int k = h(3) + (1 << 2) % 3 - 4 / 2; bool q = forall (i : int[0,3]) i >= 0; bool e = exists (i : int[0,3]) i == 2; int su = sum (i : int[0,3]) i;",
    "int a[int[0,1]]; scalar[3] sc; meta int mm; int arr[3]; int z = arr[1]; struct { int p; int q; } rec; int w = rec.p;",
    "chan c1, c2; chan priority c1 < c2 < default; int y; double dd = fabs(-1.0) + pow(2.0, 3.0) + fma(1.0, 2.0, 3.0) + sqrt(4.0);",
    "process P(int n, const int m){ clock x; int v; state A { x <= 3 }, B { x <= 2 ; 3 }, C; commit C; urgent B; init A; "
    "trans A -> B { select i : int[0,1]; guard x >= 1 && v == i; sync ch!; assign v = i, x = 0; }, B -> C { guard v > 0; }, C -> A { probability 2; }; } "
    "chan ch; P1 = P(1, 2); system P1;",
    "process Q(){ state A, B; branchpoint Br; init A; trans A -> Br { }, Br -> B { probability 1; }, Br -> A { probability 2; }; } system Q;",
    "process R(){ state A; init A; trans A -> A { guard true; }, -> A { assign 1; }; } system R; progress { 1; } gantt { G(i : int[0,1]) : true -> 1; }",
    "int x; before_update { x = 1 } after_update { x = 2 } process S(){ state A; init A; } system S;",
    "dynamic T(int i); process T(int i){ state A; init A; } process U(){ state A; init A; trans A -> A { assign spawn T(1); }, A -> A { guard numOf(T) > 0; assign exit(); }; } system U;",
    "process V(){ state A; init A; trans A u-> A { }; } system V;",
    "const int N = 2; typedef int[0,N-1] id; process W(const id i){ state A; init A; } system W;",
    "int x; process X(){ state A; init A; } system X; query { E<> x > 0 } query { A[] not deadlock }",
    "int x; int x; typedef int T; typedef int T; void f(){} void f(){} int g(int a, int a){ return a; } const int c; int u = undefined_id + 1; "
    "struct { int a; } r; int w = r.nofield; int v = x.a; clock k; int bad[k]; const string s2 = \"a\"; string s3;",
    "dynamic T(int i); process T(int i){ int v; state A; init A; } process U(){ int n; state A; init A; trans A -> A { guard forall (p : T) (p.v > 0); }, "
    "A -> A { guard exists (p : T) (p.A); }, A -> A { assign n = sum (p : T) p.v; }, A -> A { assign foreach (p : T) p.v; }, "
    "A -> A { guard forall (q : Nope) (q.v > 0); }, A -> A { guard exists (p : T) (p.nofield); }; } system U;",
    "int a; void s(){ ++a; --a; a++; a--; a += 1; a <<= 2; a = a <? 3; a = a >? 3; a = (a imply a) ? 1 : 0; } int q = a' ; "
    "process Y(){ state A; init A; trans A -> A { guard Y.A && deadlock; }; } system Y; progress { a : a + 1; a; } "
    "gantt { G : for (i : int[0,1], j : int[0,1]) true -> i, a > 0 -> 2; }",
    "dynamic T(); process T(){ } process U(){ state A; init A; trans A -> A { guard forall (p : T) (forall (i : int[0,1]) p.x); }, "
    "A -> A { guard forall (p : T) (exists (i : int[0,1]) p.x); }; } system U;",
    "int a; void t(int b){ switch (b) { case 1: b++; default: b--; } }",
    "int a; void t2(){ while (true) { break; } }",
    "int a; void t3(){ while (true) { continue; } }",
]
OLD_SNIPPETS = [
    "const N 3; int x; clock c; chan ch; process P(const k; int p){ state A { c <= 3 , x < 2 }, B; commit B; init A; trans A -> B { guard c >= 1, x == 0; sync ch!; assign x := 1, c := 0; }, B -> A { }; } Q := P(1, x); system Q;",
    "int y; process R(){ state A; init A; trans A -> A { guard y > 0; assign y := y - 1; }; } system R;",
]
PART_SNIPPETS = {
    "S_DECLARATION": ["int x; int f(){ return 1; }", "typedef struct { int a; } T; T t;"],
    "S_LOCAL_DECL": ["clock x; int v = 2;"],
    "S_INST": ["P1 = P(1);", "A(int i) = B(i, 2);"],
    "S_SYSTEM": ["system P, Q;", "system P < Q;"],
    "S_PARAMETERS": ["int a, const int b, int &c, clock &x, chan &d, int e[3]"],
    "S_INVARIANT": ["x <= 3", "x <= 3 && y' == 2"],
    "S_EXPONENTIAL_RATE": ["3", "1 : 2"],
    "S_SELECT": ["i : int[0,3], j : int[1,2]"],
    "S_GUARD": ["x > 1 && y < 2"],
    "S_SYNC": ["c!", "c?", "c[1]!"],
    "S_ASSIGN": ["x = 1, y = f(2)"],
    "S_EXPRESSION": ["1 + 2 * (3 - x)", "a ? b : c", "f(1, 2)[3].z", "forall (i : int[0,2]) a[i] > 0"],
    "S_EXPRESSION_LIST": ["1, 2, x"],
    "S_PROPERTY": ["A[] x > 0", "E<> P.A", "x --> y", "Pr[<=10](<> x > 1)", "simulate [<=10] { x, y }", "sup: x", "control: A[] x > 0",
                   "strategy s = control: A[] x > 0", "E[<=10; 20](max: x)", "Pr[<=10](<> x) >= 0.5", "minE(x)[<=10] : <> y",
                   "Pr[<=10](<> x) >= Pr[<=10](<> y)", "Pr[<=10;5](<> x) >= Pr[<=10](<> y)", "simulate [<=10] { x } : x > 2",
                   "simulate [<=10; 3] { x, y } : 5 : x > 2", "saveStrategy(\"f\", s)", "loadStrategy {x} -> {y} (\"f\")",
                   "maxPr[<=10] : <> x", "scenario: Obs", "control_t*(1,2): A<> x", "control_t*(1): A<> x", "control_t*: A<> x",
                   "E<> control: A[] x", "{x} control: A[] y", "Pr (x U[1,2] y)", "Pr (x R[1,2] y)", "Pr (<>[1,2] x)", "Pr ([][1,2] x)",
                   "Pr (()x)", "E[<=10](min: x)", "E[<=10](foo: x)", "A[] x.location", "inf{x > 1}: y", "bounds: x, y",
                   "A[] (x && A<> y)", "A[x U y]", "A[x W y]", "E[] x", "control: A[] x subject s", "x --> y subject s",
                   "Pr[#<=10](<> x)", "Pr[x<=10](<> x)", "Pr[<=10]([] x) <= 0.1", "Pr[<=10](x U y)",
                   "A[] not deadlock", "E<> numOf(P) > 0", "E<> foreach (p : P) p.A", "sat: Obs", "Pr ((X x))",
                   "maxE(x)[<=10] : <> y under s imitate s", "A[] forall (p : P) (p.A)", "E<> exists (p : P) (p.B)", "E<> sum (p : P) x > 1"],
    "S_XTA_PROCESS": ["process P(){ state A; init A; }"],
    "S_PROBABILITY": ["3"],
    "S_INSTANCE_LINE": ["I", "I(1, 2)"],
    "S_MESSAGE": ["c"],
    "S_UPDATE": ["x = 1"],
    "S_CONDITION": ["x > 1"],
}
JUNK = ["(", ")", "{", "}", "[", "]", ";", ",", ":", "x", "int", "1", "if", "=", "->", "+"]


def tokenize(s):
    return re.findall(r"[A-Za-z_][A-Za-z_0-9]*|\d+\.\d+|\d+|->|u->|-->|:=|<=|>=|==|!=|&&|\|\||<<|>>|\+\+|--|\S", s)


def mutations(text, rng, limit):
    """token deletion / duplication / junk insertion at (a deterministic sample of) the token positions"""
    toks = tokenize(text)
    out = []
    pos = list(range(len(toks)))
    if len(pos) * 3 > limit:
        pos = sorted(rng.sample(pos, max(1, limit // 3)))
    for i in pos:
        out.append(" ".join(toks[:i] + toks[i + 1:]))
        out.append(" ".join(toks[:i] + [toks[i]] + toks[i:]))
        out.append(" ".join(toks[:i] + [rng.choice(JUNK)] + toks[i:]))
    return out


def trace_ops(ctx):
    rng = ctx.rng
    ops = []   # (mode, newxta, text, family)
    models = os.path.join(core.REPO, "test", "models")
    for f in sorted(os.listdir(models)) if os.path.isdir(models) else []:
        if f.endswith(".xml"):
            txt = open(os.path.join(models, f), errors="replace").read()
            ops.append(("xml", 1, txt, "seed-xml"))
    lim = 60 if not ctx.thorough else 400
    for s in XTA_SNIPPETS:
        full = s if "system" in s else s + " process Z(){ state A; init A; } system Z;"
        ops.append(("xta", 1, full, "snippet"))
        for m in mutations(full, rng, lim):
            ops.append(("xta", 1, m, "snippet-mut"))
    for s in OLD_SNIPPETS:
        ops.append(("xta", 0, s, "old-snippet"))
        for m in mutations(s, rng, lim):
            ops.append(("xta", 0, m, "old-snippet-mut"))
    for part, lst in sorted(PART_SNIPPETS.items()):
        if part == "S_SELECT":
            continue   # on a fresh builder proc_select has no edge: that crash is found and keyed by the stream (part B)
        for s in lst:
            for nx in (1, 0):
                mode = "prop" if part == "S_PROPERTY" else "part:%d" % PARTS[part]
                ops.append((mode, nx, s, "part"))
                for m in mutations(s, rng, 30 if not ctx.thorough else 200):
                    ops.append((mode, nx, m, "part-mut"))
    model = ("int x, y; clock c; bool b; chan ch; process P(){ state A, B; init A; trans A -> B { guard x > 0; }; } "
             "process Obs(){ state A; init A; } system P, Obs;")
    for s in PART_SNIPPETS["S_PROPERTY"] + ["strategy s = control: A[] undeclared_variable", "strategy s = control: A[] x > 0\nA<> y > 0 under s",
                                            "strategy t = minE(x)[<=10] : <> y > 1", "E<> x > 0 under nosuch"]:
        ops.append(("tiga", 1, model + "\x02" + s, "tiga"))
        for m in mutations(s, rng, 30 if not ctx.thorough else 200):
            ops.append(("tiga", 1, model + "\x02" + m, "tiga-mut"))
    return ops


def variant_of(name, arity, args, spec_variants):
    """harness record -> (callback variant of Gen/Grammar.lean, count value) or None if the grammar never calls it"""
    spec = grammar.SPEC.get(name, {})
    variant = name
    for fi in spec.get("flags", []):
        if fi < len(args) and args[fi] != "_":
            v = int(args[fi])
            if name == "expr_optimize_exp":
                variant += "_" + {0: "TIMEPRICE", 1: "EXPRPRICE", 2: "PROBAPRICE"}.get(v, "?")
            elif name == "expr_simulate":
                variant += "_true" if v else "_dflt"
            else:
                variant += "_true" if v else "_false"
        else:
            variant += "_dflt"
    n = 0
    if spec.get("count") is not None and spec["count"] < len(args) and args[spec["count"]] != "_":
        n = int(args[spec["count"]])
    if variant not in spec_variants:
        return None
    return variant, n


def trace_exe(b):
    incdir, _ = core.regen_kinds()
    core.write_if_changed(os.path.join(incdir, "c01_trace_gen.inc"), grammar_trace.inc_text(core.REPO))
    core.write_if_changed(os.path.join(incdir, "c01_trace_fwd.inc"), grammar_trace.fwd_text(core.REPO))
    return core.build_harness(b, "c01_trace", ["c01_trace.cpp"])


def run_traces(ctx, b, cbs, cov):
    exe = trace_exe(b)
    ops = trace_ops(ctx)
    chunks = [ops[i::core.NCPU] for i in range(core.NCPU)]
    from concurrent.futures import ThreadPoolExecutor

    def work(chunk):
        inp = "".join("%s %d %s\n" % (m, nx, base64.b64encode(t.encode("utf-8", "replace")).decode()) for m, nx, t, _ in chunk)
        rc, out, err, dt = core.run_exe(exe, [], stdin_text=inp, timeout=900)
        return chunk, rc, out, err

    t0 = time.time()
    with ThreadPoolExecutor(core.NCPU) as ex:
        results = list(ex.map(work, chunks))
    # parse harness output; overloaded names are told apart by arity (the grammar uses the short overloads)
    overloaded_long = {("proc_message", 4), ("proc_condition", 4), ("proc_LSC_update", 3)}
    spec_variants = set(cbs)
    lines, meta = [], []      # driver lines, (op, record)
    died, ends = [], {}
    seen, thrown_seen, unknown, escaped = {}, {}, {}, {}
    ncalls = 0
    for chunk, rc, out, err in results:
        if rc != 0:
            ctx.finding("trace-harness:died", "harness/c01_trace died rc=%s" % rc, {"stderr": err[-3000:]})
            continue
        blocks = out.split("OP ")[1:]
        for blk in blocks:
            ls = blk.split("\n")
            idx = int(ls[0])
            op = chunk[idx]
            last_call = None
            for l in ls[1:]:
                if l.startswith("C "):
                    head, _, tail = l.partition(" | ")
                    hw = head.split()
                    name, arity, args = hw[1], int(hw[2]), hw[3:]
                    last_call = name
                    tw = tail.split()
                    if len(tw) != 19:
                        continue      # truncated: the callback never returned
                    ncalls += 1
                    if (name, arity) in overloaded_long:
                        continue
                    va = variant_of(name, arity, args, spec_variants)
                    if va is None:
                        unknown[name] = unknown.get(name, 0) + 1
                        continue
                    variant, n = va
                    outcome = int(tw[0])
                    if outcome == 2:
                        escaped[variant] = escaped.get(variant, 0) + 1
                        continue      # a non-TypeException escaped: the parse is over
                    seen[variant] = seen.get(variant, 0) + 1
                    if outcome == 1:
                        thrown_seen[variant] = thrown_seen.get(variant, 0) + 1
                    lines.append("T %s %d %d %s" % (variant, n, outcome, " ".join(tw[1:])))
                    meta.append((op, l))
                elif l.startswith("Q "):
                    head, _, tail = l.partition(" | ")
                    hw = head.split()
                    name, arity, args = hw[1], int(hw[2]), hw[3:]
                    last_call = name
                    tw = tail.split()
                    if len(tw) != 5:
                        continue
                    ncalls += 1
                    if (name, arity) in overloaded_long:
                        continue
                    va = variant_of(name, arity, args, spec_variants)
                    if va is None:
                        unknown[name] = unknown.get(name, 0) + 1
                        continue
                    variant, n = va
                    if int(tw[0]) == 2:
                        escaped[variant] = escaped.get(variant, 0) + 1
                        continue
                    seen[variant] = seen.get(variant, 0) + 1
                    if int(tw[0]) == 1:
                        thrown_seen[variant] = thrown_seen.get(variant, 0) + 1
                    lines.append("Q %s %d %s" % (variant, n, " ".join(tw)))
                    meta.append((op, l))
                elif l.startswith("END"):
                    ends[l.split()[1].split(":")[0].split("=")[0]] = ends.get(l.split()[1].split(":")[0].split("=")[0], 0) + 1
                    if "DIED" in l:
                        died.append((op, last_call, l))
    cov["trace_ops"] = len(ops)
    cov["trace_calls_total"] = ncalls
    cov["trace_harness_s"] = round(time.time() - t0, 1)
    # predicted vs observed
    rc2, out2, err2, dt2 = core.run_exe(core.lean_exe("drv_c01"), [], stdin_text="\n".join(lines) + "\n", timeout=900)
    res = out2.split("\n")
    mism = [(meta[i], res[i]) for i in range(len(lines)) if i >= len(res) or res[i] != "ok"]
    cov["traces_validated_against_impl"] = len(lines)
    cov["correspondence_cases"] = len(lines)
    cov["correspondence_disagreements"] = len([m for m in mism if "needs" not in m[1]])
    cov["traced_calls_below_model_need"] = len([m for m in mism if "needs" in m[1]])
    cov["callback_variants_exercised"] = "%d of %d" % (len(seen), len([c for c in cbs if not c.startswith("ps_")]))
    cov["callback_variants_never_traced"] = sorted(c for c in cbs if not c.startswith("ps_") and c not in seen and c not in escaped)
    cov["callback_variants_thrown"] = dict(sorted(thrown_seen.items()))
    cov["callback_variants_left_by_other_exception"] = dict(sorted(escaped.items()))
    cov["callbacks_outside_grammar_skipped"] = dict(sorted(unknown.items()))
    cov["trace_op_results"] = ends
    fam = {}
    for _, _, _, f in ops:
        fam[f] = fam.get(f, 0) + 1
    cov["trace_input_families"] = fam
    cov["samples"] = [{"input": meta[i][0][2][:120], "record": meta[i][1], "model": res[i]} for i in
                      (0, len(lines) // 2, len(lines) - 1) if lines]
    return mism, died, rc2, err2


def need_tie(ctx, eff, cbs, cov):
    """literal stack indices in the C++ callback bodies must not exceed the `need` column of the effect table"""
    scan = grammar.source_need_scan(core.REPO)
    bad, checked = [], 0
    for variant in cbs:
        if variant.startswith("ps_") or variant not in eff:
            continue
        base = variant
        while base not in scan and "_" in base:
            base = base.rsplit("_", 1)[0]
        if base not in scan:
            continue
        sc = scan[base]
        row = eff[variant]
        checked += 1
        fneed = row[0]["need0"]
        tneed = row[1]["need0"]
        # flag variants share one body: the body's maximum belongs to the largest variant
        siblings = [v for v in cbs if v != variant and v.startswith(base + "_")] if base != variant else []
        if base != variant:
            fmax = max([eff[v][0]["need0"] for v in [variant] + [s for s in cbs if s.startswith(base + "_")] if v in eff])
            if sc["F"] > fmax:
                bad.append((variant, "F", sc["F"], fmax))
            continue
        if sc["F"] > fneed and not row[0]["needN"]:
            bad.append((variant, "F", sc["F"], fneed))
        if sc["T"] > tneed:
            bad.append((variant, "T", sc["T"], tneed))
    cov["need_column_rows_cross_checked_against_source"] = checked
    return bad


def confirm_witness(ctx, b, key, exe_trace, stream_mod):
    mode, nx, text, last_cb, why = WITNESS[key]
    if mode == "tiga":
        # the real (final) TigaPropertyBuilder behind a forwarding tracer: the callback must run with an empty `properties`
        model = "int x; process P(){ state A; init A; } system P;"
        inp = "tiga 1 %s\n" % base64.b64encode((model + "\x02" + text).encode()).decode()
        rc, out, err, dt = core.run_exe(exe_trace, [], stdin_text=inp, timeout=120)
        ql = [l for l in out.split("\n") if l.startswith("Q " + last_cb + " ")]
        ok = bool(ql) and ql[-1].partition(" | ")[2].split()[2:3] == ["0"]
        return ok, {"record": ql[-1:] , "end": [l for l in out.split("\n") if l.startswith("END")][:1],
                    "note": "std::list::back() on an empty list is undefined behaviour; no sanitizer reports it"}
    inp = "%s %d %s\n" % (mode, nx, base64.b64encode(text.encode()).decode())
    rc, out, err, dt = core.run_exe(exe_trace, [], stdin_text=inp, timeout=120)
    calls = [l for l in out.split("\n") if l.startswith("C ")]
    diedl = [l for l in out.split("\n") if l.startswith("END DIED")]
    ok = bool(diedl) and bool(calls) and calls[-1].split()[1] == last_cb and len(calls[-1].partition(" | ")[2].split()) != 9
    return ok, {"last_callback": calls[-1] if calls else None, "end": diedl[:1], "stderr": err[-1500:]}


def search_witness(ctx, exe_trace, prod_key, cbs):
    """grammar-directed search for a failing input of the real library for a production that fails the obligation"""
    try:
        cands = grammar.witness_sentences(core.REPO, prod_key, limit=16)
    except Exception as ex:  # noqa
        ctx.notes.append("witness search failed for %s: %r" % (prod_key, ex))
        return None
    ops = []
    for mode, nx, text in cands:
        if mode.startswith("part:") and nx:
            ops.append(("pre:" + mode[5:], nx, "\x02" + text))      # builtin declarations first (typedef names)
        ops.append((mode, nx, text))
    if not ops:
        return None
    inp = "".join("%s %d %s\n" % (m, nx, base64.b64encode(t.encode()).decode()) for m, nx, t in ops)
    rc, out, err, dt = core.run_exe(exe_trace, [], stdin_text=inp, timeout=300)
    spec_variants = set(cbs)
    for blk in out.split("OP ")[1:]:
        ls = blk.split("\n")
        op = ops[int(ls[0])]
        calls = [l for l in ls if l.startswith("C ")]
        if any(l.startswith("END DIED") for l in ls):
            return {"mode": op[0], "newxta": op[1], "input_text": op[2], "witness": op[2],
                    "observed": "died inside callback %s" % (calls[-1].split()[1] if calls else "?")}
        lines = []
        for l in calls:
            head, _, tail = l.partition(" | ")
            hw, tw = head.split(), tail.split()
            if len(tw) != 19 or int(tw[0]) == 2:
                continue
            va = variant_of(hw[1], int(hw[2]), hw[3:], spec_variants)
            if va:
                lines.append(("T %s %d %s" % (va[0], va[1], " ".join(tw)), l))
        if lines:
            rc2, out2, err2, _ = core.run_exe(core.lean_exe("drv_c01"), [], stdin_text="\n".join(x[0] for x in lines) + "\n")
            for (tl, raw), res in zip(lines, out2.split("\n")):
                if res.startswith("MISMATCH") and "needs" in res:
                    return {"mode": op[0], "newxta": op[1], "input_text": op[2], "witness": op[2],
                            "observed": "callback ran below its operands: %s (%s)" % (raw, res)}
    return None


def run(ctx):
    cov = ctx.coverage
    for f in os.listdir(os.path.join(core.VERIF, "replays")):     # replays of earlier runs of this check are stale
        if f.startswith("C01-"):
            os.remove(os.path.join(core.VERIF, "replays", f))
    cov["claim"] = "partial: stack-discipline theorem (proof) + sanitizer stream (testing)"
    b = core.build_repo("asan")
    try:
        if os.environ.get("C01_NO_STREAM"):
            raise ImportError("disabled by C01_NO_STREAM (development only)")
        import checks.c01_stream as stream_mod
    except Exception as ex:  # noqa
        stream_mod = None
        ctx.notes.append("part B module not importable: %r" % ex)
        if not os.environ.get("C01_NO_STREAM"):
            ctx.proof_broken("checks/c01_stream.py", "the sanitizer stream (part B) could not be loaded: %r" % ex, "no input was run")
    # 1 translate -----------------------------------------------------------------------------------------------
    try:
        text, info = grammar.translate(core.REPO, core.VERIF)
        core.write_if_changed(GEN, text)
        cbs = info["callback_list"]
        for k in ("nonterminals", "productions", "error_productions", "callbacks", "callback_variants", "error_states",
                  "virtual_nonterminals", "virtual_productions", "action_statements", "bison_rules", "bison_states"):
            cov["grammar_" + k] = info[k]
    except (grammar.TranslateError, grammar_trace.TranslateError) as ex:
        ctx.log("translator failed:", ex)
        found = False
        if stream_mod is not None:
            before = len(ctx.violations)
            cov["stream"] = stream_mod.run_stream(ctx, b)
            found = len(ctx.violations) > before
        if not found:
            ctx.proof_broken("translate/grammar.py", str(ex), "sanitizer stream found no failing input")
        cov.update({"obligations": len(core.theorems_of(MODULE)), "discharged": 0, "checker_cmd": "n/a (translation failed)",
                    "trusted_base": core.TRUSTED_BASE})
        return
    ctx.log("translated parser.y: %d productions, %d error states, %d callback variants" % (info["productions"], info["error_states"], len(cbs)))
    # 2 need column vs source -------------------------------------------------------------------------------------
    eff = grammar.load_effects(core.VERIF)
    missing_rows = [c for c in cbs if c not in eff]
    bad_need = need_tie(ctx, eff, cbs, cov)
    # 3 prove -----------------------------------------------------------------------------------------------------
    ok, log = ctx.prove(MODULE, ["drv_c01"])
    broken = []
    if not ok:
        broken = core.failing_theorems(log)
        ctx.log("proof broken:", broken or log[-1500:])
    ctx.log("lean: %s (%d theorems)" % ("ok" if ok else "BROKEN", cov.get("obligations", 0)))
    have_drv = os.path.exists(core.lean_exe("drv_c01"))
    if not ok:
        ok2, _ = core.lake_build(["drv_c01"])
        have_drv = ok2
    # 4 exception set ---------------------------------------------------------------------------------------------
    exc = []
    if have_drv:
        rc, out, err, _ = core.run_exe(core.lean_exe("drv_c01"), [], stdin_text="exceptions\nwf\n")
        for l in out.split("\n"):
            if l.startswith("EXC "):
                w = l.split()
                exc.append((w[1], w[2], l))
            if l.startswith("BADROW"):
                ctx.proof_broken("effect_wf", l, "n/a")
    cov["exceptions"] = ["%s/%s" % (k, s) for k, s, _ in exc]
    exe_trace = trace_exe(b)
    unexplained = []
    for k, s, l in exc:
        key = "stack:%s:%s" % (k, s)
        if (k, s) in WITNESS:
            okw, detail = confirm_witness(ctx, b, (k, s), exe_trace, stream_mod)
            mode, nx, text, last_cb, why = WITNESS[(k, s)]
            if okw:
                ctx.finding(key, "%s -- witness %r crashes the real library in %s" % (why, text.split("\n")[0], last_cb),
                            {"kind": "grammar-exception", "production": k, "stack": s, "witness": text, "mode": mode, "newxta": nx,
                             "observed": detail})
            elif okw is None:
                ctx.notes.append("witness of %s not replayed: %s" % (key, detail))
                ctx.finding(key, why + " (witness not replayed: %s)" % detail, {"production": k, "stack": s, "witness": text})
            else:
                # the model flags the production but the witness no longer crashes: the model (or the witness) is off
                ctx.proof_broken("witness:" + key, "witness %r does not crash the real library: %r" % (text, detail), "witness replay")
        else:
            unexplained.append((k, s, l))
    ctx.log("exception set: %s" % ", ".join(cov["exceptions"]))
    # 5 trace correspondence ----------------------------------------------------------------------------------------
    mism, died = [], []
    if have_drv:
        mism, died, rc2, err2 = run_traces(ctx, b, cbs, cov)
        if rc2 != 0:
            ctx.proof_broken("drv_c01", err2[-2000:], "driver died")
    ctx.log("traces: %d ops, %d calls compared, %d disagreements, %d ops died" % (
        cov.get("trace_ops", 0), cov.get("correspondence_cases", 0), cov.get("correspondence_disagreements", 0), len(died)))
    scan_cls = {k: v.get("cls", "DocumentBuilder") for k, v in grammar.source_need_scan(core.REPO).items() if not k.startswith("@")}
    # crashes seen while tracing: hand them to the stream module so that one crash has one key, whoever finds it
    PARTNAME = {v: k for k, v in PARTS.items()}
    groups = {}
    for op, last_call, l in died:
        groups.setdefault(last_call, []).append((op, l))
    for last_call, lst in sorted(groups.items(), key=lambda kv: str(kv[0])):
        lst.sort(key=lambda x: (len(x[0][2]), x[0][2]))
        key = {"if_end": "stack:IfCondition#2:fragments", "type_array_of_type": "stack:ArrayDecl2#3:types"}.get(last_call)
        reported = False
        if stream_mod is not None:
            items = []
            for op, l in lst[:3]:
                mode, nx, text = op[0], op[1], op[2]
                ent = {"xta": ("parse_XTA", None), "xml": ("parse_XML_buffer", None), "prop": ("parseProperty", None)}.get(mode)
                if mode.startswith("part:"):
                    ent = ("parse_XTA_part", PARTNAME.get(int(mode[5:])))
                if ent is None:
                    continue
                items.append({"entry": ent[0], "part": ent[1], "newxta": bool(nx), "builder": "doc", "input_text": text,
                              "family": "trace:" + op[3]})
            if items:
                try:
                    res = stream_mod.triage_inputs(ctx, b, items)
                    reported = any(k for k, _ in res)
                except Exception as ex:  # noqa
                    ctx.notes.append("triage_inputs failed: %r" % ex)
        if not reported:
            op, l = lst[0]
            if key is None:
                key = "crash:%s::%s" % (scan_cls.get(last_call, "DocumentBuilder"), last_call) if last_call else "crash:before-first-callback"
            ctx.finding(key, "real library died inside callback %s while tracing (%s)" % (last_call, l.strip()),
                        {"mode": op[0], "newxta": op[1], "input_text": op[2], "family": op[3]})
    cov["trace_ops_died"] = len(died)
    ctx.log("died ops triaged")
    # 6 part B: sanitizer stream ---------------------------------------------------------------------------------------
    before = len(ctx.violations)
    if stream_mod is not None:
        t0 = time.time()
        cov["stream"] = stream_mod.run_stream(ctx, b)
        cov["stream_wall_s"] = round(time.time() - t0, 1)
    else:
        cov["stream"] = "not run"
    stream_found = len(ctx.violations) > before
    # classify what is left -----------------------------------------------------------------------------------------
    if mism:
        (op, rec), res = mism[0]
        what = "effect table disagrees with the real library on %d of %d traced calls; first: %s on %r => %s" % (
            len(mism), cov.get("correspondence_cases", 0), rec, op[2][:200], res)
        needs = [m for m in mism if "needs" in m[1]]
        others = [m for m in mism if "needs" not in m[1]]
        seen_keys = set()
        for (op, rec), res in needs:
            # the real library executed a callback with fewer entries than the model requires: a concrete failing input
            cb = rec.split()[1]
            key = "stack:StrategyAssignment#1:properties" if (cb == "strategy_declaration" and "properties" in res) else "underflow:" + cb
            if key in seen_keys:
                continue
            seen_keys.add(key)
            ctx.finding(key, "callback ran below its operands on the real library: %s (%s)" % (rec, res),
                        {"mode": op[0], "newxta": op[1], "input_text": op[2]})
        if others:
            (op, rec), res = others[0]
            what = "effect table disagrees with the real library on %d of %d traced calls; first: %s on %r => %s" % (
                len(others), cov.get("correspondence_cases", 0), rec, op[2][:200], res)
            ctx.proof_broken("correspondence:effect-table", what, "%d traced calls" % cov.get("correspondence_cases", 0))
    for k, s, l in unexplained:
        key = "stack:%s:%s" % (k, s)
        # search: shortest inputs that drive the real parser through this production (grammar-directed)
        wit = search_witness(ctx, exe_trace, k, cbs) if have_drv else None
        if wit is not None:
            ctx.finding(key, "production fails the stack-discipline obligation (%s); on the real library: %s" % (l, wit["observed"]),
                        dict(wit, production=k, stack=s, kind="grammar-exception"))
            continue
        if stream_found or died:
            ctx.notes.append("new exception %s reported next to a concrete failing input" % key)
        ctx.finding(key, "production fails the stack-discipline obligation: " + l, {"production": k, "stack": s, "driver_line": l},
                    no_input=not (stream_found or died))
    if missing_rows:
        ctx.proof_broken("effect-table:missing-row", "callbacks without a row: %r" % missing_rows, "n/a")
    for v, st, src, tab in bad_need:
        ctx.proof_broken("effect-table:need:%s" % v, "source uses %s index depth %d, table says need %d" % (st, src, tab),
                         "stream: %s" % ("failing input found" if stream_found else "no failing input"))
    if not ok:
        for path, thm, msg in (broken or [("?", "lake build", log[-300:])]):
            if (thm == "utap_exceptions_known" or thm.startswith("pinned_")) and (unexplained or exc):
                if not unexplained:
                    continue
                # the new exceptions were reported above (with or without input)
                continue
            ctx.proof_broken(thm, msg + "\n" + log[-1500:], "stream: %s" % ("failing input found" if stream_found else "no failing input"))
    ctx.assumptions += [
        "PARTIAL: the theorem is about the model of the builder stacks (heights only), not about the C++ text; the types of "
        "the entries, the statement lists of blocks, currentFun/blocks and the pointer states are not modelled",
        "derivations range over all trees of the production table with abandoned material taken from the kernel items of "
        "the LALR states that shift `error` (bison -x); bison's implementation of error recovery itself is trusted",
        "the `need` column of the effect table is our reading of the C++ (literal indices cross-checked against the source); "
        "the delta columns are validated on every traced call",
        "memory safety of flex/bison tables, libxml2, heap, recursion depth and time are TESTED (sanitizer stream), not proved",
        "asserts are compiled out (RelWithDebInfo = -DNDEBUG); _GLIBCXX_ASSERTIONS is on in the sanitizer build",
    ]
    cov["evaluations"] = cov.get("correspondence_cases", 0) + (cov["stream"].get("inputs", 0) if isinstance(cov.get("stream"), dict) else 0)
    cov["distinct_nontrivial"] = cov.get("traces_validated_against_impl", 0)
    cov["rule"] = "every production x stack checked by lbProd (kernel); every traced call: observed sizes = predicted"


def replay(ctx, path):
    r = json.load(open(path))
    print(json.dumps(r, indent=1)[:4000])
    rp = r.get("replay", {})
    b = core.build_repo("asan")
    if "entry" in rp and "mode" not in rp:
        import checks.c01_stream as stream_mod
        return stream_mod.replay_one(ctx, b, rp)
    if rp.get("kind") == "grammar-exception" or "mode" in rp:
        exe = trace_exe(b)
        text = rp.get("witness") or rp.get("input_text") or ""
        mode = rp.get("mode", "xta")
        if mode == "tiga":
            import checks.c01_stream as stream_mod
            return stream_mod.replay_one(ctx, b, {"entry": "parseProperty", "newxta": True, "builder": "tiga", "part": "S_PROPERTY",
                                                   "input_b64": base64.b64encode(text.encode()).decode()})
        inp = "%s %d %s\n" % (mode, int(rp.get("newxta", 1)), base64.b64encode(text.encode()).decode())
        rc, out, err, dt = core.run_exe(exe, [], stdin_text=inp, timeout=120)
        print(out[-1500:])
        print(err[-2500:])
        return 1 if "END DIED" in out else 0
    if "entry" in rp or "input_b64" in rp or rp.get("kind") == "superlinear":
        import checks.c01_stream as stream_mod
        return stream_mod.replay_one(ctx, b, rp)
    print("nothing to replay (proof/translation break): see `error`")
    return 1
