/-
M-LEX (line accounting part) — how `src/lexer.l` advances `UTAP::tracker` and when it tells it about newlines.

The rule table itself (`Gen/LexRules.lean`) is regenerated from lexer.l on every run by `translate/lexer_lines.py`:
each rule is (start condition, pattern kind, argument of the `tracker.newline` call in its action, `BEGIN` target,
error reported by the action).  This file gives the rules their meaning:

  * `matchLen`   — longest match of one pattern at the start of the remaining input (bytes are `Char`s 0..255);
  * `lexStep`    — flex's choice: longest match over the rules of the current start condition, first rule on ties;
  * `lexAll`     — the lexeme sequence of a whole text (what YY_USER_ACTION sees, trivia included);
  * `runLexemes` — YY_USER_ACTION (`tracker.increment(ch, yyleng)`) followed by the action's `tracker.newline(ch, n)`,
                   with `position_index_t::add`'s monotonicity check, uint32 wrap-around included.

Core Lean only.
-/
import UtapModel.Model.Pos

namespace UtapModel.LexLines
open UtapModel.Pos

inductive Mode where
  | initial
  | comment
  deriving Repr, DecidableEq, Inhabited

/-- pattern kinds of lexer.l (every rule of the file is one of these; the translator fails on anything else) -/
inductive Pat where
  | lit (s : List Char)   -- "literal"
  | contin                -- "\\"[\t ]*"\n"
  | lineComment           -- "//"[^\n]*
  | blanks                -- [ \t]+
  | nls                   -- \n+
  | crlfs                 -- (\r\n)+
  | ident                 -- {alpha}{idchr}*
  | num                   -- {num}
  | float                 -- {num}("."{num})?([eE]("+"|"-")?{num})?
  | any                   -- .
  | str                   -- \"[^\"]+\"
  | nl1                   -- \n
  | expect                -- "EXPECT:"[^\t \n]*
  | expect2               -- "EXPECT:"([^\t \n*]|"*"+[^\t \n*/])*   (the value stops before a closing `*/`)
  | eof                   -- <<EOF>>
  deriving Repr, DecidableEq, Inhabited

/-- the argument of `tracker.newline(ch, ·)` in a rule's action -/
inductive NlArg where
  | none          -- no call
  | one           -- 1
  | yyleng        -- yyleng
  | yylengHalf    -- yyleng / 2
  deriving Repr, DecidableEq, Inhabited

/-- errors a rule's action reports through `utap_error` / `yyerror` -/
inductive LexErr where
  | none
  | always (msg : String)         -- unconditionally
  | unlessOld (msg : String)      -- `if (syntax & OLD) return …;` first
  | overflow (msg : String)       -- the `{num}` rule's range check
  deriving Repr, DecidableEq, Inhabited

structure Rule where
  mode : Mode
  pat : Pat
  nl : NlArg
  begin : Option Mode
  err : LexErr
  deriving Repr, DecidableEq, Inhabited

def isAlpha (c : Char) : Bool := (c.toNat ≥ 97 && c.toNat ≤ 122) || (c.toNat ≥ 65 && c.toNat ≤ 90) || c == '_'
def isDigit (c : Char) : Bool := c.toNat ≥ 48 && c.toNat ≤ 57
def isIdChr (c : Char) : Bool := isAlpha c || isDigit c || c == '$' || c == '#'

/-- length of the longest prefix all of whose characters satisfy `p` -/
def spanLen (p : Char → Bool) : List Char → Nat
  | [] => 0
  | c :: cs => if p c then spanLen p cs + 1 else 0

def isBlank (c : Char) : Bool := c == '\t' || c == ' '

/-- number of leading "\r\n" pairs -/
def crlfPairs : List Char → Nat
  | a :: b :: cs => if a == '\r' && b == '\n' then crlfPairs cs + 1 else 0
  | _ => 0

def isPrefix : List Char → List Char → Bool
  | [], _ => true
  | _ :: _, [] => false
  | a :: as, b :: bs => a == b && isPrefix as bs

/-- index of the first `"` in the list, if any -/
def findQuote : List Char → Option Nat
  | [] => none
  | c :: cs => if c == '"' then some 0 else (findQuote cs).map (· + 1)

/-- `("."{num})?` -/
def fracLen : List Char → Nat
  | c :: r => if c == '.' then (if spanLen isDigit r = 0 then 0 else spanLen isDigit r + 1) else 0
  | [] => 0

/-- `([eE]("+"|"-")?{num})?` -/
def expLen : List Char → Nat
  | e :: r3 =>
    if e == 'e' || e == 'E' then
      match r3 with
      | s :: r4 =>
        if s == '+' || s == '-' then (if spanLen isDigit r4 = 0 then 0 else spanLen isDigit r4 + 2)
        else (if spanLen isDigit r3 = 0 then 0 else spanLen isDigit r3 + 1)
      | [] => 0
    else 0
  | [] => 0

/-- `{num}("."{num})?([eE]("+"|"-")?{num})?` -/
def floatLen (t : List Char) : Nat :=
  if spanLen isDigit t = 0 then 0
  else spanLen isDigit t + fracLen (t.drop (spanLen isDigit t)) +
    expLen (t.drop (spanLen isDigit t + fracLen (t.drop (spanLen isDigit t))))

/-- `"\\"[\t ]*"\n"` -/
def continLen : List Char → Nat
  | c :: r =>
    if c == '\\' then
      match r.drop (spanLen isBlank r) with
      | n :: _ => if n == '\n' then spanLen isBlank r + 2 else 0
      | [] => 0
    else 0
  | [] => 0

/-- `"//"[^\n]*` -/
def lineCommentLen : List Char → Nat
  | a :: b :: r => if a == '/' && b == '/' then spanLen (· != '\n') r + 2 else 0
  | _ => 0

/-- `{alpha}{idchr}*` -/
def identLen : List Char → Nat
  | c :: r => if isAlpha c then spanLen isIdChr r + 1 else 0
  | [] => 0

/-- `.` -/
def anyLen : List Char → Nat
  | c :: _ => if c != '\n' then 1 else 0
  | [] => 0

/-- `\"[^\"]+\"`: `[^\"]+` cannot cross a quote, so the closing quote is the next one -/
def strLen : List Char → Nat
  | c :: r =>
    if c == '"' then
      match findQuote r with
      | some i => if i = 0 then 0 else i + 2
      | none => 0
    else 0
  | [] => 0

/-- `\n` -/
def nl1Len : List Char → Nat
  | c :: _ => if c == '\n' then 1 else 0
  | [] => 0

/-- `"EXPECT:"[^\t \n]*` -/
def expectLen (t : List Char) : Nat :=
  if isPrefix "EXPECT:".toList t then 7 + spanLen (fun c => !(c == '\t' || c == ' ' || c == '\n')) (t.drop 7) else 0

/-- after a `*` inside an EXPECT value: the run of stars is followed by a character that is neither blank, newline nor `/` -/
def starOk : List Char → Bool
  | [] => false
  | d :: r => if d == '*' then starOk r else !(d == '\t' || d == ' ' || d == '\n' || d == '/')

/-- longest match of `([^\t \n*]|"*"+[^\t \n*/])*`: both alternatives are deterministic in their first character, and a run of
    stars can only be consumed as a whole together with the character after it, so the match is decided character by character -/
def expect2Tail : List Char → Nat
  | [] => 0
  | c :: r =>
    if c == '\t' || c == ' ' || c == '\n' then 0
    else if c == '*' then (if starOk r then expect2Tail r + 1 else 0)
    else expect2Tail r + 1

/-- `"EXPECT:"([^\t \n*]|"*"+[^\t \n*/])*` -/
def expect2Len (t : List Char) : Nat :=
  if isPrefix "EXPECT:".toList t then 7 + expect2Tail (t.drop 7) else 0

/-- longest match of a pattern at the start of `t` (0 = no match; `eof` never matches text) -/
def matchLen : Pat → List Char → Nat
  | .lit s, t => if isPrefix s t then s.length else 0
  | .contin, t => continLen t
  | .lineComment, t => lineCommentLen t
  | .blanks, t => spanLen isBlank t
  | .nls, t => spanLen (· == '\n') t
  | .crlfs, t => 2 * crlfPairs t
  | .ident, t => identLen t
  | .num, t => spanLen isDigit t
  | .float, t => floatLen t
  | .any, t => anyLen t
  | .str, t => strLen t
  | .nl1, t => nl1Len t
  | .expect, t => expectLen t
  | .expect2, t => expect2Len t
  | .eof, _ => 0

/-- flex: the longest match among the rules of the start condition; the first rule wins ties -/
def bestRule (rules : List Rule) (mode : Mode) (t : List Char) : Option (Rule × Nat) :=
  rules.foldl (fun best r =>
    if r.mode == mode then
      let n := matchLen r.pat t
      match best with
      | none => if n > 0 then some (r, n) else none
      | some (_, m) => if n > m then some (r, n) else best
    else best) none

/-- one matched lexeme: its text, the value passed to `tracker.newline` (0 = no call), the rule that matched -/
structure Lexeme where
  chars : List Char
  nl : Nat
  rule : Rule
  deriving Repr, Inhabited, DecidableEq

def nlValue (a : NlArg) (yyleng : Nat) : Nat :=
  match a with
  | .none => 0
  | .one => 1
  | .yyleng => yyleng
  | .yylengHalf => yyleng / 2

/-- start condition after a rule's action -/
def modeAfter (r : Rule) (m : Mode) : Mode := r.begin.getD m

/-- The lexeme sequence of `t` from start condition `mode`, and the start condition in which the scanner stops
    (`fuel` bounds the number of lexemes; `lexAll` supplies enough).
    At the end of the text the `<<EOF>>` rule of the current start condition runs (its `BEGIN` is applied).
    A position where no rule matches ("scanner jammed") stops the model. -/
def lexAllF (rules : List Rule) : Nat → Mode → List Char → List Lexeme × Mode
  | 0, mode, _ => ([], mode)
  | _ + 1, mode, [] =>
    match rules.find? (fun r => r.mode == mode && r.pat == .eof) with
    | some r => ([], modeAfter r mode)
    | none => ([], mode)
  | fuel + 1, mode, c :: cs =>
    match bestRule rules mode (c :: cs) with
    | none => ([], mode)
    | some (r, n) =>
      if n = 0 then ([], mode) else
      let rest := lexAllF rules fuel (modeAfter r mode) ((c :: cs).drop n)
      ({ chars := (c :: cs).take n, nl := nlValue r.nl n, rule := r } :: rest.1, rest.2)

/-- every lexeme has at least one character, so `|t| + 1` steps are enough -/
def lexAll (rules : List Rule) (mode : Mode) (t : List Char) : List Lexeme × Mode :=
  lexAllF rules (t.length + 1) mode t

/-! ### what the lexemes do to the tracker and the index -/

structure St where
  tr : Tracker
  idx : Index
  deriving Repr, Inhabited

/-- `parse_XTA`/`parseProperty`/`XMLReader`: `tracker.setPath(ch, xpath)` -/
def St.setPath (s : St) (path : String) : Except Err St :=
  let tr := s.tr.setPath path
  match s.idx.add tr.entry with
  | .ok idx => .ok { tr := tr, idx := idx }
  | .error e => .error e

/-- YY_USER_ACTION then the rule's `tracker.newline(ch, n)` (when `n ≠ 0`) -/
def St.lexeme (s : St) (len nl : Nat) : Except Err St :=
  let tr := s.tr.increment len
  if nl = 0 then .ok { s with tr := tr }
  else
    let tr := tr.newline nl
    match s.idx.add tr.entry with
    | .ok idx => .ok { tr := tr, idx := idx }
    | .error e => .error e

def runLexemes : St → List Lexeme → Except Err St
  | s, [] => .ok s
  | s, lx :: rest =>
    match s.lexeme lx.chars.length lx.nl with
    | .ok s' => runLexemes s' rest
    | .error e => .error e

/-- the same, but also reporting in which start condition the scanner is when an exception escapes -/
def runLexemesMode : St → Mode → List Lexeme → Except (Err × Mode) (St × Mode)
  | s, m, [] => .ok (s, m)
  | s, m, lx :: rest =>
    match s.lexeme lx.chars.length lx.nl with
    | .ok s' => runLexemesMode s' (modeAfter lx.rule m) rest
    | .error e => .error (e, m)

/-! ### the reference: count newlines -/

def countNl (t : List Char) : Nat := (t.filter (· == '\n')).length

/-- number of characters after the last newline of `t` (all of `t` when it has none) -/
def colOf (t : List Char) : Nat := (t.reverse.takeWhile (· != '\n')).length

/-- reference line of the character that follows the prefix `pre` of a block (1-based) -/
def refLine (pre : List Char) : Nat := 1 + countNl pre
/-- reference column of that character (0-based, in bytes) -/
def refCol (pre : List Char) : Nat := colOf pre

def flat (ls : List Lexeme) : List Char := ls.flatMap (·.chars)

end UtapModel.LexLines
