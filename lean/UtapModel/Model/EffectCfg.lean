/- Configuration record of the side-effect / dependency analysis model (properties C11, C13).
   Every field is *generated* from the current source text of /repo by translate/effects.py
   (Gen/EffectGen.lean defines `genCfg : Cfg`); the model in Model/Effect.lean is a function of the record, and the
   theorems are proved for every record satisfying the decidable predicate `Cfg.complete`. Core Lean only. -/
import UtapModel.Gen.Kinds
namespace UtapModel.Effect
open UtapModel

/-- Which fields the visitor behind CollectChangesVisitor / CollectDependenciesVisitor (ExpressionVisitor's override,
    else AbstractStatementVisitor's method) visits, per statement class of include/utap/statement.h. -/
structure VisitFlags where
  exprE : Bool
  assertE : Bool
  forInit : Bool
  forCond : Bool
  forStep : Bool
  forBody : Bool
  iterBody : Bool
  whileCond : Bool
  whileBody : Bool
  doCond : Bool
  doBody : Bool
  blockInits : Bool
  blockStats : Bool
  switchCond : Bool
  switchInits : Bool
  switchStats : Bool
  caseCond : Bool
  caseInits : Bool
  caseStats : Bool
  defaultInits : Bool
  defaultStats : Bool
  ifCond : Bool
  ifThen : Bool
  ifElse : Bool
  returnE : Bool
deriving DecidableEq, Repr

def VisitFlags.all (v : VisitFlags) : Bool :=
  v.exprE && v.assertE && v.forInit && v.forCond && v.forStep && v.forBody && v.iterBody && v.whileCond && v.whileBody &&
  v.doCond && v.doBody && v.blockInits && v.blockStats && v.switchCond && v.switchInits && v.switchStats && v.caseCond &&
  v.caseInits && v.caseStats && v.defaultInits && v.defaultStats && v.ifCond && v.ifThen && v.ifElse && v.returnE

/-- The check sites of src/typechecker.cpp (one per diagnostic text). -/
inductive Site where
  | argument | assertion | condition | expression | guard | index | initialiser | invariant | message
  | probability | property | synchronisation | notComputable
deriving DecidableEq, Repr

structure Cfg where
  /-- expression_t::get_symbols: kind ↦ children descended into (IDENTIFIER inserts its own symbol) -/
  getSymbolsTable : List (Kind × List Nat)
  /-- collect_possible_writes -/
  writesRecurses : Bool
  writeLhsKinds : List Kind
  writeCallKinds : List Kind
  callAddsChanges : Bool
  callAddsRefArgs : Bool
  /-- the call case resolves a callee of the form `P.f` (function of process P's template) to that function -/
  writeCallResolvesDot : Bool
  /-- collect_possible_reads -/
  readCallResolvesDot : Bool
  readCallKinds : List Kind
  callAddsDepends : Bool
  readsPropagatesRandom : Bool
  randomKinds : List Kind
  ctcCollectsRandom : Bool
  dependsCollectsRandom : Bool
  /-- statement visitor -/
  visit : VisitFlags
  /-- TypeChecker::visitFunction -/
  collectsChanges : Bool
  collectsDepends : Bool
  erasesLocalChanges : Bool
  erasesLocalDepends : Bool
  erasesParamChanges : Bool
  erasesParamDepends : Bool
  /-- StatementBuilder::collectDependencies (the `restricted` sets): does the closure look into function bodies? -/
  depsFollowFunctions : Bool
  /-- TypeChecker::visitInstance: `$Incompatible_argument` is raised for a non-computable argument of a by-value
      parameter / of a constant reference parameter -/
  argValueNeedsCtc : Bool
  argConstRefNeedsCtc : Bool
  /-- number of `handleError(.., "$<site>")` statements guarded by `changes_any_variable()` (or, for
      `notComputable`, by `!isCompileTimeComputable(..)`) found in src/typechecker.cpp -/
  sites : List (Site × Nat)
  /-- such diagnostics found under a condition of another shape -/
  unrecognisedSites : Nat

def Cfg.siteCount (c : Cfg) (s : Site) : Nat :=
  match c.sites.find? (fun p => p.1 == s) with
  | some p => p.2
  | none => 0

def Cfg.getSymbolsIdx (c : Cfg) (k : Kind) : List Nat :=
  match c.getSymbolsTable.find? (fun p => p.1 == k) with
  | some p => p.2
  | none => []

end UtapModel.Effect
