/-
Model of how the builder turns declaration syntax into a declared type (property C12, "const variable / const
parameter / typedef'd const / array of const / struct with const origin"), core Lean only.

  `Decl` is the abstract syntax of a declaration as the grammar feeds it to the builder callbacks:
  `type_int/bool/double/bounded_int/clock/scalar(prefix)`, `type_name(prefix, name)` (a typedef whose body was itself built
  from a `Decl`), `type_struct(prefix, n)`, the array declarators (`type_array_of_size`), `decl_parameter(name, ref)`.
  `Decl.elab` mirrors the callbacks; which kinds a prefix wraps (`apply_prefix`), which callbacks apply the prefix at all,
  and the kind wrapped around reference parameters come from `Gen/ConstGen.lean` (regenerated from the source each run).
  `Decl.isConst` / `Decl.constFree` are the source-level notions: the keyword `const` written on the declaration, on a
  typedef it names, or on the element type of its arrays / nowhere at all.
-/
import UtapModel.Model.Const

namespace UtapModel.Const
open UtapModel UtapModel.ConstGen

inductive BaseType where
  | bool | int | double | boundedInt | clock
  | scalar (label : String)       -- `scalar[n]`; the builder labels each scalar set `#scalarset<k>`
deriving DecidableEq, Repr

mutual
  inductive Decl where
    | base (b : BaseType) (p : Prefix)
    | named (p : Prefix) (name : String) (body : Decl)   -- `prefix name`, where `typedef <body> name;`
    | struct (p : Prefix) (fields : DeclFields)          -- `prefix struct { fields }`
    | array (elem : Decl)                                -- one array declarator `[n]` over an integer range
    | ref (d : Decl)                                     -- `&` parameter
  inductive DeclFields where
    | nil
    | cons (name : String) (d : Decl) (rest : DeclFields)
end

/-- `t.create_prefix(k1).create_prefix(k2)…` -/
def wrapKinds (ks : List Kind) (t : Ty) : Ty := ks.foldl (fun acc k => acc.createPrefix k) t

/-- `apply_prefix(prefix, t)` -/
def applyPrefix (p : Prefix) (t : Ty) : Ty := wrapKinds (prefixKinds p) t

/-- the end of a type callback: `typeFragments.push(apply_prefix(prefix, t))` (or without, if the source says so) -/
def viaCallback (cb : TypeCallback) (p : Prefix) (t : Ty) : Ty := if appliesPrefix cb then applyPrefix p t else t

/-- `type_t::create_range(t, lo, hi)`: child 0 is the ranged type, children 1 and 2 hold the bound expressions -/
def Ty.createRange (t : Ty) : Ty := .mk .kRANGE (.cons "" t (.cons "" Ty.unknown (.cons "" Ty.unknown .nil)))

def rangeInt : Ty := (Ty.prim .kINT).createRange

def elabBase : BaseType → Prefix → Ty
  | .bool, p => viaCallback .bool p (Ty.prim .kBOOL)
  | .int, p => viaCallback .int p (if intIsRangeUnlessConst && p != .const then rangeInt else Ty.prim .kINT)
  | .double, p => viaCallback .double p (Ty.prim .kDOUBLE)
  | .boundedInt, p => viaCallback .boundedInt p rangeInt
  | .clock, p => viaCallback .clock p (Ty.prim .kCLOCK)
  | .scalar l, p => (viaCallback .scalar p (Ty.prim .kSCALAR).createRange).createLabel l

mutual
  def Decl.elab : Decl → Ty
    | .base b p => elabBase b p
    | .named p name body => viaCallback .name p (body.elab.createLabel name)
    | .struct p fs => viaCallback .struct p (.mk .kRECORD fs.elab)
    | .array e => .mk .kARRAY (.cons "" e.elab (.cons "" rangeInt .nil))
    | .ref d => wrapKinds refParamKinds d.elab
  def DeclFields.elab : DeclFields → Children
    | .nil => .nil
    | .cons n d r => .cons n d.elab r.elab
end

/-- source level: `const` is written on the declaration, or on a typedef it names (to any depth), or on the element type
    of its array declarators -/
def Decl.isConst : Decl → Bool
  | .base _ p => p == .const
  | .named p _ body => p == .const || body.isConst
  | .struct p _ => p == .const
  | .array e => e.isConst
  | .ref d => d.isConst

mutual
  /-- source level: the keyword `const` occurs nowhere in the declaration, the typedefs it names, or its fields -/
  def Decl.constFree : Decl → Bool
    | .base _ p => p != .const
    | .named p _ body => p != .const && body.constFree
    | .struct p fs => p != .const && fs.constFree
    | .array e => e.constFree
    | .ref d => d.constFree
  def DeclFields.constFree : DeclFields → Bool
    | .nil => true
    | .cons _ d r => d.constFree && r.constFree
end

end UtapModel.Const
