/- M-TYPE (hand-written part): the structure of `UTAP::type_t` (include/utap/type.h, src/type.cpp) as far as the
   type checker's compatibility rules look at it.  Core Lean only, total, computable.

   What is modelled here by hand (and validated against the real library by the C14/C10 correspondence runs):
     * the tree shape of a type: primitive leaf, prefix node (CONSTANT, SYSTEM_META, URGENT, BROADCAST, COMMITTED,
       HYBRID ...), REF, LABEL name, RANGE lo hi, ARRAY elem size, RECORD fields;
     * `type_t::is`, `get_kind`, `operator[]`, `get_label`, `get_sub`, `get_sub(i)`, `get_array_size`,
       `get_record_size`, `get_record_label`, `get_range`, `unknown`, `is_constant`, `is_mutable`, `strip`.
   What is NOT here: every predicate of type.h (`is_integral`, `is_guard`, ...) and every rule of typechecker.cpp --
   those are regenerated from the source text on every run into `UtapModel/Gen/TypeClauses.lean`.

   Range bounds and labels are natural-number identifiers: two bounds get the same identifier iff the harness saw the
   same bound expression (`expression_t::equal` is assumed to be an equivalence relation, property C19's business). -/
namespace UtapModel.Types

/-- The members of `Constants::kind_t` that can be the kind of a type node, plus `OTHER` for every enumerator that no
    type node carries (expression kinds such as `EF`).  The translator maps unknown enumerator names to `OTHER`. -/
inductive TK where
  | INT | BOOL | DOUBLE | STRING | CLOCK | COST | SCALAR | CHANNEL | VOID_TYPE
  | INVARIANT | INVARIANT_WR | GUARD | DIFF | CONSTRAINT | FORMULA | RATE | FRACTION
  | PROCESS_VAR | LOCATION | LOCATION_EXPR | DOUBLE_INV_GUARD | UNKNOWN | PROBABILITY | BRANCHPOINT
  | ARRAY | RECORD | FUNCTION | PROCESS
  | REF | RANGE | LABEL | TYPEDEF
  | CONSTANT | SYSTEM_META | URGENT | BROADCAST | COMMITTED | HYBRID
  | OTHER
deriving DecidableEq, Repr, Inhabited

def TK.all : List TK :=
  [.INT, .BOOL, .DOUBLE, .STRING, .CLOCK, .COST, .SCALAR, .CHANNEL, .VOID_TYPE,
   .INVARIANT, .INVARIANT_WR, .GUARD, .DIFF, .CONSTRAINT, .FORMULA, .RATE, .FRACTION,
   .PROCESS_VAR, .LOCATION, .LOCATION_EXPR, .DOUBLE_INV_GUARD, .UNKNOWN, .PROBABILITY, .BRANCHPOINT,
   .ARRAY, .RECORD, .FUNCTION, .PROCESS, .REF, .RANGE, .LABEL, .TYPEDEF,
   .CONSTANT, .SYSTEM_META, .URGENT, .BROADCAST, .COMMITTED, .HYBRID, .OTHER]

def TK.name : TK → String
  | .INT => "INT" | .BOOL => "BOOL" | .DOUBLE => "DOUBLE" | .STRING => "STRING" | .CLOCK => "CLOCK" | .COST => "COST"
  | .SCALAR => "SCALAR" | .CHANNEL => "CHANNEL" | .VOID_TYPE => "VOID_TYPE" | .INVARIANT => "INVARIANT"
  | .INVARIANT_WR => "INVARIANT_WR" | .GUARD => "GUARD" | .DIFF => "DIFF" | .CONSTRAINT => "CONSTRAINT"
  | .FORMULA => "FORMULA" | .RATE => "RATE" | .FRACTION => "FRACTION" | .PROCESS_VAR => "PROCESS_VAR"
  | .LOCATION => "LOCATION" | .LOCATION_EXPR => "LOCATION_EXPR" | .DOUBLE_INV_GUARD => "DOUBLE_INV_GUARD"
  | .UNKNOWN => "UNKNOWN" | .PROBABILITY => "PROBABILITY" | .BRANCHPOINT => "BRANCHPOINT" | .ARRAY => "ARRAY"
  | .RECORD => "RECORD" | .FUNCTION => "FUNCTION" | .PROCESS => "PROCESS" | .REF => "REF" | .RANGE => "RANGE"
  | .LABEL => "LABEL" | .TYPEDEF => "TYPEDEF" | .CONSTANT => "CONSTANT" | .SYSTEM_META => "SYSTEM_META"
  | .URGENT => "URGENT" | .BROADCAST => "BROADCAST" | .COMMITTED => "COMMITTED" | .HYBRID => "HYBRID"
  | .OTHER => "OTHER"

def TK.ofName? (s : String) : Option TK := TK.all.find? (fun k => k.name == s)

/-- The prefix kinds (`type_t::is_prefix` is true and the node has exactly one child).  `is_prefix` is also true for
    PROCESS_VAR and DOUBLE_INV_GUARD, but `type_t::is` special-cases those to behave as leaves (they have no children). -/
inductive Pfx where
  | CONSTANT | SYSTEM_META | URGENT | BROADCAST | COMMITTED | HYBRID
deriving DecidableEq, Repr, Inhabited

def Pfx.toTK : Pfx → TK
  | .CONSTANT => .CONSTANT | .SYSTEM_META => .SYSTEM_META | .URGENT => .URGENT | .BROADCAST => .BROADCAST
  | .COMMITTED => .COMMITTED | .HYBRID => .HYBRID

def Pfx.all : List Pfx := [.CONSTANT, .SYSTEM_META, .URGENT, .BROADCAST, .COMMITTED, .HYBRID]
def Pfx.ofName? (s : String) : Option Pfx := Pfx.all.find? (fun k => k.toTK.name == s)

mutual
  inductive Ty where
    | prim (k : TK)                            -- a node without children
    | pfx (k : Pfx) (t : Ty)                   -- a prefix node (exactly one child)
    | ref (t : Ty)
    | label (name : Nat) (t : Ty)
    | range (t : Ty) (lo hi : Nat)
    | array (elem size : Ty)
    | record (fields : Fields)
  inductive Fields where
    | nil
    | cons (lbl : Nat) (t : Ty) (rest : Fields)
end

deriving instance DecidableEq for Ty, Fields

mutual
  def Ty.beq : Ty → Ty → Bool
    | .prim a, .prim b => a == b
    | .pfx k a, .pfx k' b => k == k' && Ty.beq a b
    | .ref a, .ref b => Ty.beq a b
    | .label n a, .label m b => n == m && Ty.beq a b
    | .range a l h, .range b l' h' => Ty.beq a b && l == l' && h == h'
    | .array e s, .array e' s' => Ty.beq e e' && Ty.beq s s'
    | .record f, .record g => Fields.beq f g
    | _, _ => false
  def Fields.beq : Fields → Fields → Bool
    | .nil, .nil => true
    | .cons l t r, .cons l' t' r' => l == l' && Ty.beq t t' && Fields.beq r r'
    | _, _ => false
end

namespace Fields
def length : Fields → Nat
  | .nil => 0
  | .cons _ _ r => r.length + 1
end Fields

namespace Ty

def unknown : Ty := .prim .UNKNOWN

mutual
  /-- number of nodes (the fuel the recursive rules of the generated model are run with) -/
  def size : Ty → Nat
    | .prim _ => 1
    | .pfx _ t => t.size + 1
    | .ref t => t.size + 1
    | .label _ t => t.size + 1
    | .range t _ _ => t.size + 1
    | .array e s => e.size + s.size + 1
    | .record fs => fieldsSize fs + 1
  def fieldsSize : Fields → Nat
    | .nil => 0
    | .cons _ t r => t.size + fieldsSize r + 1
end

/-- `type_t::get_kind` -/
def kind : Ty → TK
  | .prim k => k
  | .pfx k _ => k.toTK
  | .ref _ => .REF
  | .label _ _ => .LABEL
  | .range _ _ _ => .RANGE
  | .array _ _ => .ARRAY
  | .record _ => .RECORD

def fieldTy : Fields → Nat → Ty
  | .nil, _ => unknown
  | .cons _ t _, 0 => t
  | .cons _ _ r, n + 1 => fieldTy r n

def fieldLabel : Fields → Nat → Nat
  | .nil, _ => 0
  | .cons l _ _, 0 => l
  | .cons _ _ r, n + 1 => fieldLabel r n

/-- `type_t::operator[]` / `get(i)`.  Out-of-range access (undefined behaviour in C++, asserts are compiled out) gives
    the unknown type; the bound pseudo-children of RANGE (they carry only an expression) are unknown types too. -/
def child : Ty → Nat → Ty
  | .prim _, _ => unknown
  | .pfx _ t, 0 => t
  | .ref t, 0 => t
  | .label _ t, 0 => t
  | .range t _ _, 0 => t
  | .array e _, 0 => e
  | .array _ s, 1 => s
  | .record fs, i => fieldTy fs i
  | _, _ => unknown

/-- `type_t::size()` : number of children -/
def nchildren : Ty → Nat
  | .prim _ => 0
  | .pfx _ _ => 1
  | .ref _ => 1
  | .label _ _ => 1
  | .range _ _ _ => 3
  | .array _ _ => 2
  | .record fs => fs.length

/-- `type_t::get_label(i)`; the empty string is identifier 0 -/
def getLabel : Ty → Nat → Nat
  | .label n _, 0 => n
  | .record fs, i => fieldLabel fs i
  | _, _ => 0

/-- `type_t::is(kind)` (src/type.cpp) -/
def is : Ty → TK → Bool
  | .prim k', k => k' == k
  | .pfx k' t, k => k'.toTK == k || t.is k
  | .ref t, k => k == .REF || t.is k
  | .label _ t, k => k == .LABEL || t.is k
  | .range t _ _, k => k == .RANGE || t.is k
  | .array _ _, k => k == .ARRAY
  | .record _, k => k == .RECORD

/-- `type_t::unknown()` (a null type and a type of kind UNKNOWN are the same thing here) -/
def isUnknown (t : Ty) : Bool := t.kind == .UNKNOWN

/-- `type_t::strip()` followed by `get_kind()`: the kind at the end of the prefix/RANGE/REF/LABEL chain -/
def term : Ty → TK
  | .prim k => k
  | .pfx _ t => t.term
  | .ref t => t.term
  | .label _ t => t.term
  | .range t _ _ => t.term
  | .array _ _ => .ARRAY
  | .record _ => .RECORD

/-- `type_t::get_sub()` (element type of an array; prefixes are re-applied, REF and LABEL are dropped) -/
def getSub : Ty → Ty
  | .prim _ => unknown
  | .pfx k t => .pfx k t.getSub
  | .ref t => t.getSub
  | .label _ t => t.getSub
  | .range t _ _ => t
  | .array e _ => e
  | .record fs => fieldTy fs 0

/-- `type_t::get_sub(i)` (i-th field of a record; prefixes are re-applied, REF and LABEL are dropped) -/
def getSubI : Ty → Nat → Ty
  | .prim _, _ => unknown
  | .pfx k t, i => .pfx k (t.getSubI i)
  | .ref t, i => t.getSubI i
  | .label _ t, i => t.getSubI i
  | .range t lo hi, i => child (.range t lo hi) i
  | .array e s, i => child (.array e s) i
  | .record fs, i => fieldTy fs i

/-- `type_t::get_array_size()` -/
def getArraySize : Ty → Ty
  | .prim _ => unknown
  | .pfx _ t => t.getArraySize
  | .ref t => t.getArraySize
  | .label _ t => t.getArraySize
  | .range _ _ _ => unknown
  | .array _ s => s
  | .record fs => fieldTy fs 1

/-- `type_t::get_record_size()` -/
def getRecordSize : Ty → Nat
  | .prim _ => 0
  | .pfx _ t => t.getRecordSize
  | .ref t => t.getRecordSize
  | .label _ t => t.getRecordSize
  | .range _ _ _ => 3
  | .array _ _ => 2
  | .record fs => fs.length

/-- `type_t::get_record_label(i)` -/
def getRecordLabel : Ty → Nat → Nat
  | .prim _, _ => 0
  | .pfx _ t, i => t.getRecordLabel i
  | .ref t, i => t.getRecordLabel i
  | .label _ t, i => t.getRecordLabel i
  | .range _ _ _, _ => 0
  | .array _ _, _ => 0
  | .record fs, i => fieldLabel fs i

/-- `type_t::get_range()` (only meaningful when `is RANGE`; otherwise the C++ reads past a leaf -- we return (0,0)) -/
def getRange : Ty → Nat × Nat
  | .prim _ => (0, 0)
  | .pfx _ t => t.getRange
  | .ref t => t.getRange
  | .label _ t => t.getRange
  | .range _ lo hi => (lo, hi)
  | .array _ _ => (0, 0)
  | .record _ => (0, 0)

mutual
  /-- `type_t::is_constant()` -/
  def isConstant : Ty → Bool
    | .prim _ => false
    | .pfx k t => k == .CONSTANT || t.isConstant
    | .ref t => t.isConstant
    | .label _ t => t.isConstant
    | .range t _ _ => t.isConstant
    | .array e _ => e.isConstant
    | .record fs => fieldsConstant fs
  def fieldsConstant : Fields → Bool
    | .nil => true
    | .cons _ t r => t.isConstant && fieldsConstant r
end

mutual
  /-- `type_t::is_mutable()` -/
  def isMutable : Ty → Bool
    | .prim _ => true
    | .pfx k t => k != .CONSTANT && t.isMutable
    | .ref t => t.isMutable
    | .label _ t => t.isMutable
    | .range t _ _ => t.isMutable
    | .array e _ => e.isMutable
    | .record fs => fieldsMutable fs
  def fieldsMutable : Fields → Bool
    | .nil => true
    | .cons _ t r => t.isMutable && fieldsMutable r
end

end Ty

/-! ### wire format (Polish notation), shared by the drivers
    `P <KIND>` | `X <KIND> <ty>` | `F <ty>` (REF) | `L <name> <ty>` | `G <lo> <hi> <ty>` | `A <elem> <size>` |
    `S <n> (<label> <ty>)*n`.  -/

mutual
  def Ty.show : Ty → String
    | .prim k => "P " ++ k.name
    | .pfx k t => "X " ++ k.toTK.name ++ " " ++ t.show
    | .ref t => "F " ++ t.show
    | .label n t => "L " ++ toString n ++ " " ++ t.show
    | .range t lo hi => "G " ++ toString lo ++ " " ++ toString hi ++ " " ++ t.show
    | .array e s => "A " ++ e.show ++ " " ++ s.show
    | .record fs => "S " ++ toString fs.length ++ Fields.show fs
  def Fields.show : Fields → String
    | .nil => ""
    | .cons l t r => " " ++ toString l ++ " " ++ t.show ++ Fields.show r
end

mutual
  def parseTy : Nat → List String → Option (Ty × List String)
    | 0, _ => none
    | fuel + 1, toks =>
      match toks with
      | "P" :: k :: rest => (TK.ofName? k).map fun k => (.prim k, rest)
      | "X" :: k :: rest =>
        match Pfx.ofName? k, parseTy fuel rest with
        | some k, some (t, rest) => some (.pfx k t, rest)
        | _, _ => none
      | "F" :: rest => (parseTy fuel rest).map fun (t, rest) => (.ref t, rest)
      | "L" :: n :: rest =>
        match n.toNat?, parseTy fuel rest with
        | some n, some (t, rest) => some (.label n t, rest)
        | _, _ => none
      | "G" :: lo :: hi :: rest =>
        match lo.toNat?, hi.toNat?, parseTy fuel rest with
        | some lo, some hi, some (t, rest) => some (.range t lo hi, rest)
        | _, _, _ => none
      | "A" :: rest =>
        match parseTy fuel rest with
        | some (e, rest) => (parseTy fuel rest).map fun (s, rest) => (.array e s, rest)
        | none => none
      | "S" :: n :: rest =>
        match n.toNat? with
        | some n => (parseFields fuel n rest).map fun (fs, rest) => (.record fs, rest)
        | none => none
      | _ => none
  def parseFields : Nat → Nat → List String → Option (Fields × List String)
    | 0, _, _ => none
    | _ + 1, 0, toks => some (.nil, toks)
    | fuel + 1, n + 1, toks =>
      match toks with
      | l :: rest =>
        match l.toNat?, parseTy fuel rest with
        | some l, some (t, rest) => (parseFields fuel n rest).map fun (fs, rest) => (.cons l t fs, rest)
        | _, _ => none
      | [] => none
end

end UtapModel.Types
