// C15 harness: a parse result depends only on its input, not on earlier parses in the process.
//
//   c15 seq    : every call of the script on stdin runs in THIS process, one after the other (the history)
//   c15 fresh  : every call runs first in a freshly forked child of a process that has parsed nothing
//
// script lines:
//   SEED <n>                         set UTAP::tracker.position = n before the next call   (seq mode only; `fresh` ignores it)
//   CWD <hex directory>              change the working directory of the process (both modes: a fresh child inherits it).  The working
//                                    directory at the time of a call is part of that call's input - `import "<relative name>"`
//                                    declarations are resolved against it - so both runs of a call see the same one
//   CALL <kind> <a> <b> <hex input>  one parsing call; one JSON line with its canonical result is printed
//        kinds: XML  a=newxta            parse_XML_buffer(buf, Document*, newxta)
//               XTA  a=newxta            parse_XTA(buf, Document*, newxta)
//               BLK  a=newxta b=part     parse_XTA(buf, DocumentBuilder*, newxta, part, "/blk")         on a fresh Document
//               THR  a=newxta b=part     the same with a builder whose expr_nat(424242) throws std::runtime_error
//               EHT  a=newxta b=part     the same with a builder whose handle_error rethrows (what UTAP::PrettyPrinter does): the
//                                        parser is left at the point of the first diagnostic
//               PPR  a=newxta b=part     parse_XTA(buf, PrettyPrinter*, newxta, part, "/blk")
//               QRY  a=0                 parseProperty(buf, builder) after building a fixed small system into a fresh Document
//               TFI  a=newxta            parse_XTA(FILE*, Document*, newxta)   (flex reads the file through its own buffer)
//               XFI  a=newxta            parse_XML_file(path, Document*, newxta)
//               QFI  a=0                 parseProperty(FILE*, builder) after building the fixed small system
//               QXD  a=n                 model A \x01 model B \x01 query: parse A, parse B n times into other documents, query against A
// The canonical result: return value, exception class, diagnostics (message, path, line:column of both ends), the
// canonical document dump, the supported-methods verdict.  Absolute positions never appear.
#include "common.hpp"
#include "libparser.h"
#include "utap/prettyprinter.h"

#include <sys/wait.h>
#include <unistd.h>

using namespace UTAP;

static std::string unhex(const std::string& h)
{
    std::string o;
    auto v = [](char c) { return c <= '9' ? c - '0' : (c | 32) - 'a' + 10; };
    for (size_t i = 0; i + 1 < h.size(); i += 2) o += (char)(v(h[i]) * 16 + v(h[i + 1]));
    return o;
}

static std::string jstr(const std::string& s)
{
    std::string o = "\"";
    for (unsigned char c : s) {
        if (c == '"' || c == '\\') { o += '\\'; o += (char)c; }
        else if (c == '\n') o += "\\n";
        else if (c == '\r') o += "\\r";
        else if (c == '\t') o += "\\t";
        else if (c < 32 || c > 126) { char b[8]; std::snprintf(b, sizeof b, "\\u%04x", c); o += b; }
        else o += (char)c;
    }
    return o + "\"";
}

// exception *class* only (the property compares classes; what() may legitimately contain errno text)
static std::string excClass(const std::exception& e)
{
    if (dynamic_cast<const TypeException*>(&e)) return "TypeException";
    if (dynamic_cast<const XMLReaderError*>(&e)) return "XMLReaderError";
    if (dynamic_cast<const XMLDocError*>(&e)) return "XMLDocError";
    if (dynamic_cast<const std::logic_error*>(&e)) return "std::logic_error";
    if (dynamic_cast<const std::system_error*>(&e)) return "std::system_error";
    if (dynamic_cast<const std::runtime_error*>(&e)) return "std::runtime_error";
    if (dynamic_cast<const std::bad_alloc*>(&e)) return "std::bad_alloc";
    return "std::exception";
}

class ThrowingBuilder : public DocumentBuilder
{
public:
    explicit ThrowingBuilder(Document& d): DocumentBuilder{d} {}
    void expr_nat(int32_t n) override
    {
        if (n == 424242) throw std::runtime_error("boom inside the grammar");
        DocumentBuilder::expr_nat(n);
    }
};

class ErrorThrowingBuilder : public DocumentBuilder
{
public:
    explicit ErrorThrowingBuilder(Document& d): DocumentBuilder{d} {}
    void handle_error(const TypeException& e) override { throw e; }
};

static const char* QRY_SYSTEM =
    "int v; clock x; chan c;\nprocess P() { state A, B; init A; trans A -> B { guard x >= 1; assign v = 1; }; }\nsystem P;";

static std::string runCall(const std::string& kind, int a, int b, const std::string& input)
{
    std::ostringstream os;
    Document doc;
    std::string exc, what;
    long rc = 0;
    uint32_t pos0 = tracker.position;
    bool haveQuery = false;
    std::string query;
    try {
        if (kind == "XML") {
            rc = parse_XML_buffer(input.c_str(), &doc, a != 0);
        } else if (kind == "XTA") {
            rc = parse_XTA(input.c_str(), &doc, a != 0) ? 1 : 0;
        } else if (kind == "BLK") {
            DocumentBuilder builder(doc);
            rc = parse_XTA(input.c_str(), &builder, a != 0, (xta_part_t)b, "/blk");
        } else if (kind == "THR") {
            ThrowingBuilder builder(doc);
            rc = parse_XTA(input.c_str(), &builder, a != 0, (xta_part_t)b, "/blk");
        } else if (kind == "EHT") {
            ErrorThrowingBuilder builder(doc);
            rc = parse_XTA(input.c_str(), &builder, a != 0, (xta_part_t)b, "/blk");
        } else if (kind == "PPR") {
            std::ostringstream sink;
            PrettyPrinter pp(sink);
            rc = parse_XTA(input.c_str(), &pp, a != 0, (xta_part_t)b, "/blk");
        } else if (kind == "TFI") {
            FILE* f = tmpfile();
            if (!f) return "{\"bad-tmpfile\":true}";
            fwrite(input.data(), 1, input.size(), f);
            rewind(f);
            struct Closer { FILE* f; ~Closer() { fclose(f); } } closer{f};
            rc = parse_XTA(f, &doc, a != 0) ? 1 : 0;
        } else if (kind == "XFI") {
            const char* dir = getenv("C15_TMPDIR");
            std::string path = std::string(dir ? dir : "/var/tmp") + "/c15-" + std::to_string(getpid()) + ".xml";
            {
                std::ofstream o(path, std::ios::binary);
                o << input;
            }
            struct Rm { std::string p; ~Rm() { unlink(p.c_str()); } } rm{path};
            rc = parse_XML_file(path.c_str(), &doc, a != 0);
        } else if (kind == "QFI") {
            rc = parse_XTA(QRY_SYSTEM, &doc, true) ? 1 : 0;
            FILE* f = tmpfile();
            if (!f) return "{\"bad-tmpfile\":true}";
            fwrite(input.data(), 1, input.size(), f);
            rewind(f);
            struct Closer { FILE* f; ~Closer() { fclose(f); } } closer{f};
            vh::ExprGrabber g(doc);
            long r2 = parseProperty(f, &g);
            rc = rc * 10 + r2;
            haveQuery = true;
            query = g.got ? vh::sexp(g.result) : std::string("(none)");
        } else if (kind == "QRY") {
            rc = parse_XTA(QRY_SYSTEM, &doc, true) ? 1 : 0;
            vh::ExprGrabber g(doc);
            long r2 = parseProperty(input.c_str(), &g, "/qry");
            rc = rc * 10 + r2;
            haveQuery = true;
            query = g.got ? vh::sexp(g.result) : std::string("(none)");
        } else if (kind == "QXD") {
            // input = model A \x01 model B \x01 query: parse A, then B `a` times into other documents, then the query against A's document.
            // The result of the query call must not depend on what was parsed since A was built.
            auto p1 = input.find('\x01');
            auto p2 = input.find('\x01', p1 == std::string::npos ? 0 : p1 + 1);
            if (p1 == std::string::npos || p2 == std::string::npos) return "{\"bad-input\":true}";
            std::string A = input.substr(0, p1), B = input.substr(p1 + 1, p2 - p1 - 1), Q = input.substr(p2 + 1);
            rc = parse_XML_buffer(A.c_str(), &doc, true);
            for (int i = 0; i < a; ++i) {
                Document other;
                try {
                    parse_XML_buffer(B.c_str(), &other, true);
                } catch (std::exception&) {
                }
            }
            vh::ExprGrabber g(doc);
            long r2 = parseProperty(Q.c_str(), &g, "/qry");
            rc = rc * 10 + r2;
            haveQuery = true;
            query = g.got ? vh::sexp(g.result) : std::string("(none)");
        } else {
            return "{\"bad-kind\":true}";
        }
    } catch (std::exception& e) {
        exc = excClass(e);
        what = e.what();
    } catch (...) {
        exc = "unknown";
    }
    os << "{\"rc\":" << rc << ",\"exc\":" << jstr(exc) << ",\"diags\":[";
    bool first = true;
    auto add = [&](const char* k, const UTAP::error_t& e) {
        os << (first ? "" : ",") << "[" << jstr(k) << "," << jstr(e.msg) << "," << jstr(e.start.path ? *e.start.path : std::string()) << "," << e.start.line
           << "," << (uint32_t)(e.position.start - e.start.position) << "," << e.end.line << "," << (uint32_t)(e.position.end - e.end.position) << "]";
        first = false;
    };
    for (auto& e : doc.get_errors()) add("E", e);
    for (auto& e : doc.get_warnings()) add("W", e);
    os << "]";
    std::ostringstream dump;
    try {
        vh::dumpDocument(dump, doc);
    } catch (std::exception& e) {
        dump << "<dump-exception " << excClass(e) << ">";
    }
    auto sm = doc.get_supported_methods();
    os << ",\"methods\":\"" << sm.symbolic << sm.stochastic << sm.concrete << "\",\"doc\":" << jstr(dump.str());
    if (haveQuery) os << ",\"query\":" << jstr(query);
    // not part of the compared result: where the global counter stood before / after the call, and the exception text
    os << ",\"what\":" << jstr(what) << ",\"pos0\":" << pos0 << ",\"pos1\":" << tracker.position << "}";
    return os.str();
}

int main(int argc, char** argv)
{
    std::ios::sync_with_stdio(false);
    bool fresh = argc > 1 && std::string(argv[1]) == "fresh";
    unsetenv("UTAP_VERIF_NO_DLOPEN");   // the import calls of the scripts name libraries the check has built itself
    std::string line;
    while (std::getline(std::cin, line)) {
        std::istringstream is(line);
        std::string op;
        is >> op;
        if (op == "SEED") {
            unsigned long long n;
            is >> n;
            if (!fresh) tracker.position = (uint32_t)n;
            continue;
        }
        if (op == "CWD") {
            std::string hexdir;
            is >> hexdir;
            if (chdir(unhex(hexdir).c_str()) != 0) {
                std::cerr << "cannot change to " << unhex(hexdir) << "\n";
                return 4;
            }
            continue;
        }
        if (op != "CALL") continue;
        std::string kind, hex;
        int a = 0, b = 0;
        is >> kind >> a >> b >> hex;
        std::string input = unhex(hex);
        if (!fresh) {
            alarm(20);   // a call that does not return (e.g. the parser is fed the same token for ever) ends the process: SIGALRM
            std::cout << runCall(kind, a, b, input) << "\n";
            alarm(0);
            std::cout.flush();
            continue;
        }
        // fresh: run the call in a child forked from this process, which never parses anything itself
        int fds[2];
        if (pipe(fds) != 0) return 3;
        std::cout.flush();
        pid_t pid = fork();
        if (pid == 0) {
            close(fds[0]);
            alarm(20);
            std::string r = runCall(kind, a, b, input) + "\n";
            size_t off = 0;
            while (off < r.size()) {
                ssize_t w = write(fds[1], r.data() + off, r.size() - off);
                if (w <= 0) break;
                off += (size_t)w;
            }
            close(fds[1]);
            _exit(0);
        }
        close(fds[1]);
        std::string r;
        char buf[65536];
        ssize_t n;
        while ((n = read(fds[0], buf, sizeof buf)) > 0) r.append(buf, (size_t)n);
        close(fds[0]);
        int status = 0;
        waitpid(pid, &status, 0);
        if (r.empty() || r.back() != '\n') {
            std::ostringstream os;
            os << "{\"crashed\":true,\"status\":" << status << "}\n";
            r = os.str();
        }
        std::cout << r;
        std::cout.flush();
    }
    return 0;
}
