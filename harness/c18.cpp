// C18 harness: the real UTAP::range_t (header only) behind (1) the line protocol of lean/UtapModel/Drv/C18.lean
// and (2) a direct set-semantics oracle that searches the *implementation* for a failing input.
#include "utap/range.h"

#include <cstdint>
#include <cstdio>
#include <cstdlib>
#include <cstring>
#include <iostream>
#include <limits>
#include <sstream>
#include <string>
#include <vector>

using UTAP::range_t;
using R = range_t<int32_t>;

static std::string showR(const R& r) { return "[" + std::to_string(r.first()) + "," + std::to_string(r.last()) + "]"; }
static std::string showB(bool b) { return b ? "true" : "false"; }

static int ops()
{
    std::string line;
    while (std::getline(std::cin, line)) {
        std::istringstream is(line);
        std::string op;
        is >> op;
        std::vector<long long> x;
        long long v;
        while (is >> v)
            x.push_back(v);
        std::string out = "bad-op";
        auto A = [&] { return R((int32_t)x[0], (int32_t)x[1]); };
        auto B = [&] { return R((int32_t)x[2], (int32_t)x[3]); };
        if (x.size() == 3) {
            int32_t e = (int32_t)x[2];
            if (op == "gt") out = showR(A().gt(e));
            else if (op == "geq") out = showR(A().geq(e));
            else if (op == "lt") out = showR(A().lt(e));
            else if (op == "leq") out = showR(A().leq(e));
            else if (op == "andT") out = showR(A() & e);
            else if (op == "orT") out = showR(A() | e);
            else if (op == "addT") out = showR(A() + e);
            else if (op == "subT") out = showR(A() - e);
            else if (op == "mulT") out = showR(A() * e);
            else if (op == "contains") out = showB(A().contains(e));
            else if (op == "eqT") out = showB(A() == e);
        } else if (x.size() == 4) {
            if (op == "andR") out = showR(A() & B());
            else if (op == "orR") out = showR(A() | B());
            else if (op == "addR") out = showR(A() + B());
            else if (op == "subR") out = showR(A() - B());
            else if (op == "mulR") out = showR(A() * B());
            else if (op == "intersects") out = showB(A().intersects(B()));
            else if (op == "eqR") out = showB(A() == B());
            else if (op == "ltop") out = showB(A() < B());
            else if (op == "gtop") out = showB(A() > B());
            else if (op == "leop") out = showB(A() <= B());
            else if (op == "geop") out = showB(A() >= B());
            else if (op == "minR") out = showR(std::min(A(), B()));
            else if (op == "maxR") out = showR(std::max(A(), B()));
        } else if (x.size() == 2) {
            // the operand is the object itself
            if (op == "addSelf") { R r = A(); r += r; out = showR(r); }
            else if (op == "subSelf") { R r = A(); r -= r; out = showR(r); }
            else if (op == "mulSelf") { R r = A(); r *= r; out = showR(r); }
            else if (op == "andSelf") { R r = A(); r &= r; out = showR(r); }
            else if (op == "orSelf") { R r = A(); r |= r; out = showR(r); }
            else if (op == "size") out = std::to_string(A().size());
            else if (op == "empty") out = showB(A().empty());
        }
        std::cout << out << "\n";
    }
    return 0;
}

// ------------------------------------------------------------------------------------------------ oracle
// Direct check of the property on the implementation: exhaustive for the 8-bit element types int8_t and uint8_t
// (results that would overflow the type are skipped, as the property says), boundary sets for int32_t, uint32_t,
// uint64_t and double, and + - * on boundary and sampled operands of the 32- and 64-bit integer types with the
// reference computed in 128-bit arithmetic.  The class is a template: "for every element type" includes the
// unsigned ones, where T(-1) is the largest value and every intermediate that is negative in Z wraps, so an
// implementation that is right on all signed types may still be wrong there.  Prints one line per failing
// (operation, operands) -- at most three per operation and element type -- and a summary.
static long long cases = 0, fails = 0;
static int printed[1024];
static int id_base = 0;  // one block of 64 operation ids per oracle call (element type), set by main
template <typename... Args>
static void fail(int opid, const char* fmt, Args... a)
{
    ++fails;
    if (printed[id_base + opid]++ < 3) {
        std::printf("FAIL ");
        std::printf(fmt, a...);
        std::printf("\n");
    }
}

template <typename T, typename W>
static bool mem(W x, const range_t<T>& r)
{
    return (W)r.first() <= x && x <= (W)r.last();
}

static int WINDOW = 12;
template <typename T>
static void oracle_small(const char* tn)
{
    static_assert(sizeof(T) == 1, "exhaustive enumeration with int as the wider arithmetic");
    using Q = range_t<T>;
    const int lo = std::numeric_limits<T>::min(), hi = std::numeric_limits<T>::max();
    // scalar operations: all a<=b, all e, membership of all x
    for (int a = lo; a <= hi; ++a)
        for (int b = a; b <= hi; ++b)
            for (int e = lo; e <= hi; ++e) {
                ++cases;
                Q r((T)a, (T)b);
                if (e < hi) {  // next_value(e) must not overflow
                    Q g = Q(r).gt((T)e);
                    int s = std::max(a, e + 1);
                    if (!((int)g.first() == s && (int)g.last() == b)) fail(0, "gt T=%s r=[%d,%d] e=%d got=[%d,%d] want=[%d,%d]", tn, a, b, e, g.first(), g.last(), s, b);
                }
                {
                    Q g = Q(r).geq((T)e);
                    int s = std::max(a, e);
                    if (!((int)g.first() == s && (int)g.last() == b)) fail(1, "geq T=%s r=[%d,%d] e=%d got=[%d,%d]", tn, a, b, e, g.first(), g.last());
                }
                if (e > lo) {
                    Q g = Q(r).lt((T)e);
                    // members must be exactly {x in r | x < e}
                    bool ok = true;
                    int badx = 0;
                    for (int x = a - 1 < lo ? lo : a - 1; x <= (b + 1 > hi ? hi : b + 1); ++x) {
                        bool want = (a <= x && x <= b && x < e);
                        if (mem<T, int>(x, g) != want) { ok = false; badx = x; break; }
                    }
                    if (!ok) fail(2, "lt T=%s r=[%d,%d] e=%d got=[%d,%d] x=%d member=%d but (x in r && x<e)=%d", tn, a, b, e, g.first(), g.last(), badx, (int)mem<T, int>(badx, g), (int)(a <= badx && badx <= b && badx < e));
                }
                {
                    Q g = Q(r).leq((T)e);
                    int f = std::min(b, e);
                    if (!((int)g.first() == a && (int)g.last() == f)) fail(3, "leq T=%s r=[%d,%d] e=%d got=[%d,%d]", tn, a, b, e, g.first(), g.last());
                }
                {
                    bool c = r.contains((T)e);
                    if (c != (a <= e && e <= b)) fail(4, "contains T=%s r=[%d,%d] e=%d got=%d", tn, a, b, e, (int)c);
                    bool q = (r == (T)e);
                    if (q != (a == e && b == e)) fail(5, "eqT T=%s r=[%d,%d] e=%d got=%d", tn, a, b, e, (int)q);
                    Q u = r | (T)e;
                    if (!((int)u.first() == std::min(a, e) && (int)u.last() == std::max(b, e))) fail(6, "orT T=%s r=[%d,%d] e=%d got=[%d,%d]", tn, a, b, e, u.first(), u.last());
                    Q n = r & (T)e;
                    bool nonempty = a <= e && e <= b;
                    if (nonempty ? !((int)n.first() == e && (int)n.last() == e) : !n.empty()) fail(7, "andT T=%s r=[%d,%d] e=%d got=[%d,%d]", tn, a, b, e, n.first(), n.last());
                    if (a + e >= lo && b + e <= hi) {
                        Q p = r + (T)e;
                        if (!((int)p.first() == a + e && (int)p.last() == b + e)) fail(8, "addT T=%s r=[%d,%d] e=%d got=[%d,%d]", tn, a, b, e, p.first(), p.last());
                    }
                    if (a - e >= lo && b - e <= hi && a - e <= hi && b - e >= lo) {
                        Q p = r - (T)e;
                        if (!((int)p.first() == a - e && (int)p.last() == b - e)) fail(9, "subT T=%s r=[%d,%d] e=%d got=[%d,%d]", tn, a, b, e, p.first(), p.last());
                    }
                    int m1 = a * e, m2 = b * e;
                    if (m1 >= lo && m1 <= hi && m2 >= lo && m2 <= hi) {
                        Q p = r * (T)e;
                        if (!((int)p.first() == std::min(m1, m2) && (int)p.last() == std::max(m1, m2))) fail(10, "mulT T=%s r=[%d,%d] e=%d got=[%d,%d]", tn, a, b, e, p.first(), p.last());
                    }
                }
            }
    // interval x interval: all a<=b, c<=d over a window (full int8 would be 2^30 pairs), results in int
    // (unsigned: the same number of values, starting at 0 -- the bound where a difference or a negated operand wraps)
    const int wl = std::is_signed_v<T> ? -WINDOW : 0, wh = std::is_signed_v<T> ? WINDOW : 2 * WINDOW;
    for (int a = wl; a <= wh; ++a)
        for (int b = a; b <= wh; ++b)
            for (int c = wl; c <= wh; ++c)
                for (int d = c; d <= wh; ++d) {
                    ++cases;
                    Q r((T)a, (T)b), o((T)c, (T)d);
                    // reference by brute force over members
                    int mn = 1 << 30, mx = -(1 << 30), an = mn, ax = mx, sn = mn, sx = mx;
                    bool overlap = false;
                    for (int x = a; x <= b; ++x)
                        for (int y = c; y <= d; ++y) {
                            mn = std::min(mn, x * y); mx = std::max(mx, x * y);
                            an = std::min(an, x + y); ax = std::max(ax, x + y);
                            sn = std::min(sn, x - y); sx = std::max(sx, x - y);
                            overlap |= (x == y);
                        }
                    auto chk = [&](int id, const char* nm, const Q& g, int s, int f) {
                        if (s < lo || f > hi) return;
                        if (!((int)g.first() == s && (int)g.last() == f)) fail(id, "%s T=%s a=[%d,%d] b=[%d,%d] got=[%d,%d] want=[%d,%d]", nm, tn, a, b, c, d, g.first(), g.last(), s, f);
                    };
                    if (mn >= lo && mx <= hi) chk(11, "mulR", r * o, mn, mx);
                    if (an >= lo && ax <= hi) chk(12, "addR", r + o, an, ax);
                    if (sn >= lo && sx <= hi) chk(13, "subR", r - o, sn, sx);
                    // the in-place forms are separate code: the same tightest interval
                    if (mn >= lo && mx <= hi) { Q t = r; t *= o; chk(41, "mulAssignR", t, mn, mx); }
                    if (an >= lo && ax <= hi) { Q t = r; t += o; chk(42, "addAssignR", t, an, ax); }
                    if (sn >= lo && sx <= hi) { Q t = r; t -= o; chk(43, "subAssignR", t, sn, sx); }
                    chk(14, "orR", r | o, std::min(a, c), std::max(b, d));
                    {
                        Q n = r & o;
                        int s = std::max(a, c), f = std::min(b, d);
                        if (s <= f ? !((int)n.first() == s && (int)n.last() == f) : !n.empty()) fail(15, "andR T=%s a=[%d,%d] b=[%d,%d] got=[%d,%d]", tn, a, b, c, d, n.first(), n.last());
                    }
                    if (r.intersects(o) != overlap) fail(16, "intersects T=%s a=[%d,%d] b=[%d,%d] got=%d", tn, a, b, c, d, (int)r.intersects(o));
                    if ((r && o) != overlap) fail(16, "overlaps T=%s a=[%d,%d] b=[%d,%d]", tn, a, b, c, d);
                    if ((r == o) != (a == c && b == d)) fail(17, "eqR T=%s a=[%d,%d] b=[%d,%d]", tn, a, b, c, d);
                    if ((r < o) != (b < c)) fail(18, "ltop T=%s a=[%d,%d] b=[%d,%d]", tn, a, b, c, d);
                    if ((r > o) != (d < a)) fail(19, "gtop T=%s a=[%d,%d] b=[%d,%d]", tn, a, b, c, d);
                    if ((r <= o) != !(d < a)) fail(20, "leop T=%s a=[%d,%d] b=[%d,%d]", tn, a, b, c, d);
                    if ((r >= o) != !(b < c)) fail(21, "geop T=%s a=[%d,%d] b=[%d,%d]", tn, a, b, c, d);
                }
    for (int a = lo; a <= hi; ++a)
        for (int b = a; b <= hi; ++b) {
            ++cases;
            Q r((T)a, (T)b);
            if (r.size() != (uint32_t)(b - a + 1)) fail(22, "size T=%s r=[%d,%d] got=%u", tn, a, b, r.size());
            // the operand may be the object itself: same set semantics as for two equal operands
            {
                int mn = 1 << 30, mx = -(1 << 30);
                for (int x = a; x <= b; ++x)
                    for (int y = a; y <= b; ++y) { mn = std::min(mn, x * y); mx = std::max(mx, x * y); }
                auto chk2 = [&](int id, const char* nm, const Q& g, int s, int f) {
                    if (s < lo || f > hi) return;
                    if (!((int)g.first() == s && (int)g.last() == f)) fail(id, "%s T=%s r=[%d,%d] got=[%d,%d] want=[%d,%d]", nm, tn, a, b, g.first(), g.last(), s, f);
                };
                { Q t = r; t += t; chk2(25, "addSelf", t, a + a, b + b); }
                { Q t = r; t -= t; chk2(26, "subSelf", t, a - b, b - a); }
                { Q t = r; t *= t; chk2(27, "mulSelf", t, mn, mx); }
                { Q t = r; t &= t; chk2(28, "andSelf", t, a, b); }
                { Q t = r; t |= t; chk2(29, "orSelf", t, a, b); }
            }
            if (r.empty()) fail(23, "empty T=%s r=[%d,%d]", tn, a, b);
        }
}

template <typename T>
static void oracle_boundary(const char* tn, const std::vector<T>& vals)
{
    using Q = range_t<T>;
    using L = long double;
    for (T a : vals)
        for (T b : vals) {
            if (!(a <= b)) continue;
            for (T e : vals) {
                ++cases;
                Q r(a, b);
                bool has_next = e < std::numeric_limits<T>::max() || std::numeric_limits<T>::has_infinity;
                bool has_prev = e > std::numeric_limits<T>::lowest() || std::numeric_limits<T>::has_infinity;
                for (T x : vals) {
                    bool inr = a <= x && x <= b;
                    if (has_next && !(std::numeric_limits<T>::has_infinity && e == std::numeric_limits<T>::infinity() && false)) {
                        Q g = Q(r).gt(e);
                        if ((g.first() <= x && x <= g.last()) != (inr && e < x)) fail(30, "gt T=%s r=[%Lg,%Lg] e=%Lg x=%Lg", tn, (L)a, (L)b, (L)e, (L)x);
                    }
                    if (has_prev) {
                        Q g = Q(r).lt(e);
                        if ((g.first() <= x && x <= g.last()) != (inr && x < e)) fail(31, "lt T=%s r=[%Lg,%Lg] e=%Lg x=%Lg got=[%Lg,%Lg]", tn, (L)a, (L)b, (L)e, (L)x, (L)g.first(), (L)g.last());
                    }
                    {
                        Q g = Q(r).geq(e);
                        if ((g.first() <= x && x <= g.last()) != (inr && e <= x)) fail(32, "geq T=%s r=[%Lg,%Lg] e=%Lg x=%Lg", tn, (L)a, (L)b, (L)e, (L)x);
                        Q h = Q(r).leq(e);
                        if ((h.first() <= x && x <= h.last()) != (inr && x <= e)) fail(33, "leq T=%s r=[%Lg,%Lg] e=%Lg x=%Lg", tn, (L)a, (L)b, (L)e, (L)x);
                    }
                }
                if (r.contains(e) != (a <= e && e <= b)) fail(34, "contains T=%s r=[%Lg,%Lg] e=%Lg", tn, (L)a, (L)b, (L)e);
            }
            for (T c : vals)
                for (T d : vals) {
                    if (!(c <= d)) continue;
                    ++cases;
                    Q r(a, b), o(c, d);
                    bool overlap = std::max(a, c) <= std::min(b, d);
                    if (r.intersects(o) != overlap) fail(35, "intersects T=%s a=[%Lg,%Lg] b=[%Lg,%Lg]", tn, (L)a, (L)b, (L)c, (L)d);
                    Q u = r | o;
                    if (!(u.first() == std::min(a, c) && u.last() == std::max(b, d))) fail(36, "orR T=%s a=[%Lg,%Lg] b=[%Lg,%Lg]", tn, (L)a, (L)b, (L)c, (L)d);
                    Q n = r & o;
                    if (overlap ? !(n.first() == std::max(a, c) && n.last() == std::min(b, d)) : !n.empty()) fail(37, "andR T=%s a=[%Lg,%Lg] b=[%Lg,%Lg]", tn, (L)a, (L)b, (L)c, (L)d);
                    if ((r == o) != (a == c && b == d)) fail(38, "eqR T=%s a=[%Lg,%Lg] b=[%Lg,%Lg]", tn, (L)a, (L)b, (L)c, (L)d);
                    if ((r < o) != (b < c)) fail(39, "ltop T=%s a=[%Lg,%Lg] b=[%Lg,%Lg]", tn, (L)a, (L)b, (L)c, (L)d);
                    if ((r > o) != (d < a)) fail(40, "gtop T=%s a=[%Lg,%Lg] b=[%Lg,%Lg]", tn, (L)a, (L)b, (L)c, (L)d);
                }
        }
}

// + - * (interval and element operand, binary and in-place form) for the 32- and 64-bit integer types: every pair of
// non-empty intervals over `vals` (boundary values; 0 and the values next to it matter for the unsigned types) and
// `samples` random pairs; the reference is the tightest interval around the pointwise results, computed in 128-bit
// arithmetic (for * the extremes are at the corners); operand pairs whose result leaves T are skipped.
static unsigned long long lcg_state = 1;
static unsigned long long lcg()
{
    lcg_state = lcg_state * 6364136223846793005ULL + 1442695040888963407ULL;
    return lcg_state >> 11;
}
template <typename T>
static void arith_case(const char* tn, T a, T b, T c, T d)
{
    using Q = range_t<T>;
    using W = __int128;
    const W lo = std::numeric_limits<T>::min(), hi = std::numeric_limits<T>::max();
    ++cases;
    auto show = [](T s, T f) { return "[" + std::to_string(s) + "," + std::to_string(f) + "]"; };
    auto chk = [&](int id, const char* nm, W s, W f, auto&& compute) {
        if (s < lo || f > hi) return;  // overflows T: outside the property
        Q g = compute();
        if (!((W)g.first() == s && (W)g.last() == f))
            fail(id, "%s T=%s a=%s b=%s got=%s want=%s", nm, tn, show(a, b).c_str(), show(c, d).c_str(), show(g.first(), g.last()).c_str(), show((T)s, (T)f).c_str());
    };
    const Q r(a, b), o(c, d);
    W p1, p2, p3, p4;  // (two uint64_t factors can exceed even 128 bits with a sign: such products are out of T anyway)
    const bool wide = __builtin_mul_overflow((W)a, (W)c, &p1) | __builtin_mul_overflow((W)a, (W)d, &p2) |
                      __builtin_mul_overflow((W)b, (W)c, &p3) | __builtin_mul_overflow((W)b, (W)d, &p4);
    if (wide) p1 = p2 = p3 = p4 = hi + 1;
    const W mn = std::min(std::min(p1, p2), std::min(p3, p4)), mx = std::max(std::max(p1, p2), std::max(p3, p4));
    chk(11, "mulR", mn, mx, [&] { return r * o; });
    chk(12, "addR", (W)a + c, (W)b + d, [&] { return r + o; });
    chk(13, "subR", (W)a - d, (W)b - c, [&] { return r - o; });
    chk(41, "mulAssignR", mn, mx, [&] { Q t = r; t *= o; return t; });
    chk(42, "addAssignR", (W)a + c, (W)b + d, [&] { Q t = r; t += o; return t; });
    chk(43, "subAssignR", (W)a - d, (W)b - c, [&] { Q t = r; t -= o; return t; });
    // element operand: c
    chk(8, "addT", (W)a + c, (W)b + c, [&] { return r + c; });
    chk(9, "subT", (W)a - c, (W)b - c, [&] { return r - c; });
    chk(10, "mulT", std::min(p1, p3), std::max(p1, p3), [&] { return r * c; });
}
template <typename T>
static void oracle_arith(const char* tn, const std::vector<T>& vals, int samples)
{
    for (T a : vals)
        for (T b : vals)
            for (T c : vals)
                for (T d : vals)
                    if (a <= b && c <= d) arith_case<T>(tn, a, b, c, d);
    // sampled: small magnitudes (products fit), a subtrahend / factor that starts at 0 or 1 in a quarter of the cases
    for (int i = 0; i < samples; ++i) {
        const int bits = 1 + (int)(lcg() % (sizeof(T) * 4));
        auto pick = [&]() -> T {
            long long v = (long long)(lcg() % (1ULL << bits));
            if (std::is_signed_v<T> && (lcg() & 1)) v = -v;
            return (T)v;
        };
        T a = pick(), b = pick(), c = pick(), d = pick();
        if (b < a) std::swap(a, b);
        if (i % 4 == 0) c = (T)(i / 4 % 2);
        if (d < c) std::swap(c, d);
        arith_case<T>(tn, a, b, c, d);
    }
}

int main(int argc, char** argv)
{
    if (argc > 1 && !std::strcmp(argv[1], "ops"))
        return ops();
    if (argc > 2) WINDOW = std::atoi(argv[2]);
    if (argc > 3) lcg_state = std::strtoull(argv[3], nullptr, 10);
    const int samples = 2000 * WINDOW;
    oracle_small<int8_t>("int8");
    id_base += 64;
    oracle_small<uint8_t>("uint8");
    id_base += 64;
    {
        using N = std::numeric_limits<int32_t>;
        oracle_boundary<int32_t>("int32", {N::min(), N::min() + 1, -2, -1, 0, 1, 2, N::max() - 1, N::max()});
        oracle_arith<int32_t>("int32", {N::min(), N::min() + 1, -46341, -5, -2, -1, 0, 1, 2, 5, 46340, N::max() - 1, N::max()}, samples);
    }
    id_base += 64;
    {
        using N = std::numeric_limits<int64_t>;
        oracle_arith<int64_t>("int64", {N::min(), N::min() + 1, -3037000500LL, -5, -2, -1, 0, 1, 2, 5, 3037000499LL, N::max() - 1, N::max()}, samples);
    }
    id_base += 64;
    {
        using N = std::numeric_limits<uint32_t>;
        oracle_boundary<uint32_t>("uint32", {0, 1, 2, 5, 65535, 65536, N::max() / 2, N::max() / 2 + 1, N::max() - 1, N::max()});
        oracle_arith<uint32_t>("uint32", {0, 1, 2, 5, 10, 20, 65535, 65536, N::max() / 2, N::max() / 2 + 1, N::max() - 1, N::max()}, samples);
    }
    id_base += 64;
    {
        using N = std::numeric_limits<uint64_t>;
        oracle_boundary<uint64_t>("uint64", {0, 1, 2, 5, 4294967295ULL, 4294967296ULL, N::max() / 2, N::max() / 2 + 1, N::max() - 1, N::max()});
        oracle_arith<uint64_t>("uint64", {0, 1, 2, 5, 10, 20, 4294967295ULL, 4294967296ULL, N::max() / 2, N::max() / 2 + 1, N::max() - 1, N::max()}, samples);
    }
    id_base += 64;
    {
        using N = std::numeric_limits<double>;
        oracle_boundary<double>("double", {-N::infinity(), N::lowest(), -1.0, -N::denorm_min(), 0.0, N::denorm_min(), 1.0,
                                           std::nextafter(1.0, 2.0), N::max(), N::infinity()});
    }
    std::printf("SUMMARY cases=%lld fails=%lld\n", cases, fails);
    return 0;
}
