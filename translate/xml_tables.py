"""Translator (tie T) for C04 / C05 / C20: reads the small tables and orderings of the XML reader, the document builder,
the XTA grammar and the XML writer out of /repo's *current* source text and emits lean/UtapModel/Gen/XmlTables.lean.
The hand-written models (Model/Xml.lean, XmlBuild.lean, Xta.lean, XmlWrite.lean) are tied to these tables by `decide`
theorems in Props/C04.lean, C05.lean, C20.lean: an edit of the source that changes a table changes the generated file and
breaks the theorem that names it.  Fails closed: a source shape that is not recognised raises TranslateError."""
import os
import re


class TranslateError(Exception):
    pass


def _read(repo, rel):
    p = os.path.join(repo, rel)
    try:
        return open(p).read()
    except OSError as ex:
        raise TranslateError("cannot read %s: %s" % (rel, ex))


def _body(src, header_re, what):
    """text of the brace-balanced block that follows the first match of header_re"""
    mm = re.search(header_re, src)
    if not mm:
        raise TranslateError("cannot find " + what)
    i = src.index("{", mm.end() - 1) if src[mm.end() - 1] != "{" else mm.end() - 1
    depth, j = 0, i
    while j < len(src):
        if src[j] == "{":
            depth += 1
        elif src[j] == "}":
            depth -= 1
            if depth == 0:
                return src[i + 1:j]
        j += 1
    raise TranslateError("unbalanced braces in " + what)


def strip_comments(s):
    s = re.sub(r"/\*.*?\*/", " ", s, flags=re.S)
    return re.sub(r"//[^\n]*", " ", s)


def tables(repo):
    t = {}
    xr = strip_comments(_read(repo, "src/xmlreader.cpp"))
    # 1. element names known to the reader
    body = _body(xr, r"static const auto tag_map\s*=\s*std::unordered_map<[^>]*>\s*\{", "tag_map")
    tags = re.findall(r'\{\s*"(\w+)"\s*,\s*tag_t::(\w+)\s*\}', body)
    if len(tags) < 20:
        raise TranslateError("tag_map: only %d entries recognised" % len(tags))
    rest = re.sub(r'\{\s*"\w+"\s*,\s*tag_t::\w+\s*\}', "", body)
    if re.sub(r"[\s,]", "", rest):
        raise TranslateError("tag_map: unrecognised entry text %r" % rest.strip()[:80])
    t["knownTags"] = [a for a, _ in tags]
    # 2. label kind -> grammar entry point (XMLReader::label)
    lab = _body(xr, r"bool XMLReader::label\(bool required, const std::string& s_kind\)\s*\{", "XMLReader::label")
    mp = _body(lab, r"static const auto map\s*=\s*std::map<std::string_view,\s*xta_part_t>\s*\{", "label kind map")
    kinds = re.findall(r'\{\s*"(\w+)"\s*,\s*(S_\w+)\s*\}', mp)
    if not kinds or re.sub(r"[\s,]", "", re.sub(r'\{\s*"\w+"\s*,\s*S_\w+\s*\}', "", mp)):
        raise TranslateError("label kind map: unrecognised text")
    t["edgeLabelKinds"] = kinds
    # 3. XMLReader::invariant: kind -> (entry point, result code)
    inv = _body(xr, r"int XMLReader::invariant\(\)\s*\{", "XMLReader::invariant")
    loc = re.findall(r'kind_sv == "(\w+)"\)\s*\{\s*if \(parse\(text, (S_\w+)\) == 0\)\s*result = (\d+);', inv)
    if len(loc) != len(re.findall(r"kind_sv ==", inv)) or not loc:
        raise TranslateError("XMLReader::invariant: unrecognised shape")
    t["locLabelKinds"] = loc
    # 4. order of the callbacks in XMLReader::location and of the parts of XMLReader::templ / transition
    locf = _body(xr, r"bool XMLReader::location\(\)\s*\{", "XMLReader::location")
    t["readerLocationCallbacks"] = re.findall(r"parser->(proc_location\w*)\(", locf)
    res_loc = re.search(r"l_invariant \|= res == (\d+);\s*l_exponentialRate \|= res == (\d+);", locf)
    if not res_loc:
        raise TranslateError("XMLReader::location: result codes of invariant() not recognised")
    t["locResultCodes"] = [("invariant", res_loc.group(1)), ("exponentialrate", res_loc.group(2))]
    tf = _body(xr, r"bool XMLReader::templ\(\)\s*\{", "XMLReader::templ")
    t["readerTemplateOrder"] = re.findall(r"\b(name|parameter|proc_begin|declaration|location|branchpoint|init|transition|proc_end)\(", tf)
    trf = _body(xr, r"bool XMLReader::transition\(\)\s*\{", "XMLReader::transition")
    t["readerTransitionOrder"] = re.findall(r"\b(source|target|proc_edge_begin|label|proc_edge_end)\(", trf)
    ctrl = re.search(r'bool control = \(type == nullptr \|\| \(strcmp\(type, "true"\) == 0\)\);', trf)
    t["controllableDefaultTrue"] = bool(ctrl)
    if not re.search(r"bool control =", trf):
        raise TranslateError("XMLReader::transition: controllable attribute handling not found")
    # anonymous names
    t["anonymousLocationPrefix"] = (re.search(r'l_name = "([^"]*)" \+ l_id;', locf) or [None, None])[1]
    bpf = _body(xr, r"bool XMLReader::branchpoint\(\)\s*\{", "XMLReader::branchpoint")
    t["branchpointPrefix"] = (re.search(r'std::string b_name = "([^"]*)" \+ b_id;', bpf) or [None, None])[1]
    if t["anonymousLocationPrefix"] is None or t["branchpointPrefix"] is None:
        raise TranslateError("id-derived names not recognised")
    t["namesLastWins"] = len(re.findall(r"names\.insert_or_assign\(", xr)) >= 2 and "names.try_emplace" not in xr and "names.emplace" not in xr
    # 5. DocumentBuilder::proc_location: which operand is popped first
    db = strip_comments(_read(repo, "src/DocumentBuilder.cpp"))
    pl = _body(db, r"void DocumentBuilder::proc_location\(const char\* name, bool hasInvariant, bool hasER\)[^{]*\{", "proc_location")
    order = re.findall(r"if \((hasER|hasInvariant)\)\s*\{\s*(\w) = fragments\[0\];\s*fragments\.pop\(\);", pl)
    if len(order) != 2:
        raise TranslateError("proc_location: pop sequence not recognised")
    add = re.search(r"add_location\(name, (\w), (\w), position\)", pl)
    if not add:
        raise TranslateError("proc_location: add_location call not recognised")
    # (flag, variable) in pop order; add_location(name, inv, er)
    t["procLocationPops"] = [("rate" if f == "hasER" else "invariant", "er" if v == add.group(2) else "inv" if v == add.group(1) else "?") for f, v in order]
    # which edge field each label callback writes
    fields = []
    for cb in ("proc_guard", "proc_sync", "proc_update", "proc_prob"):
        b = _body(db, r"void DocumentBuilder::%s\([^)]*\)\s*\{" % cb, cb)
        mm = re.search(r"currentEdge->(\w+) = ", b)
        if not mm:
            raise TranslateError(cb + ": assignment to currentEdge not recognised")
        fields.append((cb, mm.group(1)))
    t["edgeLabelFields"] = fields
    # 6. document.cpp: add_edge endpoints and add_instance binding
    dc = strip_comments(_read(repo, "src/document.cpp"))
    ae = _body(dc, r"edge_t& template_t::add_edge\(symbol_t src, symbol_t dst, bool control, string actname\)\s*\{", "add_edge")
    eps = re.findall(r"edge\.(src|dst) = static_cast<location_t\*>\((src|dst)\.get_data\(\)\);", ae)
    t["addEdgeEndpoints"] = eps
    ai = _body(dc, r"instance_t& Document::add_instance\([^)]*\)\s*\{", "add_instance")
    bind = re.search(r"instance\.mapping\[inst\.parameters\[(\w+)\]\] = arguments\[([^\]]+)\];", ai)
    if not bind:
        raise TranslateError("add_instance: binding loop not recognised")
    t["addInstanceBinding"] = [bind.group(1), bind.group(2).strip()]
    # 7. XTA grammar: sections of a transition, process body
    py = strip_comments(_read(repo, "src/parser.y"))
    tr = re.search(r"\nTransition:(.*?)\n\s*;\s*\n", py, re.S)
    tro = re.search(r"\nTransitionOpt:(.*?)\n\s*;\s*\n", py, re.S)
    pb = re.search(r"\nProcBody:(.*?)\n\s*;\s*\n", py, re.S)
    if not (tr and tro and pb):
        raise TranslateError("parser.y: Transition / TransitionOpt / ProcBody not found")
    sec = lambda s: re.findall(r"\}\s*((?:Select|Guard|Sync|Assign|Probability)(?:\s+(?:Select|Guard|Sync|Assign|Probability))*)\s*'\}'", s)
    t["xtaTransitionSections"] = sorted(set(tuple(x.split()) for x in sec(tr.group(1))))
    t["xtaTransitionOptSections"] = sorted(set(tuple(x.split()) for x in sec(tro.group(1))))
    if len(t["xtaTransitionSections"]) != 1 or len(t["xtaTransitionOptSections"]) != 1:
        raise TranslateError("parser.y: transition sections not uniform: %r %r" % (t["xtaTransitionSections"], t["xtaTransitionOptSections"]))
    t["xtaControl"] = sorted(set(re.findall(r"(T_ARROW|T_UNCONTROL_ARROW) NonTypeId '\{' \{\s*CALL\(@1, @\d, proc_edge_begin\([^,]+, \$\d, (true|false)\)\);", tr.group(1) + tro.group(1))))
    t["xtaRootSet"] = sorted(set(re.findall(r"strcpy\(rootTransId, (\$\d)\);", tr.group(1))))
    t["xtaRootUse"] = sorted(set(re.findall(r"proc_edge_begin\(rootTransId, (\$\d), (?:true|false)\)", tro.group(1))))
    alts = [a.split() for a in re.split(r"\|", pb.group(1)) if a.strip() and "empty" not in a]
    t["xtaProcBody"] = [a for a in alts if a]
    st = re.search(r"\nStateDecl:(.*?)\n\s*;\s*\n", py, re.S)
    if not st:
        raise TranslateError("parser.y: StateDecl not found")
    t["xtaStateDecl"] = re.findall(r"proc_location\(\$1, (true|false), (true|false)\)", st.group(1))
    # 8. the writer: kinds of labels written for an edge / a location, attributes of a transition
    xw = strip_comments(_read(repo, "src/xmlwriter.cpp"))
    lb = _body(xw, r"void XMLWriter::labels\(int x, int y, const edge_t& edge\)\s*\{", "XMLWriter::labels")
    t["writerEdgeLabels"] = re.findall(r'label\("(\w+)"', lb)
    lc = _body(xw, r"void XMLWriter::location\(const location_t& loc\)\s*\{", "XMLWriter::location")
    t["writerLocLabels"] = re.findall(r'label\("(\w+)"', lc)
    wt = _body(xw, r"void XMLWriter::transition\(const edge_t& edge\)\s*\{", "XMLWriter::transition")
    t["writerTransitionAttributes"] = re.findall(r'writeAttribute\("(\w+)"', wt)
    t["writerSelectAll"] = "edge.select[0]" not in lb and re.search(r"for \(uint32_t i = 0; i < edge\.select\.get_size\(\); \+\+i\)", lb) is not None
    t["writerSelectDeclared"] = re.search(r"edge\.select\[i\]\.get_name\(\) \+ \" : \"", lb) is not None and "type[0].declaration()" in lb
    t["writerBranchpoints"] = "branchpoint" in _body(xw, r"void XMLWriter::taTempl\(const template_t& templ\)\s*\{", "XMLWriter::taTempl")
    lf = _body(xw, r"void XMLWriter::label\(const char\* kind, string data, int x, int y\)\s*\{", "XMLWriter::label")
    t["writerSkips"] = re.findall(r'if \(data == "([^"]*)"\)', lf)
    t["writerStrips"] = re.findall(r'data\.substr\(0, \d+\) == "([^"]*)"', lf)
    return t


def lean_text(t):
    def s(x):
        return '"' + x.replace("\\", "\\\\").replace('"', '\\"') + '"'

    def lst(xs):
        return "[" + ", ".join(xs) + "]"

    def strs(xs):
        return lst([s(x) for x in xs])

    def pairs(xs):
        return lst(["(" + ", ".join(s(y) for y in x) + ")" for x in xs])

    def b(x):
        return "true" if x else "false"
    o = ["/- GENERATED by translate/xml_tables.py from src/xmlreader.cpp, src/DocumentBuilder.cpp, src/document.cpp, src/parser.y,",
         "   src/xmlwriter.cpp of the current working tree -- do not edit.  Tied to the hand-written models by `decide` theorems in",
         "   Props/C04.lean, Props/C05.lean, Props/C20.lean. -/",
         "namespace UtapModel.Gen.XmlTables", ""]
    o.append("def knownTags : List String := " + strs(t["knownTags"]))
    o.append("def edgeLabelKinds : List (String × String) := " + pairs(t["edgeLabelKinds"]))
    o.append("def locLabelKinds : List (String × String × String) := " + pairs(t["locLabelKinds"]))
    o.append("def locResultCodes : List (String × String) := " + pairs(t["locResultCodes"]))
    o.append("def readerLocationCallbacks : List String := " + strs(t["readerLocationCallbacks"]))
    o.append("def readerTemplateOrder : List String := " + strs(t["readerTemplateOrder"]))
    o.append("def readerTransitionOrder : List String := " + strs(t["readerTransitionOrder"]))
    o.append("def controllableDefaultTrue : Bool := " + b(t["controllableDefaultTrue"]))
    o.append("def anonymousLocationPrefix : String := " + s(t["anonymousLocationPrefix"]))
    o.append("def branchpointPrefix : String := " + s(t["branchpointPrefix"]))
    o.append("def namesLastWins : Bool := " + b(t["namesLastWins"]))
    o.append("def procLocationPops : List (String × String) := " + pairs(t["procLocationPops"]))
    o.append("def edgeLabelFields : List (String × String) := " + pairs(t["edgeLabelFields"]))
    o.append("def addEdgeEndpoints : List (String × String) := " + pairs(t["addEdgeEndpoints"]))
    o.append("def addInstanceBinding : List String := " + strs(t["addInstanceBinding"]))
    o.append("def xtaTransitionSections : List String := " + strs(t["xtaTransitionSections"][0]))
    o.append("def xtaTransitionOptSections : List String := " + strs(t["xtaTransitionOptSections"][0]))
    o.append("def xtaControl : List (String × String) := " + pairs(t["xtaControl"]))
    o.append("def xtaRootSet : List String := " + strs(t["xtaRootSet"]))
    o.append("def xtaRootUse : List String := " + strs(t["xtaRootUse"]))
    o.append("def xtaProcBody : List (List String) := " + lst([strs(a) for a in t["xtaProcBody"]]))
    o.append("def xtaStateDecl : List (String × String) := " + pairs(t["xtaStateDecl"]))
    o.append("def writerEdgeLabels : List String := " + strs(t["writerEdgeLabels"]))
    o.append("def writerLocLabels : List String := " + strs(t["writerLocLabels"]))
    o.append("def writerTransitionAttributes : List String := " + strs(t["writerTransitionAttributes"]))
    o.append("def writerSelectAll : Bool := " + b(t["writerSelectAll"]))
    o.append("def writerSelectDeclared : Bool := " + b(t["writerSelectDeclared"]))
    o.append("def writerBranchpoints : Bool := " + b(t["writerBranchpoints"]))
    o.append("def writerSkips : List String := " + strs(t["writerSkips"]))
    o.append("def writerStrips : List String := " + strs(t["writerStrips"]))
    o += ["", "end UtapModel.Gen.XmlTables", ""]
    return "\n".join(o)


def translate(repo):
    return lean_text(tables(repo))


if __name__ == "__main__":
    import sys
    print(translate(sys.argv[1] if len(sys.argv) > 1 else "/repo"))
