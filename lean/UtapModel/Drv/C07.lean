/- Driver for C07: one scope script per line (events `E:a,b` enter with binders, `L` leave, `D:x` declare, `U:x` use,
   `X:x` take the innermost scope's latest declaration of x out of its frame again);
   prints whether the script is well nested and, per use, the declaration ordinal the declarative semantics (`specRun`)
   and the frame-store machine (`implRun`) bind it to. -/
import UtapModel.Model.ScopeScript
import UtapModel.Model.TypeSubst
import UtapModel.Model.Sexp
open UtapModel.Builder

def parseEv (tok : String) : Option Ev :=
  if tok == "L" then some .leave
  else if tok.startsWith "E:" then
    let rest := (tok.drop 2).toString
    some (.enter (if rest == "" then [] else rest.splitOn ","))
  else if tok.startsWith "D:" then some (.declare (tok.drop 2).toString)
  else if tok.startsWith "U:" then some (.use (tok.drop 2).toString)
  else if tok.startsWith "X:" then some (.remove (tok.drop 2).toString)
  else none

def showB (l : List (Option Nat)) : String :=
  ",".intercalate (l.map (fun o => match o with | some n => toString n | none => "none"))

/-! ### DOTTYPE: the type of a process member with the mapping's arguments substituted (Model/TypeSubst.lean)

   `DOTTYPE\t<type or expression sexp>\t<name>=<sexp>\t<name>=<sexp>...`  (the pairs in the order the mapping is to be walked) →
   the sexp after `expr_dot`'s rounds.  Identifiers are `(IDENTIFIER name)`; every other node is generic. -/
open UtapModel UtapModel.TypeSubst in
partial def toE (keys : List String) : Sexp → E
  | .atom a => .atom a
  | .list [.atom "IDENTIFIER", .atom n] => match keys.idxOf? n with | some i => .id i | none => .app (.atom "IDENTIFIER") (.atom n)
  | .list [] => .atom "()"
  | .list (h :: rest) => rest.foldl (fun f a => .app f (toE keys a)) (.app (.atom "#list") (toE keys h))

open UtapModel UtapModel.TypeSubst in
partial def ofE (keys : List String) (e : E) : String :=
  -- uncurry: collect the operands of an application chain
  let rec spine (e : E) (acc : List E) : E × List E :=
    match e with
    | .app f a => spine f (a :: acc)
    | x => (x, acc)
  match e with
  | .id s => "(IDENTIFIER " ++ (keys[s]?.getD "?") ++ ")"
  | .atom a => a
  | .app _ _ =>
    let (h, args) := spine e []
    match h, args with
    | .atom "#list", hd :: rest => "(" ++ " ".intercalate ((hd :: rest).map (ofE keys)) ++ ")"
    | h, args => "(" ++ " ".intercalate ((h :: args).map (ofE keys)) ++ ")"

open UtapModel UtapModel.TypeSubst in
def dotTypeLine (fields : List String) : String :=
  match fields with
  | ty :: pairs =>
    let kv := pairs.filterMap (fun p => match p.splitOn "=" with | k :: v :: rest => some (k, "=".intercalate (v :: rest)) | _ => none)
    let keys := kv.map (·.1)
    match Sexp.parse ty with
    | none => "bad-sexp"
    | some sx =>
      let m := kv.filterMap (fun (k, v) => match Sexp.parse v, keys.idxOf? k with | some vx, some i => some (i, toE keys vx) | _, _ => none)
      if m.length != kv.length then "bad-mapping" else ofE keys (dotTypeE m (toE keys sx))
  | [] => "bad-op"

def stepLine (line : String) : String :=
  if line.startsWith "DOTTYPE\t" then dotTypeLine (((line.trimAsciiEnd.toString.splitOn "\t").drop 1)) else
  let toks := (line.trimAscii.toString.splitOn " ").filter (· ≠ "")
  match toks.mapM parseEv with
  | none => "bad-script"
  | some evs =>
    let wn := wellNested 0 evs
    s!"{if wn then "WN" else "NOTWN"} spec={showB (specRun [[]] 0 evs)} impl={showB (implRun SState.init evs)}"

partial def loop (h : IO.FS.Stream) (out : IO.FS.Stream) : IO Unit := do
  let line ← h.getLine
  if line.isEmpty then return ()
  out.putStrLn (stepLine line)
  loop h out

def main : IO Unit := do loop (← IO.getStdin) (← IO.getStdout)
