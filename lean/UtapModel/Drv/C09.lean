/- stub: line-protocol driver for C09 (to be written) -/
def main : IO Unit := pure ()
