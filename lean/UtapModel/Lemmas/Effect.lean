/- Helper lemmas for Props/C11.lean and Props/C13.lean (model: Model/Effect.lean, spec: Model/EffectSpec.lean). -/
import UtapModel.Model.EffectSpec
namespace UtapModel.Effect
open UtapModel

/-! ### small list facts -/

theorem mem_erase_of {xs drop : List Sym} {s : Sym} (h : s ∈ xs) (hn : s ∉ drop) : s ∈ erase xs drop := by
  unfold erase
  simp [List.mem_filter, h, hn]

theorem mem_flatE {X : Expr → List Sym} {es : List Expr} {e : Expr} {s : Sym} (he : e ∈ es) (hs : s ∈ X e) : s ∈ flatE X es := by
  induction es with
  | nil => cases he
  | cons a as ih =>
    simp only [flatE, List.mem_append]
    rcases List.mem_cons.mp he with rfl | h
    · exact Or.inl hs
    · exact Or.inr (ih h)

/-! ### get_symbols -/

theorem getSymbols_node (cfg : Cfg) (k : Kind) (x : Sym) (subs : List Expr) (hk : k ≠ .kIDENTIFIER) :
    getSymbols cfg (.node k x subs) = getSymbolsSel cfg (cfg.getSymbolsIdx k) 0 subs := by
  simp [getSymbols, hk]

theorem getSymbols_first {cfg : Cfg} {k : Kind} {x s : Sym} {a : Expr} {r : List Expr} (hk : k ≠ .kIDENTIFIER)
    (hi : (cfg.getSymbolsIdx k).contains 0 = true) (h : s ∈ getSymbols cfg a) : s ∈ getSymbols cfg (.node k x (a :: r)) := by
  rw [getSymbols_node cfg k x _ hk]
  simp only [getSymbolsSel, hi, if_true, List.mem_append]
  exact Or.inl h

theorem getSymbols_second {cfg : Cfg} {k : Kind} {x s : Sym} {a b : Expr} {r : List Expr} (hk : k ≠ .kIDENTIFIER)
    (hi : (cfg.getSymbolsIdx k).contains 1 = true) (h : s ∈ getSymbols cfg b) : s ∈ getSymbols cfg (.node k x (a :: b :: r)) := by
  rw [getSymbols_node cfg k x _ hk]
  simp only [getSymbolsSel, hi, if_true, List.mem_append]
  exact Or.inr (Or.inl h)

theorem getSymbols_third {cfg : Cfg} {k : Kind} {x s : Sym} {a b c : Expr} {r : List Expr} (hk : k ≠ .kIDENTIFIER)
    (hi : (cfg.getSymbolsIdx k).contains 2 = true) (h : s ∈ getSymbols cfg c) : s ∈ getSymbols cfg (.node k x (a :: b :: c :: r)) := by
  rw [getSymbols_node cfg k x _ hk]
  simp only [getSymbolsSel, hi, if_true, List.mem_append]
  exact Or.inr (Or.inr (Or.inl h))

theorem assignKinds_ne_ident : ∀ k ∈ assignKinds, k ≠ Kind.kIDENTIFIER := by decide
theorem preIncDecKinds_ne_ident : ∀ k ∈ preIncDecKinds, k ≠ Kind.kIDENTIFIER := by decide

/-- every variable an lvalue may denote is reported by `get_symbols` -/
theorem rootOf_getSymbols {cfg : Cfg} (hc : cfg.WritesComplete) {e : Expr} {s : Sym} (h : RootOf e s) : s ∈ getSymbols cfg e := by
  obtain ⟨_, _, _, _, _, _, _, hdot, harr, hif1, hif2, hcomma, hass, hpre⟩ := hc
  induction h with
  | ident s subs => simp [getSymbols]
  | dot _ ih => exact getSymbols_first (by decide) hdot ih
  | array _ ih => exact getSymbols_first (by decide) harr ih
  | ifThen _ ih => exact getSymbols_second (by decide) hif1 ih
  | ifElse _ ih => exact getSymbols_third (by decide) hif2 ih
  | comma _ ih => exact getSymbols_second (by decide) hcomma ih
  | assign hk _ ih => exact getSymbols_first (assignKinds_ne_ident _ hk) (hass _ hk) ih
  | preIncDec hk _ ih => exact getSymbols_first (preIncDecKinds_ne_ident _ hk) (hpre _ hk) ih

theorem refArgSymbols_mem {cfg : Cfg} {s p : Sym} {a : Expr} :
    ∀ (args : List Expr) (params : List Sym) (flags : List Bool),
      (a, p, true) ∈ args.zip (params.zip flags) → s ∈ getSymbols cfg a → s ∈ refArgSymbols cfg flags args := by
  intro args
  induction args with
  | nil => intro params flags h; simp at h
  | cons x xs ih =>
    intro params flags h hs
    cases params with
    | nil => simp at h
    | cons q qs =>
      cases flags with
      | nil => simp at h
      | cons f fs =>
        simp only [List.zip_cons_cons, List.mem_cons, Prod.mk.injEq] at h
        simp only [refArgSymbols, List.mem_append]
        rcases h with ⟨rfl, _, rfl⟩ | h
        · left; simp [hs]
        · right; exact ih qs fs h hs

/-! ### collect_possible_writes -/

theorem mem_collectWritesL {cfg : Cfg} {env : Env} {s : Sym} {e : Expr} :
    ∀ {subs : List Expr}, e ∈ subs → s ∈ collectWrites cfg env e → s ∈ collectWritesL cfg env subs := by
  intro subs
  induction subs with
  | nil => intro h; cases h
  | cons a as ih =>
    intro h hs
    simp only [collectWritesL, List.mem_append]
    rcases List.mem_cons.mp h with rfl | h'
    · exact Or.inl hs
    · exact Or.inr (ih h' hs)

theorem collectWrites_sub {cfg : Cfg} {env : Env} (hr : cfg.writesRecurses = true) {k : Kind} {x s : Sym} {subs : List Expr} {e : Expr}
    (he : e ∈ subs) (hs : s ∈ collectWrites cfg env e) : s ∈ collectWrites cfg env (.node k x subs) := by
  unfold collectWrites
  simp only [hr, if_true, List.mem_append]
  exact Or.inl (mem_collectWritesL he hs)

/-! ### the statement visitor reaches every expression of a statement -/

mutual
theorem collectStmt_complete {v : VisitFlags} (hv : v.Complete) {X : Expr → List Sym} {s : Sym} {b : Expr} (hs : s ∈ X b) :
    ∀ (st : Stmt), b ∈ exprsOf st → s ∈ collectStmt v X st
  | .empty, h => by simp [exprsOf] at h
  | .breakS, h => by simp [exprsOf] at h
  | .continueS, h => by simp [exprsOf] at h
  | .exprS e, h => by
    obtain ⟨h1, _⟩ := id hv
    simp only [exprsOf, List.mem_singleton] at h
    subst h; simp [collectStmt, h1, hs]
  | .assertS e, h => by
    obtain ⟨_, h2, _⟩ := id hv
    simp only [exprsOf, List.mem_singleton] at h
    subst h; simp [collectStmt, h2, hs]
  | .forS i c t body, h => by
    obtain ⟨_, _, h3, h4, h5, h6, _⟩ := id hv
    simp only [exprsOf, List.mem_cons] at h
    simp only [collectStmt, h3, h4, h5, h6, if_true, List.mem_append]
    rcases h with rfl | rfl | rfl | h
    · exact Or.inl (Or.inl (Or.inl hs))
    · exact Or.inl (Or.inl (Or.inr hs))
    · exact Or.inl (Or.inr hs)
    · exact Or.inr (collectStmt_complete hv hs body h)
  | .iterS _ body, h => by
    obtain ⟨_, _, _, _, _, _, h7, _⟩ := id hv
    simp only [exprsOf] at h
    simp only [collectStmt, h7, if_true]
    exact collectStmt_complete hv hs body h
  | .whileS c body, h => by
    obtain ⟨_, _, _, _, _, _, _, h8, h9, _⟩ := id hv
    simp only [exprsOf, List.mem_cons] at h
    simp only [collectStmt, h8, h9, if_true, List.mem_append]
    rcases h with rfl | h
    · exact Or.inl hs
    · exact Or.inr (collectStmt_complete hv hs body h)
  | .doWhileS body c, h => by
    obtain ⟨_, _, _, _, _, _, _, _, _, h10, h11, _⟩ := id hv
    simp only [exprsOf, List.mem_cons] at h
    simp only [collectStmt, h10, h11, if_true, List.mem_append]
    rcases h with rfl | h
    · exact Or.inl hs
    · exact Or.inr (collectStmt_complete hv hs body h)
  | .block inits stats, h => by
    obtain ⟨_, _, _, _, _, _, _, _, _, _, _, h12, h13, _⟩ := id hv
    simp only [exprsOf, List.mem_append] at h
    simp only [collectStmt, h12, h13, if_true, List.mem_append]
    rcases h with h | h
    · exact Or.inl (mem_flatE h hs)
    · exact Or.inr (collectStmtL_complete hv hs stats h)
  | .switchS c inits stats, h => by
    obtain ⟨_, _, _, _, _, _, _, _, _, _, _, _, _, h14, h15, h16, _⟩ := id hv
    simp only [exprsOf, List.mem_cons, List.mem_append] at h
    simp only [collectStmt, h14, h15, h16, if_true, List.mem_append]
    rcases h with rfl | h | h
    · exact Or.inl (Or.inl hs)
    · exact Or.inl (Or.inr (mem_flatE h hs))
    · exact Or.inr (collectStmtL_complete hv hs stats h)
  | .caseS c inits stats, h => by
    obtain ⟨_, _, _, _, _, _, _, _, _, _, _, _, _, _, _, _, h17, h18, h19, _⟩ := id hv
    simp only [exprsOf, List.mem_cons, List.mem_append] at h
    simp only [collectStmt, h17, h18, h19, if_true, List.mem_append]
    rcases h with rfl | h | h
    · exact Or.inl (Or.inl hs)
    · exact Or.inl (Or.inr (mem_flatE h hs))
    · exact Or.inr (collectStmtL_complete hv hs stats h)
  | .defaultS inits stats, h => by
    obtain ⟨_, _, _, _, _, _, _, _, _, _, _, _, _, _, _, _, _, _, _, h20, h21, _⟩ := id hv
    simp only [exprsOf, List.mem_append] at h
    simp only [collectStmt, h20, h21, if_true, List.mem_append]
    rcases h with h | h
    · exact Or.inl (mem_flatE h hs)
    · exact Or.inr (collectStmtL_complete hv hs stats h)
  | .ifS c t e, h => by
    obtain ⟨_, _, _, _, _, _, _, _, _, _, _, _, _, _, _, _, _, _, _, _, _, h22, h23, h24, _⟩ := id hv
    simp only [exprsOf, List.mem_cons, List.mem_append] at h
    simp only [collectStmt, h22, h23, h24, if_true, List.mem_append]
    rcases h with rfl | h | h
    · exact Or.inl (Or.inl hs)
    · exact Or.inl (Or.inr (collectStmt_complete hv hs t h))
    · exact Or.inr (collectStmt_complete hv hs e h)
  | .returnS e, h => by
    obtain ⟨_, _, _, _, _, _, _, _, _, _, _, _, _, _, _, _, _, _, _, _, _, _, _, _, h25⟩ := id hv
    simp only [exprsOf, List.mem_singleton] at h
    subst h; simp [collectStmt, h25, hs]
theorem collectStmtL_complete {v : VisitFlags} (hv : v.Complete) {X : Expr → List Sym} {s : Sym} {b : Expr} (hs : s ∈ X b) :
    ∀ (sts : List Stmt), b ∈ exprsOfL sts → s ∈ collectStmtL v X sts
  | [], h => by simp [exprsOfL] at h
  | st :: rest, h => by
    simp only [exprsOfL, List.mem_append] at h
    simp only [collectStmtL, List.mem_append]
    rcases h with h | h
    · exact Or.inl (collectStmt_complete hv hs st h)
    · exact Or.inr (collectStmtL_complete hv hs rest h)
end


/-! ### soundness of the write analysis under a consistent environment -/

theorem mem_optErase {b : Bool} {xs drop : List Sym} {s : Sym} (h : s ∈ xs) (hn : s ∉ drop) :
    s ∈ (if b = true then erase xs drop else xs) := by
  cases b
  · simpa using h
  · simpa using mem_erase_of h hn

theorem mem_funInfo_changes {cfg : Cfg} (hc : cfg.WritesComplete) {env : Env} {fd : FunDecl} {b : Expr} {s : Sym}
    (hb : b ∈ exprsOf fd.body) (hs : s ∈ collectWrites cfg env b) (hnl : s ∉ fd.locals) (hnp : s ∉ fd.params) :
    s ∈ (funInfo cfg env fd).changes := by
  obtain ⟨_, _, _, hcol, hv, _⟩ := hc
  have h1 : s ∈ collectStmt cfg.visit (collectWrites cfg env) fd.body := collectStmt_complete hv hs fd.body hb
  have h2 : s ∈ (if cfg.collectsChanges = true then collectStmt cfg.visit (collectWrites cfg env) fd.body else []) := by
    rw [if_pos hcol]; exact h1
  show s ∈ (if cfg.erasesParamChanges = true then
      erase (if cfg.erasesLocalChanges = true then
        erase (if cfg.collectsChanges = true then collectStmt cfg.visit (collectWrites cfg env) fd.body else []) fd.locals
        else (if cfg.collectsChanges = true then collectStmt cfg.visit (collectWrites cfg env) fd.body else [])) fd.params
      else (if cfg.erasesLocalChanges = true then
        erase (if cfg.collectsChanges = true then collectStmt cfg.visit (collectWrites cfg env) fd.body else []) fd.locals
        else (if cfg.collectsChanges = true then collectStmt cfg.visit (collectWrites cfg env) fd.body else [])))
  exact mem_optErase (mem_optErase h2 hnl) hnp

theorem getSymbol_ident (f : Sym) (subs : List Expr) : getSymbol (.node .kIDENTIFIER f subs) = f := by
  unfold getSymbol
  simp

theorem dotSym_ident (f : Sym) (subs : List Expr) : dotSym (.node .kIDENTIFIER f subs) = 0 := by
  simp [dotSym]

theorem calleeSym_of_calleeIs {dot b : Bool} (hdot : dot = true → b = true) {c : Expr} {f : Sym} (h : CalleeIs dot c f) :
    calleeSym b c = f := by
  cases h with
  | ident f subs => simp [calleeSym, dotSym_ident, getSymbol_ident]
  | processDot f subs hd hne =>
    have hb := hdot hd
    have : dotSym (.node .kDOT f subs) = f := by simp [dotSym]
    simp [calleeSym, hb, this, hne]

theorem calleeSym_cases (b : Bool) (f : Expr) : calleeSym b f = getSymbol f ∨ calleeSym b f = dotSym f := by
  unfold calleeSym
  split
  · exact Or.inr rfl
  · exact Or.inl rfl

theorem writes_sound {cfg : Cfg} (hc : cfg.WritesComplete) {dot : Bool} (hdot : dot = true → cfg.writeCallResolvesDot = true)
    {P : List FunDecl} {env : Env} (hcons : Consistent cfg env P)
    {e : Expr} {s : Sym} (h : Writes dot P e s) : s ∈ collectWrites cfg env e := by
  induction h with
  | direct hk hroot =>
    have hl := hc.2.2.2.2.2.1 _ hk
    unfold collectWrites
    simp only [hl, if_true, List.mem_append]
    exact Or.inr (rootOf_getSymbols hc hroot)
  | sub he _ ih => exact collectWrites_sub hc.1 he ih
  | @callBody k x f s c args fd b hk hcal hfd hname hb _ hnl hnp ih =>
    have hk' := hc.2.2.2.2.2.2.1 _ hk
    have hfind : env.find (calleeSym cfg.writeCallResolvesDot c) = some (funInfo cfg env fd) := by
      rw [calleeSym_of_calleeIs hdot hcal]; exact hname ▸ hcons fd hfd
    have hmem := mem_funInfo_changes hc hb ih hnl hnp
    unfold collectWrites
    simp only [hk'.1, hk'.2, hfind, hc.2.1, if_true, List.mem_append, Bool.false_eq_true, if_false]
    exact Or.inr (Or.inl hmem)
  | @callRef k x f s p c args fd a b hk hcal hfd hname hzip hb _ hroot _ =>
    have hk' := hc.2.2.2.2.2.2.1 _ hk
    have hfind : env.find (calleeSym cfg.writeCallResolvesDot c) = some (funInfo cfg env fd) := by
      rw [calleeSym_of_calleeIs hdot hcal]; exact hname ▸ hcons fd hfd
    have hmem : s ∈ refArgSymbols cfg fd.refNonConst args := refArgSymbols_mem args fd.params fd.refNonConst hzip (rootOf_getSymbols hc hroot)
    unfold collectWrites
    simp only [hk'.1, hk'.2, hfind, hc.2.2.1, if_true, List.mem_append, Bool.false_eq_true, if_false]
    exact Or.inr (Or.inr (by simpa [funInfo] using hmem))


/-! ### the environment computed in declaration order is consistent -/

/-- call kinds of the tables are call kinds of the language (so that `calleeSyms` sees every lookup the analysis does) -/
def Cfg.CallsExact (c : Cfg) : Prop :=
  (∀ k ∈ c.writeCallKinds, k ∈ callKinds) ∧ (∀ k ∈ c.readCallKinds, k ∈ callKinds)

instance (c : Cfg) : Decidable c.CallsExact := by unfold Cfg.CallsExact; infer_instance

theorem find_append_singleton_ne (env : Env) (g c : Sym) (i : FunInfo) (h : c ≠ g) :
    Env.find (env ++ [(g, i)]) c = Env.find env c := by
  induction env with
  | nil => simp [Env.find, Ne.symm h]
  | cons a as ih =>
    obtain ⟨g', i'⟩ := a
    simp only [List.cons_append, Env.find]
    split
    · rfl
    · exact ih

theorem find_append_singleton_self (env : Env) (g : Sym) (i : FunInfo) (h : Env.find env g = none) :
    Env.find (env ++ [(g, i)]) g = some i := by
  induction env with
  | nil => simp [Env.find]
  | cons a as ih =>
    obtain ⟨g', i'⟩ := a
    simp only [List.cons_append, Env.find] at h ⊢
    split
    · rename_i heq; simp [heq] at h
    · rename_i hne; simp [hne] at h; exact ih h

mutual
theorem mem_calleeSyms_sub {c : Sym} : ∀ (subs : List Expr) (e : Expr), e ∈ subs → c ∈ calleeSyms e → c ∈ calleeSymsL subs
  | [], _, h, _ => by cases h
  | a :: as, e, h, hc => by
    simp only [calleeSymsL, List.mem_append]
    rcases List.mem_cons.mp h with rfl | h'
    · exact Or.inl hc
    · exact Or.inr (mem_calleeSyms_sub as e h' hc)
end

mutual
theorem collectWrites_congr {cfg : Cfg} (hx : cfg.CallsExact) {env1 env2 : Env} :
    ∀ (e : Expr), (∀ c ∈ calleeSyms e, env1.find c = env2.find c) → collectWrites cfg env1 e = collectWrites cfg env2 e
  | .node k x subs, h => by
    have hsub : collectWritesL cfg env1 subs = collectWritesL cfg env2 subs :=
      collectWritesL_congr hx subs (fun c hc => h c (by unfold calleeSyms; exact List.mem_append.mpr (Or.inr hc)))
    unfold collectWrites
    rw [hsub]
    congr 1
    by_cases hl : k ∈ cfg.writeLhsKinds
    · simp [hl]
    · by_cases hcall : k ∈ cfg.writeCallKinds
      · have hck : k ∈ callKinds := hx.1 k hcall
        cases subs with
        | nil => simp [hl, hcall]
        | cons f args =>
          have hf : env1.find (calleeSym cfg.writeCallResolvesDot f) = env2.find (calleeSym cfg.writeCallResolvesDot f) := by
            rcases calleeSym_cases cfg.writeCallResolvesDot f with h1 | h1 <;> rw [h1] <;>
              exact h _ (by unfold calleeSyms; simp [hck])
          simp [hl, hcall, hf]
      · simp [hl, hcall]
theorem collectWritesL_congr {cfg : Cfg} (hx : cfg.CallsExact) {env1 env2 : Env} :
    ∀ (es : List Expr), (∀ c ∈ calleeSymsL es, env1.find c = env2.find c) → collectWritesL cfg env1 es = collectWritesL cfg env2 es
  | [], _ => by simp [collectWritesL]
  | e :: es, h => by
    simp only [collectWritesL]
    rw [collectWrites_congr hx e (fun c hc => h c (by simp only [calleeSymsL, List.mem_append]; exact Or.inl hc)),
        collectWritesL_congr hx es (fun c hc => h c (by simp only [calleeSymsL, List.mem_append]; exact Or.inr hc))]
end

mutual
theorem collectReads_congr {cfg : Cfg} (hx : cfg.CallsExact) {env1 env2 : Env} :
    ∀ (rnd : Bool) (e : Expr), (∀ c ∈ calleeSyms e, env1.find c = env2.find c) → collectReads cfg env1 rnd e = collectReads cfg env2 rnd e
  | rnd, .node k x subs, h => by
    have hsub : ∀ r, collectReadsL cfg env1 r subs = collectReadsL cfg env2 r subs := fun r =>
      collectReadsL_congr hx r subs (fun c hc => h c (by unfold calleeSyms; exact List.mem_append.mpr (Or.inr hc)))
    unfold collectReads
    rw [hsub]
    congr 1
    by_cases hi : k = Kind.kIDENTIFIER
    · simp [hi]
    · by_cases hcall : k ∈ cfg.readCallKinds
      · have hck : k ∈ callKinds := hx.2 k hcall
        cases subs with
        | nil => simp [hi, hcall]
        | cons f args =>
          have hf : env1.find (calleeSym cfg.readCallResolvesDot f) = env2.find (calleeSym cfg.readCallResolvesDot f) := by
            rcases calleeSym_cases cfg.readCallResolvesDot f with h1 | h1 <;> rw [h1] <;>
              exact h _ (by unfold calleeSyms; simp [hck])
          simp [hi, hcall, hf]
      · simp [hi, hcall]
theorem collectReadsL_congr {cfg : Cfg} (hx : cfg.CallsExact) {env1 env2 : Env} :
    ∀ (rnd : Bool) (es : List Expr), (∀ c ∈ calleeSymsL es, env1.find c = env2.find c) →
      collectReadsL cfg env1 rnd es = collectReadsL cfg env2 rnd es
  | _, [], _ => by simp [collectReadsL]
  | rnd, e :: es, h => by
    simp only [collectReadsL]
    rw [collectReads_congr hx rnd e (fun c hc => h c (by simp only [calleeSymsL, List.mem_append]; exact Or.inl hc)),
        collectReadsL_congr hx rnd es (fun c hc => h c (by simp only [calleeSymsL, List.mem_append]; exact Or.inr hc))]
end

theorem flatE_congr {X1 X2 : Expr → List Sym} : ∀ (es : List Expr), (∀ b ∈ es, X1 b = X2 b) → flatE X1 es = flatE X2 es
  | [], _ => rfl
  | e :: es, h => by
    simp only [flatE]
    rw [h e (List.mem_cons_self ..), flatE_congr es (fun b hb => h b (List.mem_cons_of_mem _ hb))]

mutual
theorem collectStmt_congr {v : VisitFlags} {X1 X2 : Expr → List Sym} :
    ∀ (st : Stmt), (∀ b ∈ exprsOf st, X1 b = X2 b) → collectStmt v X1 st = collectStmt v X2 st
  | .empty, _ => rfl
  | .breakS, _ => rfl
  | .continueS, _ => rfl
  | .exprS e, h => by simp only [collectStmt]; rw [h e (by simp [exprsOf])]
  | .assertS e, h => by simp only [collectStmt]; rw [h e (by simp [exprsOf])]
  | .forS i c t body, h => by
    simp only [collectStmt]
    rw [h i (by simp [exprsOf]), h c (by simp [exprsOf]), h t (by simp [exprsOf]),
        collectStmt_congr body (fun b hb => h b (by simp [exprsOf, hb]))]
  | .iterS _ body, h => by
    simp only [collectStmt]
    rw [collectStmt_congr body (fun b hb => h b (by simp [exprsOf, hb]))]
  | .whileS c body, h => by
    simp only [collectStmt]
    rw [h c (by simp [exprsOf]), collectStmt_congr body (fun b hb => h b (by simp [exprsOf, hb]))]
  | .doWhileS body c, h => by
    simp only [collectStmt]
    rw [h c (by simp [exprsOf]), collectStmt_congr body (fun b hb => h b (by simp [exprsOf, hb]))]
  | .block inits stats, h => by
    simp only [collectStmt]
    rw [flatE_congr inits (fun b hb => h b (by simp [exprsOf, hb])),
        collectStmtL_congr stats (fun b hb => h b (by simp [exprsOf, hb]))]
  | .switchS c inits stats, h => by
    simp only [collectStmt]
    rw [h c (by simp [exprsOf]), flatE_congr inits (fun b hb => h b (by simp [exprsOf, hb])),
        collectStmtL_congr stats (fun b hb => h b (by simp [exprsOf, hb]))]
  | .caseS c inits stats, h => by
    simp only [collectStmt]
    rw [h c (by simp [exprsOf]), flatE_congr inits (fun b hb => h b (by simp [exprsOf, hb])),
        collectStmtL_congr stats (fun b hb => h b (by simp [exprsOf, hb]))]
  | .defaultS inits stats, h => by
    simp only [collectStmt]
    rw [flatE_congr inits (fun b hb => h b (by simp [exprsOf, hb])),
        collectStmtL_congr stats (fun b hb => h b (by simp [exprsOf, hb]))]
  | .ifS c t e, h => by
    simp only [collectStmt]
    rw [h c (by simp [exprsOf]), collectStmt_congr t (fun b hb => h b (by simp [exprsOf, hb])),
        collectStmt_congr e (fun b hb => h b (by simp [exprsOf, hb]))]
  | .returnS e, h => by simp only [collectStmt]; rw [h e (by simp [exprsOf])]
theorem collectStmtL_congr {v : VisitFlags} {X1 X2 : Expr → List Sym} :
    ∀ (sts : List Stmt), (∀ b ∈ exprsOfL sts, X1 b = X2 b) → collectStmtL v X1 sts = collectStmtL v X2 sts
  | [], _ => rfl
  | st :: rest, h => by
    simp only [collectStmtL]
    rw [collectStmt_congr st (fun b hb => h b (by simp [exprsOfL, hb])),
        collectStmtL_congr rest (fun b hb => h b (by simp [exprsOfL, hb]))]
end

theorem funInfo_congr {cfg : Cfg} (hx : cfg.CallsExact) {env1 env2 : Env} (fd : FunDecl)
    (h : ∀ c ∈ calleesOfFun fd, env1.find c = env2.find c) : funInfo cfg env1 fd = funInfo cfg env2 fd := by
  have hw : collectStmt cfg.visit (collectWrites cfg env1) fd.body = collectStmt cfg.visit (collectWrites cfg env2) fd.body :=
    collectStmt_congr fd.body (fun b hb => collectWrites_congr hx b (fun c hc => h c (mem_calleeSyms_sub _ b hb hc)))
  have hr : ∀ r, collectStmt cfg.visit (collectReads cfg env1 r) fd.body = collectStmt cfg.visit (collectReads cfg env2 r) fd.body :=
    fun r => collectStmt_congr fd.body (fun b hb => collectReads_congr hx r b (fun c hc => h c (mem_calleeSyms_sub _ b hb hc)))
  unfold funInfo
  rw [hw, hr]

theorem analyseFrom_stable (cfg : Cfg) : ∀ (P : List FunDecl) (env : Env) (c : Sym),
    c ∉ P.map (·.name) → (analyseFrom cfg env P).find c = env.find c
  | [], _, _, _ => rfl
  | fd :: rest, env, c, h => by
    simp only [List.map_cons, List.mem_cons, not_or] at h
    simp only [analyseFrom]
    rw [analyseFrom_stable cfg rest _ c h.2, find_append_singleton_ne env fd.name c _ h.1]

theorem analyseFrom_consistent {cfg : Cfg} (hx : cfg.CallsExact) : ∀ (P : List FunDecl) (env : Env),
    declaredBeforeUse P = true → (∀ fd ∈ P, env.find fd.name = none) → Consistent cfg (analyseFrom cfg env P) P
  | [], _, _, _ => by intro fd h; cases h
  | fd :: rest, env, hd, hn => by
    simp only [declaredBeforeUse, Bool.and_eq_true, Bool.not_eq_true', List.all_eq_true] at hd
    obtain ⟨⟨hnd, hcal⟩, hrest⟩ := hd
    have hnd' : fd.name ∉ rest.map (·.name) := by
      intro hm; rw [List.contains_iff_mem.mpr hm] at hnd; cases hnd
    let env' : Env := env ++ [(fd.name, funInfo cfg env fd)]
    have hn' : ∀ fd' ∈ rest, env'.find fd'.name = none := by
      intro fd' hfd'
      have hne : fd'.name ≠ fd.name := by
        intro he; exact hnd' (he ▸ List.mem_map.mpr ⟨fd', hfd', rfl⟩)
      show Env.find (env ++ [(fd.name, funInfo cfg env fd)]) fd'.name = none
      rw [find_append_singleton_ne env fd.name fd'.name _ hne]
      exact hn fd' (List.mem_cons_of_mem _ hfd')
    have ih := analyseFrom_consistent hx rest env' hrest hn'
    intro g hg
    simp only [analyseFrom]
    rcases List.mem_cons.mp hg with rfl | hg'
    · -- the function just analysed: its entry is stable, and so are the entries of all its callees
      have h1 : (analyseFrom cfg env' rest).find g.name = env'.find g.name := analyseFrom_stable cfg rest env' g.name hnd'
      have h2 : env'.find g.name = some (funInfo cfg env g) :=
        find_append_singleton_self env g.name _ (hn g (List.mem_cons_self ..))
      have h3 : funInfo cfg env g = funInfo cfg (analyseFrom cfg env' rest) g := by
        apply funInfo_congr hx
        intro c hc
        have hc' := hcal c hc
        have hnotin : c ∉ g.name :: rest.map (·.name) := by
          intro hm; rw [List.contains_iff_mem.mpr hm] at hc'; cases hc'
        simp only [List.mem_cons, not_or] at hnotin
        rw [analyseFrom_stable cfg rest env' c hnotin.2]
        exact (find_append_singleton_ne env g.name c _ hnotin.1).symm
      show (analyseFrom cfg env' rest).find g.name = some (funInfo cfg (analyseFrom cfg env' rest) g)
      rw [h1, h2, h3]
    · exact ih g hg'

theorem analyse_consistent {cfg : Cfg} (hx : cfg.CallsExact) (P : List FunDecl) (hd : declaredBeforeUse P = true) :
    Consistent cfg (analyse cfg P) P :=
  analyseFrom_consistent hx P [] hd (fun _ _ => rfl)


/-! ### the write-free twin -/

theorem refArgSymbols_allFalse (cfg : Cfg) : ∀ (flags : List Bool) (args : List Expr),
    flags.all (fun r => !r) = true → refArgSymbols cfg flags args = []
  | [], _, _ => by simp [refArgSymbols]
  | _ :: _, [], _ => by simp [refArgSymbols]
  | f :: fs, a :: as, h => by
    simp only [List.all_cons, Bool.and_eq_true, Bool.not_eq_true'] at h
    simp [refArgSymbols, h.1, refArgSymbols_allFalse cfg fs as h.2]

mutual
theorem pure_collectWrites {cfg : Cfg} (hx : cfg.WritesExact) {env : Env} :
    ∀ (e : Expr), pureExpr env e = true → collectWrites cfg env e = []
  | .node k x subs, h => by
    unfold pureExpr at h
    simp only [Bool.and_eq_true, Bool.not_eq_true'] at h
    obtain ⟨⟨hw, hcallc⟩, hsubs⟩ := h
    have hsub := pure_collectWritesL hx subs hsubs
    have hl : ¬ k ∈ cfg.writeLhsKinds := by
      intro hm
      have := hx.1 k hm
      rw [this] at hw; cases hw
    unfold collectWrites
    rw [hsub]
    by_cases hcall : k ∈ cfg.writeCallKinds
    · have hck : callKinds.contains k = true := hx.2 k hcall
      cases subs with
      | nil => simp [hl, hcall]
      | cons f args =>
        simp only [hck, if_true] at hcallc
        simp only [Bool.and_eq_true] at hcallc
        have key : ∀ fi, env.find (calleeSym cfg.writeCallResolvesDot f) = some fi →
            fi.changes = [] ∧ fi.refNonConst.all (fun r => !r) = true := by
          intro fi hfi
          have hp : entryPure (some fi) = true := by
            rcases calleeSym_cases cfg.writeCallResolvesDot f with h1 | h1
            · rw [h1] at hfi; rw [← hfi]; exact hcallc.1
            · rw [h1] at hfi; rw [← hfi]; exact hcallc.2
          simpa [entryPure, Bool.and_eq_true, List.isEmpty_iff] using hp
        cases hfind : env.find (calleeSym cfg.writeCallResolvesDot f) with
        | none => simp [hl, hcall, hfind]
        | some fi =>
          have hk := key fi hfind
          simp [hl, hcall, hfind, hk.1, refArgSymbols_allFalse cfg _ args hk.2]
    · simp [hl, hcall]
theorem pure_collectWritesL {cfg : Cfg} (hx : cfg.WritesExact) {env : Env} :
    ∀ (es : List Expr), pureExprL env es = true → collectWritesL cfg env es = []
  | [], _ => by simp [collectWritesL]
  | e :: es, h => by
    unfold pureExprL at h
    simp only [Bool.and_eq_true] at h
    simp [collectWritesL, pure_collectWrites hx e h.1, pure_collectWritesL hx es h.2]
end


/-! ### soundness of the read analysis (property C13) -/

theorem mem_collectReadsL {cfg : Cfg} {env : Env} {rnd : Bool} {s : Sym} {e : Expr} :
    ∀ {subs : List Expr}, e ∈ subs → s ∈ collectReads cfg env rnd e → s ∈ collectReadsL cfg env rnd subs := by
  intro subs
  induction subs with
  | nil => intro h; cases h
  | cons a as ih =>
    intro h hs
    simp only [collectReadsL, List.mem_append]
    rcases List.mem_cons.mp h with rfl | h'
    · exact Or.inl hs
    · exact Or.inr (ih h' hs)

theorem mem_funInfo_depends {cfg : Cfg} (hc : cfg.ReadsComplete) {env : Env} {fd : FunDecl} {b : Expr} {s : Sym}
    (hb : b ∈ exprsOf fd.body) (hs : s ∈ collectReads cfg env cfg.dependsCollectsRandom b) (hnl : s ∉ fd.locals) (hnp : s ∉ fd.params) :
    s ∈ (funInfo cfg env fd).depends := by
  obtain ⟨_, hcol, hv, _⟩ := hc
  have h1 : s ∈ collectStmt cfg.visit (collectReads cfg env cfg.dependsCollectsRandom) fd.body := collectStmt_complete hv hs fd.body hb
  have h2 : s ∈ (if cfg.collectsDepends = true then collectStmt cfg.visit (collectReads cfg env cfg.dependsCollectsRandom) fd.body else []) := by
    rw [if_pos hcol]; exact h1
  show s ∈ (if cfg.erasesParamDepends = true then
      erase (if cfg.erasesLocalDepends = true then
        erase (if cfg.collectsDepends = true then collectStmt cfg.visit (collectReads cfg env cfg.dependsCollectsRandom) fd.body else []) fd.locals
        else (if cfg.collectsDepends = true then collectStmt cfg.visit (collectReads cfg env cfg.dependsCollectsRandom) fd.body else [])) fd.params
      else (if cfg.erasesLocalDepends = true then
        erase (if cfg.collectsDepends = true then collectStmt cfg.visit (collectReads cfg env cfg.dependsCollectsRandom) fd.body else []) fd.locals
        else (if cfg.collectsDepends = true then collectStmt cfg.visit (collectReads cfg env cfg.dependsCollectsRandom) fd.body else [])))
  exact mem_optErase (mem_optErase h2 hnl) hnp

/-- every symbol an expression may read -- directly or through the bodies of the functions it calls -- is in
    `collect_possible_reads`, whatever the `collectRandom` flag -/
theorem reads_sound {cfg : Cfg} (hc : cfg.ReadsComplete) {P : List FunDecl} {env : Env} (hcons : Consistent cfg env P)
    {e : Expr} {s : Sym} (h : Reads P e s) : ∀ rnd, s ∈ collectReads cfg env rnd e := by
  induction h with
  | ident s subs =>
    intro rnd
    unfold collectReads
    simp
  | sub he _ ih =>
    intro rnd
    unfold collectReads
    simp only [List.mem_append]
    exact Or.inl (mem_collectReadsL he (ih _))
  | @callBody x f s fsubs args fd b hfd hname hb _ hnl hnp ih =>
    intro rnd
    have hfind : env.find (calleeSym cfg.readCallResolvesDot (.node .kIDENTIFIER f fsubs)) = some (funInfo cfg env fd) := by
      rw [calleeSym_of_calleeIs (dot := false) (fun h => by cases h) (CalleeIs.ident f fsubs)]; exact hname ▸ hcons fd hfd
    have hmem := mem_funInfo_depends hc hb (ih _) hnl hnp
    have hne : Kind.kFUN_CALL ≠ Kind.kIDENTIFIER := by decide
    unfold collectReads
    simp only [hne, if_false, hc.2.2.2, if_true, hfind, hc.1, List.mem_append]
    exact Or.inr hmem

theorem symOk_of_isCTC {cfg : Cfg} {env : Env} {tab : SymTab} {e : Expr} (h : isCTC cfg env tab e = true) {s : Sym}
    (hs : s ∈ collectReads cfg env cfg.ctcCollectsRandom e) : symOk tab s = true := by
  unfold isCTC at h
  exact List.all_eq_true.mp h s hs

/-! ### random-number builtins -/

mutual
theorem random_in_reads {cfg : Cfg} (hp : cfg.readsPropagatesRandom = true) (hi : cfg.randomKinds.contains .kIDENTIFIER = false)
    (hcall : ∀ k ∈ cfg.randomKinds, cfg.readCallKinds.contains k = false) {env : Env} :
    ∀ (e : Expr), containsRandom cfg e = true → (0 : Sym) ∈ collectReads cfg env true e
  | .node k x subs, h => by
    unfold containsRandom at h
    unfold collectReads
    simp only [hp, Bool.and_self, List.mem_append]
    rcases Bool.or_eq_true_iff.mp h with hk | hsub
    · right
      have hne : k ≠ Kind.kIDENTIFIER := by
        intro he; rw [he] at hk; rw [hk] at hi; cases hi
      have hkm : k ∈ cfg.randomKinds := List.contains_iff_mem.mp hk
      have hnc : ¬ k ∈ cfg.readCallKinds := by
        intro hm
        have := hcall k hkm
        rw [List.contains_iff_mem.mpr hm] at this; cases this
      simp [hne, hnc, hkm]
    · left
      exact random_in_readsL hp hi hcall subs hsub
theorem random_in_readsL {cfg : Cfg} (hp : cfg.readsPropagatesRandom = true) (hi : cfg.randomKinds.contains .kIDENTIFIER = false)
    (hcall : ∀ k ∈ cfg.randomKinds, cfg.readCallKinds.contains k = false) {env : Env} :
    ∀ (es : List Expr), containsRandomL cfg es = true → (0 : Sym) ∈ collectReadsL cfg env true es
  | [], h => by simp [containsRandomL] at h
  | e :: es, h => by
    unfold containsRandomL at h
    simp only [collectReadsL, List.mem_append]
    rcases Bool.or_eq_true_iff.mp h with h1 | h2
    · exact Or.inl (random_in_reads hp hi hcall e h1)
    · exact Or.inr (random_in_readsL hp hi hcall es h2)
end


/-! ### the `restricted` closure -/

theorem mem_initReads {cfg : Cfg} {D : List VarDecl} {d : VarDecl} {s t : Sym} (hd : d ∈ D) (hs : d.sym = s)
    (ht : t ∈ collectReads cfg [] false d.init) : t ∈ initReads cfg D s := by
  induction D with
  | nil => cases hd
  | cons a as ih =>
    simp only [initReads, List.mem_append]
    rcases List.mem_cons.mp hd with rfl | h
    · left; simp [hs, ht]
    · right; exact ih h

/-- when the loop ends, the result contains what was collected and what was pending, and is closed under
    "identifiers read by the initialiser" -/
theorem closeDeps_closed (cfg : Cfg) (D : List VarDecl) : ∀ (fuel : Nat) (work deps R : List Sym),
    closeDeps cfg D fuel work deps = some R →
    (∀ s ∈ deps, ∀ t ∈ initReads cfg D s, t ∈ deps ∨ t ∈ work) →
    (∀ s ∈ deps, s ∈ R) ∧ (∀ s ∈ work, s ∈ R) ∧ (∀ s ∈ R, ∀ t ∈ initReads cfg D s, t ∈ R)
  | 0, [], deps, R, h, H => by
    simp only [closeDeps, Option.some.injEq] at h
    subst h
    exact ⟨fun s hs => hs, fun s hs => (by cases hs), fun s hs t ht => (H s hs t ht).elim id (fun h => (by cases h))⟩
  | 0, _ :: _, _, _, h, _ => by simp [closeDeps] at h
  | fuel + 1, [], deps, R, h, H => by
    simp only [closeDeps, Option.some.injEq] at h
    subst h
    exact ⟨fun s hs => hs, fun s hs => (by cases hs), fun s hs t ht => (H s hs t ht).elim id (fun h => (by cases h))⟩
  | fuel + 1, s :: work, deps, R, h, H => by
    simp only [closeDeps] at h
    by_cases hc : deps.contains s = true
    · rw [if_pos hc] at h
      have hsd : s ∈ deps := List.contains_iff_mem.mp hc
      have H' : ∀ u ∈ deps, ∀ t ∈ initReads cfg D u, t ∈ deps ∨ t ∈ work := by
        intro u hu t ht
        rcases H u hu t ht with h1 | h1
        · exact Or.inl h1
        · rcases List.mem_cons.mp h1 with rfl | h2
          · exact Or.inl hsd
          · exact Or.inr h2
      obtain ⟨h1, h2, h3⟩ := closeDeps_closed cfg D fuel work deps R h H'
      refine ⟨h1, ?_, h3⟩
      intro u hu
      rcases List.mem_cons.mp hu with rfl | hu'
      · exact h1 _ hsd
      · exact h2 u hu'
    · rw [if_neg hc] at h
      have H' : ∀ u ∈ s :: deps, ∀ t ∈ initReads cfg D u, t ∈ s :: deps ∨ t ∈ work ++ initReads cfg D s := by
        intro u hu t ht
        rcases List.mem_cons.mp hu with rfl | hu'
        · exact Or.inr (List.mem_append.mpr (Or.inr ht))
        · rcases H u hu' t ht with h1 | h1
          · exact Or.inl (List.mem_cons_of_mem _ h1)
          · rcases List.mem_cons.mp h1 with rfl | h2
            · exact Or.inl (List.mem_cons_self ..)
            · exact Or.inr (List.mem_append.mpr (Or.inl h2))
      obtain ⟨h1, h2, h3⟩ := closeDeps_closed cfg D fuel (work ++ initReads cfg D s) (s :: deps) R h H'
      refine ⟨fun u hu => h1 u (List.mem_cons_of_mem _ hu), ?_, h3⟩
      intro u hu
      rcases List.mem_cons.mp hu with rfl | hu'
      · exact h1 _ (List.mem_cons_self ..)
      · exact h2 u (List.mem_append.mpr (Or.inl hu'))

theorem consistent_nil (cfg : Cfg) : Consistent cfg [] [] := by intro fd h; cases h

/-- everything an array size depends on -- directly or through initialisers -- ends up in `restricted` -/
theorem builderDep_in_closure {cfg : Cfg} (hc : cfg.ReadsComplete) {D : List VarDecl} {fuel : Nat} {e : Expr} {R : List Sym}
    (h : collectDependencies cfg D fuel [] e = some R) {p : Sym} (hp : BuilderDep D e p) : p ∈ R := by
  unfold collectDependencies at h
  obtain ⟨_, h2, h3⟩ := closeDeps_closed cfg D fuel _ [] R h (fun s hs => by cases hs)
  induction hp with
  | direct hr => exact h2 _ (reads_sound hc (consistent_nil cfg) hr false)
  | viaInit _ hd hs hr ih => exact h3 _ ih _ (mem_initReads hd hs (reads_sound hc (consistent_nil cfg) hr false))

end UtapModel.Effect
