#!/usr/bin/env python3
"""tools/gen_seed_table.py  -- rewrite the table of DESIGN.md section 9.4 from seeded/*/meta.json (one row per saved seeded change:
the author's description, shortened, and the integrator's result) and print the counts the paragraph above the table quotes."""
import json, os, re
V = os.path.dirname(os.path.dirname(os.path.abspath(__file__)))
rows, missed = [], 0
def key(d):
    m = re.match(r"C(\d+)-(\d+)$", d)
    return (int(m.group(1)), int(m.group(2)))
dirs = sorted((d for d in os.listdir(os.path.join(V, "seeded")) if re.match(r"C\d+-\d+$", d)), key=key)
for d in dirs:
    m = json.load(open(os.path.join(V, "seeded", d, "meta.json")))
    what = re.sub(r"\s+", " ", m.get("what", "")).replace("|", "\\|")
    res = re.sub(r"\s+", " ", m.get("confirmed_by_integrator", {}).get("check_result", "?")).replace("|", "\\|")
    if res.startswith("retired"):
        retired = globals().get("retired", 0) + 1
        globals()["retired"] = retired
    elif not res.lower().startswith("caught"):
        missed += 1         # the integrator's text starts with "caught" only when the check as it stood caught the change with an input
    rows.append("| %s | %s | %s |" % (d, what[:420] + (" ..." if len(what) > 420 else ""), res))
p = os.path.join(V, "DESIGN.md")
lines = open(p).read().split("\n")
h = lines.index("| seed | change (from the author's meta.json) | result |")
e = next(i for i in range(h + 2, len(lines)) if not lines[i].startswith("| C"))
lines[h + 2:e] = rows
open(p, "w").write("\n".join(lines))
print("rows:", len(rows), "missed at first:", missed, "retired:", globals().get("retired", 0))
