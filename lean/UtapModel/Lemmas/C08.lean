/- Helper lemmas for Props/C08.lean: the invariant `InvH` is preserved by each heap primitive of M-BUILD. -/
import UtapModel.Model.BuilderInv

namespace UtapModel.Builder

theorem getElem?_lt_of_some {α} {l : List α} {i : Nat} {a : α} (h : l[i]? = some a) : i < l.length := by
  have := (List.getElem?_eq_some_iff.mp h).1; exact this

theorem symUser_lt {syms : List Symbol} {sid : SymId} {r : Obj} (h : symUser syms sid = some r) : sid < syms.length := by
  unfold symUser at h
  cases hs : syms[sid]? with
  | none => simp [hs] at h
  | some _ => exact getElem?_lt_of_some hs

theorem symUser_append {syms : List Symbol} {new : List Symbol} {sid : SymId} {r : Obj} (h : symUser syms sid = some r) :
    symUser (syms ++ new) sid = some r := by
  have hl := symUser_lt h
  unfold symUser at *
  rw [List.getElem?_append_left hl]; exact h

theorem InstOk.mono {syms : List Symbol} {new : List Symbol} {I : Inst} (h : InstOk syms I) : InstOk (syms ++ new) I := by
  refine ⟨h.unboundLe, h.mapDom, h.mapKeys, ?_⟩
  intro hk
  obtain ⟨sym, hs, ht⟩ := h.arity hk
  exact ⟨sym, by rw [List.getElem?_append_left (getElem?_lt_of_some hs)]; exact hs, ht⟩

/-- one new symbol, and a document that keeps every old object -/
theorem InvH.extend {syms : List Symbol} {doc doc' : Doc} {new : Symbol} (h : InvH syms doc)
    (huid : ∀ r sid, doc'.uidOf r = some sid → doc.uidOf r = some sid ∨ (sid = syms.length ∧ new.user = some r))
    (hmono : ∀ r sid, doc.uidOf r = some sid → doc'.uidOf r = some sid)
    (hinstmono : ∀ r I, doc.inst? r = some I → doc'.inst? r = some I)
    (hinst : ∀ r I, doc'.inst? r = some I → doc.inst? r = some I ∨ InstOk (syms ++ [new]) I)
    (hnewLoc : new.ty.isLocation → ∃ i, new.user = some (.loc i) ∧ doc'.uidOf (.loc i) = some syms.length)
    (hnewBp : new.ty.isBranchpoint → ∃ i, new.user = some (.bp i) ∧ doc'.uidOf (.bp i) = some syms.length)
    (hnewInst : ∀ a, (new.ty = .inst a ∨ new.ty = .lscInst a) →
      ∃ r I, new.user = some r ∧ doc'.inst? r = some I ∧ I.uid = syms.length ∧ I.unbound = a)
    (hnumLoc : ∀ (i : Nat) (l : Loc), doc'.locs[i]? = some l → l.nr = ((doc'.locs.take i).filter (·.templ = l.templ)).length)
    (hnumBp : ∀ (i : Nat) (b : Bp), doc'.bps[i]? = some b → b.nr = ((doc'.bps.take i).filter (·.templ = b.templ)).length)
    (hnumEdge : ∀ (t : Nat) (T : Templ) (i : Nat) (e : Edge), doc'.templates[t]? = some T → T.edges[i]? = some e → e.nr = i)
    (hedges : ∀ (t : Nat) (T : Templ) (i : Nat) (e : Edge), doc'.templates[t]? = some T → T.edges[i]? = some e → EdgeOk e) :
    InvH (syms ++ [new]) doc' := by
  have hsplit : ∀ sid sym, (syms ++ [new])[sid]? = some sym → syms[sid]? = some sym ∨ (sid = syms.length ∧ sym = new) := by
    intro sid sym hs
    rw [List.getElem?_append] at hs
    split at hs
    · exact Or.inl hs
    · right
      have : sid - syms.length = 0 := by
        cases hk : sid - syms.length with
        | zero => rfl
        | succ k => simp [hk] at hs
      simp [this] at hs
      exact ⟨by omega, hs.symm⟩
  refine ⟨?_, ?_, ?_, ?_, hnumLoc, hnumBp, hnumEdge, hedges, ?_⟩
  · intro r sid hr
    rcases huid r sid hr with ho | ⟨hs, hu⟩
    · exact symUser_append (h.own r sid ho)
    · subst hs; simp [symUser, hu]
  · intro sid sym hs hl
    rcases hsplit sid sym hs with ho | ⟨hs', hn⟩
    · obtain ⟨i, hu, hd⟩ := h.backLoc sid sym ho hl
      exact ⟨i, hu, hmono _ _ hd⟩
    · subst hn; subst hs'; exact hnewLoc hl
  · intro sid sym hs hl
    rcases hsplit sid sym hs with ho | ⟨hs', hn⟩
    · obtain ⟨i, hu, hd⟩ := h.backBp sid sym ho hl
      exact ⟨i, hu, hmono _ _ hd⟩
    · subst hn; subst hs'; exact hnewBp hl
  · intro sid sym a hs hl
    rcases hsplit sid sym hs with ho | ⟨hs', hn⟩
    · obtain ⟨r, I, hu, hi, h1, h2⟩ := h.backInst sid sym a ho hl
      exact ⟨r, I, hu, hinstmono _ _ hi, h1, h2⟩
    · subst hn; subst hs'; exact hnewInst a hl
  · intro r I hi
    rcases hinst r I hi with ho | hn
    · exact (h.insts r I ho).mono
    · exact hn


theorem append_one_split {α} {l : List α} {x a : α} {i : Nat} (h : (l ++ [x])[i]? = some a) :
    (i < l.length ∧ l[i]? = some a) ∨ (i = l.length ∧ a = x) := by
  rw [List.getElem?_append] at h
  split at h
  · exact Or.inl ⟨by assumption, h⟩
  · right
    have : i - l.length = 0 := by
      cases hk : i - l.length with
      | zero => rfl
      | succ k => simp [hk] at h
    simp [this] at h
    exact ⟨by omega, h.symm⟩

/-- dense numbering within an owner is preserved by appending an element numbered with the owner's current count -/
theorem num_append {α} (tag : α → Nat) (nr : α → Nat) (l : List α) (x : α)
    (h : ∀ i a, l[i]? = some a → nr a = ((l.take i).filter (fun b => tag b = tag a)).length)
    (hx : nr x = (l.filter (fun b => tag b = tag x)).length) :
    ∀ i a, (l ++ [x])[i]? = some a → nr a = (((l ++ [x]).take i).filter (fun b => tag b = tag a)).length := by
  intro i a hi
  rcases append_one_split hi with ⟨hlt, ho⟩ | ⟨he, hx'⟩
  · rw [List.take_append_of_le_length (Nat.le_of_lt hlt)]; exact h i a ho
  · subst he; subst hx'
    rw [List.take_append_of_le_length (Nat.le_refl _), List.take_length]; exact hx

/-- the types of symbols that carry no object obligations -/
def STy.plain (ty : STy) : Prop :=
  ty.isLocation = false ∧ ty.isBranchpoint = false ∧ ∀ a, ty ≠ .inst a ∧ ty ≠ .lscInst a

theorem InvH.addPlain {syms : List Symbol} {doc : Doc} (h : InvH syms doc) (new : Symbol) (hp : new.ty.plain) (_hu : new.user = none) :
    InvH (syms ++ [new]) doc := by
  refine h.extend (fun r sid hr => Or.inl hr) (fun _ _ hr => hr) (fun _ _ hr => hr) (fun _ _ hr => Or.inl hr) ?_ ?_ ?_ h.numLoc h.numBp h.numEdge h.edges
  · intro hl; simp [hp.1] at hl
  · intro hl; simp [hp.2.1] at hl
  · intro a ha; rcases ha with ha | ha
    · exact absurd ha (hp.2.2 a).1
    · exact absurd ha (hp.2.2 a).2

theorem InvH.addVar {syms : List Symbol} {doc : Doc} (h : InvH syms doc) (name : String) (ty : Ty) (owner : VOwner) :
    InvH (syms ++ [⟨name, .var ty, some (.var doc.vars.length)⟩]) { doc with vars := doc.vars ++ [⟨syms.length, owner⟩] } := by
  refine h.extend ?_ ?_ (fun r I hr => by cases r <;> (simp [Doc.inst?] at hr ⊢; try exact hr)) (fun r I hr => Or.inl (by cases r <;> (simp [Doc.inst?] at hr ⊢; try exact hr)))
    (by intro hl; simp [STy.isLocation] at hl) (by intro hl; simp [STy.isBranchpoint] at hl) (by intro a ha; simp at ha)
    h.numLoc h.numBp h.numEdge h.edges
  · intro r sid hr
    cases r <;> simp only [Doc.uidOf] at hr ⊢ <;> try exact Or.inl hr
    rename_i i
    cases hv : (doc.vars ++ [⟨syms.length, owner⟩])[i]? with
    | none => simp [hv] at hr
    | some v =>
      simp [hv] at hr
      rcases append_one_split hv with ⟨_, ho⟩ | ⟨he, hx⟩
      · left; simp [ho, hr]
      · right; subst hx; subst he; exact ⟨hr.symm, rfl⟩
  · intro r sid hr
    cases r <;> simp only [Doc.uidOf] at hr ⊢ <;> try exact hr
    rename_i i
    cases hv : doc.vars[i]? with
    | none => simp [hv] at hr
    | some v => rw [List.getElem?_append_left (getElem?_lt_of_some hv)]; simpa [hv] using hr


theorem map_append_split {α β} (f : α → β) (l : List α) (x : α) (i : Nat) (b : β)
    (h : ((l ++ [x])[i]?).map f = some b) : (l[i]?).map f = some b ∨ (i = l.length ∧ b = f x) := by
  cases hv : (l ++ [x])[i]? with
  | none => simp [hv] at h
  | some v =>
    simp [hv] at h
    rcases append_one_split hv with ⟨_, ho⟩ | ⟨he, hx⟩
    · left; simp [ho, h]
    · right; subst hx; exact ⟨he, h.symm⟩

theorem map_append_mono {α β} (f : α → β) (l : List α) (x : α) (i : Nat) (b : β)
    (h : (l[i]?).map f = some b) : ((l ++ [x])[i]?).map f = some b := by
  cases hv : l[i]? with
  | none => simp [hv] at h
  | some v => rw [List.getElem?_append_left (getElem?_lt_of_some hv)]; simpa [hv] using h

theorem InvH.addFunc {syms : List Symbol} {doc : Doc} (h : InvH syms doc) (name : String) (owner : DRef) :
    InvH (syms ++ [⟨name, .func, some (.func doc.funs.length)⟩]) { doc with funs := doc.funs ++ [⟨syms.length, owner⟩] } := by
  refine h.extend ?_ ?_ (fun r I hr => by cases r <;> (simp [Doc.inst?] at hr ⊢; try exact hr)) (fun r I hr => Or.inl (by cases r <;> (simp [Doc.inst?] at hr ⊢; try exact hr)))
    (by intro hl; simp [STy.isLocation] at hl) (by intro hl; simp [STy.isBranchpoint] at hl) (by intro a ha; simp at ha)
    h.numLoc h.numBp h.numEdge h.edges
  · intro r sid hr
    cases r <;> simp only [Doc.uidOf] at hr ⊢ <;> try exact Or.inl hr
    rcases map_append_split _ _ _ _ _ hr with ho | ⟨he, hx⟩
    · exact Or.inl ho
    · right; subst he; exact ⟨hx, rfl⟩
  · intro r sid hr
    cases r <;> simp only [Doc.uidOf] at hr ⊢ <;> try exact hr
    exact map_append_mono _ _ _ _ _ hr

theorem InvH.addLoc {syms : List Symbol} {doc : Doc} (h : InvH syms doc) (name : String) (t : Nat) (a b : Bool) :
    InvH (syms ++ [⟨name, .location false false, some (.loc doc.locs.length)⟩])
      { doc with locs := doc.locs ++ [⟨syms.length, t, (doc.locs.filter (·.templ = t)).length, a, b⟩] } := by
  refine h.extend ?_ ?_ (fun r I hr => by cases r <;> (simp [Doc.inst?] at hr ⊢; try exact hr)) (fun r I hr => Or.inl (by cases r <;> (simp [Doc.inst?] at hr ⊢; try exact hr)))
    ?_ (by intro hl; simp [STy.isBranchpoint] at hl) (by intro a ha; simp at ha)
    ?_ h.numBp h.numEdge h.edges
  · intro r sid hr
    cases r <;> simp only [Doc.uidOf] at hr ⊢ <;> try exact Or.inl hr
    rcases map_append_split _ _ _ _ _ hr with ho | ⟨he, hx⟩
    · exact Or.inl ho
    · right; subst he; exact ⟨hx, rfl⟩
  · intro r sid hr
    cases r <;> simp only [Doc.uidOf] at hr ⊢ <;> try exact hr
    exact map_append_mono _ _ _ _ _ hr
  · intro _; exact ⟨doc.locs.length, rfl, by simp [Doc.uidOf]⟩
  · exact num_append (fun l => l.templ) (fun l => l.nr) doc.locs ⟨syms.length, t, (doc.locs.filter (·.templ = t)).length, a, b⟩ h.numLoc rfl

theorem InvH.addBp {syms : List Symbol} {doc : Doc} (h : InvH syms doc) (name : String) (t : Nat) :
    InvH (syms ++ [⟨name, .branchpoint, some (.bp doc.bps.length)⟩])
      { doc with bps := doc.bps ++ [⟨syms.length, t, (doc.bps.filter (·.templ = t)).length⟩] } := by
  refine h.extend ?_ ?_ (fun r I hr => by cases r <;> (simp [Doc.inst?] at hr ⊢; try exact hr)) (fun r I hr => Or.inl (by cases r <;> (simp [Doc.inst?] at hr ⊢; try exact hr)))
    (by intro hl; simp [STy.isLocation] at hl) ?_ (by intro a ha; simp at ha)
    h.numLoc ?_ h.numEdge h.edges
  · intro r sid hr
    cases r <;> simp only [Doc.uidOf] at hr ⊢ <;> try exact Or.inl hr
    rcases map_append_split _ _ _ _ _ hr with ho | ⟨he, hx⟩
    · exact Or.inl ho
    · right; subst he; exact ⟨hx, rfl⟩
  · intro r sid hr
    cases r <;> simp only [Doc.uidOf] at hr ⊢ <;> try exact hr
    exact map_append_mono _ _ _ _ _ hr
  · intro _; exact ⟨doc.bps.length, rfl, by simp [Doc.uidOf]⟩
  · exact num_append (fun l => l.templ) (fun l => l.nr) doc.bps ⟨syms.length, t, (doc.bps.filter (·.templ = t)).length⟩ h.numBp rfl


theorem templ_append_split {l : List Templ} {T T' : Templ} {t : Nat} (h : (l ++ [T])[t]? = some T') :
    l[t]? = some T' ∨ (t = l.length ∧ T' = T) := by
  rcases append_one_split h with ⟨_, ho⟩ | ⟨he, hx⟩
  · exact Or.inl ho
  · exact Or.inr ⟨he, hx⟩

theorem InvH.addTempl {syms : List Symbol} {doc : Doc} (h : InvH syms doc) (name : String) (isTA dyn : Bool) (ps : List SymId) (fr : FrameId) :
    InvH (syms ++ [⟨name, if isTA then .inst ps.length else .lscInst ps.length, some (.templ doc.templates.length)⟩])
      { doc with templates := doc.templates ++ [mkTempl syms.length ps doc.templates.length fr isTA dyn] } := by
  refine h.extend ?_ ?_ ?_ ?_ ?_ ?_ ?_ h.numLoc h.numBp ?_ ?_
  · intro r sid hr
    cases r <;> simp only [Doc.uidOf] at hr ⊢ <;> try exact Or.inl hr
    rcases map_append_split _ _ _ _ _ hr with ho | ⟨he, hx⟩
    · exact Or.inl ho
    · right; subst he; exact ⟨hx, rfl⟩
  · intro r sid hr
    cases r <;> simp only [Doc.uidOf] at hr ⊢ <;> try exact hr
    exact map_append_mono _ _ _ _ _ hr
  · intro r I hr
    cases r <;> simp only [Doc.inst?] at hr ⊢ <;> try exact hr
    exact map_append_mono _ _ _ _ _ hr
  · intro r I hr
    cases r <;> simp only [Doc.inst?] at hr ⊢ <;> try exact Or.inl hr
    rcases map_append_split _ _ _ _ _ hr with ho | ⟨he, hx⟩
    · exact Or.inl ho
    · right; subst hx
      refine ⟨Nat.le_refl _, ?_, ?_, ?_⟩
      · intro x; simp [mkTempl, mkTemplInst]
      · simp [mkTempl, mkTemplInst]
      · intro _; exact ⟨_, List.getElem?_concat_length, by cases isTA <;> simp [mkTempl, mkTemplInst]⟩
  · intro hl; cases isTA <;> simp [STy.isLocation] at hl
  · intro hl; cases isTA <;> simp [STy.isBranchpoint] at hl
  · intro a ha
    refine ⟨.templ doc.templates.length, mkTemplInst syms.length ps doc.templates.length, rfl, by simp [Doc.inst?, mkTempl], rfl, ?_⟩
    cases isTA <;> simp at ha <;> simp [ha, mkTemplInst]
  · intro t T i e hT he
    rcases templ_append_split hT with ho | ⟨_, hx⟩
    · exact h.numEdge t T i e ho he
    · subst hx; simp [mkTempl] at he
  · intro t T i e hT he
    rcases templ_append_split hT with ho | ⟨_, hx⟩
    · exact h.edges t T i e ho he
    · subst hx; simp [mkTempl] at he

/-- a new partial instance / LSC instance / process appended to the instance list -/
theorem InvH.addInst {syms : List Symbol} {doc : Doc} (h : InvH syms doc) (new : Symbol) (I : Inst)
    (huser : new.user = some (.inst doc.insts.length)) (huid : I.uid = syms.length)
    (hok : InstOk (syms ++ [new]) I)
    (hl : new.ty.isLocation = false) (hb : new.ty.isBranchpoint = false)
    (hty : ∀ a, (new.ty = .inst a ∨ new.ty = .lscInst a) → I.unbound = a) :
    InvH (syms ++ [new]) { doc with insts := doc.insts ++ [I] } := by
  refine h.extend ?_ ?_ ?_ ?_ (by intro h'; simp [hl] at h') (by intro h'; simp [hb] at h') ?_ h.numLoc h.numBp h.numEdge h.edges
  · intro r sid hr
    cases r <;> simp only [Doc.uidOf] at hr ⊢ <;> try exact Or.inl hr
    rcases map_append_split _ _ _ _ _ hr with ho | ⟨he, hx⟩
    · exact Or.inl ho
    · right; subst he; exact ⟨by rw [hx, huid], huser⟩
  · intro r sid hr
    cases r <;> simp only [Doc.uidOf] at hr ⊢ <;> try exact hr
    exact map_append_mono _ _ _ _ _ hr
  · intro r J hr
    cases r <;> simp only [Doc.inst?] at hr ⊢ <;> try exact hr
    rw [List.getElem?_append_left (getElem?_lt_of_some hr)]; exact hr
  · intro r J hr
    cases r <;> simp only [Doc.inst?] at hr ⊢ <;> try exact Or.inl hr
    rcases append_one_split hr with ⟨_, ho⟩ | ⟨_, hx⟩
    · exact Or.inl ho
    · right; subst hx; exact hok
  · intro a ha
    exact ⟨.inst doc.insts.length, I, huser, by simp [Doc.inst?], huid, hty a ha⟩

theorem templates_modifyTempl (d : Doc) (t : Nat) (f : Templ → Templ) (t' : Nat) :
    (d.modifyTempl t f).templates[t']? = if t = t' then (d.templates[t']?).map f else d.templates[t']? := by
  simp only [Doc.modifyTempl, List.getElem?_modify]
  split
  · subst_vars; cases d.templates[t']? <;> simp
  · cases d.templates[t']? <;> simp [*]

/-- a change inside one template that keeps its `instance_t` part and keeps its edges well-formed -/
theorem InvH.modifyTempl {syms : List Symbol} {doc : Doc} (h : InvH syms doc) (t : Nat) (f : Templ → Templ)
    (hinst : ∀ T, (f T).inst = T.inst)
    (hedges : ∀ T, doc.templates[t]? = some T → ∀ i e, (f T).edges[i]? = some e → e.nr = i ∧ EdgeOk e) :
    InvH syms (doc.modifyTempl t f) := by
  have huid : ∀ r, (doc.modifyTempl t f).uidOf r = doc.uidOf r := by
    intro r
    cases r <;> simp only [Doc.uidOf] <;> try rfl
    rw [templates_modifyTempl]
    split
    · rename_i t' _; cases doc.templates[t']? <;> simp [hinst]
    · rfl
  have hi : ∀ r, (doc.modifyTempl t f).inst? r = doc.inst? r := by
    intro r
    cases r <;> simp only [Doc.inst?] <;> try rfl
    rw [templates_modifyTempl]
    split
    · rename_i t' _; cases doc.templates[t']? <;> simp [hinst]
    · rfl
  have hT : ∀ t' T', (doc.modifyTempl t f).templates[t']? = some T' →
      doc.templates[t']? = some T' ∨ (t' = t ∧ ∃ T, doc.templates[t]? = some T ∧ T' = f T) := by
    intro t' T' h'
    rw [templates_modifyTempl] at h'
    split at h'
    · rename_i htt
      subst htt
      cases hd : doc.templates[t]? with
      | none => simp [hd] at h'
      | some T => right; simp [hd] at h'; exact ⟨rfl, T, rfl, h'.symm⟩
    · exact Or.inl h'
  refine ⟨?_, ?_, ?_, ?_, h.numLoc, h.numBp, ?_, ?_, ?_⟩
  · intro r sid hr; rw [huid] at hr; exact h.own r sid hr
  · intro sid sym hs hl; obtain ⟨i, hu, hd⟩ := h.backLoc sid sym hs hl; exact ⟨i, hu, by rw [huid]; exact hd⟩
  · intro sid sym hs hl; obtain ⟨i, hu, hd⟩ := h.backBp sid sym hs hl; exact ⟨i, hu, by rw [huid]; exact hd⟩
  · intro sid sym a hs hl; obtain ⟨r, I, hu, hd, h1, h2⟩ := h.backInst sid sym a hs hl; exact ⟨r, I, hu, by rw [hi]; exact hd, h1, h2⟩
  · intro t' T' i e hT' he
    rcases hT t' T' hT' with ho | ⟨_, T, hd, hx⟩
    · exact h.numEdge t' T' i e ho he
    · subst hx; exact (hedges T hd i e he).1
  · intro t' T' i e hT' he
    rcases hT t' T' hT' with ho | ⟨_, T, hd, hx⟩
    · exact h.edges t' T' i e ho he
    · subst hx; exact (hedges T hd i e he).2
  · intro r I hr; rw [hi] at hr; exact h.insts r I hr

/-- `symbol_t::set_type` on a location symbol with another location type (urgent / committed prefix) -/
theorem InvH.setTy {syms : List Symbol} {doc : Doc} (h : InvH syms doc) (sid : SymId) (ty' : STy) (sym0 : Symbol)
    (hold : syms[sid]? = some sym0) (hloc0 : sym0.ty.isLocation) (hnew : ty'.isLocation) :
    InvH (syms.modify sid (fun sym => { sym with ty := ty' })) doc := by
  have hget : ∀ sid' sym', (syms.modify sid (fun sym => { sym with ty := ty' }))[sid']? = some sym' →
      syms[sid']? = some sym' ∨ (sid' = sid ∧ sym' = { sym0 with ty := ty' }) := by
    intro sid' sym' h'
    rw [List.getElem?_modify] at h'
    by_cases he : sid = sid'
    · subst he; simp [hold] at h'; exact Or.inr ⟨rfl, h'.symm⟩
    · cases hs : syms[sid']? with
      | none => simp [hs] at h'
      | some x => simp [hs, he] at h'; exact Or.inl (by rw [h'])
  have huser : ∀ sid', symUser (syms.modify sid (fun sym => { sym with ty := ty' })) sid' = symUser syms sid' := by
    intro sid'
    unfold symUser
    rw [List.getElem?_modify]
    cases syms[sid']? with
    | none => rfl
    | some x => by_cases he : sid = sid' <;> simp [he]
  have hnotinst : ∀ a, ty' ≠ .inst a ∧ ty' ≠ .lscInst a := by
    intro a; cases ty' <;> simp [STy.isLocation] at hnew ⊢
  have hnotbp : ty'.isBranchpoint = false := by cases ty' <;> simp [STy.isLocation, STy.isBranchpoint] at hnew ⊢
  refine ⟨?_, ?_, ?_, ?_, h.numLoc, h.numBp, h.numEdge, h.edges, ?_⟩
  · intro r sid' hr; rw [huser]; exact h.own r sid' hr
  · intro sid' sym' hs hl
    rcases hget sid' sym' hs with ho | ⟨he, hx⟩
    · exact h.backLoc sid' sym' ho hl
    · subst hx; subst he; exact h.backLoc _ sym0 hold hloc0
  · intro sid' sym' hs hl
    rcases hget sid' sym' hs with ho | ⟨he, hx⟩
    · exact h.backBp sid' sym' ho hl
    · subst hx; simp [hnotbp] at hl
  · intro sid' sym' a hs hl
    rcases hget sid' sym' hs with ho | ⟨he, hx⟩
    · exact h.backInst sid' sym' a ho hl
    · subst hx; rcases hl with hl | hl
      · exact absurd hl (hnotinst a).1
      · exact absurd hl (hnotinst a).2
  · intro r I hr
    have ho := h.insts r I hr
    refine ⟨ho.unboundLe, ho.mapDom, ho.mapKeys, ?_⟩
    intro hk
    obtain ⟨sym, hs, ht⟩ := ho.arity hk
    refine ⟨sym, ?_, ht⟩
    rw [List.getElem?_modify]
    by_cases he : sid = I.uid
    · subst he; rw [hold] at hs; cases hs
      rcases ht with ht | ht <;> (rw [ht] at hloc0; simp [STy.isLocation] at hloc0)
    · simp [hs, he]


/-! ### the same facts at the level of builder states -/

theorem plain_var (t : Ty) : (STy.var t).plain := ⟨rfl, rfl, fun _ => ⟨by simp, by simp⟩⟩
theorem plain_typedef (t : Ty) : (STy.typedef t).plain := ⟨rfl, rfl, fun _ => ⟨by simp, by simp⟩⟩
theorem plain_processVar : STy.processVar.plain := ⟨rfl, rfl, fun _ => ⟨by simp, by simp⟩⟩

theorem inv_addSymbol_plain {s : BState} {f : FrameId} {name : String} {ty : STy} (h : Inv s) (hp : ty.plain) :
    Inv (s.addSymbol f name ty none).1 :=
  InvH.addPlain h ⟨name, ty, none⟩ hp rfl

theorem inv_addVariable {s : BState} {ty : Ty} {name : String} (h : Inv s) : Inv (s.addVariable ty name).1 := by
  unfold BState.addVariable
  cases s.currentFun <;> exact InvH.addVar h name ty _

theorem inv_addFunction {s : BState} {name : String} (h : Inv s) : Inv (s.addFunction name).1 :=
  InvH.addFunc h name _

theorem inv_addLocation {s : BState} {t : Nat} {name : String} {a b : Bool} (h : Inv s) : Inv (s.addLocation t name a b).1 := by
  unfold BState.addLocation
  split
  · exact h
  · exact InvH.addLoc h name t a b

theorem inv_addBranchpoint {s : BState} {t : Nat} {name : String} (h : Inv s) : Inv (s.addBranchpoint t name).1 := by
  unfold BState.addBranchpoint
  split
  · exact h
  · exact InvH.addBp h name t

theorem inv_addTemplate {s : BState} {name : String} {isTA dyn : Bool} (h : Inv s) : Inv (s.addTemplate name isTA dyn).1 :=
  InvH.addTempl h name isTA dyn _ _

theorem inv_setSymTy_loc {s : BState} (h : Inv s) (sid : SymId) (sym : Symbol) (hs : s.sym? sid = some sym)
    (hl : sym.ty.isLocation) (u c : Bool) : Inv (s.setSymTy sid (.location u c)) :=
  InvH.setTy h sid _ sym hs hl rfl

theorem inv_modifyTempl {s : BState} (h : Inv s) (t : Nat) (f : Templ → Templ) (hinst : ∀ T, (f T).inst = T.inst)
    (hedges : ∀ T, s.doc.templates[t]? = some T → ∀ i e, (f T).edges[i]? = some e → e.nr = i ∧ EdgeOk e) :
    InvH s.syms (s.doc.modifyTempl t f) :=
  InvH.modifyTempl h t f hinst hedges


theorem resolveSym_sym {s : BState} {name : String} {sid : SymId} {sym : Symbol} (h : s.resolveSym name = some (sid, sym)) :
    s.sym? sid = some sym := by
  unfold BState.resolveSym at h
  split at h
  · cases h
  · split at h
    · cases h
    · rename_i hs; cases h; exact hs

theorem resolveEndpoint_sym {s : BState} {name : String} {sym : Symbol} (h : s.resolveEndpoint name = some sym) :
    ∃ sid, s.sym? sid = some sym ∧ (sym.ty.isLocation ∨ sym.ty.isBranchpoint) := by
  unfold BState.resolveEndpoint at h
  split at h
  · rename_i sid sym' hr
    split at h
    · cases h; rename_i hc; exact ⟨sid, resolveSym_sym hr, by simpa using hc⟩
    · cases h
  · cases h

theorem edgeOk_mkEdge {s : BState} (h : Inv s) (edges : List Edge) (fs ts : Symbol) (control : Bool) (fr : FrameId) (g a p : Expr)
    (hf : ∃ sid, s.sym? sid = some fs ∧ (fs.ty.isLocation ∨ fs.ty.isBranchpoint))
    (ht : ∃ sid, s.sym? sid = some ts ∧ (ts.ty.isLocation ∨ ts.ty.isBranchpoint)) :
    EdgeOk (mkEdge edges fs ts control fr g a p) := by
  obtain ⟨fsid, hfs, hfk⟩ := hf
  obtain ⟨tsid, hts, htk⟩ := ht
  have key : ∀ (sid : SymId) (sym : Symbol), s.sym? sid = some sym → (sym.ty.isLocation ∨ sym.ty.isBranchpoint) →
      (sym.ty.isLocation = true ∧ ∃ i, sym.user = some (.loc i)) ∨ (sym.ty.isLocation = false ∧ ∃ i, sym.user = some (.bp i)) := by
    intro sid sym hs hk
    cases hl : sym.ty.isLocation with
    | true => left; obtain ⟨i, hu, _⟩ := h.backLoc sid sym hs hl; exact ⟨rfl, i, hu⟩
    | false =>
      right
      rcases hk with hk | hk
      · rw [hl] at hk; cases hk
      · obtain ⟨i, hu, _⟩ := h.backBp sid sym hs hk; exact ⟨rfl, i, hu⟩
  rcases key fsid fs hfs hfk with ⟨hl1, i1, hu1⟩ | ⟨hl1, i1, hu1⟩ <;>
  rcases key tsid ts hts htk with ⟨hl2, i2, hu2⟩ | ⟨hl2, i2, hu2⟩ <;>
  (constructor <;> simp [mkEdge, hl1, hl2, hu1, hu2])

theorem nr_mkEdge (edges : List Edge) (fs ts : Symbol) (control : Bool) (fr : FrameId) (g a p : Expr)
    (hnum : ∀ (i : Nat) (e : Edge), edges[i]? = some e → e.nr = i) :
    (mkEdge edges fs ts control fr g a p).nr = edges.length := by
  simp only [mkEdge]
  cases hl : edges.getLast? with
  | none => simp [List.getLast?_eq_none_iff] at hl; simp [hl]
  | some e =>
    rw [List.getLast?_eq_getElem?] at hl
    have := hnum _ _ hl
    have hlt := getElem?_lt_of_some hl
    simp; omega

theorem inv_addEdge {s : BState} (h : Inv s) (t : Nat) (fs ts : Symbol) (control : Bool) (fr : FrameId) (g a p : Expr)
    (hf : ∃ sid, s.sym? sid = some fs ∧ (fs.ty.isLocation ∨ fs.ty.isBranchpoint))
    (ht : ∃ sid, s.sym? sid = some ts ∧ (ts.ty.isLocation ∨ ts.ty.isBranchpoint)) :
    InvH s.syms (s.doc.modifyTempl t (fun T => { T with edges := T.edges ++ [mkEdge T.edges fs ts control fr g a p] })) := by
  refine InvH.modifyTempl h t _ (fun T => rfl) ?_
  intro T hT i e he
  rcases append_one_split he with ⟨_, ho⟩ | ⟨hi, hx⟩
  · exact ⟨h.numEdge t T i e hT ho, h.edges t T i e hT ho⟩
  · subst hx; subst hi
    exact ⟨nr_mkEdge _ _ _ _ _ _ _ _ (fun i e he => h.numEdge t T i e hT he), edgeOk_mkEdge h _ _ _ _ _ _ _ _ hf ht⟩

/-- a label callback: changes only guard / sync / assign / prob of one edge -/
theorem inv_setEdgeField {s : BState} (h : Inv s) (t i : Nat) (g : Edge → Edge)
    (hg : ∀ ed, (g ed).nr = ed.nr ∧ (g ed).src = ed.src ∧ (g ed).srcb = ed.srcb ∧ (g ed).dst = ed.dst ∧ (g ed).dstb = ed.dstb) :
    InvH s.syms (s.doc.modifyTempl t (fun T => { T with edges := T.edges.modify i g })) := by
  refine InvH.modifyTempl h t _ (fun T => rfl) ?_
  intro T hT j e he
  simp only [List.getElem?_modify] at he
  cases ho : T.edges[j]? with
  | none => simp [ho] at he
  | some e0 =>
    simp [ho] at he
    have h1 := h.numEdge t T j e0 hT ho
    have h2 := h.edges t T j e0 hT ho
    by_cases hij : i = j
    · simp [hij] at he; subst he
      obtain ⟨a1, a2, a3, a4, a5⟩ := hg e0
      refine ⟨by rw [a1]; exact h1, ?_⟩
      constructor <;> simp only [a2, a3, a4, a5]
      · exact h2.srcOne
      · exact h2.dstOne
      · exact h2.srcLoc
      · exact h2.srcBp
      · exact h2.dstLoc
      · exact h2.dstBp
    · simp [hij] at he; subst he; exact ⟨h1, h2⟩

theorem mem_mapInsert (m : List (SymId × Expr)) (k : SymId) (v : Expr) (x : SymId) :
    (∃ e, (x, e) ∈ mapInsert m k v) ↔ (∃ e, (x, e) ∈ m) ∨ x = k := by
  unfold mapInsert
  split
  · rename_i hany
    simp only [List.any_eq_true, decide_eq_true_eq] at hany
    obtain ⟨⟨k0, v0⟩, hm, hk⟩ := hany
    simp only at hk; subst hk
    constructor
    · rintro ⟨e, he⟩
      simp only [List.mem_map] at he
      obtain ⟨⟨a, b⟩, hab, heq⟩ := he
      by_cases hak : a = k0
      · simp [hak] at heq; right; exact heq.1.symm
      · simp [hak] at heq; left; exact ⟨b, by rw [← heq.1]; exact hab⟩
    · rintro (⟨e, he⟩ | hx)
      · by_cases hxk : x = k0
        · subst hxk; exact ⟨v, List.mem_map.mpr ⟨(x, e), he, by simp⟩⟩
        · exact ⟨e, List.mem_map.mpr ⟨(x, e), he, by simp [hxk]⟩⟩
      · subst hx; exact ⟨v, List.mem_map.mpr ⟨(x, v0), hm, by simp⟩⟩
  · simp only [List.mem_append, List.mem_singleton, Prod.mk.injEq]
    constructor
    · rintro ⟨e, he | ⟨hx, _⟩⟩
      · exact Or.inl ⟨e, he⟩
      · exact Or.inr hx
    · rintro (⟨e, he⟩ | hx)
      · exact ⟨e, Or.inl he⟩
      · exact ⟨v, Or.inr ⟨hx, rfl⟩⟩

theorem mem_bindArgs (m : List (SymId × Expr)) (ps : List SymId) (es : List Expr) (x : SymId) :
    (∃ e, (x, e) ∈ bindArgs m ps es) ↔ (∃ e, (x, e) ∈ m) ∨ x ∈ ps.take es.length := by
  induction ps generalizing m es with
  | nil => cases es <;> simp [bindArgs]
  | cons p ps ih =>
    cases es with
    | nil => simp [bindArgs]
    | cons e es =>
      simp only [bindArgs, ih, mem_mapInsert, List.length_cons, List.take_succ_cons, List.mem_cons]
      constructor
      · rintro ((h | h) | h)
        · exact Or.inl h
        · exact Or.inr (Or.inl h)
        · exact Or.inr (Or.inr h)
      · rintro (h | h | h)
        · exact Or.inl (Or.inl h)
        · exact Or.inl (Or.inr h)
        · exact Or.inr h

/-- `mapInsert` is `std::map::operator[]=`: it never creates a second entry for a key -/
theorem keys_mapInsert (m : List (SymId × Expr)) (k : SymId) (v : Expr) (h : (m.map Prod.fst).Nodup) :
    ((mapInsert m k v).map Prod.fst).Nodup := by
  unfold mapInsert
  split
  · have : (m.map (fun kv => if kv.1 = k then (k, v) else kv)).map Prod.fst = m.map Prod.fst := by
      rw [List.map_map]
      apply List.map_congr_left
      intro kv _
      by_cases hk : kv.1 = k <;> simp [hk]
    rw [this]; exact h
  · rename_i hany
    rw [List.map_append, List.map_cons, List.map_nil]
    refine List.nodup_append.mpr ⟨h, by simp, ?_⟩
    intro a ha b hb hab
    simp only [List.mem_singleton] at hb
    subst hb; subst hab
    apply hany
    obtain ⟨kv, hkv, hfst⟩ := List.mem_map.mp ha
    exact List.any_eq_true.mpr ⟨kv, hkv, by simp [hfst]⟩

theorem keys_bindArgs (m : List (SymId × Expr)) (ps : List SymId) (es : List Expr) (h : (m.map Prod.fst).Nodup) :
    ((bindArgs m ps es).map Prod.fst).Nodup := by
  induction ps generalizing m es with
  | nil => cases es <;> simpa [bindArgs] using h
  | cons p ps ih =>
    cases es with
    | nil => simpa [bindArgs] using h
    | cons e es => simp only [bindArgs]; exact ih _ _ (keys_mapInsert m p e h)

theorem inv_addInstance {s : BState} (h : Inv s) (lsc : Bool) (name : String) (old : Inst) (ps : List SymId) (exprs : List Expr)
    (hold : InstOk s.syms old) (hlen : exprs.length = old.unbound) : Inv (s.addInstance lsc name old ps exprs) := by
  unfold BState.addInstance
  refine InvH.addInst h _ _ rfl rfl ?_ (by cases lsc <;> rfl) (by cases lsc <;> rfl) ?_
  · refine ⟨by simp, ?_, keys_bindArgs _ _ _ hold.mapKeys, ?_⟩
    · intro x
      simp only [List.drop_left, mem_bindArgs, hlen, hold.mapDom x]
      constructor
      · rintro (hx | hx)
        · exact List.mem_of_mem_drop hx
        · exact List.mem_of_mem_take hx
      · intro hx
        rw [← List.take_append_drop old.unbound old.params] at hx
        rcases List.mem_append.mp hx with hx | hx
        · exact Or.inr hx
        · exact Or.inl hx
    · intro _
      exact ⟨_, List.getElem?_concat_length, by cases lsc <;> simp⟩
  · intro a ha
    cases lsc <;> simp at ha <;> simp [ha]

theorem inv_addProcess {s : BState} (h : Inv s) (inst : Inst) (hold : InstOk s.syms inst) : Inv (s.addProcess inst) := by
  unfold BState.addProcess
  refine InvH.addInst h _ _ rfl rfl ⟨hold.unboundLe, hold.mapDom, hold.mapKeys, fun hk => absurd rfl hk⟩ ?_ ?_ ?_
  · simp only; split <;> rfl
  · simp only; split <;> rfl
  · intro a ha
    simp only at ha
    split at ha <;> simp at ha


/-! ### wrappers that do not touch the symbol heap or the document -/

theorem inv_ite {c : Prop} [Decidable c] {a b : BState} (ha : Inv a) (hb : Inv b) : Inv (if c then a else b) := by
  split <;> assumption

theorem inv_error {s : BState} (h : Inv s) : Inv s.error := h
theorem inv_warning {s : BState} (h : Inv s) : Inv s.warning := h

theorem inv_of_eq {s s' : BState} (h : Inv s) (h1 : s'.syms = s.syms) (h2 : s'.doc = s.doc) : Inv s' := by
  unfold Inv at *; rw [h1, h2]; exact h

@[simp] theorem error_syms (s : BState) : s.error.syms = s.syms := rfl
@[simp] theorem error_doc (s : BState) : s.error.doc = s.doc := rfl
@[simp] theorem warning_syms (s : BState) : s.warning.syms = s.syms := rfl
@[simp] theorem warning_doc (s : BState) : s.warning.doc = s.doc := rfl
@[simp] theorem pushFrame_syms (s : BState) (f) : (s.pushFrame f).syms = s.syms := rfl
@[simp] theorem pushFrame_doc (s : BState) (f) : (s.pushFrame f).doc = s.doc := rfl
@[simp] theorem popFrame_syms (s : BState) : s.popFrame.syms = s.syms := rfl
@[simp] theorem popFrame_doc (s : BState) : s.popFrame.doc = s.doc := rfl
@[simp] theorem pushNewFrame_syms (s : BState) : s.pushNewFrame.syms = s.syms := rfl
@[simp] theorem pushNewFrame_doc (s : BState) : s.pushNewFrame.doc = s.doc := rfl
@[simp] theorem newFrame_syms (s : BState) (p l) : (s.newFrame p l).1.syms = s.syms := rfl
@[simp] theorem newFrame_doc (s : BState) (p l) : (s.newFrame p l).1.doc = s.doc := rfl
@[simp] theorem popFrag_syms (s : BState) (n) : (s.popFrag n).syms = s.syms := rfl
@[simp] theorem popFrag_doc (s : BState) (n) : (s.popFrag n).doc = s.doc := rfl
@[simp] theorem pushFresh_syms (s : BState) : s.pushFresh.syms = s.syms := rfl
@[simp] theorem pushFresh_doc (s : BState) : s.pushFresh.doc = s.doc := rfl
@[simp] theorem fresh_syms (s : BState) : s.fresh.1.syms = s.syms := rfl
@[simp] theorem fresh_doc (s : BState) : s.fresh.1.doc = s.doc := rfl
@[simp] theorem popType_syms (s : BState) : s.popType.1.syms = s.syms := rfl
@[simp] theorem popType_doc (s : BState) : s.popType.1.doc = s.doc := rfl
@[simp] theorem pushType_syms (s : BState) (t) : (s.pushType t).syms = s.syms := rfl
@[simp] theorem pushType_doc (s : BState) (t) : (s.pushType t).doc = s.doc := rfl

@[simp] theorem ite_error_syms {c : Prop} [Decidable c] (a : BState) : (if c then a.error else a).syms = a.syms := by split <;> rfl
@[simp] theorem ite_error_doc {c : Prop} [Decidable c] (a : BState) : (if c then a.error else a).doc = a.doc := by split <;> rfl

theorem inv_wrap {s s' : BState} (h : Inv s) (h1 : s'.syms = s.syms := by simp) (h2 : s'.doc = s.doc := by simp) : Inv s' :=
  inv_of_eq h h1 h2

macro "inv_plain" : tactic => `(tactic| (refine inv_addSymbol_plain ?_ ?_ <;> first | assumption | exact plain_var _ | exact plain_typedef _ | exact plain_processVar))

theorem inv_addSelectSymbol {s : BState} (h : Inv s) (name : String) (fr : Option FrameId) : Inv (s.addSelectSymbol name fr) := by
  unfold BState.addSelectSymbol
  simp only [BState.popType]
  refine inv_ite (inv_error h) ?_
  split
  · refine inv_addSymbol_plain ?_ (plain_var _)
    exact inv_ite h h
  · exact inv_ite h h

theorem inv_setEdge {s : BState} (h : Inv s) (f : Edge → Expr → Edge)
    (hf : ∀ ed e, (f ed e).nr = ed.nr ∧ (f ed e).src = ed.src ∧ (f ed e).srcb = ed.srcb ∧ (f ed e).dst = ed.dst ∧ (f ed e).dstb = ed.dstb) :
    Inv (s.setEdge f) := by
  unfold BState.setEdge
  split
  · exact h
  · rename_i t i _
    exact inv_setEdgeField h t i _ (fun ed => hf ed _)


end UtapModel.Builder
