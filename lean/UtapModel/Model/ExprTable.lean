/-
The concrete precedence table of utap's expression grammar, built from the generated data (Gen/ExprGrammar.lean),
the surface syntax (lexer for expression text, token printer) and the mapping of syntax trees to `kind_t` trees.
Core Lean only (linked into drv_c02 / drv_c03).
-/
import UtapModel.Model.Pratt
import UtapModel.Gen.ExprGrammar
import UtapModel.Gen.QueryTables

namespace UtapModel.ExprTable
open UtapModel.Pratt UtapModel.ExprGrammar

def find3 (l : List (Nat × Nat × String)) (t : Nat) : Option (Nat × String) :=
  match l.find? (fun x => x.1 == t) with
  | some (_, a, b) => some (a, b)
  | none => none

def tokId (name : String) : Nat := (tokNames.idxOf name)

/-- the table a list of production data denotes (also used for the hand-written reference table) -/
structure Data where
  bins : List (Nat × Nat × String)
  imply : Nat × Nat × String
  pres : List (Nat × Nat × String)
  posts : List (Nat × Nat × String)
  quants : List (Nat × Nat × String)
  levels : List (Bool × List Nat)
  quest : Nat
  tern : Nat
  top : Nat
  minus : Nat

def genData : Data :=
  { bins := binProds, imply := implyProd, pres := preProds, posts := postProds, quants := quantProds,
    levels := precLevels, quest := questLevel, tern := ternLevel, top := topLevel, minus := minusTok }

def firstTokOfKind (l : List (Nat × Nat × String)) (k : String) : Nat :=
  match l.find? (fun x => x.2.2 == k) with
  | some (t, _, _) => t
  | none => 0

def Data.tbl (D : Data) : Tbl :=
  { isBin := fun t => D.bins.any (fun x => x.1 == t) || t == D.imply.1
    bp := fun t => if t == D.imply.1 then D.imply.2.1 else match find3 D.bins t with | some (l, _) => l | none => 0
    isImply := fun t => t == D.imply.1
    orTok := firstTokOfKind D.bins D.imply.2.2
    notTok := firstTokOfKind D.pres "NOT"
    isPre := fun t => D.pres.any (fun x => x.1 == t)
    prePlus := fun t => match find3 D.pres t with | some (_, k) => k == "" | none => false
    isMinus := fun t => t == D.minus
    pp := fun t => match find3 D.pres t with | some (l, _) => l | none => 0
    isPost := fun t => D.posts.any (fun x => x.1 == t)
    sp := fun t => match find3 D.posts t with | some (l, _) => l | none => 0
    ra := fun p => match D.levels[p - 1]? with | some (r, _) => p != 0 && r | none => false
    questL := D.quest
    ternL := D.tern
    quantL := fun t => match find3 D.quants t with | some (l, _) => l | none => 0
    topL := D.top }

/-- the table of the grammar that is in /repo now -/
def utapT : Tbl := genData.tbl
def mt : Nat := minusTok

/-! ### kinds -/

/-- `kind_t` trees as the C++ harness prints them -/
inductive KTree where
  | node (k : String) (attrs : List String) (sub : List KTree)
deriving Repr, Inhabited

partial def KTree.str : KTree → String
  | .node k attrs sub =>
    "(" ++ k ++ String.join (attrs.map (" " ++ ·)) ++ String.join (sub.map (fun s => " " ++ s.str)) ++ ")"

def binKind (D : Data) (t : Nat) : String := match find3 D.bins t with | some (_, k) => k | none => "?BIN"
def preKind (D : Data) (t : Nat) : String := match find3 D.pres t with | some (_, k) => k | none => "?PRE"
def postKind (D : Data) (t : Nat) : String := match find3 D.posts t with | some (_, k) => k | none => "?POST"
def quantKind (D : Data) (t : Nat) : String := match find3 D.quants t with | some (_, k) => k | none => "?QUANT"
def fnKind (k : Nat) : String := match fnProds[k]? with | some (_, kk, _) => kk | none => "?FN"

def argList : Expr → List Expr
  | .acons x r => x :: argList r
  | _ => []

/-- the `kind_t` tree ExpressionBuilder builds for a syntax tree (model of expr_binary / expr_unary / expr_assignment /
expr_inline_if / expr_array / expr_call_end / expr_dot / expr_*_end: kinds and operand order) -/
partial def toK (D : Data) : Expr → KTree
  | .atom (.nat n) => .node "CONSTANT" ["int", toString n] []
  | .atom .intMin => .node "CONSTANT" ["int", "-2147483648"] []
  | .atom (.dbl s) => .node "CONSTANT" ["double", s] []
  | .atom (.str s) => .node "CONSTANT" ["string", s] []
  | .atom .tru => .node "CONSTANT" ["bool", "1"] []
  | .atom .fls => .node "CONSTANT" ["bool", "0"] []
  | .atom .deadlock => .node "DEADLOCK" [] []
  | .atom (.ident x) => .node "IDENTIFIER" [x] []
  | .pre t x => .node (preKind D t) [] [toK D x]
  | .quant k id _ x => .node (quantKind D k) [] [.node "IDENTIFIER" [id] [], toK D x]
  | .post t x => .node (postKind D t) [] [toK D x]
  | .dot n x => .node "DOT" [n] [toK D x]
  | .dotLoc x => .node "DOT" ["location"] [toK D x]
  | .bin t l r => .node (binKind D t) [] [toK D l, toK D r]
  | .tern c a b => .node "INLINE_IF" [] [toK D c, toK D a, toK D b]
  | .index a i => .node "ARRAY" [] [toK D a, toK D i]
  | .fn1 k a => .node (fnKind k) [] [toK D a]
  | .fn2 k a b => .node (fnKind k) [] [toK D a, toK D b]
  | .fn3 k a b c => .node (fnKind k) [] [toK D a, toK D b, toK D c]
  | .call f args => .node "FUN_CALL" [] (toK D f :: (argList args).map (toK D))
  | .anil => .node "?ANIL" [] []
  | .acons _ _ => .node "?ACONS" [] []

/-! ### surface syntax: token ↔ text -/

def literalOf (tokName : String) : Option String :=
  match literals.find? (fun x => x.2 == tokName) with
  | some (l, _) => some l
  | none =>
    match keywordsNew.find? (fun x => x.2 == tokName) with
    | some (w, _) => some w
    | none => none

def symText (t : Nat) : String :=
  match tokNames[t]? with
  | some n => (literalOf n).getD ("?" ++ n)
  | none => "?tok" ++ toString t

def fnText (k : Nat) : String :=
  match fnProds[k]? with
  | some (tn, _, _) => (literalOf tn).getD ("?" ++ tn)
  | none => "?fn"

def tokText : Tok → String
  | .atom (.nat n) => toString n
  | .atom .intMin => "- 2147483648"
  | .atom (.dbl s) => s
  | .atom (.str s) => "\"" ++ s ++ "\""
  | .atom .tru => "true"
  | .atom .fls => "false"
  | .atom .deadlock => "deadlock"
  | .atom (.ident x) => x
  | .posNegMax => "2147483648"
  | .sym t => symText t
  | .quant k id ty => symText k ++ " ( " ++ id ++ " : " ++ ty ++ " )"
  | .dot n => ". " ++ n
  | .dotLoc => ". location"
  | .fn k _ => fnText k
  | .lp => "(" | .rp => ")" | .lb => "[" | .rb => "]" | .comma => "," | .quest => "?" | .colon => ":"

def toksText (ts : List Tok) : String := " ".intercalate (ts.map tokText)

/-! ### lexer for expression text (model of the rules of lexer.l that matter inside expressions, NEW syntax) -/

def isAlpha (c : Char) : Bool := c.isAlpha || c == '_'
def isIdChr (c : Char) : Bool := c.isAlphanum || c == '_' || c == '$' || c == '#'

/-- the `{num}` rule: skip zeros; 2147483648 is T_POS_NEG_MAX; values above INT_MAX are `$Overflow` -/
inductive NumTok where
  | nat (n : Nat) | posNegMax | overflow
deriving DecidableEq, Repr

def stripZeros : List Char → List Char
  | '0' :: r => stripZeros r
  | l => l

def digitsVal (ds : List Char) : Nat := ds.foldl (fun acc c => acc * 10 + (c.toNat - '0'.toNat)) 0

def lexNum (ds : List Char) : NumTok :=
  let s := stripZeros ds
  if s = [] then .nat 0
  else if s = "2147483648".toList then .posNegMax
  else if s.length ≤ 10 ∧ digitsVal s ≤ 2147483647 then .nat (digitsVal s) else .overflow

def takeWhileL (p : Char → Bool) : List Char → List Char × List Char
  | [] => ([], [])
  | c :: r => if p c then let (a, b) := takeWhileL p r; (c :: a, b) else ([], c :: r)

/-- longest operator literal that is a prefix of the input -/
def matchLiteral (cs : List Char) : Option (String × String) :=
  literals.foldl (fun best (l, tn) =>
    if l.toList.isPrefixOf cs then
      match best with
      | some (b, _) => if l.length > b.length then some (l, tn) else best
      | none => some (l, tn)
    else best) none

def fnIndex (tokName : String) : Option (Nat × Nat) :=
  match fnProds.findIdx? (fun x => x.1 == tokName) with
  | some i => match fnProds[i]? with | some (_, _, a) => some (i, a) | none => none
  | none => none

/-- text up to the parenthesis that closes an already opened one -/
def balanced : Nat → Nat → List Char → List Char → Option (List Char × List Char)
  | 0, _, _, _ => none
  | _, _, _, [] => none
  | f+1, d, acc, c :: r =>
    if c == ')' then (if d == 0 then some (acc.reverse, r) else balanced f (d - 1) (c :: acc) r)
    else if c == '(' then balanced f (d + 1) (c :: acc) r
    else balanced f d (c :: acc) r

def skipWs : List Char → List Char
  | c :: r => if c == ' ' || c == '\t' || c == '\n' || c == '\r' then skipWs r else c :: r
  | [] => []

def trimStr (s : String) : String := s.trimAscii.toString

/-- query mode: the token of a terminal that only the query layer uses (Model/Query.lean `qtok` gives the same numbers) -/
def queryOnlyTok (tn : String) : Option Tok :=
  if tokNames.contains tn then some (.sym (tokId tn))
  else if UtapModel.QueryTables.queryTokNames.contains tn then some (.sym (1000 + UtapModel.QueryTables.queryTokNames.idxOf tn))
  else none

/-- `qm` = property syntax: the one-letter rules and the property keywords of the query layer are tokens -/
partial def lexGo (cs : List Char) (acc : List Tok) (qm : Bool := false) : Option (List Tok) :=
  match skipWs cs with
  | [] => some acc.reverse
  | c :: r =>
    if c.isDigit then
      let (ds, r1) := takeWhileL Char.isDigit (c :: r)
      -- float rule: {num}("."{num})?([eE]("+"|"-")?{num})?  (longest match; plain {num} is the integer rule)
      let (frac, r2) : List Char × List Char :=
        match r1 with
        | '.' :: d :: r' => if d.isDigit then let (fs, r'') := takeWhileL Char.isDigit (d :: r'); ('.' :: fs, r'') else ([], r1)
        | _ => ([], r1)
      let (ex, r3) : List Char × List Char :=
        match r2 with
        | e :: r' =>
          if e == 'e' || e == 'E' then
            match r' with
            | s :: d :: r'' =>
              if (s == '+' || s == '-') && d.isDigit then let (es, r4) := takeWhileL Char.isDigit (d :: r''); (e :: s :: es, r4)
              else if s.isDigit then let (es, r4) := takeWhileL Char.isDigit (s :: d :: r''); (e :: es, r4)
              else ([], r2)
            | [d] => if d.isDigit then ([e, d], []) else ([], r2)
            | [] => ([], r2)
          else ([], r2)
        | [] => ([], r2)
      if frac.isEmpty && ex.isEmpty then
        match lexNum ds with
        | .nat n => lexGo r1 (.atom (.nat n) :: acc) qm
        | .posNegMax => lexGo r1 (.posNegMax :: acc) qm
        | .overflow => none
      else lexGo r3 (.atom (.dbl (String.ofList (ds ++ frac ++ ex))) :: acc) qm
    else if isAlpha c then
      let (w, r1) := takeWhileL isIdChr (c :: r)
      let word := String.ofList w
      -- the identifier rule reports names that do not fit the token buffer (`$Identifier_is_too_long`)
      if w.length ≥ identTooLongFrom then none else
      -- the one-letter tokens "A" "U" "R" "W" "E" precede the identifier rule; NonTypeId re-admits them
      -- flex takes the longest match: `A[]`, `A<>`, `E<>`, `E[]` (and their `+` / `*` forms) beat the one-letter rules
      let litTok : Option (Tok × List Char) :=
        if !qm then none
        else match matchLiteral (c :: r) with
          | some (l, tn) => if l.length ≥ w.length then (queryOnlyTok tn).map (fun t => (t, (c :: r).drop l.length)) else none
          | none => none
      if let some (t, rl) := litTok then lexGo rl (t :: acc) qm else
      let qt : Option Tok :=
        if !qm then none
        else if UtapModel.QueryTables.singleLetterToks.contains word then queryOnlyTok ("'" ++ word ++ "'")
        else match UtapModel.QueryTables.propertyKeywords.find? (fun x => x.1 == word) with
          | some (_, tn) => if tokNames.contains tn then none else queryOnlyTok tn
          | none => none
      if let some t := qt then lexGo r1 (t :: acc) qm else
      match keywordsNew.find? (fun x => x.1 == word) with
      | some (_, tn) =>
        if tn == "T_TRUE" then lexGo r1 (.atom .tru :: acc) qm
        else if tn == "T_FALSE" then lexGo r1 (.atom .fls :: acc) qm
        else if tokNames.contains tn && quantProds.any (fun x => x.1 == tokId tn) then
          -- quantifier head: `( id : type )`
          match skipWs r1 with
          | '(' :: r2 =>
            match balanced (r2.length + 1) 0 [] r2 with
            | some (inner, r3) =>
              let s := String.ofList inner
              match s.splitOn ":" with
              | idp :: tyParts =>
                if tyParts.isEmpty then none
                else lexGo r3 (.quant (tokId tn) (trimStr idp) (trimStr (":".intercalate tyParts)) :: acc) qm
              | [] => none
            | none => none
          | _ => none
        else if tokNames.contains tn then lexGo r1 (.sym (tokId tn) :: acc) qm
        else match fnIndex tn with
          | some (i, a) => lexGo r1 (.fn i a :: acc) qm
          | none => none            -- a keyword that cannot occur in an expression
      | none => lexGo r1 (.atom (.ident word) :: acc) qm
    else if c == '"' then
      let (body, r1) := takeWhileL (fun x => x != '"') r
      match r1 with
      | '"' :: r2 =>
        -- the rule reports a literal that does not fit the token buffer (`$String_literal_is_too_long`; the length counts the quotes)
        if body.isEmpty || body.length + 2 ≥ stringTooLongFrom then none else lexGo r2 (.atom (.str (String.ofList body)) :: acc) qm
      | _ => none
    else if c == ';' && qm then
      -- (the literal table of the translator misses the rule `";" { return ';'; }`: its `return` value contains the `;` it splits at)
      match queryOnlyTok "';'" with | some t => lexGo r (t :: acc) qm | none => none
    else if c == '/' && r.head? == some '/' then
      let (_, r1) := takeWhileL (fun x => x != '\n') r
      lexGo r1 acc qm
    else
      match matchLiteral (c :: r) with
      | some (l, tn) =>
        let r1 := (c :: r).drop l.length
        if tn == "'('" then lexGo r1 (.lp :: acc) qm
        else if tn == "')'" then lexGo r1 (.rp :: acc) qm
        else if tn == "'['" then lexGo r1 (.lb :: acc) qm
        else if tn == "']'" then lexGo r1 (.rb :: acc) qm
        else if tn == "','" then lexGo r1 (.comma :: acc) qm
        else if tn == "'?'" then lexGo r1 (.quest :: acc) qm
        else if tn == "':'" then lexGo r1 (.colon :: acc) qm
        else if tn == "'.'" then
          match skipWs r1 with
          | d :: r2 =>
            if isAlpha d then
              let (w, r3) := takeWhileL isIdChr (d :: r2)
              let word := String.ofList w
              match keywordsNew.find? (fun x => x.1 == word) with
              | some (_, tn2) => if tn2 == "T_LOCATION" then lexGo r3 (.dotLoc :: acc) qm else none
              | none => lexGo r3 (.dot word :: acc) qm
            else none
          | [] => none
        else if tokNames.contains tn then lexGo r1 (.sym (tokId tn) :: acc) qm
        else if qm then (match queryOnlyTok tn with | some t => lexGo r1 (t :: acc) qm | none => none)
        else none
      | none => none

def lexExpr (s : String) : Option (List Tok) := lexGo s.toList []

/-- a query text in the property syntax -/
def lexQuery (s : String) : Option (List Tok) := lexGo s.toList [] true

end UtapModel.ExprTable
