#!/usr/bin/env python3
"""Translator for property C12: the constness machinery of /repo -> lean/UtapModel/Gen/ConstGen.lean.

Reads (from the *current* working tree)
  src/type.cpp            type_t::is_prefix, is, is_constant, is_mutable, get_sub(), get_sub(i), strip
  src/typechecker.cpp     TypeChecker::isModifiableLValue, isLValue, isUniqueReference (one clause per `case` group),
                          the write clauses of checkExpression (do they test isModifiableLValue(expr[0])?),
                          the refusal condition of isParameterCompatible and of visitInstance
  src/ExpressionBuilder.cpp / StatementBuilder.cpp / DocumentBuilder.cpp
                          do expr_forall_begin (+ exists/sum), iteration_begin, addSelectSymbolToFrame force CONSTANT?
and emits kind lists / per-kind clause tables / boolean conditions as Lean definitions.  Every function body is matched
against the small set of statement shapes listed in `Gen/ConstGen.lean`'s clause types; anything else FAILS CLOSED
(TranslateError), it is never skipped.
"""
import os
import re
import sys

sys.path.insert(0, os.path.dirname(os.path.abspath(__file__)))
import kinds as K  # noqa: E402


class TranslateError(Exception):
    pass


WRITE_KINDS = ["ASSIGN", "ASS_PLUS", "ASS_MINUS", "ASS_DIV", "ASS_MOD", "ASS_MULT", "ASS_AND", "ASS_OR", "ASS_XOR", "ASS_LSHIFT",
               "ASS_RSHIFT", "PRE_INCREMENT", "POST_INCREMENT", "PRE_DECREMENT", "POST_DECREMENT"]


def strip_comments(src):
    out, i, n = [], 0, len(src)
    while i < n:
        if src.startswith("//", i):
            while i < n and src[i] != "\n":
                i += 1
        elif src.startswith("/*", i):
            j = src.find("*/", i + 2)
            i = n if j < 0 else j + 2
            out.append(" ")
        elif src[i] == '"':
            j = i + 1
            while j < n and src[j] != '"':
                j += 2 if src[j] == "\\" else 1
            out.append(src[i:j + 1])
            i = j + 1
        elif src[i] == "'":
            j = i + 1
            while j < n and src[j] != "'":
                j += 2 if src[j] == "\\" else 1
            out.append(src[i:j + 1])
            i = j + 1
        else:
            out.append(src[i])
            i += 1
    return "".join(out)


def norm(s):
    """canonical text: no white space except a single blank between two word characters; string literals kept"""
    toks = re.findall(r'"(?:\\.|[^"\\])*"|[A-Za-z_0-9]+|\S', s)
    out = []
    for t in toks:
        if out and re.match(r"\w", t[0]) and re.match(r"\w", out[-1][-1]):
            out.append(" ")
        out.append(t)
    return "".join(out)


def balanced(src, i, open_ch="{", close_ch="}"):
    """src[i] == open_ch -> index just after the matching close"""
    assert src[i] == open_ch
    depth, n = 0, len(src)
    while i < n:
        c = src[i]
        if c == '"':
            i += 1
            while i < n and src[i] != '"':
                i += 2 if src[i] == "\\" else 1
        elif c == open_ch:
            depth += 1
        elif c == close_ch:
            depth -= 1
            if depth == 0:
                return i + 1
        i += 1
    raise TranslateError("unbalanced %s" % open_ch)


def function_body(src, signature_rx, what):
    ms = list(re.finditer(signature_rx, src))
    if len(ms) != 1:
        raise TranslateError("%s: expected exactly one definition, found %d" % (what, len(ms)))
    i = src.index("{", ms[0].end() - 1)
    return src[i + 1:balanced(src, i) - 1]


def switch_groups(body, what, head_rx=r"switch\s*\(\s*(?:expr\.)?get_kind\(\)\s*\)\s*"):
    """-> (text before the switch, [(labels, normalized statements)], text after the switch)
    a label is `case [Constants::]X:` or `default:` at nesting depth 0 of the switch body"""
    m = re.search(head_rx, body)
    if not m:
        raise TranslateError("%s: no switch over the kind" % what)
    i = body.index("{", m.end() - 1)
    j = balanced(body, i)
    inner = body[i + 1:j - 1]
    groups, labels, stmt = [], [], []
    k, n, depth = 0, len(inner), 0
    lab_rx = re.compile(r"\s*(?:case\s+(?:Constants::)?([A-Za-z_0-9]+)|(default))\s*:(?!:)")
    while k < n:
        if depth == 0:
            mm = lab_rx.match(inner, k)
            if mm and (k == 0 or inner[k - 1] in " \n\t;}{:"):
                if norm("".join(stmt)):
                    groups.append((labels, norm("".join(stmt))))
                    labels = []
                elif stmt:
                    pass
                stmt = []
                labels.append(mm.group(1) or "default")
                k = mm.end()
                continue
        c = inner[k]
        if c == '"':
            e = k + 1
            while e < n and inner[e] != '"':
                e += 2 if inner[e] == "\\" else 1
            stmt.append(inner[k:e + 1])
            k = e + 1
            continue
        if c in "{(":
            depth += 1
        elif c in "})":
            depth -= 1
        stmt.append(c)
        k += 1
    if labels:
        if not norm("".join(stmt)):
            raise TranslateError("%s: labels %s without statements" % (what, labels))
        groups.append((labels, norm("".join(stmt))))
    return body[:m.start()], groups, body[j:]


def lean_kind(k, known):
    if k not in known:
        raise TranslateError("unknown kind %r" % k)
    return ".k" + k


def lean_match(name, doc, ret_type, groups, known, value_of):
    """groups: [(labels, value text)], exactly one group contains 'default'"""
    L = ["/-- %s -/" % doc, "def %s : Kind → %s" % (name, ret_type)]
    default = None
    seen = set()
    for labels, val in groups:
        ks = [x for x in labels if x != "default"]
        for x in ks:
            if x in seen:
                raise TranslateError("%s: kind %s listed twice" % (name, x))
            seen.add(x)
        if "default" in labels:
            default = val
            # explicit labels sharing the default group need no own row
            continue
        for c in range(0, len(ks), 8):
            pass
        L.append("  | " + " | ".join(lean_kind(x, known) for x in ks) + " => " + value_of(val))
    if default is None:
        raise TranslateError("%s: switch without default" % name)
    L.append("  | _ => " + value_of(default))
    return "\n".join(L)


def cond_to_lean(cond, what, atoms):
    """C++ boolean condition over a fixed set of atoms -> Lean Bool expression (same operators)"""
    s = cond
    out = []
    i = 0
    s = s.strip()
    tok_rx = re.compile(r"\s*(&&|\|\||!|\(|\)|[A-Za-z_][A-Za-z_0-9:.]*(?:\([^()]*\))?(?:\s*==\s*[A-Za-z_:0-9]+)?)")
    while i < len(s):
        m = tok_rx.match(s, i)
        if not m:
            raise TranslateError("%s: cannot read condition %r at %r" % (what, cond, s[i:i + 20]))
        t = re.sub(r"\s+", "", m.group(1))
        if t in ("&&", "||", "!", "(", ")"):
            out.append(t)
        else:
            for rx, repl in atoms:
                mm = re.fullmatch(rx, t)
                if mm:
                    out.append(mm.expand(repl))
                    break
            else:
                raise TranslateError("%s: unknown atom %r in condition %r" % (what, t, cond))
        i = m.end()
    txt = " ".join(out).replace("( ", "(").replace(" )", ")").replace("! ", "!")
    return txt


def translate(repo="/repo"):
    known = [n for n, _ in K.kinds(repo)]
    kn = set(known)

    def rd(rel):
        return strip_comments(open(os.path.join(repo, rel)).read())

    type_cpp = rd("src/type.cpp")
    tc_cpp = rd("src/typechecker.cpp")
    eb_cpp = rd("src/ExpressionBuilder.cpp")
    sb_cpp = rd("src/StatementBuilder.cpp")
    db_cpp = rd("src/DocumentBuilder.cpp")
    out = ["/- GENERATED by translate/constness.py from src/type.cpp, src/typechecker.cpp, src/ExpressionBuilder.cpp,",
           "   src/StatementBuilder.cpp, src/DocumentBuilder.cpp -- do not edit. -/",
           "import UtapModel.Gen.Kinds", "", "namespace UtapModel.ConstGen", "open UtapModel", "",
           CLAUSE_TYPES]
    summary = {}

    # ---- spec cross-check: the write kinds of the model are all kinds that look like writes ------------------------
    looks = [k for k in known if re.match(r"^(ASSIGN|ASS_.*|(PRE|POST)_(INCREMENT|DECREMENT))$", k)]
    if sorted(looks) != sorted(WRITE_KINDS):
        raise TranslateError("kind_t has write-like kinds %s that differ from the specification's list %s: extend "
                             "Model/Const.lean `writeKinds`" % (sorted(looks), sorted(WRITE_KINDS)))

    # ---- type_t::is_prefix ---------------------------------------------------------------------------------------------
    body = function_body(type_cpp, r"bool\s+type_t::is_prefix\s*\(\s*\)\s*const\s*\{", "type_t::is_prefix")
    pre, groups, post = switch_groups(body, "is_prefix")
    if norm(pre) or norm(post):
        raise TranslateError("is_prefix: statements outside the switch: %r %r" % (norm(pre), norm(post)))
    for labels, st in groups:
        if st not in (norm("return false;"), norm("return true;")):
            raise TranslateError("is_prefix: unrecognised statement %r" % st)
    out.append(lean_match("isPrefixKind", "`type_t::is_prefix`", "Bool", groups, kn,
                          lambda v: "false" if v == norm("return false;") else "true"))
    summary["is_prefix_nonprefix_kinds"] = sum(len(l) for l, s in groups if s == norm("return false;"))

    # ---- type_t::is ----------------------------------------------------------------------------------------------------
    body = norm(function_body(type_cpp, r"bool\s+type_t::is\s*\(\s*kind_t\s+kind\s*\)\s*const\s*\{", "type_t::is"))
    body = re.sub(r"^using namespace Constants;", "", body)
    m = re.match(r"^const auto k=get_kind\(\);((?:if\(k==\w+\)\{return kind==\w+;\})*)return(.*);$", body)
    if not m:
        raise TranslateError("type_t::is: unrecognised shape: %r" % body)
    exact = []
    for a, b2 in re.findall(r"if\(k==(\w+)\)\{return kind==(\w+);\}", m.group(1)):
        if a != b2:
            raise TranslateError("type_t::is: `if (k == %s) return kind == %s`" % (a, b2))
        exact.append(a)
    disj = [d.strip() for d in m.group(2).split("||")]
    if not disj or disj[0] != "(k==kind)":
        raise TranslateError("type_t::is: first disjunct is not (k == kind): %r" % disj[:1])
    through = []
    for d in disj[1:]:
        mm = re.fullmatch(r"\((.*)&&get\(0\)\.is\(kind\)\)", d)
        if not mm:
            raise TranslateError("type_t::is: unrecognised disjunct %r" % d)
        through.append(cond_to_lean(mm.group(1), "type_t::is", [(r"is_prefix\(\)", "isPrefixKind k"),
                                                                (r"k==(\w+)", r"k == .k\1")]))
    for t in re.findall(r"\.k(\w+)", " ".join(through)):
        lean_kind(t, kn)
    out.append("/-- `type_t::is`: kinds that answer only for themselves (`if (k == X) return kind == X;`) -/\n"
               "def isExactKind : Kind → Bool\n" +
               ("  | " + " | ".join(lean_kind(x, kn) for x in exact) + " => true\n" if exact else "") + "  | _ => false")
    out.append("/-- `type_t::is`: the node is looked through (`... && get(0).is(kind)`) -/\n"
               "def isLookThrough (k : Kind) : Bool := " + (" || ".join("(%s)" % t for t in through) if through else "false"))
    summary["is_exact"], summary["is_look_through"] = exact, through

    # ---- is_constant / is_mutable ------------------------------------------------------------------------------------------
    def flag_fn(fname, lean_name):
        body = function_body(type_cpp, r"bool\s+type_t::%s\s*\(\s*\)\s*const\s*\{" % fname, "type_t::" + fname)
        pre, groups, post = switch_groups(body, fname)
        if norm(pre) or norm(post):
            raise TranslateError("%s: statements outside the switch" % fname)
        all_of = norm("return std::all_of(data->children.begin(), data->children.end(), [](const child_t& c) "
                      "{ return c.child.%s(); });" % fname)
        shapes = {norm("return false;"): ".retFalse", norm("return true;"): ".retTrue", all_of: ".allChildren",
                  norm("return size() > 0 && get(0).%s();" % fname): ".child0 false",
                  norm("return size() == 0 || get(0).%s();" % fname): ".child0 true"}
        for labels, st in groups:
            if st not in shapes:
                raise TranslateError("%s: unrecognised statement for %s: %r" % (fname, labels, st))
        out.append(lean_match(lean_name, "`type_t::%s`" % fname, "FlagClause", groups, kn, lambda v: shapes[v]))
        summary[fname] = {",".join(l): shapes[s] for l, s in groups}

    flag_fn("is_constant", "constClause")
    flag_fn("is_mutable", "mutClause")

    # ---- get_sub() / get_sub(i) ----------------------------------------------------------------------------------------------
    atoms_k = [(r"is_prefix\(\)", "isPrefixKind k"), (r"(?:k|get_kind\(\))==(\w+)", r"k == .k\1")]

    def sub_fn(sig_rx, call, direct, lean_name, doc):
        body = norm(function_body(type_cpp, sig_rx, doc))
        body = re.sub(r"^assert\([^;]*\);", "", body)
        m = re.match(r"^const auto k=get_kind\(\);if\((.*?)\)\{return (.*?);\}else if\((.*?)\)\{return (.*?);\}else\{return (.*?);\}$",
                     body)
        if not m:
            raise TranslateError("%s: unrecognised shape: %r" % (doc, body))
        rets = {norm("get(0).%s" % call): ".skip", norm("get(0).%s.create_prefix(k)" % call): ".rewrap", norm(direct): ".direct"}
        for rtxt in (m.group(2), m.group(4), m.group(5)):
            if rtxt not in rets:
                raise TranslateError("%s: unrecognised return %r" % (doc, rtxt))
        c1 = cond_to_lean(m.group(1), doc, atoms_k)
        c2 = cond_to_lean(m.group(3), doc, atoms_k)
        for t in re.findall(r"\.k(\w+)", c1 + " " + c2):
            lean_kind(t, kn)
        out.append("/-- `type_t::%s` -/\ndef %s (k : Kind) : SubClause :=\n  if (%s) then %s\n  else if (%s) then %s\n  else %s"
                   % (doc, lean_name, c1, rets[m.group(2)], c2, rets[m.group(4)], rets[m.group(5)]))
        summary[lean_name] = [c1, rets[m.group(2)], c2, rets[m.group(4)], rets[m.group(5)]]

    sub_fn(r"type_t\s+type_t::get_sub\s*\(\s*\)\s*const\s*\{", "get_sub()", "get(0)", "getSubClause", "get_sub()")
    sub_fn(r"type_t\s+type_t::get_sub\s*\(\s*uint32_t\s+i\s*\)\s*const\s*\{", "get_sub(i)", "get(i)", "getSubFieldClause",
           "get_sub(i)")

    # ---- strip -----------------------------------------------------------------------------------------------------------
    body = norm(function_body(type_cpp, r"type_t\s+type_t::strip\s*\(\s*\)\s*const\s*\{", "type_t::strip"))
    m = re.match(r"^const auto k=get_kind\(\);if\((.*?)\)\{return get\(0\)\.strip\(\);\}else\{return\*this;\}$", body)
    if not m:
        raise TranslateError("type_t::strip: unrecognised shape: %r" % body)
    out.append("/-- `type_t::strip`: kinds that are stripped -/\ndef stripKind (k : Kind) : Bool := (%s)"
               % cond_to_lean(m.group(1), "strip", atoms_k))

    # ---- the three lvalue predicates ---------------------------------------------------------------------------------------
    def lv_fn(fname, lean_name):
        body = function_body(tc_cpp, r"bool\s+TypeChecker::%s\s*\(\s*expression_t\s+expr\s*\)\s*const\s*\{" % fname,
                             "TypeChecker::" + fname)
        pre, groups, post = switch_groups(body, fname)
        if norm(pre) not in ("", norm("type_t t, f;")) or norm(post):
            raise TranslateError("%s: statements outside the switch: %r %r" % (fname, norm(pre), norm(post)))
        F = fname
        shapes = {
            norm("return expr.get_type().is_mutable();"): ".typeMutable",
            norm("if (expr[0].get_type().is_process()) { return false; } return %s(expr[0]);" % F): ".sub0NotProcess",
            norm("return %s(expr[0]);" % F): ".sub0",
            norm("return %s(expr[1]);" % F): ".sub1",
            norm("return %s(expr[0]) && isCompileTimeComputable(expr[1]);" % F): ".sub0AndCtc1",
            norm("return %s(expr[1]) && %s(expr[2]) && areEquivalent(expr[1].get_type(), expr[2].get_type());" % (F, F)): ".iif",
            norm("return true;"): ".always",
            norm("return false;"): ".never",
        }
        for labels, st in groups:
            if st not in shapes:
                raise TranslateError("%s: unrecognised clause for %s: %r" % (fname, labels, st))
            for l in labels:
                if l != "default":
                    lean_kind(l, kn)
        out.append(lean_match(lean_name, "`TypeChecker::%s`" % fname, "LvClause", groups, kn, lambda v: shapes[v]))
        summary[fname] = {",".join(l): shapes[s] for l, s in groups}

    lv_fn("isModifiableLValue", "modLvClause")
    lv_fn("isLValue", "lvClause")
    lv_fn("isUniqueReference", "uniqClause")

    # ---- write clauses of checkExpression -------------------------------------------------------------------------------------
    body = function_body(tc_cpp, r"bool\s+TypeChecker::checkExpression\s*\(\s*expression_t\s+expr\s*\)\s*\{",
                         "TypeChecker::checkExpression")
    # the function has several switches; the write clauses are in the one that has `case ASSIGN:`
    pos = body.find("case ASSIGN:")
    if pos < 0:
        raise TranslateError("checkExpression: no `case ASSIGN:`")
    starts = [m.start() for m in re.finditer(r"switch\s*\(\s*expr\.get_kind\(\)\s*\)", body) if m.start() < pos]
    if not starts:
        raise TranslateError("checkExpression: `case ASSIGN:` is not inside a switch over expr.get_kind()")
    _, groups, _ = switch_groups(body[starts[-1]:], "checkExpression")
    guarded = {}
    test = "!isModifiableLValue(expr[0])"
    for labels, st in groups:
        ws = [l for l in labels if l in WRITE_KINDS]
        if not ws:
            if "isModifiableLValue" in st and False:
                pass
            continue
        if [l for l in labels if l not in WRITE_KINDS]:
            raise TranslateError("checkExpression: write kinds share a clause with other kinds: %s" % labels)
        if "isModifiableLValue" not in st:
            for w in ws:
                guarded[w] = False
            continue
        # the if / else-if chain that contains the test: every branch up to the test must end in an error
        m = re.match(r"^((?:(?:else )?if\(.*?\)\{[^{}]*\})*?)(?:else )?if\(" + re.escape(norm(test)) +
                     r"\)\{handleError\(expr\[0\],\"[^\"]*\"\);(?:return false;)?\}", st)
        if not m:
            raise TranslateError("checkExpression: clause of %s uses isModifiableLValue in an unrecognised way: %r" % (ws, st[:300]))
        for br in re.findall(r"if\(.*?\)\{([^{}]*)\}", m.group(1)):
            if "handleError(" not in br:
                raise TranslateError("checkExpression: clause of %s: a branch before the lvalue test raises no error: %r" % (ws, br))
        for w in ws:
            guarded[w] = True
    missing = [w for w in WRITE_KINDS if w not in guarded]
    if missing:
        raise TranslateError("checkExpression: no clause found for write kinds %s" % missing)
    yes = [w for w in WRITE_KINDS if guarded[w]]
    out.append("/-- `TypeChecker::checkExpression`: does the clause of kind `k` raise an error when `!isModifiableLValue(expr[0])`? -/\n"
               "def writeGuard : Kind → Bool\n" + ("  | " + " | ".join(".k" + w for w in yes) + " => true\n" if yes else "") +
               "  | _ => false")
    summary["write_clauses_testing_lvalue"] = yes

    # ---- isParameterCompatible ---------------------------------------------------------------------------------------------------
    body = norm(function_body(tc_cpp, r"bool\s+TypeChecker::isParameterCompatible\s*\(\s*type_t\s+paramType\s*,\s*expression_t\s+arg\s*\)\s*\{",
                              "TypeChecker::isParameterCompatible"))
    m = re.match(r"^bool ref=paramType\.is\(REF\);bool constant=paramType\.is_constant\(\);bool lvalue=isModifiableLValue\(arg\);"
                 r"type_t argType=arg\.get_type\(\);(.*)$", body)
    if not m:
        raise TranslateError("isParameterCompatible: unrecognised prologue: %r" % body[:300])
    rest = m.group(1)
    atoms_p = [(r"ref", "ref"), (r"constant", "constant"), (r"lvalue", "lvalue")]
    m2 = re.match(r"^if\((.*?)\)\{return false;\}(.*)$", rest)
    if m2:
        cond = cond_to_lean(m2.group(1), "isParameterCompatible", atoms_p)
        rest = m2.group(2)
    else:
        cond = "false"
    expected_rest = norm("if (paramType.is_channel() && argType.is_channel()) { return channelCapability(argType) >= "
                         "channelCapability(paramType); } else if (ref && lvalue) { return areEquivalent(argType, paramType); } "
                         "else { return areAssignmentCompatible(paramType, argType); }")
    if rest != expected_rest:
        raise TranslateError("isParameterCompatible: unrecognised type comparison part: %r" % rest[:400])
    out.append("/-- `TypeChecker::isParameterCompatible`: the condition under which an argument is refused before any type comparison\n"
               "    (`ref = paramType.is(REF)`, `constant = paramType.is_constant()`, `lvalue = isModifiableLValue(arg)`) -/\n"
               "def paramRefuses (ref constant lvalue : Bool) : Bool := " + cond)
    summary["paramRefuses"] = cond

    # ---- visitInstance -------------------------------------------------------------------------------------------------------------
    body = norm(function_body(tc_cpp, r"void\s+TypeChecker::visitInstance\s*\(\s*instance_t\s*&\s*instance\s*\)\s*\{",
                              "TypeChecker::visitInstance"))
    m = re.search(r"bool ref=parameter\.get_type\(\)\.is\(REF\);bool constant=parameter\.get_type\(\)\.is_constant\(\);"
                  r"bool computable=isCompileTimeComputable\(argument\);(.*)$", body)
    if not m:
        raise TranslateError("visitInstance: the ref / constant / computable declarations were not found")
    rest = m.group(1)
    atoms_i = [(r"ref", "ref"), (r"constant", "constant"), (r"computable", "computable"),
               (r"isUniqueReference\(argument\)", "unique")]
    m2 = re.match(r"^if\((.*)\)\{handleError\(argument,\"[^\"]*\"\);continue;\}(.*)$", rest)
    if m2:
        cond = cond_to_lean(m2.group(1), "visitInstance", atoms_i)
        rest = m2.group(2)
    else:
        cond = "false"
    if rest == norm("checkParameterCompatible(parameter.get_type(), argument); }"):
        then = "true"
    elif rest == "}":
        then = "false"
    else:
        raise TranslateError("visitInstance: unrecognised end of the argument loop: %r" % rest[:300])
    out.append("/-- `TypeChecker::visitInstance`: the condition under which a template argument is refused\n"
               "    (`computable = isCompileTimeComputable(argument)`, `unique = isUniqueReference(argument)`);\n"
               "    an argument that passes is then handed to checkParameterCompatible -/\n"
               "def instRefuses (ref constant computable unique : Bool) : Bool :=\n  " + cond +
               "\ndef instThenChecksParam : Bool := " + then)
    summary["instRefuses"] = cond

    # ---- binders ---------------------------------------------------------------------------------------------------------------------
    force = norm("if (!type.is(CONSTANT)) { type = type.create_prefix(CONSTANT); }")

    def forces(src, sig_rx, what, decl_rx):
        body = norm(function_body(src, sig_rx, what))
        m = re.search(decl_rx, body)
        if not m:
            raise TranslateError("%s: the declaration of the binder symbol was not found" % what)
        before = body[:m.start()]
        if force in before:
            # nothing between the forcing and the declaration may assign `type` again
            after = before[before.index(force) + len(force):]
            if re.search(r"\btype=[^=]", after):
                raise TranslateError("%s: `type` is reassigned after CONSTANT was forced" % what)
            return True
        if "CONSTANT" in before:
            raise TranslateError("%s: mentions CONSTANT in an unrecognised way" % what)
        return False

    fa = forces(eb_cpp, r"void\s+ExpressionBuilder::expr_forall_begin\s*\(\s*const\s+char\s*\*\s*name\s*\)\s*\{", "expr_forall_begin",
                r"add_symbol\(name,type,")

    def delegating(name):
        body = norm(function_body(eb_cpp, r"void\s+ExpressionBuilder::%s\s*\(\s*const\s+char\s*\*\s*name\s*\)\s*\{" % name, name))
        if body == norm("expr_forall_begin(name);"):
            return fa
        return forces(eb_cpp, r"void\s+ExpressionBuilder::%s\s*\(\s*const\s+char\s*\*\s*name\s*\)\s*\{" % name, name,
                      r"add_symbol\(name,type,")

    ex_, su = delegating("expr_exists_begin"), delegating("expr_sum_begin")
    it = forces(sb_cpp, r"void\s+StatementBuilder::iteration_begin\s*\(\s*const\s+char\s*\*\s*name\s*\)\s*\{", "iteration_begin",
                r"addVariable\(type,name,")
    se = forces(db_cpp, r"void\s+DocumentBuilder::addSelectSymbolToFrame\s*\([^)]*\)\s*\{", "addSelectSymbolToFrame",
                r"frame\.add_symbol\(id,type,")
    bl = lambda v: "true" if v else "false"  # noqa: E731
    out.append(BINDER_TYPES % (bl(fa), bl(ex_), bl(su), bl(it), bl(se)))
    summary["binders_forced_const"] = {"forall": fa, "exists": ex_, "sum": su, "iteration": it, "select": se}
    # ---- the builder: how declaration syntax becomes a declared type ------------------------------------------------------------
    bh = rd("include/utap/builder.h")
    m = re.search(r"enum\s+PREFIX\s*\{(.*?)\}", bh, re.S)
    if not m:
        raise TranslateError("enum PREFIX not found in builder.h")
    enum = [re.sub(r"\s*=.*", "", x.strip()) for x in m.group(1).split(",") if x.strip()]
    expected_enum = ["PREFIX_NONE", "PREFIX_CONST", "PREFIX_URGENT", "PREFIX_BROADCAST", "PREFIX_URGENT_BROADCAST",
                     "PREFIX_SYSTEM_META", "PREFIX_HYBRID"]
    if enum != expected_enum:
        raise TranslateError("enum PREFIX changed: %s (the model's `Prefix` must be extended)" % enum)
    lean_prefix = {"PREFIX_NONE": ".none", "PREFIX_CONST": ".const", "PREFIX_URGENT": ".urgent", "PREFIX_BROADCAST": ".broadcast",
                   "PREFIX_URGENT_BROADCAST": ".urgentBroadcast", "PREFIX_SYSTEM_META": ".systemMeta", "PREFIX_HYBRID": ".hybrid"}
    body = function_body(eb_cpp, r"type_t\s+ExpressionBuilder::apply_prefix\s*\(\s*PREFIX\s+prefix\s*,\s*type_t\s+type\s*\)\s*\{",
                         "ExpressionBuilder::apply_prefix")
    pre, groups, post = switch_groups(body, "apply_prefix", head_rx=r"switch\s*\(\s*prefix\s*\)\s*")
    if norm(pre) or norm(post):
        raise TranslateError("apply_prefix: statements outside the switch")
    rows, default = {}, None
    for labels, st in groups:
        if st == norm("return type;"):
            ks = []
        else:
            mm = re.fullmatch(r"return type((?:\.create_prefix\(\w+,position\))+);", st)
            if not mm:
                raise TranslateError("apply_prefix: unrecognised statement for %s: %r" % (labels, st))
            ks = re.findall(r"create_prefix\((\w+),position\)", mm.group(1))
            for k1 in ks:
                lean_kind(k1, kn)
        for l in labels:
            if l == "default":
                default = ks
            elif l in lean_prefix:
                rows[l] = ks
            else:
                raise TranslateError("apply_prefix: unknown prefix %r" % l)
    if default is None:
        raise TranslateError("apply_prefix: no default")
    L = ["/-- `enum PREFIX` of builder.h -/", "inductive Prefix where",
         "  | none | const | urgent | broadcast | urgentBroadcast | systemMeta | hybrid", "deriving DecidableEq, Repr", "",
         "/-- `ExpressionBuilder::apply_prefix`: the kinds wrapped around the type, innermost first -/",
         "def prefixKinds : Prefix → List Kind"]
    for e in expected_enum:
        ks = rows.get(e, default)
        L.append("  | %s => [%s]" % (lean_prefix[e], ", ".join(".k" + k1 for k1 in ks)))
    out.append("\n".join(L))
    summary["apply_prefix"] = {e: rows.get(e, default) for e in expected_enum}

    # which type callbacks hand their result through apply_prefix(prefix, ..)
    def ends_with_apply(src, cls, fname, args_rx, tail_variants):
        body = norm(function_body(src, r"void\s+%s::%s\s*\(%s\)\s*\{" % (cls, fname, args_rx), fname))
        for tail, val in tail_variants:
            if norm(tail) in body:
                return val
        raise TranslateError("%s: no recognised push of the constructed type: %r" % (fname, body[-200:]))

    PFX = r"\s*PREFIX\s+prefix\s*"
    cbs = {}
    for fname, args in (("type_bool", PFX), ("type_int", PFX), ("type_double", PFX), ("type_bounded_int", PFX), ("type_clock", PFX)):
        cbs[fname] = ends_with_apply(eb_cpp, "ExpressionBuilder", fname, args,
                                     [("typeFragments.push(apply_prefix(prefix, type));", True), ("typeFragments.push(type);", False)])
    cbs["type_name"] = ends_with_apply(eb_cpp, "ExpressionBuilder", "type_name", PFX + r",\s*const\s+char\s*\*\s*name\s*",
                                       [("type = type.create_label(uid.get_name(), position); typeFragments.push(apply_prefix(prefix, type));", True),
                                        ("type = type.create_label(uid.get_name(), position); typeFragments.push(type);", False)])
    cbs["type_scalar"] = ends_with_apply(eb_cpp, "ExpressionBuilder", "type_scalar", PFX,
                                         [("type = type_t::create_range(type, lower, upper, position); type = apply_prefix(prefix, type);", True),
                                          ("type = type_t::create_range(type, lower, upper, position); string count", False)])
    cbs["type_struct"] = ends_with_apply(sb_cpp, "StatementBuilder", "type_struct", PFX + r",\s*uint32_t\s+n\s*",
                                         [("typeFragments.push(apply_prefix(prefix, type_t::create_record(f, l, position)));", True),
                                          ("typeFragments.push(type_t::create_record(f, l, position));", False)])
    # type_int: plain `int` is a RANGE unless the prefix is const
    body = norm(function_body(eb_cpp, r"void\s+ExpressionBuilder::type_int\s*\(" + PFX + r"\)\s*\{", "type_int"))
    int_range_unless_const = norm("if (prefix != PREFIX_CONST) { type = type_t::create_range(type, make_constant(defaultIntMin), "
                                  "make_constant(defaultIntMax), position); }") in body
    body = norm(function_body(sb_cpp, r"void\s+StatementBuilder::type_array_of_type\s*\(\s*size_t\s+n\s*\)\s*\{", "type_array_of_type"))
    if norm("typeFragments[n - 1] = type_t::create_array(typeFragments[n - 1], size, position);") not in body:
        raise TranslateError("type_array_of_type: the element type is not wrapped by create_array(typeFragments[n - 1], size, ..)")
    body = norm(function_body(sb_cpp, r"void\s+StatementBuilder::type_array_of_size\s*\(\s*size_t\s+n\s*\)\s*\{", "type_array_of_size"))
    if not body.endswith(norm("type_bounded_int(PREFIX_NONE); type_array_of_type(n + 1);")):
        raise TranslateError("type_array_of_size: does not end in type_bounded_int(PREFIX_NONE); type_array_of_type(n + 1);")
    body = norm(function_body(sb_cpp, r"void\s+StatementBuilder::decl_parameter\s*\(\s*const\s+char\s*\*\s*name\s*,\s*bool\s+ref\s*\)\s*\{",
                              "decl_parameter"))
    mm = re.fullmatch(r"type_t type=typeFragments\[0\];typeFragments\.pop\(\);(?:if\(ref\)\{type=type\.create_prefix\((\w+)\);\})?"
                      r"params\.add_symbol\(name,type,position\);", body)
    if not mm:
        raise TranslateError("decl_parameter: unrecognised shape: %r" % body)
    ref_kind = mm.group(1)
    body = norm(function_body(sb_cpp, r"void\s+StatementBuilder::struct_field\s*\(\s*const\s+char\s*\*\s*name\s*\)\s*\{", "struct_field"))
    field_test = norm("if (type.is(CONSTANT)) { handle_error(TypeException{\"$Constant_fields_not_allowed_in_struct\"}); }") in body
    names = {"type_bool": "bool", "type_int": "int", "type_double": "double", "type_bounded_int": "boundedInt", "type_clock": "clock",
             "type_name": "name", "type_scalar": "scalar", "type_struct": "struct"}
    L = ["/-- the type callbacks of the builder -/", "inductive TypeCallback where",
         "  | bool | int | double | boundedInt | clock | name | scalar | struct", "deriving DecidableEq, Repr", "",
         "/-- does the callback hand the type it constructed through `apply_prefix(prefix, ..)`? -/",
         "def appliesPrefix : TypeCallback → Bool"]
    for f in ("type_bool", "type_int", "type_double", "type_bounded_int", "type_clock", "type_name", "type_scalar", "type_struct"):
        L.append("  | .%s => %s" % (names[f], bl(cbs[f])))
    L += ["", "/-- `type_int`: a plain `int` is RANGE(INT) unless the prefix is const -/",
          "def intIsRangeUnlessConst : Bool := %s" % bl(int_range_unless_const), "",
          "/-- `decl_parameter(name, ref)`: the kind wrapped around the type of a reference parameter -/",
          "def refParamKinds : List Kind := [%s]" % (".k" + ref_kind if ref_kind else ""), "",
          "/-- `struct_field`: a field whose type `is(CONSTANT)` is refused -/",
          "def structFieldRefusesIsConstant : Bool := %s" % bl(field_test)]
    if ref_kind:
        lean_kind(ref_kind, kn)
    out.append("\n".join(L))
    summary["callbacks_apply_prefix"] = cbs

    out.append("end UtapModel.ConstGen\n")
    return "\n\n".join(out), summary


CLAUSE_TYPES = """/-- shape of one `case` group of `type_t::is_constant` / `type_t::is_mutable` -/
inductive FlagClause where
  | retFalse                      -- return false;
  | retTrue                       -- return true;
  | allChildren                   -- return std::all_of(children, [](c) { return c.child.F(); });
  | child0 (whenEmpty : Bool)     -- return size() > 0 && get(0).F();   /   return size() == 0 || get(0).F();
deriving DecidableEq, Repr

/-- shape of one branch of `type_t::get_sub()` / `type_t::get_sub(i)` -/
inductive SubClause where
  | skip      -- return get(0).get_sub(..);
  | rewrap    -- return get(0).get_sub(..).create_prefix(k);
  | direct    -- return get(0);  /  return get(i);
deriving DecidableEq, Repr

/-- shape of one `case` group of `TypeChecker::isModifiableLValue` / `isLValue` / `isUniqueReference` -/
inductive LvClause where
  | typeMutable       -- return expr.get_type().is_mutable();
  | sub0NotProcess    -- if (expr[0].get_type().is_process()) return false;  return F(expr[0]);
  | sub0              -- return F(expr[0]);
  | sub1              -- return F(expr[1]);
  | sub0AndCtc1       -- return F(expr[0]) && isCompileTimeComputable(expr[1]);
  | iif               -- return F(expr[1]) && F(expr[2]) && areEquivalent(expr[1].get_type(), expr[2].get_type());
  | always            -- return true;
  | never             -- return false;
deriving DecidableEq, Repr"""

BINDER_TYPES = """/-- binders: does the builder wrap the declared type in CONSTANT unless it already `is(CONSTANT)`? -/
inductive BinderSite where
  | forallQ | existsQ | sumQ | iteration | select
deriving DecidableEq, Repr

def binderForcedConst : BinderSite → Bool
  | .forallQ => %s
  | .existsQ => %s
  | .sumQ => %s
  | .iteration => %s
  | .select => %s

def BinderSite.all : List BinderSite := [.forallQ, .existsQ, .sumQ, .iteration, .select]"""


if __name__ == "__main__":
    text, summary = translate(sys.argv[1] if len(sys.argv) > 1 else "/repo")
    sys.stdout.write(text)
