/- Helper lemmas for Props/C19.lean (about Model/Heap.lean). Core Lean only. -/
import UtapModel.Model.Heap

namespace UtapModel.Heap

/-! ### value comparison -/

theorem dblEq_symm (a b : Nat) : dblEq a b = dblEq b a := by
  unfold dblEq
  by_cases h : a = b
  · subst h; rfl
  · have h1 : (a == b) = false := by simpa using h
    have h2 : (b == a) = false := by simpa using (fun e => h e.symm)
    rw [h1, h2]
    cases isNaN a <;> cases isNaN b <;> cases isZero a <;> cases isZero b <;> rfl

theorem valEq_symm (a b : Val) : valEq a b = valEq b a := by
  cases a <;> cases b <;> simp [valEq, dblEq_symm, Bool.beq_comm]

theorem dblEq_trans (a b c : Nat) (h1 : dblEq a b = true) (h2 : dblEq b c = true) : dblEq a c = true := by
  unfold dblEq at *
  simp only [Bool.and_eq_true, Bool.not_eq_true', Bool.or_eq_true, beq_iff_eq] at *
  obtain ⟨⟨ha, hb⟩, hab⟩ := h1
  obtain ⟨⟨_, hc⟩, hbc⟩ := h2
  refine ⟨⟨ha, hc⟩, ?_⟩
  rcases hab with hab | hab
  · subst hab; exact hbc
  · rcases hbc with hbc | hbc
    · subst hbc; exact Or.inr hab
    · exact Or.inr ⟨hab.1, hbc.2⟩

theorem valEq_trans (a b c : Val) (h1 : valEq a b = true) (h2 : valEq b c = true) : valEq a c = true := by
  cases a <;> cases b <;> cases c <;> simp [valEq] at * <;> first | exact dblEq_trans _ _ _ h1 h2 | (subst h1; exact h2) | omega

theorem valEq_refl (v : Val) (h : (match v with | .dbl b => !isNaN b | _ => true) = true) : valEq v v = true := by
  cases v <;> simp [valEq, dblEq] at * <;> exact h

theorem attrDiff_symm (a b : Attr) : attrDiff a b = attrDiff b a := by
  unfold attrDiff
  rw [valEq_symm a.val b.val]
  have e1 : (sizeOfAttr a != sizeOfAttr b) = (sizeOfAttr b != sizeOfAttr a) := by simp [bne, Bool.beq_comm]
  have e2 : (a.kind != b.kind) = (b.kind != a.kind) := by simp [bne, Bool.beq_comm]
  have e3 : (a.sym != b.sym) = (b.sym != a.sym) := by simp [bne, Bool.beq_comm]
  rw [e1, e2, e3]

/-- what `attrDiff a b = false` says -/
theorem attrDiff_false (a b : Attr) (h : attrDiff a b = false) :
    sizeOfAttr a = sizeOfAttr b ∧ a.kind = b.kind ∧ valEq a.val b.val = true ∧ a.sym = b.sym := by
  have : ((sizeOfAttr a = sizeOfAttr b ∧ a.kind = b.kind) ∧ valEq a.val b.val = true) ∧ a.sym = b.sym := by
    simpa [attrDiff] using h
  exact ⟨this.1.1.1, this.1.1.2, this.1.2, this.2⟩

theorem attrDiff_trans (a b c : Attr) (h1 : attrDiff a b = false) (h2 : attrDiff b c = false) : attrDiff a c = false := by
  obtain ⟨s1, k1, v1, y1⟩ := attrDiff_false a b h1
  obtain ⟨s2, k2, v2, y2⟩ := attrDiff_false b c h2
  have v := valEq_trans _ _ _ v1 v2
  simp [attrDiff, s1, s2, k1, k2, v, y1, y2]

theorem attrDiff_self (a : Attr) (h : (match a.val with | .dbl b => !isNaN b | _ => true) = true) : attrDiff a a = false := by
  simp [attrDiff, valEq_refl a.val h]

/-! ### equal: reflexive, symmetric -/

theorem equal_refl (e : HExpr) : equal e e = true := by
  cases e <;> simp [equal]

mutual
theorem equal_symm : ∀ (a b : HExpr), equal a b = equal b a
  | .null, .null => rfl
  | .null, .node .. => by simp [equal]
  | .node .., .null => by simp [equal]
  | .node i a s, .node j b t => by
    unfold equal
    by_cases hij : i = j
    · subst hij; simp
    · have h1 : (i == j) = false := by simpa using hij
      have h2 : (j == i) = false := by simpa using (fun e => hij e.symm)
      simp only [h1, h2, Bool.false_eq_true, if_false]
      rw [attrDiff_symm b a]
      cases hd : attrDiff a b with
      | true => simp
      | false =>
        simp only [Bool.false_eq_true, if_false]
        rw [(attrDiff_false a b hd).1]
        exact equalL_symm _ s t
theorem equalL_symm : ∀ (n : Nat) (s t : List HExpr), equalL n s t = equalL n t s
  | 0, _, _ => by simp [equalL]
  | n + 1, [], [] => by simp [equalL]
  | n + 1, [], _ :: _ => by simp [equalL]
  | n + 1, _ :: _, [] => by simp [equalL]
  | n + 1, x :: xs, y :: ys => by
    simp only [equalL]
    rw [equal_symm x y, equalL_symm n xs ys]
end

/-! ### equal: transitive on a coherent heap (one identity = one node) -/

/-- `U` is a set of trees closed under taking children -/
def Closed (U : List HExpr) : Prop := ∀ i a s, HExpr.node i a s ∈ U → ∀ x ∈ s, x ∈ U

/-- in `U` an identity denotes one node: two trees with the same root identity are the same tree -/
def Coherent (U : List HExpr) : Prop :=
  ∀ i a s j b t, HExpr.node i a s ∈ U → HExpr.node j b t ∈ U → i = j → HExpr.node i a s = HExpr.node j b t

mutual
theorem equal_trans_in (U : List HExpr) (hc : Closed U) (hco : Coherent U) : ∀ (a b c : HExpr), a ∈ U → b ∈ U → c ∈ U →
    equal a b = true → equal b c = true → equal a c = true
  | .null, .null, c, _, _, _, _, h2 => h2
  | .null, .node .., _, _, _, _, h1, _ => by simp [equal] at h1
  | .node .., .null, _, _, _, _, h1, _ => by simp [equal] at h1
  | .node .., .node .., .null, _, _, _, _, h2 => by simp [equal] at h2
  | .node i a s, .node j b t, .node k c u, ha, hb, hcc, h1, h2 => by
    by_cases hij : i = j
    · have := hco i a s j b t ha hb hij
      rw [this]; exact h2
    · by_cases hjk : j = k
      · have := hco j b t k c u hb hcc hjk
        rw [← this]; exact h1
      · by_cases hik : i = k
        · subst hik; simp [equal]
        · have e1 : (i == j) = false := by simpa using hij
          have e2 : (j == k) = false := by simpa using hjk
          have e3 : (i == k) = false := by simpa using hik
          unfold equal at h1 h2 ⊢
          simp only [e1, e2, e3, Bool.false_eq_true, if_false] at h1 h2 ⊢
          cases d1 : attrDiff a b with
          | true => simp [d1] at h1
          | false =>
            cases d2 : attrDiff b c with
            | true => simp [d2] at h2
            | false =>
              simp only [d1, d2, Bool.false_eq_true, if_false] at h1 h2
              rw [attrDiff_trans a b c d1 d2]
              simp only [Bool.false_eq_true, if_false]
              rw [← (attrDiff_false a b d1).1] at h2
              exact equalL_trans_in U hc hco _ s t u (hc i a s ha) (hc j b t hb) (hc k c u hcc) h1 h2
theorem equalL_trans_in (U : List HExpr) (hc : Closed U) (hco : Coherent U) : ∀ (n : Nat) (s t u : List HExpr),
    (∀ x ∈ s, x ∈ U) → (∀ x ∈ t, x ∈ U) → (∀ x ∈ u, x ∈ U) →
    equalL n s t = true → equalL n t u = true → equalL n s u = true
  | 0, _, _, _, _, _, _, _, _ => by simp [equalL]
  | n + 1, [], _, _, _, _, _, h1, _ => by simp [equalL] at h1
  | n + 1, _ :: _, [], _, _, _, _, h1, _ => by simp [equalL] at h1
  | n + 1, _ :: _, _ :: _, [], _, _, _, _, h2 => by simp [equalL] at h2
  | n + 1, x :: xs, y :: ys, z :: zs, hs, ht, hu, h1, h2 => by
    simp only [equalL, Bool.and_eq_true] at h1 h2 ⊢
    exact ⟨equal_trans_in U hc hco x y z (hs x (by simp)) (ht y (by simp)) (hu z (by simp)) h1.1 h2.1,
           equalL_trans_in U hc hco n xs ys zs (fun w hw => hs w (by simp [hw])) (fun w hw => ht w (by simp [hw]))
             (fun w hw => hu w (by simp [hw])) h1.2 h2.2⟩
end

/-! ### sub-trees -/

mutual
theorem subtrees_self : ∀ (e : HExpr), e ∈ subtrees e
  | .null => by simp [subtrees]
  | .node i a s => by simp [subtrees]
end

theorem subtreesL_mem {x : HExpr} : ∀ {es : List HExpr} {e : HExpr}, e ∈ es → x ∈ subtrees e → x ∈ subtreesL es
  | [], _, h, _ => by simp at h
  | y :: ys, e, h, hx => by
    simp only [List.mem_cons] at h
    simp only [subtreesL, List.mem_append]
    rcases h with h | h
    · subst h; exact Or.inl hx
    · exact Or.inr (subtreesL_mem h hx)

mutual
/-- sub-trees of sub-trees are sub-trees -/
theorem subtrees_trans : ∀ (e x y : HExpr), x ∈ subtrees e → y ∈ subtrees x → y ∈ subtrees e
  | .null, x, y, hx, hy => by
    simp only [subtrees, List.mem_singleton] at hx; subst hx; exact hy
  | .node i a s, x, y, hx, hy => by
    simp only [subtrees, List.mem_cons] at hx
    rcases hx with hx | hx
    · subst hx; exact hy
    · simp only [subtrees, List.mem_cons]
      exact Or.inr (subtreesL_trans s x y hx hy)
theorem subtreesL_trans : ∀ (es : List HExpr) (x y : HExpr), x ∈ subtreesL es → y ∈ subtrees x → y ∈ subtreesL es
  | [], x, _, hx, _ => by simp [subtreesL] at hx
  | e :: es, x, y, hx, hy => by
    simp only [subtreesL, List.mem_append] at hx ⊢
    rcases hx with hx | hx
    · exact Or.inl (subtrees_trans e x y hx hy)
    · exact Or.inr (subtreesL_trans es x y hx hy)
end

theorem closed_subtreesL (ts : List HExpr) : Closed (subtreesL ts) := by
  intro i a s h x hx
  have : x ∈ subtrees (HExpr.node i a s) := by
    simp only [subtrees, List.mem_cons]
    exact Or.inr (subtreesL_mem hx (subtrees_self x))
  exact subtreesL_trans ts _ x h this

end UtapModel.Heap
