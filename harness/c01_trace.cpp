// C01, tie C of the effect table: TraceBuilder logs every ParserBuilder callback the real parser / XML reader makes,
// with the sizes of the builder stacks before and after the call of the *real* DocumentBuilder method (also when a
// TypeException leaves the method; CALL catches it one level up).  No repository change is needed: protected members are
// visible to a subclass; TypeFragments has no size(), but it is a standard-layout class whose only member is the vector.
//
// stdin : one op per line   `<mode> <newxta> <base64 input>`   mode = xml | xta | prop | part:<n> | pre:<n>
// stdout: `OP <index>` , then one line per top-level callback
//            `C <name> <arity> <a0> .. | <outcome> F T R S E M U G L  F' T' R' S' E' M' U' G' L'`
//            (outcome 0 ok, 1 TypeException, 2 other exception; E..L = the current... pointer is non-null)
//         then `END <result>`  (result: rc of the parse, or EXC:<class>, or DIED:<status> when the forked child crashed)
#include "common.hpp"
#include "libparser.h"

#include <sys/wait.h>
#include <unistd.h>
#include <typeinfo>

using namespace UTAP;

static const long NOARG = -987654321;

class TraceBuilder : public DocumentBuilder
{
    int depth = 0;
    std::string cur;
    size_t b[9];

    size_t tsize()
    {
        // TypeFragments { std::vector<type_t> data; } : pointer-interconvertible with its first (only) member
        return reinterpret_cast<std::vector<type_t>&>(typeFragments).size();
    }
    void sizes(size_t* o)
    {
        o[0] = fragments.size();
        o[1] = tsize();
        o[2] = frames.size();
        o[3] = fields.size();
        o[4] = currentEdge != nullptr;
        o[5] = currentTemplate != nullptr;
        o[6] = currentFun != nullptr;
        o[7] = currentGantt != nullptr;
        o[8] = currentInstanceLine != nullptr;
    }
    void pre(const char* name, int arity, long* av)
    {
        if (depth++ > 0) return;
        std::ostringstream os;
        os << "C " << name << " " << arity;
        for (int i = 0; i < arity; ++i) {
            if (av[i] == NOARG) os << " _";
            else os << " " << av[i];
        }
        cur = os.str();
        sizes(b);
        std::cout << cur << " | ";   // completed by post(); a crash inside the callback leaves the line truncated
    }
    void post(int outcome)
    {
        if (--depth > 0) return;
        size_t a[9];
        sizes(a);
        std::cout << outcome;
        for (int i = 0; i < 9; ++i) std::cout << " " << b[i];
        for (int i = 0; i < 9; ++i) std::cout << " " << a[i];
        std::cout << "\n";
    }

public:
    explicit TraceBuilder(Document& d): DocumentBuilder{d} {}
#include "c01_trace_gen.inc"
};

// Forwarding decorator around the (final) TigaPropertyBuilder: logs |fragments| and |properties| around each callback.
//   `Q <name> <arity> <a0> .. | <outcome> F Q  F' Q'`
class FwdTracer : public ParserBuilder
{
    ParserBuilder* inner;
    PropertyBuilder* pb;
    int depth = 0;
    size_t bf = 0, bq = 0;
    void pre(const char* name, int arity, long* av)
    {
        if (depth++ > 0) return;
        std::cout << "Q " << name << " " << arity;
        for (int i = 0; i < arity; ++i) {
            if (av[i] == NOARG) std::cout << " _";
            else std::cout << " " << av[i];
        }
        bf = pb->getExpressions().size();
        bq = pb->getProperties().size();
        std::cout << " | ";
    }
    void post(int outcome)
    {
        if (--depth > 0) return;
        std::cout << outcome << " " << bf << " " << bq << " " << pb->getExpressions().size() << " " << pb->getProperties().size() << "\n";
    }

public:
    FwdTracer(ParserBuilder* i, PropertyBuilder* p): inner{i}, pb{p} {}
#include "c01_trace_fwd.inc"
};

static std::string b64dec(const std::string& in)
{
    static int T[256];
    static bool init = false;
    if (!init) {
        for (int i = 0; i < 256; ++i) T[i] = -1;
        const char* cs = "ABCDEFGHIJKLMNOPQRSTUVWXYZabcdefghijklmnopqrstuvwxyz0123456789+/";
        for (int i = 0; i < 64; ++i) T[(unsigned char)cs[i]] = i;
        init = true;
    }
    std::string out;
    unsigned val = 0;
    int bits = -8;
    for (unsigned char c : in) {
        if (T[c] < 0) continue;
        val = ((val << 6) + (unsigned)T[c]) & 0xFFFFFFu;
        bits += 6;
        if (bits >= 0) {
            out.push_back(char((val >> bits) & 0xFF));
            bits -= 8;
        }
    }
    return out;
}

static void runOp(const std::string& mode, bool newxta, const std::string& input)
{
    Document doc;
    if (mode == "tiga") {
        // a model (whole XTA text, may be empty), then one query text for the real TigaPropertyBuilder
        auto cut = input.find('\x02');
        std::string model = input.substr(0, cut), query = cut == std::string::npos ? "" : input.substr(cut + 1);
        try {
            parse_XTA(model.c_str(), &doc, newxta);
            TigaPropertyBuilder tiga(doc);
            FwdTracer ft(&tiga, &tiga);
            int rc = parseProperty(query.c_str(), &ft);
            std::cout << "END rc=" << rc << " errors=" << doc.get_errors().size() << " properties=" << tiga.getProperties().size() << "\n";
        } catch (std::exception& ex) {
            std::cout << "END EXC:" << typeid(ex).name() << "\n";
        }
        return;
    }
    TraceBuilder tb(doc);
    try {
        int rc = 0;
        if (mode == "xml") rc = parse_XML_buffer(input.c_str(), &tb, newxta);
        else if (mode == "xta") rc = parse_XTA(input.c_str(), &tb, newxta);
        else if (mode == "prop") rc = parseProperty(input.c_str(), &tb);
        else if (mode.rfind("part:", 0) == 0) rc = parse_XTA(input.c_str(), &tb, newxta, (xta_part_t)std::stoi(mode.substr(5)), "");
        else if (mode.rfind("pre:", 0) == 0) {
            // two calls on one builder: a whole XTA text, then one part (texts separated by \x02)
            auto cut = input.find('\x02');
            std::string first = input.substr(0, cut), second = cut == std::string::npos ? "" : input.substr(cut + 1);
            parse_XTA(first.c_str(), &tb, newxta);
            std::cout << "SECOND\n";
            rc = parse_XTA(second.c_str(), &tb, newxta, (xta_part_t)std::stoi(mode.substr(4)), "");
        }
        else {
            std::cout << "END bad-mode\n";
            return;
        }
        std::cout << "END rc=" << rc << " errors=" << doc.get_errors().size() << "\n";
    } catch (std::exception& ex) {
        std::cout << "END EXC:" << typeid(ex).name() << "\n";
    }
}

int main(int argc, char** argv)
{
    std::string line;
    long idx = 0;
    bool nofork = argc > 1 && std::string(argv[1]) == "nofork";
    while (std::getline(std::cin, line)) {
        std::istringstream is(line);
        std::string mode, b64;
        int nx = 1;
        is >> mode >> nx >> b64;
        std::cout << "OP " << idx++ << "\n";
        std::cout.flush();
        std::string input = b64dec(b64);
        if (nofork) {
            runOp(mode, nx != 0, input);
            continue;
        }
        pid_t pid = fork();
        if (pid == 0) {
            alarm(20);
            std::cout.setf(std::ios::unitbuf);
            runOp(mode, nx != 0, input);
            std::cout.flush();
            _exit(0);
        }
        int status = 0;
        waitpid(pid, &status, 0);
        if (!(WIFEXITED(status) && WEXITSTATUS(status) == 0)) std::cout << "\nEND DIED:" << status << "\n";
        std::cout.flush();
    }
    return 0;
}
