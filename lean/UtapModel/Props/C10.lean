/- Property C10 -- only convex clock constraints are accepted as guards and invariants.

   Formula language (UtapModel/Model/Formula.lean): leaves = integer predicates, clock bounds `x ~ n`, `n ~ x`,
   clock-difference bounds `x - y ~ n`, `n ~ x - y`, `x ~ y` for ~ ∈ < <= == != >= > (n an integer expression);
   connectives && || ! imply xor == != forall exists (`a imply b` = OR(NOT a, b) as the parser builds it).
   `classify` runs the clause lists regenerated from the *current* src/typechecker.cpp; `acceptsAsGuard` /
   `acceptsAsInvariant` add the tests of visitEdge / visitLocation (also regenerated).  All theorems are by structural
   induction over formula trees of ANY depth; the per-operator facts they consume are complete finite tables over the 39
   type kinds, evaluated by the kernel (Lemmas/C10.lean).

   Exception set: `leafExceptions` (computed from the regenerated rules) lists the leaf shapes that contain a clock but
   are typed integral.  On the unchanged tree it is [(NEQ, CLOCK, CLOCK)]: `x != y` is typed BOOL because the NEQ case
   asks areEqCompatible *before* its clock clause (EQ does it the other way round), so `x != y || y != z` is accepted
   as a guard.  `leafExceptions_are_violations` proves that every member of the set is a genuine violation of the
   property in the model; the check replays each on the real library.  The soundness theorems hold for every formula
   that avoids these leaves; when the set is empty they are the full property. -/
import UtapModel.Lemmas.C10
namespace UtapModel.C10
open UtapModel.Types UtapModel.TypeClauses UtapModel.Formula
set_option linter.unusedSimpArgs false

/-- KEY LEMMA (stage 1 of the induction): the kind assigned to a well-formed formula is a formula kind, and if it is
    integral the formula contains no clock comparison.  This is where a loosened clause would bite. -/
theorem classify_base : ∀ (f : Form), WF f = true → noExcLeaf f = true → ∀ k, classify f = some k →
    formK k = true ∧ (intK k = true → ClockFree f = true) := by
  intro f
  induction f with
  | ipred s =>
    intro hwf _ k hk
    simp only [WF] at hwf
    simp only [classify, hwf, if_true, Option.some.injEq] at hk
    subst hk
    exact ⟨by cases s <;> first | rfl | (simp [Side.clockFree] at hwf), fun _ => by simpa [ClockFree] using hwf⟩
  | cmp op l r =>
    intro hwf hne k hk
    simp only [WF] at hwf
    simp only [noExcLeaf, Bool.not_eq_true'] at hne
    have h := tab (leaf_table op l r hwf hne) (by simpa [classify] using hk)
    simp only [Bool.and_eq_true] at h
    exact ⟨h.1, fun hi => by simpa [ClockFree] using imp_elim h.2 hi⟩
  | and a b iha ihb | or a b iha ihb | xor a b iha ihb | eq a b iha ihb | neq a b iha ihb =>
    intro hwf hne k hk
    simp only [WF, noExcLeaf, Bool.and_eq_true] at hwf hne
    cases ha : classify a with
    | none => simp [classify, ha] at hk
    | some ka =>
      cases hb : classify b with
      | none => simp [classify, ha, hb] at hk
      | some kb =>
        obtain ⟨fa, ia⟩ := iha hwf.1 hne.1 ka ha
        obtain ⟨fb, ib⟩ := ihb hwf.2 hne.2 kb hb
        simp only [classify, ha, hb, Option.bind_eq_bind, Option.bind_some] at hk
        first
          | (have h := tab (and_table ka kb) hk
             simp only [Bool.and_eq_true] at h
             refine ⟨imp_elim h.1.1.1 (by simp [fa, fb]), fun hi => ?_⟩
             have := imp_elim h.1.1.2 hi; simp only [Bool.and_eq_true] at this
             simp [ClockFree, ia this.1, ib this.2])
          | (have h := tab (or_table ka kb) hk
             simp only [Bool.and_eq_true] at h
             refine ⟨imp_elim h.1.1.1 (by simp [fa, fb]), fun hi => ?_⟩
             have := imp_elim h.1.1.2 hi; simp only [Bool.and_eq_true] at this
             simp [ClockFree, ia this.1, ib this.2])
          | (have h := tab (xor_table ka kb) hk
             simp only [Bool.and_eq_true] at h
             exact ⟨h.1.1, fun _ => by simp [ClockFree, ia h.1.2, ib h.2]⟩)
          | (have h := tab (eq_table ka kb (by simp [fa, fb])) hk
             simp only [Bool.and_eq_true] at h
             exact ⟨h.1.1, fun _ => by simp [ClockFree, ia h.1.2, ib h.2]⟩)
          | (have h := tab (neq_table ka kb (by simp [fa, fb])) hk
             simp only [Bool.and_eq_true] at h
             exact ⟨h.1.1, fun _ => by simp [ClockFree, ia h.1.2, ib h.2]⟩)
  | imply a b iha ihb =>
    intro hwf hne k hk
    simp only [WF, noExcLeaf, Bool.and_eq_true] at hwf hne
    cases ha : classify a with
    | none => simp [classify, ha] at hk
    | some ka =>
      cases hn : unK .NOT ka with
      | none => simp [classify, ha, hn] at hk
      | some na =>
        cases hb : classify b with
        | none => simp [classify, ha, hb] at hk
        | some kb =>
          obtain ⟨fa, ia⟩ := iha hwf.1 hne.1 ka ha
          obtain ⟨fb, ib⟩ := ihb hwf.2 hne.2 kb hb
          have hnt := tab (not_table ka) hn
          simp only [Bool.and_eq_true] at hnt
          simp only [classify, ha, hn, hb, Option.bind_eq_bind, Option.bind_some] at hk
          have h := tab (or_table na kb) hk
          simp only [Bool.and_eq_true] at h
          refine ⟨imp_elim h.1.1.1 (by simp [imp_elim hnt.1.1 fa, fb]), fun hi => ?_⟩
          have := imp_elim h.1.1.2 hi; simp only [Bool.and_eq_true] at this
          simp [ClockFree, ia (imp_elim hnt.1.2 this.1), ib this.2]
  | not a iha | all a iha | ex a iha =>
    intro hwf hne k hk
    simp only [WF, noExcLeaf] at hwf hne
    cases ha : classify a with
    | none => simp [classify, ha] at hk
    | some ka =>
      obtain ⟨fa, ia⟩ := iha hwf hne ka ha
      simp only [classify, ha, Option.bind_eq_bind, Option.bind_some] at hk
      first
        | (have h := tab (not_table ka) hk
           simp only [Bool.and_eq_true] at h
           exact ⟨imp_elim h.1.1 fa, fun hi => by simpa [ClockFree] using ia (imp_elim h.1.2 hi)⟩)
        | (have h := tab (forall_table ka) hk
           simp only [Bool.and_eq_true] at h
           exact ⟨imp_elim h.1.1.1 fa, fun hi => by simpa [ClockFree] using ia (imp_elim h.1.1.2 hi)⟩)
        | (have h := tab (exists_table ka) hk
           simp only [Bool.and_eq_true] at h
           exact ⟨imp_elim h.1.1 fa, fun hi => by simpa [ClockFree] using ia (imp_elim h.1.2 hi)⟩)

/-- Stage 2, generic in the role (guard / invariant): `pK` = kinds accepted in that role, `acc` = "accepted in that
    role".  A formula whose kind is accepted is convex, and each of its clock atoms is accepted in that role on its own. -/
theorem role_sound (pK : TK → Bool) (acc : Form → Bool)
    (hleaf : ∀ op l r k, classify (.cmp op l r) = some k → pK k = true → acc (.cmp op l r) = true)
    (hand : ∀ ka kb k, binK .AND ka kb = some k → pK k = true → pK ka = true ∧ pK kb = true)
    (hor : ∀ ka kb k, binK .OR ka kb = some k → pK k = true →
        (intK ka = true ∧ pK kb = true) ∨ (pK ka = true ∧ intK kb = true))
    (hnot : ∀ ka k, unK .NOT ka = some k → pK k = true → intK ka = true)
    (hall : ∀ ka k, quantK .FORALL ka = some k → pK k = true → pK ka = true)
    (hex : ∀ ka k, quantK .EXISTS ka = some k → pK k = true → intK ka = true)
    (hint : ∀ k, intK k = true → pK k = true) :
    ∀ (f : Form), WF f = true → noExcLeaf f = true → ∀ k, classify f = some k → pK k = true →
      Convex f = true ∧ clockLeavesAll acc f = true := by
  intro f
  induction f with
  | ipred s => intro _ _ _ _ _; exact ⟨rfl, rfl⟩
  | cmp op l r =>
    intro _ _ k hk hp
    exact ⟨rfl, by simp [clockLeavesAll, hleaf op l r k hk hp]⟩
  | and a b iha ihb =>
    intro hwf hne k hk hp
    simp only [WF, noExcLeaf, Bool.and_eq_true] at hwf hne
    cases ha : classify a with
    | none => simp [classify, ha] at hk
    | some ka =>
      cases hb : classify b with
      | none => simp [classify, ha, hb] at hk
      | some kb =>
        simp only [classify, ha, hb, Option.bind_eq_bind, Option.bind_some] at hk
        obtain ⟨pa, pb⟩ := hand ka kb k hk hp
        obtain ⟨ca, la⟩ := iha hwf.1 hne.1 ka ha pa
        obtain ⟨cb, lb⟩ := ihb hwf.2 hne.2 kb hb pb
        exact ⟨by simp [Convex, ca, cb], by simp [clockLeavesAll, la, lb]⟩
  | or a b iha ihb =>
    intro hwf hne k hk hp
    simp only [WF, noExcLeaf, Bool.and_eq_true] at hwf hne
    cases ha : classify a with
    | none => simp [classify, ha] at hk
    | some ka =>
      cases hb : classify b with
      | none => simp [classify, ha, hb] at hk
      | some kb =>
        simp only [classify, ha, hb, Option.bind_eq_bind, Option.bind_some] at hk
        rcases hor ka kb k hk hp with ⟨x, y⟩ | ⟨x, y⟩
        · have cfa := (classify_base a hwf.1 hne.1 ka ha).2 x
          obtain ⟨cb, lb⟩ := ihb hwf.2 hne.2 kb hb y
          exact ⟨by simp [Convex, cfa, cb], by simp [clockLeavesAll, clockFree_leavesAll acc a cfa, lb]⟩
        · have cfb := (classify_base b hwf.2 hne.2 kb hb).2 y
          obtain ⟨ca, la⟩ := iha hwf.1 hne.1 ka ha x
          exact ⟨by simp [Convex, cfb, ca], by simp [clockLeavesAll, clockFree_leavesAll acc b cfb, la]⟩
  | not a _ =>
    intro hwf hne k hk hp
    simp only [WF, noExcLeaf] at hwf hne
    cases ha : classify a with
    | none => simp [classify, ha] at hk
    | some ka =>
      simp only [classify, ha, Option.bind_eq_bind, Option.bind_some] at hk
      have cfa := (classify_base a hwf hne ka ha).2 (hnot ka k hk hp)
      exact ⟨by simpa [Convex] using cfa, by simpa [clockLeavesAll] using clockFree_leavesAll acc a cfa⟩
  | imply a b _ ihb =>
    intro hwf hne k hk hp
    simp only [WF, noExcLeaf, Bool.and_eq_true] at hwf hne
    cases ha : classify a with
    | none => simp [classify, ha] at hk
    | some ka =>
      cases hn : unK .NOT ka with
      | none => simp [classify, ha, hn] at hk
      | some na =>
        cases hb : classify b with
        | none => simp [classify, ha, hb] at hk
        | some kb =>
          simp only [classify, ha, hn, hb, Option.bind_eq_bind, Option.bind_some] at hk
          have hnt := tab (not_table ka) hn
          simp only [Bool.and_eq_true] at hnt
          rcases hor na kb k hk hp with ⟨x, y⟩ | ⟨x, y⟩
          · have cfa := (classify_base a hwf.1 hne.1 ka ha).2 (imp_elim hnt.1.2 x)
            obtain ⟨cb, lb⟩ := ihb hwf.2 hne.2 kb hb y
            exact ⟨by simp [Convex, cfa, cb], by simp [clockLeavesAll, clockFree_leavesAll acc a cfa, lb]⟩
          · have cfa := (classify_base a hwf.1 hne.1 ka ha).2 (hnot ka na hn x)
            obtain ⟨cb, lb⟩ := ihb hwf.2 hne.2 kb hb (hint kb y)
            exact ⟨by simp [Convex, cfa, cb], by simp [clockLeavesAll, clockFree_leavesAll acc a cfa, lb]⟩
  | xor a b _ _ | eq a b _ _ | neq a b _ _ =>
    intro hwf hne k hk _
    simp only [WF, noExcLeaf, Bool.and_eq_true] at hwf hne
    cases ha : classify a with
    | none => simp [classify, ha] at hk
    | some ka =>
      cases hb : classify b with
      | none => simp [classify, ha, hb] at hk
      | some kb =>
        obtain ⟨fa, ia⟩ := classify_base a hwf.1 hne.1 ka ha
        obtain ⟨fb, ib⟩ := classify_base b hwf.2 hne.2 kb hb
        simp only [classify, ha, hb, Option.bind_eq_bind, Option.bind_some] at hk
        have h : intK ka = true ∧ intK kb = true := by
          first
            | (have h := tab (xor_table ka kb) hk; simp only [Bool.and_eq_true] at h; exact ⟨h.1.2, h.2⟩)
            | (have h := tab (eq_table ka kb (by simp [fa, fb])) hk; simp only [Bool.and_eq_true] at h; exact ⟨h.1.2, h.2⟩)
            | (have h := tab (neq_table ka kb (by simp [fa, fb])) hk; simp only [Bool.and_eq_true] at h; exact ⟨h.1.2, h.2⟩)
        exact ⟨by simp [Convex, ia h.1, ib h.2],
               by simp [clockLeavesAll, clockFree_leavesAll acc a (ia h.1), clockFree_leavesAll acc b (ib h.2)]⟩
  | all a iha =>
    intro hwf hne k hk hp
    simp only [WF, noExcLeaf] at hwf hne
    cases ha : classify a with
    | none => simp [classify, ha] at hk
    | some ka =>
      simp only [classify, ha, Option.bind_eq_bind, Option.bind_some] at hk
      obtain ⟨ca, la⟩ := iha hwf hne ka ha (hall ka k hk hp)
      exact ⟨by simpa [Convex] using ca, by simpa [clockLeavesAll] using la⟩
  | ex a _ =>
    intro hwf hne k hk hp
    simp only [WF, noExcLeaf] at hwf hne
    cases ha : classify a with
    | none => simp [classify, ha] at hk
    | some ka =>
      simp only [classify, ha, Option.bind_eq_bind, Option.bind_some] at hk
      have cfa := (classify_base a hwf hne ka ha).2 (hex ka k hk hp)
      exact ⟨by simpa [Convex] using cfa, by simpa [clockLeavesAll] using clockFree_leavesAll acc a cfa⟩

/-- KEY LEMMA: a formula the checker types as an integral contains no clock comparison -/
theorem C10_integral_clockfree (f : Form) (hwf : WF f = true) (hne : noExcLeaf f = true) (k : TK)
    (hk : classify f = some k) (hi : ty_is_integral (.prim k) = true) : ClockFree f = true :=
  (classify_base f hwf hne k hk).2 hi

/-- every formula accepted as an edge guard is convex, and each of its clock atoms is accepted as a guard on its own
    (so e.g. no `x != n` hides inside an accepted guard) -/
theorem C10_guard_sound (f : Form) (hwf : WF f = true) (hne : noExcLeaf f = true)
    (h : acceptsAsGuard f = true) : Convex f = true ∧ clockLeavesAll acceptsAsGuard f = true := by
  unfold acceptsAsGuard at h
  cases hk : classify f with
  | none => simp [hk] at h
  | some k =>
    simp only [hk] at h
    refine role_sound gK acceptsAsGuard ?_ ?_ ?_ ?_ ?_ ?_ ?_ f hwf hne k hk h
    · intro op l r k hk hp; simp [acceptsAsGuard, hk]; exact hp
    · intro ka kb k hk hp
      have t := tab (and_table ka kb) hk; simp only [Bool.and_eq_true] at t
      simpa using imp_elim t.1.2 hp
    · intro ka kb k hk hp
      have t := tab (or_table ka kb) hk; simp only [Bool.and_eq_true] at t
      simpa using imp_elim t.1.2 hp
    · intro ka k hk hp
      have t := tab (not_table ka) hk; simp only [Bool.and_eq_true] at t
      exact imp_elim t.2 (by simp [hp])
    · intro ka k hk hp
      have t := tab (forall_table ka) hk; simp only [Bool.and_eq_true] at t
      exact imp_elim t.1.2 hp
    · intro ka k hk hp
      have t := tab (exists_table ka) hk; simp only [Bool.and_eq_true] at t
      exact imp_elim t.2 (by simp [hp])
    · intro k hi
      have := imp_elim (int_good k) hi; simp only [Bool.and_eq_true] at this; exact this.1

/-- every formula accepted as a location invariant is convex, and each of its clock atoms is accepted as an invariant
    on its own -/
theorem C10_invariant_sound (f : Form) (hwf : WF f = true) (hne : noExcLeaf f = true)
    (h : acceptsAsInvariant f = true) : Convex f = true ∧ clockLeavesAll acceptsAsInvariant f = true := by
  unfold acceptsAsInvariant at h
  cases hk : classify f with
  | none => simp [hk] at h
  | some k =>
    simp only [hk] at h
    refine role_sound iK acceptsAsInvariant ?_ ?_ ?_ ?_ ?_ ?_ ?_ f hwf hne k hk h
    · intro op l r k hk hp; simp [acceptsAsInvariant, hk]; exact hp
    · intro ka kb k hk hp
      have t := tab (and_table ka kb) hk; simp only [Bool.and_eq_true] at t
      simpa using imp_elim t.2 hp
    · intro ka kb k hk hp
      have t := tab (or_table ka kb) hk; simp only [Bool.and_eq_true] at t
      simpa using imp_elim t.2 hp
    · intro ka k hk hp
      have t := tab (not_table ka) hk; simp only [Bool.and_eq_true] at t
      exact imp_elim t.2 (by simp [hp])
    · intro ka k hk hp
      have t := tab (forall_table ka) hk; simp only [Bool.and_eq_true] at t
      exact imp_elim t.2 hp
    · intro ka k hk hp
      have t := tab (exists_table ka) hk; simp only [Bool.and_eq_true] at t
      exact imp_elim t.2 (by simp [hp])
    · intro k hi
      have := imp_elim (int_good k) hi; simp only [Bool.and_eq_true] at this; exact this.2

/-- the hypotheses are satisfiable by a non-trivial accepted formula: (x < n && x <= m) && b -/
example : let f := Form.and (.and (.cmp .LT .CLOCK .INT) (.cmp .LE .CLOCK .INT)) (.ipred .BOOL)
    WF f = true ∧ noExcLeaf f = true ∧ acceptsAsGuard f = true ∧ acceptsAsInvariant f = true := by decide

/-- the non-convex shapes the statement lists are rejected (model level; the check replays them on the library):
    disjunction, negation, implication antecedent, existential quantification, equality, exclusive-or over clock bounds -/
theorem C10_listed_shapes_rejected :
    let c := Form.cmp .LT .CLOCK .INT
    let d := Form.cmp .GE .CLOCK .INT
    ∀ f ∈ [Form.or c d, .not c, .imply c d, .ex c, .eq c d, .neq c d, .xor c d, .or (.not c) d, .and (.or c d) c],
      acceptsAsGuard f = false ∧ acceptsAsInvariant f = false := by decide

/-- Conversely: every plain conjunction (any `&&`-tree) of atoms that are accepted as guards is accepted as a guard -/
theorem C10_conj_complete_guard (f : Form) (h : conjOf acceptsAsGuard f = true) : acceptsAsGuard f = true := by
  induction f with
  | and a b iha ihb =>
    simp only [conjOf, Bool.and_eq_true] at h
    have ha := iha h.1
    have hb := ihb h.2
    unfold acceptsAsGuard at ha hb ⊢
    cases ka : classify a with
    | none => simp [ka] at ha
    | some ka' =>
      cases kb : classify b with
      | none => simp [kb] at hb
      | some kb' =>
        simp only [ka, kb] at ha hb
        have t := (and_complete ka' kb').1
        have := imp_elim t (by simp [gK, iK, ha, hb])
        simp only [classify, ka, kb, Option.bind_eq_bind, Option.bind_some]
        cases hr : binK .AND ka' kb' with
        | none => simp [hr] at this
        | some r => simpa [hr, gK, iK] using this
  | _ => simp_all [conjOf, isAtom]

/-- ... and every plain conjunction of atoms accepted as invariants is accepted as an invariant -/
theorem C10_conj_complete_invariant (f : Form) (h : conjOf acceptsAsInvariant f = true) : acceptsAsInvariant f = true := by
  induction f with
  | and a b iha ihb =>
    simp only [conjOf, Bool.and_eq_true] at h
    have ha := iha h.1
    have hb := ihb h.2
    unfold acceptsAsInvariant at ha hb ⊢
    cases ka : classify a with
    | none => simp [ka] at ha
    | some ka' =>
      cases kb : classify b with
      | none => simp [kb] at hb
      | some kb' =>
        simp only [ka, kb] at ha hb
        have t := (and_complete ka' kb').2
        have := imp_elim t (by simp [gK, iK, ha, hb])
        simp only [classify, ka, kb, Option.bind_eq_bind, Option.bind_some]
        cases hr : binK .AND ka' kb' with
        | none => simp [hr] at this
        | some r => simpa [hr, gK, iK] using this
  | _ => simp_all [conjOf, isAtom]

example : conjOf acceptsAsGuard (.and (.and (.cmp .LT .CLOCK .INT) (.cmp .LE .CLOCK .INT)) (.ipred .BOOL)) = true := by decide
example : conjOf acceptsAsInvariant (.and (.cmp .LE .CLOCK .INT) (.and (.ipred .BOOL) (.cmp .LT .CLOCK .INT))) = true := by decide

/-- every member of the computed exception set is a genuine violation of C10 in the model: the leaf contains a clock,
    and the disjunction / negation of it is accepted as a guard and as an invariant although it is not convex -/
theorem leafExceptions_are_violations : ∀ e ∈ leafExceptions,
    let a := Form.cmp e.1 e.2.1 e.2.2
    WF a = true ∧ ClockFree a = false ∧
    acceptsAsGuard (.or a a) = true ∧ acceptsAsInvariant (.or a a) = true ∧ Convex (.or a a) = false ∧
    acceptsAsGuard (.not a) = true ∧ Convex (.not a) = false := by
  decide +kernel

/-- the typing of results never leaves the primitive types: keeping only the kind in `classify` loses nothing -/
theorem typeBin_result_prim (op : BinOp) : ∀ ka kb : TK, ∀ t ∈ typeBin op (.prim ka) (.prim kb), t = .prim t.term := by
  cases op <;> decide +kernel

end UtapModel.C10
