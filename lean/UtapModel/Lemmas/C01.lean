/- C01: soundness of the local check `lbProd` -- generic in the grammar table, the effect table and the signatures.
   Helper lemmas only; the property theorems are in `UtapModel/Props/C01.lean`. -/
import UtapModel.Model.C01Stack
set_option linter.unusedSimpArgs false
set_option linter.unusedVariables false
namespace UtapModel.C01

/-! ### linear forms -/

theorem dot_nil_right (a : List Int) : dot a [] = 0 := by
  cases a <;> rfl

theorem dot_addV (a b : List Int) (vals : List Nat) : dot (addV a b) vals = dot a vals + dot b vals := by
  induction a generalizing b vals with
  | nil => simp [addV, dot]
  | cons x a ih =>
    cases b with
    | nil => simp [addV, dot]
    | cons y b =>
      cases vals with
      | nil => simp [addV, dot]
      | cons e es =>
        simp only [addV, dot, ih]
        rw [Int.add_mul]; omega

theorem dot_scale (k : Int) (a : List Int) (vals : List Nat) : dot (a.map (k * ·)) vals = k * dot a vals := by
  induction a generalizing vals with
  | nil => simp [dot]
  | cons x a ih =>
    cases vals with
    | nil => simp [dot]
    | cons e es =>
      simp only [List.map, dot, ih]
      rw [Int.mul_add, Int.mul_assoc]

theorem dot_unit (pos : Nat) (k : Int) (vals : List Nat) :
    dot (List.replicate pos 0 ++ [k]) vals = k * ((vals.getD pos 0 : Nat) : Int) := by
  induction pos generalizing vals with
  | zero =>
    cases vals with
    | nil => simp [dot]
    | cons e es => simp [dot]
  | succ n ih =>
    cases vals with
    | nil => simp [List.replicate, dot]
    | cons e es =>
      simp only [List.replicate, List.cons_append, dot, ih, List.getD_cons_succ]
      omega

theorem dot_nonneg (a : List Int) (vals : List Nat) (h : a.all (fun x => decide (0 ≤ x)) = true) : 0 ≤ dot a vals := by
  induction a generalizing vals with
  | nil => simp [dot]
  | cons x a ih =>
    cases vals with
    | nil => simp [dot]
    | cons e es =>
      simp only [List.all_cons, Bool.and_eq_true, decide_eq_true_eq] at h
      simp only [dot]
      have h1 : 0 ≤ x * (e : Int) := Int.mul_nonneg h.1 (Int.natCast_nonneg e)
      have h2 := ih es h.2
      omega

theorem dot_zero (a : List Int) (vals : List Nat) (h : a.all (fun x => decide (x = 0)) = true) : dot a vals = 0 := by
  induction a generalizing vals with
  | nil => simp [dot]
  | cons x a ih =>
    cases vals with
    | nil => simp [dot]
    | cons e es =>
      simp only [List.all_cons, Bool.and_eq_true, decide_eq_true_eq] at h
      simp only [dot, h.1, ih es h.2]
      omega

@[simp] theorem eval_zero (vals : List Nat) : Lin.zero.eval vals = 0 := by simp [Lin.zero, Lin.eval, dot]
@[simp] theorem eval_const (c : Int) (vals : List Nat) : (Lin.const c).eval vals = c := by simp [Lin.const, Lin.eval, dot]
@[simp] theorem eval_add (a b : Lin) (vals : List Nat) : (a.add b).eval vals = a.eval vals + b.eval vals := by
  simp only [Lin.add, Lin.eval, dot_addV]; omega
@[simp] theorem eval_scale (k : Int) (a : Lin) (vals : List Nat) : (a.scale k).eval vals = k * a.eval vals := by
  simp only [Lin.scale, Lin.eval, dot_scale, Int.mul_add]
@[simp] theorem eval_sub (a b : Lin) (vals : List Nat) : (a.sub b).eval vals = a.eval vals - b.eval vals := by
  simp only [Lin.sub, eval_add, eval_scale]; omega
@[simp] theorem eval_unit (pos : Nat) (k : Int) (vals : List Nat) :
    (Lin.unit pos k).eval vals = k * ((vals.getD pos 0 : Nat) : Int) := by
  simp only [Lin.unit, Lin.eval, dot_unit]; omega

theorem nonneg_sound {a : Lin} (h : a.nonneg = true) (vals : List Nat) : 0 ≤ a.eval vals := by
  simp only [Lin.nonneg, Bool.and_eq_true, decide_eq_true_eq] at h
  have := dot_nonneg a.v vals h.2
  simp only [Lin.eval]; omega

/-! ### abstract states -/

def Sat (vals : List Nat) (h0 : Int) : AState → Int → Prop
  | .rel f, h => h0 + f.eval vals ≤ h
  | .abs a, h => (a : Int) ≤ h

theorem sat_ok {vals : List Nat} {h0 h : Int} {needA dipA : Nat} {loA : Option (Int × Int)} {st : AState}
    (hok : okState dipA loA st = true) (hA : (needA : Int) ≤ h0) (hd : dipA ≤ needA) (hs : Sat vals h0 st h) :
    0 ≤ h ∧ (loA.isSome → h0 - dipA ≤ h) := by
  cases st with
  | abs a =>
    simp only [okState] at hok
    simp only [Sat] at hs
    refine ⟨by omega, ?_⟩
    intro h1
    cases loA <;> simp_all
  | rel f =>
    simp only [okState] at hok
    have := nonneg_sound hok vals
    simp only [eval_add, eval_const] at this
    simp only [Sat] at hs
    have hd' : (dipA : Int) ≤ (needA : Int) := Int.ofNat_le.mpr hd
    constructor
    · omega
    · intro _; omega

theorem runH_append {CB : Type} (eff : CB → Eff) (h : Int) (a b : List (CallInst CB)) :
    runH eff h (a ++ b) = (runH eff h a).bind (fun h' => runH eff h' b) := by
  induction a generalizing h with
  | nil => simp [runH]
  | cons x a ih =>
    simp only [List.cons_append, runH]
    cases stepH eff h x with
    | none => simp
    | some h1 => simp [ih]

/-- appending one plain (count-free, non-throwing) callback to a safe trace -/
theorem runH_snoc {CB : Type} (eff : CB → Eff) (h h1 : Int) (tr : List (CallInst CB)) (cb : CB) (need : Nat) (d : Int)
    (hr : runH eff h tr = some h1) (he : eff cb = ⟨need, 0, d, 0, d, 0, false, false, false⟩) (hn : (need : Int) ≤ h1) :
    runH eff h (tr ++ [⟨cb, 0, false, 0⟩]) = some (h1 + d) := by
  simp [runH_append, hr, runH, stepH, he, hn]

section sound
variable {CB NT : Type}
variable (sig : NT → Sig) (eff : CB → Eff)

theorem stepCall_sound (hwf : ∀ cb, (eff cb).wf = true) {needA : Nat} {st st' : AState} {c : Call CB}
    {vals : List Nat} {ci : CallInst CB} {h0 h : Int}
    (hstep : stepCall eff needA st c = some st') (hadm : c.admits vals ci) (hA : (needA : Int) ≤ h0)
    (hs : Sat vals h0 st h) :
    ∃ h', stepH eff h ci = some h' ∧ Sat vals h0 st' h' := by
  obtain ⟨hcb, harg⟩ := hadm
  have hw := hwf c.cb
  simp only [Eff.wf, Bool.and_eq_true, decide_eq_true_eq] at hw
  obtain ⟨⟨⟨hw1, hw2⟩, hw3⟩, hw4⟩ := hw
  simp only [stepCall] at hstep
  split at hstep
  · exact absurd hstep (by simp)
  rename_i hargok
  simp only [Bool.not_eq_true, Bool.not_eq_eq_eq_not, Bool.not_true, Bool.not_eq_false] at hargok
  -- the concrete count and the form agree (or the effect does not depend on the count)
  have hn : (eff c.cb).needN * ci.n = (eff c.cb).needN * ((argLin c.arg).eval vals).toNat ∧
            (eff c.cb).dN * (ci.n : Int) = (eff c.cb).dN * (argLin c.arg).eval vals ∧
            (eff c.cb).tN * (ci.n : Int) = (eff c.cb).tN * (argLin c.arg).eval vals ∧
            0 ≤ (argLin c.arg).eval vals := by
    cases hca : c.arg with
    | none =>
      rw [hca] at harg
      simp only at harg
      simp [argLin, harg]
    | cnt l =>
      rw [hca] at harg hargok
      simp only at harg
      simp only [argOk] at hargok
      have := nonneg_sound hargok vals
      simp only [argLin]
      rw [← harg]
      simp
    | types =>
      rw [hca] at hargok
      simp only [argOk, Bool.and_eq_true, decide_eq_true_eq] at hargok
      obtain ⟨⟨h1, h2⟩, h3⟩ := hargok
      simp [argLin, h1, h2, h3]
  obtain ⟨hn1, hn2, hn3, hn4⟩ := hn
  have hnat : (((eff c.cb).need0 + (eff c.cb).needN * ci.n : Nat) : Int) =
      ((eff c.cb).need0 : Int) + ((eff c.cb).needN : Int) * (argLin c.arg).eval vals := by
    rw [hn1]
    have : (((argLin c.arg).eval vals).toNat : Int) = (argLin c.arg).eval vals := Int.toNat_of_nonneg hn4
    rw [Int.natCast_add, Int.natCast_mul, this]
  cases st with
  | abs a =>
    simp only at hstep
    split at hstep
    · exact absurd hstep (by simp)
    rename_i hc
    simp only [Bool.not_eq_eq_eq_not, Bool.not_true, Bool.not_eq_false, Bool.and_eq_true, decide_eq_true_eq] at hc
    obtain ⟨⟨⟨hN, hdN⟩, htN⟩, hna⟩ := hc
    simp only [Sat] at hs
    have hna' : ((eff c.cb).need0 : Int) ≤ (a : Int) := Int.ofNat_le.mpr hna
    have hle : (((eff c.cb).need0 + (eff c.cb).needN * ci.n : Nat) : Int) ≤ h := by
      rw [hN]; simp; omega
    simp only [stepH, hcb, hle, ↓reduceIte, hdN, htN, Int.zero_mul, Int.add_zero]
    split at hstep
    · rename_i hr
      cases hstep
      simp [hr, Sat]
    rename_i hr
    simp only [hr, Bool.false_eq_true, ↓reduceIte]
    split at hstep
    · rename_i hb
      cases hstep
      simp only [hb, ↓reduceIte]
      refine ⟨_, rfl, ?_⟩
      simp only [Sat]
      have := Int.natCast_nonneg ci.aux
      omega
    rename_i hb
    simp only [hb, Bool.false_eq_true, ↓reduceIte]
    cases hstep
    by_cases hct : (eff c.cb).canThrow = true
    · simp only [hct, ↓reduceIte, Bool.true_and]
      split
      · refine ⟨_, rfl, ?_⟩
        simp only [Sat]
        omega
      · refine ⟨_, rfl, ?_⟩
        simp only [Sat]
        omega
    · simp only [hct, Bool.false_eq_true, ↓reduceIte, Bool.false_and]
      refine ⟨_, rfl, ?_⟩
      simp only [Sat]
      omega
  | rel f =>
    simp only at hstep
    split at hstep
    · exact absurd hstep (by simp)
    rename_i hneed
    simp only [Bool.not_eq_true, Bool.not_eq_eq_eq_not, Bool.not_true, Bool.not_eq_false] at hneed
    have hneed' := nonneg_sound hneed vals
    simp only [eval_sub, eval_add, eval_const, eval_scale] at hneed'
    simp only [Sat] at hs
    have hle : (((eff c.cb).need0 + (eff c.cb).needN * ci.n : Nat) : Int) ≤ h := by rw [hnat]; omega
    simp only [stepH, hcb, hle, ↓reduceIte]
    split at hstep
    · rename_i hr
      cases hstep
      simp [hr, Sat]
    rename_i hr
    simp only [hr, Bool.false_eq_true, ↓reduceIte]
    split at hstep
    · rename_i hb
      cases hstep
      simp only [hb, ↓reduceIte]
      refine ⟨_, rfl, ?_⟩
      simp only [Sat]
      have := Int.natCast_nonneg ci.aux
      omega
    rename_i hb
    simp only [hb, Bool.false_eq_true, ↓reduceIte]
    split at hstep
    · rename_i hct
      cases hstep
      simp only [Bool.not_eq_true, Bool.not_eq_eq_eq_not, Bool.not_true, Bool.not_eq_false] at hct
      simp only [hct, Bool.false_and, Bool.false_eq_true, ↓reduceIte]
      refine ⟨_, rfl, ?_⟩
      simp only [Sat, eval_add, eval_const, eval_scale]
      rw [hn2]; omega
    rename_i hct
    split at hstep
    · rename_i hdom
      cases hstep
      have hd := nonneg_sound hdom vals
      simp only [eval_sub, eval_add, eval_const, eval_scale] at hd
      split
      · refine ⟨_, rfl, ?_⟩
        simp only [Sat, eval_add, eval_const, eval_scale]
        rw [hn3]; omega
      · refine ⟨_, rfl, ?_⟩
        simp only [Sat, eval_add, eval_const, eval_scale]
        rw [hn2]; omega
    split at hstep
    · rename_i hdom
      cases hstep
      have hd := nonneg_sound hdom vals
      simp only [eval_sub, eval_add, eval_const, eval_scale] at hd
      split
      · refine ⟨_, rfl, ?_⟩
        simp only [Sat, eval_add, eval_const, eval_scale]
        rw [hn3]; omega
      · refine ⟨_, rfl, ?_⟩
        simp only [Sat, eval_add, eval_const, eval_scale]
        rw [hn2]; omega
    · exact absurd hstep (by simp)

theorem stepCalls_sound (hwf : ∀ cb, (eff cb).wf = true) {needA : Nat} {vals : List Nat} {h0 : Int}
    (hA : (needA : Int) ≤ h0) :
    ∀ {cs : List (Call CB)} {cis : List (CallInst CB)}, CallsAdmit vals cs cis →
    ∀ {st st' : AState} {h : Int}, stepCalls eff needA cs st = some st' → Sat vals h0 st h →
    ∃ h', runH eff h cis = some h' ∧ Sat vals h0 st' h' := by
  intro cs cis hadm
  induction hadm with
  | nil =>
    intro st st' h hstep hs
    simp only [stepCalls, Option.some.injEq] at hstep
    exact ⟨h, rfl, hstep ▸ hs⟩
  | @cons c cs ci cis hc _ ih =>
    intro st st' h hstep hs
    simp only [stepCalls] at hstep
    cases h1 : stepCall eff needA st c with
    | none => simp [h1] at hstep
    | some st1 =>
      simp only [h1, Option.bind_some] at hstep
      obtain ⟨h', hh', hs'⟩ := stepCall_sound eff hwf h1 hc hA hs
      obtain ⟨h'', hh'', hs''⟩ := ih hstep hs'
      exact ⟨h'', by simp [runH, hh', hh''], hs''⟩

theorem checkItems_ok {needA dipA : Nat} {loA : Option (Int × Int)} {pos : Nat} {items : List (Item CB NT)} {st st' : AState}
    (h : checkItems sig eff needA dipA loA pos items st = some st') : okState dipA loA st = true := by
  cases items with
  | nil =>
    simp only [checkItems] at h
    split at h
    · assumption
    · exact absurd h (by simp)
  | cons it rest =>
    simp only [checkItems] at h
    split at h
    · assumption
    · exact absurd h (by simp)

theorem checkItems_cons {needA dipA : Nat} {loA : Option (Int × Int)} {pos : Nat} {it : Item CB NT} {rest : List (Item CB NT)}
    {st st' : AState} (h : checkItems sig eff needA dipA loA pos (it :: rest) st = some st') :
    ∃ st1, stepItem sig eff needA dipA pos st it = some st1 ∧ checkItems sig eff needA dipA loA (pos + 1) rest st1 = some st' := by
  simp only [checkItems] at h
  split at h
  · cases h1 : stepItem sig eff needA dipA pos st it with
    | none => simp [h1] at h
    | some st1 => exact ⟨st1, rfl, by simpa [h1] using h⟩
  · exact absurd h (by simp)

/-- what a checked production guarantees for a *complete* run, given the inductive conclusion about its items -/
theorem finalOk_bound {vals' : List Nat} {h h1 : Int} {lo : Option (Int × Int)} {attr : Lin} {stp : AState}
    (hfin : finalOk lo attr stp = true) (hs : Sat vals' h stp h1) :
    ∀ c0 c1, lo = some (c0, c1) → h + c0 + c1 * attr.eval vals' ≤ h1 := by
  intro c0 c1 hlo
  subst hlo
  cases stp with
  | abs a => simp [finalOk] at hfin
  | rel g =>
    simp only [finalOk] at hfin
    have := nonneg_sound hfin vals'
    simp only [eval_sub, eval_const, eval_scale] at this
    simp only [Sat] at hs
    omega

/-- entry requirement of a child, from the parent's check -/
theorem child_entry {vals : List Nat} {h0 h : Int} {needA dipA pos : Nat} {st st1 : AState} {B : NT} {isP : Bool}
    (hst : stepItem sig eff needA dipA pos st (if isP then Item.pnt B else Item.nt B) = some st1)
    (hA : (needA : Int) ≤ h0) (hs : Sat vals h0 st h) : ((sig B).need : Int) ≤ h := by
  cases st with
  | abs a =>
    cases isP <;>
    · simp only [stepItem, Bool.false_eq_true, ↓reduceIte] at hst
      split at hst
      · exact absurd hst (by simp)
      rename_i hz
      simp only [Bool.not_eq_eq_eq_not, Bool.not_true, decide_eq_false_iff_not, Nat.not_le, Bool.not_eq_true,
        decide_eq_true_eq] at hz
      simp only [Sat] at hs
      have : ((sig B).need : Int) ≤ (a : Int) := Int.ofNat_le.mpr (by omega)
      omega
  | rel f =>
    cases isP <;>
    · simp only [stepItem, Bool.false_eq_true, ↓reduceIte] at hst
      split at hst
      · exact absurd hst (by simp)
      rename_i hneed
      simp only [Bool.not_eq_eq_eq_not, Bool.not_true, Bool.not_eq_false, Bool.and_eq_true] at hneed
      have := nonneg_sound hneed.1 vals
      simp only [eval_sub, eval_add, eval_const] at this
      simp only [Sat] at hs
      omega

/-- state of the parent after a *complete* child -/
theorem after_child {vals : List Nat} {h0 h h1 : Int} {needA dipA pos : Nat} {st st1 : AState} {B : NT} {v : Int}
    (hst : stepItem sig eff needA dipA pos st (Item.nt B) = some st1)
    (hs : Sat vals h0 st h) (hnn1 : 0 ≤ h1) (hv : v = ((vals.getD pos 0 : Nat) : Int))
    (hb : ∀ c0 c1, (sig B).lo = some (c0, c1) → h + c0 + c1 * v ≤ h1) : Sat vals h0 st1 h1 := by
  have hvnn : 0 ≤ v := by rw [hv]; exact Int.natCast_nonneg _
  cases st with
  | abs a =>
    simp only [stepItem] at hst
    split at hst
    · exact absurd hst (by simp)
    simp only [Sat] at hs
    cases hlo : (sig B).lo with
    | none =>
      simp only [hlo, Option.some.injEq] at hst
      subst hst; simpa [Sat] using hnn1
    | some cc =>
      obtain ⟨c0, c1⟩ := cc
      simp only [hlo] at hst
      have hb' := hb c0 c1 hlo
      split at hst
      · rename_i hc1
        cases hst
        have : 0 ≤ c1 * v := Int.mul_nonneg hc1 hvnn
        simp only [Sat]
        omega
      · cases hst; simpa [Sat] using hnn1
  | rel f =>
    simp only [stepItem] at hst
    split at hst
    · exact absurd hst (by simp)
    cases hlo : (sig B).lo with
    | none =>
      simp only [hlo, Option.some.injEq] at hst
      subst hst; simpa [Sat] using hnn1
    | some cc =>
      obtain ⟨c0, c1⟩ := cc
      simp only [hlo, Option.some.injEq] at hst
      subst hst
      have hb' := hb c0 c1 hlo
      simp only [Sat, eval_add, eval_const, eval_unit]
      simp only [Sat] at hs
      rw [← hv]
      omega

/-- state of the parent after a possibly *abandoned* child -/
theorem after_partial {vals : List Nat} {h0 h h1 : Int} {needA dipA pos : Nat} {st st1 : AState} {B : NT}
    (hst : stepItem sig eff needA dipA pos st (Item.pnt B) = some st1)
    (hs : Sat vals h0 st h) (hnn1 : 0 ≤ h1)
    (hb : (sig B).lo.isSome → h - (sig B).dip ≤ h1) : Sat vals h0 st1 h1 := by
  cases st with
  | abs a =>
    simp only [stepItem] at hst
    split at hst
    · exact absurd hst (by simp)
    simp only [Sat] at hs
    cases hlo : (sig B).lo with
    | none =>
      simp only [hlo, Option.some.injEq] at hst
      subst hst; simpa [Sat] using hnn1
    | some cc =>
      simp only [hlo, Option.some.injEq] at hst
      subst hst
      have := hb (by simp [hlo])
      simp only [Sat]
      omega
  | rel f =>
    simp only [stepItem] at hst
    split at hst
    · exact absurd hst (by simp)
    cases hlo : (sig B).lo with
    | none =>
      simp only [hlo, Option.some.injEq] at hst
      subst hst; simpa [Sat] using hnn1
    | some cc =>
      simp only [hlo, Option.some.injEq] at hst
      subst hst
      have := hb (by simp [hlo])
      simp only [Sat, eval_sub, eval_const]
      simp only [Sat] at hs
      omega

/-- an abandoned child keeps the parent's floor -/
theorem partial_floor {vals : List Nat} {h0 h h1 : Int} {needA dipA pos : Nat} {loA : Option (Int × Int)}
    {st st1 st' : AState} {B : NT} {rest : List (Item CB NT)} {isP : Bool}
    (hst : stepItem sig eff needA dipA pos st (if isP then Item.pnt B else Item.nt B) = some st1)
    (hokst : okState dipA loA st = true)
    (hrest : checkItems sig eff needA dipA loA (pos + 1) rest st1 = some st')
    (hs : Sat vals h0 st h) (hb : (sig B).lo.isSome → h - (sig B).dip ≤ h1) :
    loA.isSome → h0 - dipA ≤ h1 := by
  intro hloA
  have hok1 := checkItems_ok sig eff hrest
  cases st with
  | abs a =>
    simp only [okState] at hokst
    cases loA <;> simp_all
  | rel f =>
    cases isP <;>
    · simp only [stepItem, Bool.false_eq_true, ↓reduceIte] at hst
      split at hst
      · exact absurd hst (by simp)
      rename_i hneed
      simp only [Bool.not_eq_eq_eq_not, Bool.not_true, Bool.not_eq_false, Bool.and_eq_true] at hneed
      have hdp := nonneg_sound hneed.2 vals
      simp only [eval_sub, eval_add, eval_const] at hdp
      simp only [Sat] at hs
      cases hlo : (sig B).lo with
      | none =>
        simp only [hlo, Option.some.injEq] at hst
        subst hst
        simp only [okState] at hok1
        cases loA <;> simp_all
      | some cc =>
        have := hb (by simp [hlo])
        omega

theorem run_sound {G : List (Prod CB NT)} (hG : ∀ p ∈ G, lbProd sig eff p = true) (hwf : ∀ cb, (eff cb).wf = true) :
    ∀ {b : Bool} {vals : List Nat} {pos : Nat} {items : List (Item CB NT)} {tr : List (CallInst CB)},
    Run G b vals pos items tr →
    ∀ (needA dipA : Nat) (loA : Option (Int × Int)) (h0 h : Int) (st st' : AState),
      checkItems sig eff needA dipA loA pos items st = some st' → (needA : Int) ≤ h0 → dipA ≤ needA → Sat vals h0 st h →
      ∃ h', runH eff h tr = some h' ∧ 0 ≤ h' ∧ (b = false → Sat vals h0 st' h') ∧ (loA.isSome → h0 - dipA ≤ h') := by
  intro _ _ _ _ _ hrun
  induction hrun with
  | nil =>
    intro needA dipA loA h0 h st st' hc hA hD hs
    have hok := checkItems_ok sig eff hc
    simp only [checkItems, hok, ↓reduceIte, Option.some.injEq] at hc
    obtain ⟨h1, h2⟩ := sat_ok hok hA hD hs
    exact ⟨h, rfl, h1, fun _ => hc ▸ hs, h2⟩
  | stop =>
    intro needA dipA loA h0 h st st' hc hA hD hs
    have hok := checkItems_ok sig eff hc
    obtain ⟨h1, h2⟩ := sat_ok hok hA hD hs
    exact ⟨h, rfl, h1, fun hb => absurd hb (by simp), h2⟩
  | tok _ ih =>
    intro needA dipA loA h0 h st st' hc hA hD hs
    obtain ⟨st1, hst, hrest⟩ := checkItems_cons sig eff hc
    simp only [stepItem, Option.some.injEq] at hst
    subst hst
    exact ih needA dipA loA h0 h st st' hrest hA hD hs
  | free _ ih =>
    intro needA dipA loA h0 h st st' hc hA hD hs
    obtain ⟨st1, hst, hrest⟩ := checkItems_cons sig eff hc
    simp only [stepItem, Option.some.injEq] at hst
    subst hst
    exact ih needA dipA loA h0 h st st' hrest hA hD hs
  | act hadm _ ih =>
    intro needA dipA loA h0 h st st' hc hA hD hs
    obtain ⟨st1, hst, hrest⟩ := checkItems_cons sig eff hc
    simp only [stepItem] at hst
    obtain ⟨h1, hr1, hs1⟩ := stepCalls_sound eff hwf hA hadm hst hs
    obtain ⟨h2, hr2, hnn, hsat, hpart⟩ := ih needA dipA loA h0 h1 st1 st' hrest hA hD hs1
    exact ⟨h2, by simp [runH_append, hr1, hr2], hnn, hsat, hpart⟩
  | @nt b vals pos rest tr1 tr2 p vals' hp _ hattr _ ihc ihr =>
    intro needA dipA loA h0 h st st' hc hA hD hs
    obtain ⟨st1, hst, hrest⟩ := checkItems_cons sig eff hc
    have hlb := hG p hp
    simp only [lbProd, Bool.and_eq_true, decide_eq_true_eq] at hlb
    obtain ⟨⟨_, hdipB⟩, hlb2⟩ := hlb
    cases hci : checkItems sig eff (sig p.lhs).need (sig p.lhs).dip (sig p.lhs).lo 0 p.items (.rel Lin.zero) with
    | none => simp [hci] at hlb2
    | some stp =>
      simp only [hci] at hlb2
      have hneedB : ((sig p.lhs).need : Int) ≤ h := child_entry sig eff (isP := false) hst hA hs
      obtain ⟨h1, hr1, hnn1, hsat1, _⟩ :=
        ihc (sig p.lhs).need (sig p.lhs).dip (sig p.lhs).lo h h (.rel Lin.zero) stp hci hneedB hdipB (by simp [Sat])
      have hb := finalOk_bound hlb2 (hsat1 rfl)
      have hs1 : Sat vals h0 st1 h1 := after_child sig eff hst hs hnn1 hattr.symm hb
      obtain ⟨h2, hr2, hnn2, hsat2, hpart2⟩ := ihr needA dipA loA h0 h1 st1 st' hrest hA hD hs1
      exact ⟨h2, by simp [runH_append, hr1, hr2], hnn2, hsat2, hpart2⟩
  | @ntPart vals pos rest tr p vals' hp _ ihc =>
    intro needA dipA loA h0 h st st' hc hA hD hs
    obtain ⟨st1, hst, hrest⟩ := checkItems_cons sig eff hc
    have hokst := checkItems_ok sig eff hc
    have hlb := hG p hp
    simp only [lbProd, Bool.and_eq_true, decide_eq_true_eq] at hlb
    obtain ⟨⟨_, hdipB⟩, hlb2⟩ := hlb
    cases hci : checkItems sig eff (sig p.lhs).need (sig p.lhs).dip (sig p.lhs).lo 0 p.items (.rel Lin.zero) with
    | none => simp [hci] at hlb2
    | some stp =>
      have hneedB : ((sig p.lhs).need : Int) ≤ h := child_entry sig eff (isP := false) hst hA hs
      obtain ⟨h1, hr1, hnn1, _, hpart1⟩ :=
        ihc (sig p.lhs).need (sig p.lhs).dip (sig p.lhs).lo h h (.rel Lin.zero) stp hci hneedB hdipB (by simp [Sat])
      exact ⟨h1, hr1, hnn1, fun hb => absurd hb (by simp),
        partial_floor sig eff (isP := false) hst hokst hrest hs hpart1⟩
  | @pnt b vals pos rest tr1 tr2 p vals' hp _ _ ihc ihr =>
    intro needA dipA loA h0 h st st' hc hA hD hs
    obtain ⟨st1, hst, hrest⟩ := checkItems_cons sig eff hc
    have hlb := hG p hp
    simp only [lbProd, Bool.and_eq_true, decide_eq_true_eq] at hlb
    obtain ⟨⟨_, hdipB⟩, hlb2⟩ := hlb
    cases hci : checkItems sig eff (sig p.lhs).need (sig p.lhs).dip (sig p.lhs).lo 0 p.items (.rel Lin.zero) with
    | none => simp [hci] at hlb2
    | some stp =>
      have hneedB : ((sig p.lhs).need : Int) ≤ h := child_entry sig eff (isP := true) hst hA hs
      obtain ⟨h1, hr1, hnn1, _, hpart1⟩ :=
        ihc (sig p.lhs).need (sig p.lhs).dip (sig p.lhs).lo h h (.rel Lin.zero) stp hci hneedB hdipB (by simp [Sat])
      have hs1 : Sat vals h0 st1 h1 := after_partial sig eff hst hs hnn1 hpart1
      obtain ⟨h2, hr2, hnn2, hsat2, hpart2⟩ := ihr needA dipA loA h0 h1 st1 st' hrest hA hD hs1
      exact ⟨h2, by simp [runH_append, hr1, hr2], hnn2, hsat2, hpart2⟩

end sound
end UtapModel.C01
