/- Helper lemmas of C20: the independent reader on the written tree of one location / edge / template. -/
import UtapModel.Model.XmlWrite
import Std.Data.String.ToNat
namespace UtapModel.AM

theorem idOf_injective {a b : Nat} (h : idOf a = idOf b) : a = b := by
  have h2 : toString a = toString b := by
    have := congrArg String.toList h
    simp only [idOf, String.toList_append] at this
    exact String.toList_inj.mp (List.append_cancel_left this)
  exact Nat.repr_injective h2

theorem allSome_map_some {α β} (f : α → Option β) (g : α → β) (l : List α) (h : ∀ x ∈ l, f x = some (g x)) :
    allSome (l.map f) = some (l.map g) := by
  induction l with
  | nil => rfl
  | cons x r ih =>
    simp only [List.map_cons, h x (by simp), allSome, ih (fun y hy => h y (by simp [hy]))]
    rfl

theorem allSome_none_of_mem {α} (l : List (Option α)) (h : none ∈ l) : allSome l = none := by
  induction l with
  | nil => cases h
  | cons x r ih =>
    cases x with
    | none => rfl
    | some a =>
      have : none ∈ r := by simpa using h
      simp [allSome, ih this]

/-! ### labels -/

theorem filterMap_wOptLabel (kind : String) (t : Option LTxt) :
    (wOptLabel kind t).filterMap lblF = optLabel kind t := by
  cases t with
  | none => rfl
  | some x => cases x <;> simp [wOptLabel, wLabel, optLabel, nontrivial, lblF, contentOf, txtStr, List.lookup]

theorem labelOf_wOptLabel_hit (kind : String) (t : Option LTxt) (rest : List Xml) (s : String) (h : nontrivial t = some s) :
    labelOf kind (wOptLabel kind t ++ rest) = some s := by
  cases t with
  | none => simp [nontrivial] at h
  | some x =>
    cases x <;> simp [nontrivial] at h <;>
      simp [wOptLabel, wLabel, labelOf, List.findSome?, contentOf, txtStr, List.lookup, h]

theorem labelOf_wOptLabel_miss (kind kind' : String) (t : Option LTxt) (rest : List Xml)
    (h : nontrivial t = none ∨ kind' ≠ kind) :
    labelOf kind (wOptLabel kind' t ++ rest) = labelOf kind rest := by
  cases t with
  | none => rfl
  | some x =>
    cases x with
    | one => rfl
    | andOne r =>
      rcases h with h | h
      · simp [nontrivial] at h
      · simp [wOptLabel, wLabel, labelOf, List.findSome?, List.lookup, h]
    | plain k =>
      rcases h with h | h
      · simp [nontrivial] at h
      · simp [wOptLabel, wLabel, labelOf, List.findSome?, List.lookup, h]

/-! ### one location -/

theorem labelOf_flags (kind : String) (u c : Bool) :
    labelOf kind (if c = true then [Xml.elem "committed" [] []] else if u = true then [Xml.elem "urgent" [] []] else []) = none := by
  cases u <;> cases c <;> simp [labelOf, List.findSome?]

theorem gLoc_wLoc (nl : WLoc × Nat) (h : (nl.1.urgent && nl.1.committed) = false) :
    gLoc (wLocAttrs nl) (wLocKids nl) = glocOf nl := by
  obtain ⟨⟨name, inv, rate, u, c⟩, n⟩ := nl
  simp only at h
  have hinv : labelOf "invariant" (wLocKids (⟨name, inv, rate, u, c⟩, n)) = nontrivial inv := by
    simp only [wLocKids, List.append_assoc, List.cons_append, List.nil_append]
    rw [show labelOf "invariant" (Xml.elem "name" [] [Xml.text (Txt.str name)] :: (wOptLabel "invariant" inv ++
          (wOptLabel "exponentialrate" rate ++ (if c = true then [Xml.elem "committed" [] []] else if u = true then [Xml.elem "urgent" [] []] else []))))
        = labelOf "invariant" (wOptLabel "invariant" inv ++
          (wOptLabel "exponentialrate" rate ++ (if c = true then [Xml.elem "committed" [] []] else if u = true then [Xml.elem "urgent" [] []] else [])))
        by simp [labelOf, List.findSome?]]
    cases hn : nontrivial inv with
    | some s => exact labelOf_wOptLabel_hit _ _ _ _ hn
    | none =>
      rw [labelOf_wOptLabel_miss _ _ _ _ (Or.inl hn), labelOf_wOptLabel_miss _ _ _ _ (Or.inr (by decide)), labelOf_flags]
  have hrate : labelOf "exponentialrate" (wLocKids (⟨name, inv, rate, u, c⟩, n)) = nontrivial rate := by
    simp only [wLocKids, List.append_assoc, List.cons_append, List.nil_append]
    rw [show labelOf "exponentialrate" (Xml.elem "name" [] [Xml.text (Txt.str name)] :: (wOptLabel "invariant" inv ++
          (wOptLabel "exponentialrate" rate ++ (if c = true then [Xml.elem "committed" [] []] else if u = true then [Xml.elem "urgent" [] []] else []))))
        = labelOf "exponentialrate" (wOptLabel "invariant" inv ++
          (wOptLabel "exponentialrate" rate ++ (if c = true then [Xml.elem "committed" [] []] else if u = true then [Xml.elem "urgent" [] []] else [])))
        by simp [labelOf, List.findSome?]]
    rw [labelOf_wOptLabel_miss _ _ _ _ (Or.inr (by decide))]
    cases hn : nontrivial rate with
    | some s => exact labelOf_wOptLabel_hit _ _ _ _ hn
    | none => rw [labelOf_wOptLabel_miss _ _ _ _ (Or.inl hn), labelOf_flags]
  have hflag : ∀ tag, tag = "urgent" ∨ tag = "committed" →
      hasChild tag (wLocKids (⟨name, inv, rate, u, c⟩, n)) =
        hasChild tag (if c = true then [Xml.elem "committed" [] []] else if u = true then [Xml.elem "urgent" [] []] else []) := by
    intro tag htag
    have hl : ∀ kind t, hasChild tag (wOptLabel kind t) = false := by
      intro kind t
      cases t with
      | none => rfl
      | some x => rcases htag with rfl | rfl <;> cases x <;> simp [wOptLabel, wLabel, hasChild]
    have happ : ∀ a b, hasChild tag (a ++ b) = (hasChild tag a || hasChild tag b) := by
      intro a b; simp [hasChild, List.any_append]
    simp only [wLocKids, happ, hl, Bool.or_false, Bool.false_or]
    rcases htag with rfl | rfl <;> simp [hasChild]
  simp only [gLoc, glocOf, hinv, hrate, hflag "urgent" (Or.inl rfl), hflag "committed" (Or.inr rfl)]
  cases u <;> cases c <;> simp_all [wLocAttrs, wLocKids, childText, List.findSome?, contentOf, txtStr, hasChild, flagOf, List.lookup]

/-! ### one edge -/

structure EdgeOk (e : WEdge) : Prop where
  prob : nontrivial e.prob = none
  sel : e.select = [] ∨ ∃ s, e.select = [s] ∧ s.named = true
  ctrl : e.ctrl = true
  ends : ∃ s d, e.src = .loc s ∧ e.dst = .loc d

theorem edgeOk_of (e : WEdge) (h : edgeShapes e = []) : EdgeOk e := by
  simp only [edgeShapes, List.append_eq_nil_iff] at h
  obtain ⟨⟨⟨⟨h1, h2⟩, h3⟩, h4⟩, h5⟩ := h
  refine ⟨?_, ?_, ?_, ?_⟩
  · cases hp : nontrivial e.prob with
    | none => rfl
    | some s => simp [hp] at h1
  · cases hs : e.select with
    | nil => exact Or.inl rfl
    | cons s r =>
      right
      cases r with
      | nil =>
        refine ⟨s, rfl, ?_⟩
        cases hn : s.named with
        | true => rfl
        | false => simp [hs, hn, selShapes] at h3
      | cons s2 r2 => simp [hs] at h2
  · cases hc : e.ctrl with
    | true => rfl
    | false => simp [hc] at h4
  · cases hs : e.src with
    | loc s =>
      cases hd : e.dst with
      | loc d => exact ⟨s, d, rfl, rfl⟩
      | bp _ => simp [hs, hd] at h5
    | bp _ => simp [hs] at h5

def wEdge' (e : WEdge) : Xml :=
  match e.src, e.dst with
  | .loc s, .loc d => .elem "transition" [] (wEdgeKids e s d)
  | _, _ => .elem "transition" [] []

theorem wEdge_ok (e : WEdge) (h : EdgeOk e) : wEdge e = some (wEdge' e) := by
  obtain ⟨s, d, hs, hd⟩ := h.ends
  simp [wEdge, wEdge', hs, hd]

theorem filterMap_lblF_append (a b : List Xml) : (a ++ b).filterMap lblF = a.filterMap lblF ++ b.filterMap lblF :=
  List.filterMap_append

theorem gEdge_wEdge (e : WEdge) (h : EdgeOk e) :
    ∃ k, wEdge' e = Xml.elem "transition" [] k ∧ gEdge [] k = gedgeOf e := by
  obtain ⟨s, d, hs, hd⟩ := h.ends
  refine ⟨wEdgeKids e s d, by simp [wEdge', hs, hd], ?_⟩
  have hlab : (wEdgeLabels e).filterMap lblF =
      (if e.select.isEmpty then [] else [("select", selectsText e.select)]) ++ optLabel "guard" e.guard ++
        optLabel "synchronisation" e.sync ++ optLabel "assignment" e.assign ++ optLabel "probability" e.prob := by
    have hp : optLabel "probability" e.prob = [] := by simp [optLabel, h.prob]
    simp only [wEdgeLabels, filterMap_lblF_append, filterMap_wOptLabel, hp, List.append_nil]
    rcases h.sel with hsel | ⟨x, hsel, hnamed⟩
    · simp [hsel]
    · simp [hsel, hnamed, lblF, contentOf, txtStr, List.lookup, selectsText]
  simp only [gEdge, gedgeOf, hs, hd, endId, h.ctrl, List.lookup]
  have hfm : (wEdgeKids e s d).filterMap lblF = (wEdgeLabels e).filterMap lblF := by
    simp [wEdgeKids, lblF, List.filterMap_cons]
  rw [hfm, hlab]
  simp [wEdgeKids, refOf, List.findSome?, List.lookup]

/-! ### one template -/

structure TemplOk (t : WTempl) : Prop where
  init : ∃ i, t.init = some i
  edges : ∀ e ∈ t.edges, EdgeOk e
  locs : ∀ l ∈ t.locs, (l.urgent && l.committed) = false

theorem templOk_of (t : WTempl) (h : templShapes t = []) : TemplOk t := by
  simp only [templShapes, List.append_eq_nil_iff, List.flatMap_eq_nil_iff] at h
  obtain ⟨⟨h1, h2⟩, h3⟩ := h
  refine ⟨?_, fun e he => edgeOk_of e (h1 e he), ?_⟩
  · cases hi : t.init with
    | some i => exact ⟨i, rfl⟩
    | none => simp [hi] at h3
  · intro l hl
    cases hb : (l.urgent && l.committed) with
    | false => rfl
    | true =>
      have : t.locs.any (fun l => l.urgent && l.committed) = true := List.any_eq_true.mpr ⟨l, hl, hb⟩
      simp [this] at h2

def wTempl' (t : WTempl) : Xml :=
  .elem "template" []
    ([Xml.elem "name" [] [.text (.str t.name)], Xml.elem "parameter" [] [], Xml.elem "declaration" [] []] ++
     (t.locs.zipIdx.map (fun nl => Xml.elem "location" (wLocAttrs nl) (wLocKids nl)) ++
      ([Xml.elem "init" [("ref", idOf (t.init.getD 0))] []] ++ t.edges.map wEdge')))

theorem wTempl_ok (t : WTempl) (h : TemplOk t) : wTempl t = some (wTempl' t) := by
  obtain ⟨i, hi⟩ := h.init
  have := allSome_map_some wEdge wEdge' t.edges (fun e he => wEdge_ok e (h.edges e he))
  simp [wTempl, wTempl', hi, this]

theorem filterMap_none {α β} (f : α → Option β) (l : List α) (h : ∀ x ∈ l, f x = none) : l.filterMap f = [] := by
  induction l with
  | nil => rfl
  | cons x r ih => simp [List.filterMap_cons, h x (by simp), ih (fun y hy => h y (by simp [hy]))]

theorem filterMap_map_some {α β γ} (f : β → Option γ) (g : α → β) (k : α → γ) (l : List α) (h : ∀ x ∈ l, f (g x) = some (k x)) :
    (l.map g).filterMap f = l.map k := by
  induction l with
  | nil => rfl
  | cons x r ih => simp [List.filterMap_cons, h x (by simp), ih (fun y hy => h y (by simp [hy]))]

theorem gTempl_wTempl (t : WTempl) (h : TemplOk t) :
    ∃ k, wTempl' t = Xml.elem "template" [] k ∧ gTempl k = gtemplOf t := by
  obtain ⟨i, hi⟩ := h.init
  refine ⟨_, rfl, ?_⟩
  have hwe : ∀ e : WEdge, ∃ k, wEdge' e = Xml.elem "transition" [] k := by
    intro e; unfold wEdge'; split <;> exact ⟨_, rfl⟩
  -- locations
  have hlocs : (t.locs.zipIdx.map (fun nl => Xml.elem "location" (wLocAttrs nl) (wLocKids nl))).filterMap locF
      = t.locs.zipIdx.map glocOf := by
    apply filterMap_map_some
    intro nl hnl
    simp only [locF, ↓reduceIte]
    rw [gLoc_wLoc nl (h.locs nl.1 (List.fst_mem_of_mem_zipIdx hnl))]
  have hlocsE : (t.edges.map wEdge').filterMap locF = [] := by
    apply filterMap_none; intro x hx
    obtain ⟨e, _, rfl⟩ := List.mem_map.mp hx
    obtain ⟨k, hk⟩ := hwe e; simp [hk, locF]
  -- init
  have hinitL : (t.locs.zipIdx.map (fun nl => Xml.elem "location" (wLocAttrs nl) (wLocKids nl))).filterMap initF = [] := by
    apply filterMap_none; intro x hx
    obtain ⟨nl, _, rfl⟩ := List.mem_map.mp hx; simp [initF]
  have hinitE : (t.edges.map wEdge').filterMap initF = [] := by
    apply filterMap_none; intro x hx
    obtain ⟨e, _, rfl⟩ := List.mem_map.mp hx
    obtain ⟨k, hk⟩ := hwe e; simp [hk, initF]
  -- edges
  have hedgesL : (t.locs.zipIdx.map (fun nl => Xml.elem "location" (wLocAttrs nl) (wLocKids nl))).filterMap edgeF = [] := by
    apply filterMap_none; intro x hx
    obtain ⟨nl, _, rfl⟩ := List.mem_map.mp hx; simp [edgeF]
  have hedges : (t.edges.map wEdge').filterMap edgeF = t.edges.map gedgeOf := by
    apply filterMap_map_some
    intro e he
    obtain ⟨k, hk, hg⟩ := gEdge_wEdge e (h.edges e he)
    simp [hk, edgeF, hg]
  simp only [gTempl, gtemplOf, List.filterMap_append, hlocs, hlocsE, hinitL, hinitE, hedgesL, hedges, hi, Option.getD_some]
  simp [locF, initF, edgeF, childText, List.findSome?, contentOf, txtStr, List.filterMap_cons, List.lookup]

end UtapModel.AM
