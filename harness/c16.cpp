// C16 harness: parse an XML model with the real library and print (a) the document one *field* per line, so that the
// check can compare "everything but the faulted field" between a faulty and the fault-free input, and (b) every
// diagnostic with the XPath it is attributed to.
//   c16 batch     stdin: "<id> <mode> <base64 xml>"   mode: b = as built (DocumentBuilder only, no static analysis),
//                                                            p = public entry point parse_XML_buffer(buf, Document*, true)
//                                                            t = the input is XTA text: parse_XTA(buf, DocumentBuilder*, true), as built
//   stdout per case:  BEGIN id / RC <n|EXC:class> / F <key> <value> ... / E <path> <msg> / W <path> <msg> / A ... / END id
//     A <E|W> <start path> <start line> <end path> <end line> <msg>     both anchors of every diagnostic: a diagnostic is attributed
//                                                                       to the block its range lies in, from its first to its last character
// Identifier nodes are printed with the type of the symbol they are bound to, so a changed binding is a changed line.
#include "c08_trace.hpp"
#include "c08_walker.hpp"

#include <typeinfo>

using namespace UTAP;
using namespace UTAP::Constants;

static std::string b64dec(const std::string& s)
{
    static int T[256];
    static bool init = false;
    if (!init) {
        for (int& x : T) x = -1;
        const char* a = "ABCDEFGHIJKLMNOPQRSTUVWXYZabcdefghijklmnopqrstuvwxyz0123456789+/";
        for (int i = 0; i < 64; ++i) T[(unsigned char)a[i]] = i;
        init = true;
    }
    std::string o;
    unsigned val = 0;
    int bits = -8;
    for (unsigned char c : s) {
        if (T[c] < 0) continue;
        val = ((val << 6) | (unsigned)T[c]) & 0xFFFFFFu;
        bits += 6;
        if (bits >= 0) { o += char((val >> bits) & 0xFF); bits -= 8; }
    }
    return o;
}

/// expression with, for identifiers, the type of the bound symbol (a binding to another declaration shows)
static std::string bsexp(const expression_t& e)
{
    if (e.empty()) return "()";
    std::ostringstream os;
    auto k = e.get_kind();
    os << "(" << vh::kindName(k);
    try {
        if (k == IDENTIFIER) os << " " << e.get_symbol().get_name() << ":" << vh::tsexp(e.get_symbol().get_type());
        else if (k == CONSTANT) {
            type_t t = e.get_type();
            if (t.is(Constants::DOUBLE)) os << " double " << vh::hexDouble(e.get_double_value());
            else if (t.is_string()) os << " string";
            else os << " " << e.get_value();
        } else if (k == DOT) os << " #" << e.get_index();
        else if (k == SYNC) os << " " << (int)e.get_sync();
    } catch (std::exception&) { os << " <attr-exception>"; }
    for (size_t i = 0; i < e.get_size(); ++i) os << " " << bsexp(e[i]);
    os << ")";
    return os.str();
}

static void dumpDecls(std::ostream& os, const std::string& pre, declarations_t& d)
{
    int i = 0;
    for (auto& v : d.variables) {
        os << "F " << pre << "var" << i << " " << v.uid.get_name() << " " << vh::tsexp(v.uid.get_type()) << " init=" << bsexp(v.init) << "\n";
        ++i;
    }
    i = 0;
    for (auto& f : d.functions) {
        os << "F " << pre << "fun" << i << " " << f.uid.get_name() << " " << vh::tsexp(f.uid.get_type()) << " locals=" << f.variables.size()
           << "\n";   // (Statement::str is not robust on bodies left behind by error recovery: not printed)
        ++i;
    }
    i = 0;
    for (uint32_t j = 0; j < d.frame.get_size(); ++j) {
        auto s = d.frame[j];
        if (s.get_type().get_kind() == TYPEDEF) { os << "F " << pre << "typedef" << i << " " << s.get_name() << " " << vh::tsexp(s.get_type()) << "\n"; ++i; }
    }
    os << "F " << pre << "frame " << vh::frameDump(d.frame) << "\n";
}

static void dumpDoc(std::ostream& os, Document& doc)
{
    dumpDecls(os, "G.", doc.get_globals());
    int ti = 0;
    for (auto& t : doc.get_templates()) {
        std::string tp = "T" + std::to_string(ti) + ".";
        os << "F " << tp << "head " << t.uid.get_name() << " params=" << vh::frameDump(t.parameters) << " init="
           << (t.init == symbol_t() ? std::string("NONE") : t.init.get_name()) << " nloc=" << t.locations.size() << " nedge=" << t.edges.size() << "\n";
        dumpDecls(os, tp, t);
        int li = 0;
        for (auto& l : t.locations) {
            std::string lp = tp + "L" + std::to_string(li) + ".";
            type_t lt = l.uid.get_type();
            os << "F " << lp << "head " << l.uid.get_name() << " nr=" << l.nr << " u=" << lt.is(URGENT) << " c=" << lt.is(COMMITTED) << "\n";
            os << "F " << lp << "inv " << bsexp(l.invariant) << "\n";
            os << "F " << lp << "exprate " << bsexp(l.exp_rate) << "\n";
            ++li;
        }
        for (auto& b : t.branchpoints) os << "F " << tp << "B" << b.bpNr << ".head " << b.uid.get_name() << "\n";
        int ei = 0;
        for (auto& e : t.edges) {
            std::string ep = tp + "E" + std::to_string(ei) + ".";
            os << "F " << ep << "head nr=" << e.nr << " " << vh::endpoint(e, true) << "->" << vh::endpoint(e, false) << " control=" << e.control << "\n";
            os << "F " << ep << "select " << vh::frameDump(e.select) << "\n";
            os << "F " << ep << "guard " << bsexp(e.guard) << "\n";
            os << "F " << ep << "sync " << bsexp(e.sync) << "\n";
            os << "F " << ep << "assign " << bsexp(e.assign) << "\n";
            os << "F " << ep << "prob " << bsexp(e.prob) << "\n";
            ++ei;
        }
        ++ti;
    }
    int pi = 0;
    for (auto& p : doc.get_processes()) {
        os << "F P" << pi << " " << p.uid.get_name() << " templ=" << (p.templ ? p.templ->uid.get_name() : "NONE") << " unbound=" << p.unbound << " mapping={";
        for (uint32_t i = 0; i < p.parameters.get_size(); ++i) {
            auto it = p.mapping.find(p.parameters[i]);
            if (it != p.mapping.end()) os << " " << p.parameters[i].get_name() << "=" << bsexp(it->second);
        }
        os << " }\n";
        ++pi;
    }
    int ii = 0;
    for (auto& p : c08::DocPeek::insts(doc)) {
        os << "F I" << ii << " " << p.uid.get_name() << " unbound=" << p.unbound << " arguments=" << p.arguments << " params=" << vh::frameDump(p.parameters) << "\n";
        ++ii;
    }
}

int main(int, char**)
{
    std::ios::sync_with_stdio(false);
    std::string line;
    while (std::getline(std::cin, line)) {
        std::istringstream is(line);
        std::string id, mode, b64;
        if (!(is >> id >> mode >> b64)) continue;
        std::string input = b64dec(b64);
        std::cout << "BEGIN " << id << "\n";
        auto doc = std::make_unique<Document>();
        std::string rc;
        try {
            if (mode == "b") {
                DocumentBuilder b(*doc);
                rc = std::to_string(parse_XML_buffer(input.c_str(), &b, true));
            } else if (mode == "t") {      // the textual format: the whole file is one text, the labels recover through their error productions
                DocumentBuilder b(*doc);      // as built (no static analysis), like mode b
                rc = std::to_string(parse_XTA(input.c_str(), &b, true));
            } else {
                rc = std::to_string(parse_XML_buffer(input.c_str(), doc.get(), true));
            }
        } catch (const std::exception& e) {
            std::string n = typeid(e).name(), o;
            for (char c : n) if (!(c >= '0' && c <= '9')) o += c;
            rc = "EXC:" + o;
        }
        std::cout << "RC " << rc << "\n";
        auto w = c08::walk(*doc, false);
        for (auto& v : w.viol) std::cout << "WALK " << v << "\n";
        dumpDoc(std::cout, *doc);
        for (auto& e : doc->get_errors())
            std::cout << "E " << c08::q(e.start.path ? e.start.path->c_str() : "") << " " << e.start.line << " " << vh::quote(e.msg) << "\n";
        for (auto& e : doc->get_warnings())
            std::cout << "W " << c08::q(e.start.path ? e.start.path->c_str() : "") << " " << e.start.line << " " << vh::quote(e.msg) << "\n";
        auto anchors = [&](const char* tag, const UTAP::error_t& e) {
            std::cout << "A " << tag << " " << c08::q(e.start.path ? e.start.path->c_str() : "") << " " << e.start.line << " "
                      << c08::q(e.end.path ? e.end.path->c_str() : "") << " " << e.end.line << " " << vh::quote(e.msg) << "\n";
        };
        for (auto& e : doc->get_errors()) anchors("E", e);
        for (auto& e : doc->get_warnings()) anchors("W", e);
        std::cout << "END " << id << "\n";
        std::cout.flush();
    }
    return 0;
}
