/-
C09 — shared vocabulary of the lexer / operator-table models (core Lean only).
Characters are code points (`Nat`), tokens are indices into the generated `tokNames` table: everything the proofs
`decide` about is then plain `Nat` arithmetic.
-/
namespace UtapModel.C09

abbrev Ch := Nat
abbrev TokId := Nat

inductive Assoc | left | right | nonassoc
  deriving DecidableEq, Repr

/-- One rule of the INITIAL start condition of `src/lexer.l` (the generated table lists them in file order). -/
inductive Rule
  | lit (s : List Ch) (tok : TokId)       -- `"lit" { return TOK; }`
  | litOld (s : List Ch) (tok : TokId)    -- `"=<" { if (syntax & OLD) return TOK; utap_error("$Unknown_symbol"); return T_ERROR; }`
  | cont                                   -- `"\\"[\t ]*"\n"`   line continuation
  | lineComment                            -- `"//"[^\n]*`
  | blanks                                 -- `[ \t]+`
  | commentOpen                            -- `"/*"  { BEGIN(comment); }`
  | newlines                               -- `\n+`   (returns '\n' under PROPERTY syntax)
  | crlf                                   -- `(\r\n)+`
  | ident                                  -- `{alpha}{idchr}*`
  | num                                    -- `{num}`
  | float                                  -- `{num}("."{num})?([eE]("+"|"-")?{num})?`
  | anyChar                                -- `.`
  | string                                 -- `\"[^\"]+\"`
  deriving DecidableEq, Repr

/-- What the parser receives from `lexer_flex()`. -/
inductive Tok
  | lit (t : TokId)             -- a literal rule's token or a keyword token
  | id (s : List Ch)            -- T_ID
  | typename (s : List Ch)      -- T_TYPENAME
  | nat (n : Nat)               -- T_NAT
  | posNegMax                   -- T_POS_NEG_MAX
  | overflow                    -- yyerror("$Overflow"); T_ERROR
  | float (s : List Ch)         -- T_FLOATING (the literal text; conversion is atof's business)
  | str (s : List Ch)           -- T_CHARARR
  | unknown                     -- utap_error("$Unknown_symbol"); T_ERROR
  | newline                     -- '\n' (PROPERTY syntax only)
  | tooLong                     -- utap_error(ID_TOO_LONG), followed by the (truncated) T_ID / T_TYPENAME
  | commentNotClosed            -- <<EOF>> inside a comment: yyerror("$Comment_not_closed"); return 0
  | expect (s : List Ch)        -- ch->handle_expect(text) -- a callback, not a token (kept to make the quirk visible)
  deriving DecidableEq, Repr

end UtapModel.C09
