/- drv_c11: line-protocol driver of the side-effect analysis model (property C11); see Drv/C11Lib.lean. -/
import UtapModel.Drv.C11Lib
def main : IO Unit := UtapModel.EffectDrv.driverMain
