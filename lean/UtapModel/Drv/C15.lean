/- stub: line-protocol driver for C15 (to be written) -/
def main : IO Unit := pure ()
