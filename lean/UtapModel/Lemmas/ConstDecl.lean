/- Helper lemmas about the declaration-elaboration model (`Model/ConstDecl.lean`) for property C12. -/
import UtapModel.Model.ConstDecl
import UtapModel.Lemmas.Const

namespace UtapModel.Const
open UtapModel UtapModel.ConstGen

/-! ### facts about the generated builder tables (finite, complete) -/

theorem appliesPrefix_all : ∀ cb, appliesPrefix cb = true := by
  intro cb; cases cb <;> decide

theorem prefixKinds_const : prefixKinds .const = [.kCONSTANT] := by decide

theorem prefixKinds_wrappers : ∀ p, ∀ k ∈ prefixKinds p, wrapperKinds.contains k = true := by
  intro p; cases p <;> decide

theorem prefixKinds_good : ∀ p, p ≠ .const → ∀ k ∈ prefixKinds p, nonMutableKinds.contains k = false := by
  intro p; cases p <;> decide

theorem refParamKinds_wrappers : ∀ k ∈ refParamKinds, wrapperKinds.contains k = true := by decide

theorem refParamKinds_good : ∀ k ∈ refParamKinds, nonMutableKinds.contains k = false := by decide

/-! ### `constDeclared` through the constructors the builder uses -/

theorem constDeclared_createPrefix (t : Ty) (k : Kind) (hk : wrapperKinds.contains k = true) (h : t.constDeclared = true) :
    (t.createPrefix k).constDeclared = true := by
  simp only [Ty.createPrefix, Ty.constDeclared, Children.constDeclared0, h, hk, Bool.and_self, Bool.or_true]

theorem constDeclared_wrapKinds : ∀ (ks : List Kind) (t : Ty), (∀ k ∈ ks, wrapperKinds.contains k = true) →
    t.constDeclared = true → (wrapKinds ks t).constDeclared = true
  | [], t, _, h => by simpa [wrapKinds] using h
  | k :: ks, t, hk, h => by
    have h1 := constDeclared_createPrefix t k (hk k (by simp)) h
    have := constDeclared_wrapKinds ks (t.createPrefix k) (fun k' hk' => hk k' (by simp [hk'])) h1
    simpa [wrapKinds] using this

theorem constDeclared_applyPrefix (p : Prefix) (t : Ty) (h : t.constDeclared = true) :
    (applyPrefix p t).constDeclared = true :=
  constDeclared_wrapKinds _ t (prefixKinds_wrappers p) h

theorem constDeclared_applyPrefix_const (t : Ty) : (applyPrefix .const t).constDeclared = true := by
  simp [applyPrefix, prefixKinds_const, wrapKinds, Ty.createPrefix, Ty.constDeclared]

theorem constDeclared_viaCallback (cb : TypeCallback) (p : Prefix) (t : Ty) (h : t.constDeclared = true) :
    (viaCallback cb p t).constDeclared = true := by
  simp only [viaCallback, appliesPrefix_all cb, if_true]; exact constDeclared_applyPrefix p t h

theorem constDeclared_viaCallback_const (cb : TypeCallback) (t : Ty) : (viaCallback cb .const t).constDeclared = true := by
  simp only [viaCallback, appliesPrefix_all cb, if_true]; exact constDeclared_applyPrefix_const t

theorem constDeclared_createLabel (t : Ty) (n : String) (h : t.constDeclared = true) : (t.createLabel n).constDeclared = true := by
  simp [Ty.createLabel, Ty.constDeclared, Children.constDeclared0, h, wrapperKinds]

/-! ### `clean` through the constructors the builder uses -/

theorem clean_createPrefix (t : Ty) (k : Kind) (hk : nonMutableKinds.contains k = false) (h : t.clean = true) :
    (t.createPrefix k).clean = true := by
  simp only [Ty.clean] at h ⊢
  simp only [Ty.createPrefix, Ty.noneOf, Children.noneOf, h, hk, Bool.not_false, Bool.and_self]

theorem clean_wrapKinds : ∀ (ks : List Kind) (t : Ty), (∀ k ∈ ks, nonMutableKinds.contains k = false) →
    t.clean = true → (wrapKinds ks t).clean = true
  | [], t, _, h => by simpa [wrapKinds] using h
  | k :: ks, t, hk, h => by
    have h1 := clean_createPrefix t k (hk k (by simp)) h
    have := clean_wrapKinds ks (t.createPrefix k) (fun k' hk' => hk k' (by simp [hk'])) h1
    simpa [wrapKinds] using this

theorem clean_viaCallback (cb : TypeCallback) (p : Prefix) (t : Ty) (hp : p ≠ .const) (h : t.clean = true) :
    (viaCallback cb p t).clean = true := by
  simp only [viaCallback, appliesPrefix_all cb, if_true]
  exact clean_wrapKinds _ t (prefixKinds_good p hp) h

theorem clean_createLabel (t : Ty) (n : String) (h : t.clean = true) : (t.createLabel n).clean = true := by
  have hk : nonMutableKinds.contains Kind.kLABEL = false := by decide
  simp only [Ty.clean] at h ⊢
  simp only [Ty.createLabel, Ty.noneOf, Children.noneOf, h, hk, Bool.not_false, Bool.and_self]

theorem clean_createRange (t : Ty) (h : t.clean = true) : t.createRange.clean = true := by
  have hk : nonMutableKinds.contains Kind.kRANGE = false := by decide
  have hu : nonMutableKinds.contains Kind.kUNKNOWN = false := by decide
  simp only [Ty.clean] at h ⊢
  simp only [Ty.createRange, Ty.unknown, Ty.noneOf, Children.noneOf, h, hk, hu, Bool.not_false, Bool.and_self]

theorem clean_rangeInt : rangeInt.clean = true := by decide

end UtapModel.Const
