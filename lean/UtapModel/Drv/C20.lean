/- stub: line-protocol driver for C20 (to be written) -/
def main : IO Unit := pure ()
