// C01, part B (runtime part): sanitizer runner for the fuzz / enumeration stream of checks/c01_stream.py.
//
//   c01 batch <batchfile> <scratchdir> <cpu_base_ms> <cpu_us_per_byte> <mult>
//
// batch file: one input per line
//   <id> <entry> <newxta 0|1> <builder> <part> <ctx_b64|-> <input_b64|->
//     entry   : xmlbuf | xmlfile | xta | prop | part (in the builder context the XML reader sets up) | partraw (fresh builder)
//     builder : doc | tiga | pretty
//     part    : name of an xta_part_t value (only read when entry == part), else "-"
//     ctx     : doc + xta: a text parsed by an EARLIER parse_XTA call of the same process (own Document)
//               doc/pretty + part: global declarations parsed first (the XML reader would have parsed the enclosing
//               <declaration>); tiga: the model (XML if it starts with '<', else XTA) the queries are parsed against
// Every input runs in a forked child (a crash identifies its input) under a CPU-time budget
// (cpu_base_ms + cpu_us_per_byte*len)*mult [ITIMER_PROF; robust on a loaded machine], a wall-clock back stop
// (25x that + 60 s) [ITIMER_REAL] and a cap on its resident set of 2 GB + 4 KB per input byte [looked at every 20 ms of
// CPU time, ITIMER_VIRTUAL; RLIMIT_AS cannot be used: the sanitizer reserves terabytes of address space].  The child
// that exceeds the cap prints `==C01-MEMORY-LIMIT== rss_mb=.. cap_mb=..` and its stack and exits with 78, so that an
// input whose processing needs memory out of proportion to its size costs at most the cap.
// One canonical line per input on stdout:
//   <id> ok <detail> wall_ms cpu_ms
//   <id> exception:<class> <detail> wall_ms cpu_ms             (anything derived from std::exception: PASS)
//   <id> nonstd-exception - wall_ms cpu_ms                      (FAIL)
//   <id> timeout:<cpu|wall> <b64 of 30 stack samples taken at the time out> wall_ms cpu_ms
//                                                               (FAIL after the 5x re-run of the python side)
//   <id> crash:<exit|signal>:<n> <b64 of child's stderr (sanitizer report)> wall_ms cpu_ms   (FAIL)
// The python side extracts the key (top UTAP frame) from the raw report (module+offset frames, symbolised in bulk).
#include "common.hpp"
#include "utap/prettyprinter.h"

#include <libxml/xmlerror.h>

#include <cxxabi.h>
#include <fcntl.h>
#include <signal.h>
#include <sys/resource.h>
#include <sys/time.h>
#include <sys/wait.h>
#include <typeinfo>
#include <unistd.h>

using namespace UTAP;
using namespace UTAP::Constants;

// ---------------------------------------------------------------------------------------------- helpers
static std::string b64dec(const std::string& s)
{
    static int T[256];
    static bool init = false;
    if (!init) {
        for (int i = 0; i < 256; ++i) T[i] = -1;
        const char* a = "ABCDEFGHIJKLMNOPQRSTUVWXYZabcdefghijklmnopqrstuvwxyz0123456789+/";
        for (int i = 0; i < 64; ++i) T[(unsigned char)a[i]] = i;
        init = true;
    }
    std::string o;
    o.reserve(s.size() * 3 / 4);
    unsigned val = 0;
    int bits = -8;
    for (unsigned char c : s) {
        if (T[c] < 0) continue;
        val = (val << 6) | (unsigned)T[c];
        bits += 6;
        if (bits >= 0) {
            o.push_back(char((val >> bits) & 0xFF));
            bits -= 8;
        }
    }
    return o;
}

static std::string b64enc(const std::string& s)
{
    static const char* a = "ABCDEFGHIJKLMNOPQRSTUVWXYZabcdefghijklmnopqrstuvwxyz0123456789+/";
    std::string o;
    size_t i = 0;
    for (; i + 2 < s.size(); i += 3) {
        unsigned v = ((unsigned char)s[i] << 16) | ((unsigned char)s[i + 1] << 8) | (unsigned char)s[i + 2];
        o += a[(v >> 18) & 63]; o += a[(v >> 12) & 63]; o += a[(v >> 6) & 63]; o += a[v & 63];
    }
    if (i + 1 == s.size()) {
        unsigned v = ((unsigned char)s[i] << 16);
        o += a[(v >> 18) & 63]; o += a[(v >> 12) & 63]; o += "==";
    } else if (i + 2 == s.size()) {
        unsigned v = ((unsigned char)s[i] << 16) | ((unsigned char)s[i + 1] << 8);
        o += a[(v >> 18) & 63]; o += a[(v >> 12) & 63]; o += a[(v >> 6) & 63]; o += "=";
    }
    return o;
}

static std::string className(const std::exception& e)
{
    int st = 0;
    char* d = abi::__cxa_demangle(typeid(e).name(), nullptr, nullptr, &st);
    std::string r = (st == 0 && d) ? d : typeid(e).name();
    free(d);
    for (auto& c : r)
        if (c == ' ') c = '_';
    return r;
}

static double nowMs()
{
    timespec ts;
    clock_gettime(CLOCK_MONOTONIC, &ts);
    return ts.tv_sec * 1e3 + ts.tv_nsec / 1e6;
}

static void silentXml(void*, const char*, ...) {}

static const std::map<std::string, xta_part_t>& partMap()
{
    static const std::map<std::string, xta_part_t> m = {
        {"S_XTA", S_XTA}, {"S_DECLARATION", S_DECLARATION}, {"S_LOCAL_DECL", S_LOCAL_DECL}, {"S_INST", S_INST},
        {"S_SYSTEM", S_SYSTEM}, {"S_PARAMETERS", S_PARAMETERS}, {"S_INVARIANT", S_INVARIANT},
        {"S_EXPONENTIAL_RATE", S_EXPONENTIAL_RATE}, {"S_SELECT", S_SELECT}, {"S_GUARD", S_GUARD}, {"S_SYNC", S_SYNC},
        {"S_ASSIGN", S_ASSIGN}, {"S_EXPRESSION", S_EXPRESSION}, {"S_EXPRESSION_LIST", S_EXPRESSION_LIST},
        {"S_PROPERTY", S_PROPERTY}, {"S_XTA_PROCESS", S_XTA_PROCESS}, {"S_PROBABILITY", S_PROBABILITY},
        {"S_INSTANCE_LINE", S_INSTANCE_LINE}, {"S_MESSAGE", S_MESSAGE}, {"S_UPDATE", S_UPDATE}, {"S_CONDITION", S_CONDITION}};
    return m;
}

// ---------------------------------------------------------------------------------------------- one guarded call
struct Job
{
    std::string id, entry, builder, part, ctx, input;
    bool newxta = true;
};

struct Detail
{
    int rc = 0, nerr = -1, nwarn = -1, nq = 0, nprop = 0;
    size_t outBytes = 0;
    std::string str() const
    {
        std::ostringstream os;
        os << "rc=" << rc << ",err=" << nerr << ",warn=" << nwarn << ",q=" << nq << ",props=" << nprop << ",out=" << outBytes;
        return os.str();
    }
};

static size_t touchDiags(const Document& doc, Detail& d)
{
    size_t n = 0;
    d.nerr = (int)doc.get_errors().size();
    d.nwarn = (int)doc.get_warnings().size();
    for (auto* v : {&doc.get_errors(), &doc.get_warnings()})
        for (auto& e : *v) {
            n += e.msg.size() + e.context.size() + e.start.line + e.end.line + e.position.start + e.position.end;
            if (e.start.path) n += e.start.path->size();
            if (e.end.path) n += e.end.path->size();
        }
    auto& sm = doc.get_supported_methods();
    n += sm.symbolic + 2 * sm.stochastic + 4 * sm.concrete;
    return n;
}

static size_t touchProps(const PropertyBuilder& pb, Detail& d)
{
    size_t n = 0;
    for (auto& p : pb.getProperties()) {
        ++d.nprop;
        n += (size_t)p.type + p.line + p.no + p.options.size() + p.declaration.size() + p.subjections.size();
        if (!p.intermediate.empty()) n += p.intermediate.get_size() + (size_t)p.intermediate.get_kind();
    }
    return n;
}

/// the queries stored in a successfully parsed document, parsed the way a front end does it
static size_t runQueries(Document& doc, Detail& d)
{
    size_t n = 0;
    if (doc.has_errors()) return 0;
    TigaPropertyBuilder tb(doc);
    for (auto& q : doc.get_queries()) {
        ++d.nq;
        n += q.comment.size() + q.options.size() + q.expectation.value.size() + q.expectation.resources.size() +
             (size_t)q.expectation.status + (size_t)q.expectation.value_type;
        tb.parse(q.formula.c_str(), q.location, q.options);  // an exception ends the guarded call (PASS)
    }
    n += touchProps(tb, d);
    n += touchDiags(doc, d);
    return n;
}

template <class F>
static void guardedCb(ParserBuilder* pb, F f)
{
    try {
        f();
    } catch (TypeException& e) {  // exactly what XMLReader does around its callbacks
        pb->handle_error(e);
    }
}

/// parse `text` as `part` in the builder context the XML reader establishes before it parses such a block
static int parsePartInContext(ParserBuilder* pb, const std::string& text, bool newxta, xta_part_t part, bool withContext)
{
    int rc = 0;
    auto P = [&](const std::string& s, xta_part_t p) { return parse_XTA(s.c_str(), pb, newxta, p, "/nta/verif"); };
    if (!withContext) return P(text, part);
    switch (part) {
    case S_XTA:
    case S_DECLARATION:
    case S_INST:
    case S_SYSTEM:
    case S_EXPRESSION:
    case S_EXPRESSION_LIST:
    case S_PROPERTY:
    case S_XTA_PROCESS: rc = P(text, part); break;
    case S_PARAMETERS:
        guardedCb(pb, [&] {
            rc = P(text, part);
            pb->proc_begin("VT");
            pb->proc_location("L0", false, false);
            pb->proc_location_init("L0");
            pb->proc_end();
        });
        break;
    case S_LOCAL_DECL:
        guardedCb(pb, [&] {
            pb->proc_begin("VT");
            rc = P(text, part);
            pb->proc_location("L0", false, false);
            pb->proc_location_init("L0");
            pb->proc_end();
        });
        break;
    case S_INVARIANT:
    case S_EXPONENTIAL_RATE:
        guardedCb(pb, [&] {
            pb->proc_begin("VT");
            guardedCb(pb, [&] {
                rc = P(text, part);
                pb->proc_location("L0", rc == 0 && part == S_INVARIANT, rc == 0 && part == S_EXPONENTIAL_RATE);
            });
            pb->proc_location_init("L0");
            pb->proc_end();
        });
        break;
    case S_SELECT:
    case S_GUARD:
    case S_SYNC:
    case S_ASSIGN:
    case S_PROBABILITY:
        guardedCb(pb, [&] {
            pb->proc_begin("VT");
            guardedCb(pb, [&] { pb->proc_location("L0", false, false); });
            guardedCb(pb, [&] { pb->proc_location("L1", false, false); });
            guardedCb(pb, [&] { pb->proc_branchpoint("_b0"); });
            guardedCb(pb, [&] { pb->proc_location_init("L0"); });
            guardedCb(pb, [&] {
                const char* from = part == S_PROBABILITY ? "_b0" : "L0";
                pb->proc_edge_begin(from, "L1", true, "SKIP");
                rc = P(text, part);
                pb->proc_edge_end(from, "L1");
            });
            pb->proc_end();
        });
        break;
    case S_INSTANCE_LINE:
    case S_MESSAGE:
    case S_UPDATE:
    case S_CONDITION:
        guardedCb(pb, [&] {
            pb->proc_begin("VL", false, "universal", "invariant");
            if (part == S_INSTANCE_LINE) {
                guardedCb(pb, [&] {
                    pb->proc_instance_line();
                    rc = P(text, part);
                });
            } else {
                guardedCb(pb, [&] {
                    pb->proc_instance_line();
                    P("IA", S_INSTANCE_LINE);
                });
                guardedCb(pb, [&] {
                    pb->proc_instance_line();
                    P("IB", S_INSTANCE_LINE);
                });
                pb->prechart_set(false);
                guardedCb(pb, [&] {
                    if (part == S_MESSAGE)
                        pb->proc_message("IA", "IB", 1, false);
                    else if (part == S_CONDITION)
                        pb->proc_condition(std::vector<std::string>{"IA"}, 1, false, true);
                    else
                        pb->proc_LSC_update("IA", 1, false);
                    rc = P(text, part);
                });
            }
            pb->proc_end();
        });
        break;
    }
    guardedCb(pb, [&] { pb->done(); });
    return rc;
}

static std::string scratchFile;

static void runJob(const Job& j, Detail& d)
{
    const char* buf = j.input.c_str();
    const bool nx = j.newxta;
    volatile size_t sink = 0;
    auto writeFile = [&] {
        int fd = open(scratchFile.c_str(), O_WRONLY | O_CREAT | O_TRUNC, 0600);
        if (fd < 0) throw std::runtime_error("harness: cannot write scratch file");
        size_t off = 0;
        while (off < j.input.size()) {
            ssize_t w = write(fd, j.input.data() + off, j.input.size() - off);
            if (w <= 0) break;
            off += (size_t)w;
        }
        close(fd);
    };
    xta_part_t part = S_XTA;
    const bool raw = j.entry == "partraw";  // parse_XTA(str, builder, newxta, part, xpath) on a fresh builder, no context calls
    if (j.entry == "part" || raw) {
        auto it = partMap().find(j.part);
        if (it == partMap().end()) throw std::runtime_error("harness: unknown part " + j.part);
        part = it->second;
    }
    if (j.builder == "doc" || (j.builder == "tiga" && (j.entry == "xmlbuf" || j.entry == "xmlfile"))) {
        Document doc;
        if (j.entry == "xmlbuf") {
            d.rc = parse_XML_buffer(buf, &doc, nx);
            sink += touchDiags(doc, d);
            if (d.rc == 0) sink += runQueries(doc, d);
        } else if (j.entry == "xmlfile") {
            writeFile();
            d.rc = parse_XML_file(scratchFile.c_str(), &doc, nx);
            sink += touchDiags(doc, d);
            if (d.rc == 0) sink += runQueries(doc, d);
        } else if (j.entry == "xta") {
            if (!j.ctx.empty()) {
                // an EARLIER call of the same process, on a Document of its own (whatever it leaves behind in the parser's and the
                // lexer's file-scope state is what the call under test starts from)
                Document earlier;
                try {
                    parse_XTA(j.ctx.c_str(), &earlier, nx);
                } catch (const std::exception&) {
                }
            }
            d.rc = parse_XTA(buf, &doc, nx) ? 0 : 1;
            sink += touchDiags(doc, d);
            sink += runQueries(doc, d);
        } else if (j.entry == "prop") {
            DocumentBuilder b(doc);
            d.rc = parseProperty(buf, &b);
            sink += touchDiags(doc, d);
        } else {
            DocumentBuilder b(doc);
            if (nx) parse_XTA(utap_builtin_declarations(), &b, nx, S_DECLARATION, "");
            if (!j.ctx.empty()) parse_XTA(j.ctx.c_str(), &b, nx, S_DECLARATION, "/nta/declaration");
            d.rc = parsePartInContext(&b, j.input, nx, part, !raw);
            if (!doc.has_errors()) {  // what static_analysis() of typechecker.cpp does
                TypeChecker checker{doc};
                doc.accept(checker);
                FeatureChecker fchecker{doc};
                doc.set_supported_methods(fchecker.get_supported_methods());
            }
            sink += touchDiags(doc, d);
        }
    } else if (j.builder == "pretty") {
        std::ostringstream os;
        {
            PrettyPrinter pp(os);
            if (j.entry == "xmlbuf")
                d.rc = parse_XML_buffer(buf, &pp, nx);
            else if (j.entry == "xmlfile") {
                writeFile();
                d.rc = parse_XML_file(scratchFile.c_str(), &pp, nx);
            } else if (j.entry == "xta")
                d.rc = parse_XTA(buf, &pp, nx);
            else if (j.entry == "prop")
                d.rc = parseProperty(buf, &pp);
            else {
                if (!j.ctx.empty()) parse_XTA(j.ctx.c_str(), &pp, nx, S_DECLARATION, "");
                d.rc = parsePartInContext(&pp, j.input, nx, part, !raw);
            }
        }
        d.outBytes = os.str().size();
    } else if (j.builder == "tiga") {
        Document doc;
        if (!j.ctx.empty()) {
            if (j.ctx[0] == '<')
                parse_XML_buffer(j.ctx.c_str(), &doc, nx);
            else
                parse_XTA(j.ctx.c_str(), &doc, nx);
        }
        if (doc.has_errors()) throw std::runtime_error("harness: context model of a tiga job has errors");
        TigaPropertyBuilder tb(doc);
        if (j.entry == "prop")
            d.rc = parseProperty(buf, &tb);
        else if (j.entry == "xta")
            d.rc = parse_XTA(buf, &tb, nx);
        else
            d.rc = parse_XTA(buf, &tb, nx, part, "");
        sink += touchProps(tb, d);
        sink += touchDiags(doc, d);
    } else
        throw std::runtime_error("harness: unknown builder " + j.builder);
    (void)sink;
}

// ---------------------------------------------------------------------------------------------- batch driver
extern "C" void __sanitizer_print_stack_trace(void);

static void setTimer(int which, double ms);
static volatile sig_atomic_t profCount = 0;

/// CPU budget exhausted: print 30 stack samples 8 ms (CPU) apart, then exit(79).  The python side keys the hang by the
/// deepest libutap frame that is on the stack in >= 90% of the samples.
static void onProf(int)
{
    const char* m = "\n==C01-TIMEOUT-SAMPLE==\n";
    if (write(2, m, strlen(m)) < 0) {}
    if (profCount == 0) setTimer(ITIMER_REAL, 15000);  // back stop if printing dead-locks
    __sanitizer_print_stack_trace();
    if (++profCount < 30) {
        setTimer(ITIMER_PROF, 8);
        return;
    }
    _exit(79);
}

static long rssCapMb = 0;

/// every 20 ms of CPU time: the resident set (second field of /proc/self/statm, in pages) against the cap of this input
static void onVtalrm(int)
{
    char buf[128];
    int fd = open("/proc/self/statm", O_RDONLY);
    if (fd < 0) return;
    ssize_t n = read(fd, buf, sizeof buf - 1);
    close(fd);
    if (n <= 0) return;
    buf[n] = 0;
    const char* p = buf;
    while (*p && *p != ' ') ++p;
    long pages = atol(p);
    long mb = pages / (1048576 / sysconf(_SC_PAGESIZE));
    if (rssCapMb <= 0 || mb <= rssCapMb) return;
    char msg[96];
    int len = snprintf(msg, sizeof msg, "\n==C01-MEMORY-LIMIT== rss_mb=%ld cap_mb=%ld\n", mb, rssCapMb);
    if (write(2, msg, (size_t)len) < 0) {}
    setTimer(ITIMER_REAL, 15000);  // back stop if printing dead-locks
    __sanitizer_print_stack_trace();
    _exit(78);
}

static void setTimer(int which, double ms)
{
    itimerval it{};
    it.it_value.tv_sec = (time_t)(ms / 1000);
    it.it_value.tv_usec = (suseconds_t)((ms - it.it_value.tv_sec * 1000.0) * 1000);
    if (it.it_value.tv_sec == 0 && it.it_value.tv_usec == 0) it.it_value.tv_usec = 1000;
    setitimer(which, &it, nullptr);
}

int main(int argc, char** argv)
{
    if (argc < 7 || std::string(argv[1]) != "batch") {
        std::cerr << "usage: c01 batch <batchfile> <scratchdir> <cpu_base_ms> <cpu_us_per_byte> <mult>\n";
        return 2;
    }
    std::string batch = argv[2], scratch = argv[3];
    double baseMs = atof(argv[4]), usPerByte = atof(argv[5]), mult = atof(argv[6]);
    rlimit rl{};
    getrlimit(RLIMIT_STACK, &rl);
    if (rl.rlim_cur != (8u << 20) && (rl.rlim_max == RLIM_INFINITY || rl.rlim_max >= (8u << 20))) {  // the default 8 MB
        rl.rlim_cur = 8u << 20;
        setrlimit(RLIMIT_STACK, &rl);
    }
    rlimit core{0, 0};
    setrlimit(RLIMIT_CORE, &core);
    xmlSetGenericErrorFunc(nullptr, silentXml);
    scratchFile = scratch + "/in-" + std::to_string(getpid()) + ".xml";
    std::string errPath = scratch + "/err-" + std::to_string(getpid()) + ".txt";
    int errfd = open(errPath.c_str(), O_RDWR | O_CREAT | O_TRUNC, 0600);
    if (errfd < 0) {
        std::cerr << "cannot open " << errPath << "\n";
        return 2;
    }
    std::ifstream in(batch);
    if (!in) {
        std::cerr << "cannot read " << batch << "\n";
        return 2;
    }
    std::cout << "#c01 stack=" << (unsigned long long)rl.rlim_cur << "\n";
    std::string line;
    while (std::getline(in, line)) {
        if (line.empty() || line[0] == '#') continue;
        std::istringstream ls(line);
        Job j;
        std::string nx, ctx, inp;
        ls >> j.id >> j.entry >> nx >> j.builder >> j.part >> ctx >> inp;
        j.newxta = nx == "1";
        if (ctx != "-") j.ctx = b64dec(ctx);
        if (inp != "-") j.input = b64dec(inp);
        double cpuMs = (baseMs + usPerByte * (double)(j.input.size() + j.ctx.size()) / 1000.0) * mult;
        double wallMs = 25 * cpuMs + 60000;  // only for calls that block without using CPU; generous: the box may be loaded
        if (ftruncate(errfd, 0) != 0) {}
        lseek(errfd, 0, SEEK_SET);
        int pfd[2];
        if (pipe(pfd) != 0) return 3;
        std::cout.flush();
        double t0 = nowMs();
        pid_t pid = fork();
        if (pid < 0) return 3;
        if (pid == 0) {
            close(pfd[0]);
            dup2(errfd, 2);
            signal(SIGPROF, onProf);
            setTimer(ITIMER_PROF, cpuMs);
            setTimer(ITIMER_REAL, wallMs);
            rssCapMb = 2048 + (long)((j.input.size() + j.ctx.size()) / 256);   // 4 KB per input byte
            signal(SIGVTALRM, onVtalrm);
            itimerval every{};
            every.it_interval.tv_usec = every.it_value.tv_usec = 20000;
            setitimer(ITIMER_VIRTUAL, &every, nullptr);
            std::string out;
            Detail d;
            try {
                runJob(j, d);
                out = "ok " + d.str();
            } catch (std::exception& e) {
                out = "exception:" + className(e) + " " + d.str();
            } catch (...) {
                out = "nonstd-exception -";
            }
            out += "\n";
            if (write(pfd[1], out.data(), out.size()) < 0) {}
            _exit(0);
        }
        close(pfd[1]);
        std::string res;
        char tmp[4096];
        ssize_t n;
        while ((n = read(pfd[0], tmp, sizeof tmp)) > 0) res.append(tmp, (size_t)n);
        close(pfd[0]);
        int st = 0;
        rusage ru{};
        wait4(pid, &st, 0, &ru);
        double wall = nowMs() - t0;
        double cpu = ru.ru_utime.tv_sec * 1e3 + ru.ru_utime.tv_usec / 1e3 + ru.ru_stime.tv_sec * 1e3 + ru.ru_stime.tv_usec / 1e3;
        while (!res.empty() && (res.back() == '\n' || res.back() == '\r')) res.pop_back();
        std::string outcome;
        const bool cpuTimeout = (WIFEXITED(st) && WEXITSTATUS(st) == 79) ||
                                (WIFSIGNALED(st) && (WTERMSIG(st) == SIGPROF || WTERMSIG(st) == SIGXCPU));
        const bool wallTimeout = WIFSIGNALED(st) && WTERMSIG(st) == SIGALRM;
        if (WIFEXITED(st) && WEXITSTATUS(st) == 0 && !res.empty())
            outcome = res;
        else {
            std::string rep;
            off_t sz = lseek(errfd, 0, SEEK_END);
            size_t want = (size_t)std::min<off_t>(sz, (cpuTimeout || wallTimeout) ? 256 * 1024 : 48 * 1024);
            lseek(errfd, (cpuTimeout || wallTimeout) ? sz - (off_t)want : 0, SEEK_SET);  // samples are at the end
            rep.resize(want);
            size_t got = 0;
            while (got < want) {
                ssize_t r = read(errfd, &rep[got], want - got);
                if (r <= 0) break;
                got += (size_t)r;
            }
            rep.resize(got);
            std::ostringstream os;
            if (cpuTimeout)
                os << "timeout:cpu";
            else if (wallTimeout)
                os << "timeout:wall";
            else if (WIFSIGNALED(st))
                os << "crash:signal:" << WTERMSIG(st);
            else
                os << "crash:exit:" << WEXITSTATUS(st);
            os << " " << (rep.empty() ? std::string("-") : b64enc(rep));
            outcome = os.str();
        }
        std::cout << j.id << " " << outcome << " " << (long)wall << " " << (long)cpu << "\n";
        std::cout.flush();
    }
    close(errfd);
    unlink(errPath.c_str());
    unlink(scratchFile.c_str());
    return 0;
}
