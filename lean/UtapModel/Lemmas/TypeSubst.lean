/- Lemmas about substitution in expressions and types (Model/TypeSubst.lean). -/
import UtapModel.Model.TypeSubst

namespace UtapModel.TypeSubst

theorem substE_self (s : Nat) (t : E) : substE s (.id s) t = t := by
  induction t with
  | id x => simp only [substE]; split <;> simp_all
  | atom k => rfl
  | app f a ihf iha => simp only [substE, ihf, iha]

theorem substT_self (s : Nat) (t : T) : substT s (.id s) t = t := by
  induction t with
  | prim k => rfl
  | withExpr t e ih => simp only [substT, ih, substE_self]
  | child t l c iht ihc => simp only [substT, iht, ihc]

theorem substE_notocc (s : Nat) (e t : E) (h : occE s t = false) : substE s e t = t := by
  induction t with
  | id x =>
    simp only [occE, beq_eq_false_iff_ne, ne_eq] at h
    simp only [substE, h, if_false]
  | atom k => rfl
  | app f a ihf iha =>
    simp only [occE, Bool.or_eq_false_iff] at h
    simp only [substE, ihf h.1, iha h.2]

theorem substT_notocc (s : Nat) (e : E) (t : T) (h : occT s t = false) : substT s e t = t := by
  induction t with
  | prim k => rfl
  | withExpr t x ih =>
    simp only [occT, Bool.or_eq_false_iff] at h
    simp only [substT, ih h.1, substE_notocc s e x h.2]
  | child t l c iht ihc =>
    simp only [occT, Bool.or_eq_false_iff] at h
    simp only [substT, iht h.1, ihc h.2]

/-- which identifiers occur after a substitution: the old ones except `s`, and those of `e` if `s` occurred -/
theorem occE_subst (x s : Nat) (e t : E) : occE x (substE s e t) = ((x != s && occE x t) || (occE s t && occE x e)) := by
  induction t with
  | id y =>
    by_cases hy : y = s
    · subst hy
      by_cases hx : y = x
      · subst hx; simp [substE, occE]
      · have h1 : (y == x) = false := by simp [hx]
        simp [substE, occE, h1]
    · have h0 : (y == s) = false := by simp [hy]
      by_cases hx : y = x
      · subst hx
        have : (y != s) = true := by simp [bne_iff_ne, hy]
        simp [substE, occE, hy, h0, this]
      · have h1 : (y == x) = false := by simp [hx]
        simp [substE, occE, hy, h0, h1]
  | atom k => simp [substE, occE]
  | app f a ihf iha =>
    simp only [substE, occE, ihf, iha]
    cases (x != s) <;> cases occE x f <;> cases occE x a <;> cases occE s f <;> cases occE s a <;> cases occE x e <;> rfl

theorem occT_subst (x s : Nat) (e : E) (t : T) : occT x (substT s e t) = ((x != s && occT x t) || (occT s t && occE x e)) := by
  induction t with
  | prim k => simp [substT, occT]
  | withExpr t y ih =>
    simp only [substT, occT, ih, occE_subst]
    cases (x != s) <;> cases occT x t <;> cases occE x y <;> cases occT s t <;> cases occE s y <;> cases occE x e <;> rfl
  | child t l c iht ihc =>
    simp only [substT, occT, iht, ihc]
    cases (x != s) <;> cases occT x t <;> cases occT x c <;> cases occT s t <;> cases occT s c <;> cases occE x e <;> rfl

/-- two substitutions of different symbols commute when neither argument mentions the other symbol -/
theorem substE_comm (s1 s2 : Nat) (e1 e2 t : E) (hne : s1 ≠ s2) (h1 : occE s1 e2 = false) (h2 : occE s2 e1 = false) :
    substE s1 e1 (substE s2 e2 t) = substE s2 e2 (substE s1 e1 t) := by
  induction t with
  | id x =>
    by_cases hx2 : x = s2
    · subst hx2
      have : ¬ x = s1 := fun h => hne h.symm
      simp only [substE, if_true, this, if_false, substE_notocc s1 e1 e2 h1]
    · by_cases hx1 : x = s1
      · subst hx1
        simp only [substE, hx2, if_false, if_true, substE_notocc s2 e2 e1 h2]
      · simp only [substE, hx2, hx1, if_false]
  | atom k => rfl
  | app f a ihf iha => simp only [substE, ihf, iha]

theorem substT_comm (s1 s2 : Nat) (e1 e2 : E) (t : T) (hne : s1 ≠ s2) (h1 : occE s1 e2 = false) (h2 : occE s2 e1 = false) :
    substT s1 e1 (substT s2 e2 t) = substT s2 e2 (substT s1 e1 t) := by
  induction t with
  | prim k => rfl
  | withExpr t x ih => simp only [substT, ih, substE_comm s1 s2 e1 e2 x hne h1 h2]
  | child t l c iht ihc => simp only [substT, iht, ihc]

theorem isKey_iff (m : List (Nat × E)) (x : Nat) : isKey m x = true ↔ x ∈ m.map (·.1) := by
  simp only [isKey, List.any_eq_true, beq_iff_eq, List.mem_map]

/-- the arguments of the mapping depend on each other without a cycle: `r` ranks the mapped symbols so that an argument only mentions
    mapped symbols of smaller rank (the parameters bound by LATER instantiation steps) -/
def Acyclic (m : List (Nat × E)) (r : Nat → Nat) : Prop :=
  ∀ p ∈ m, ∀ x, isKey m x = true → occE x p.2 = true → r x < r p.1

/-- every mapped symbol that occurs in `t` has rank below `M` -/
def Below (m : List (Nat × E)) (r : Nat → Nat) (M : Nat) (t : T) : Prop :=
  ∀ x, isKey m x = true → occT x t = true → r x < M

theorem below_subst {m r M t} (hac : Acyclic m r) (p : Nat × E) (hp : p ∈ m) (hB : Below m r M t) : Below m r M (substT p.1 p.2 t) := by
  intro x hk ho
  rw [occT_subst] at ho
  simp only [Bool.or_eq_true, Bool.and_eq_true] at ho
  cases ho with
  | inl h => exact hB x hk h.2
  | inr h =>
    have hs : isKey m p.1 = true := (isKey_iff m p.1).2 (List.mem_map.2 ⟨p, hp, rfl⟩)
    exact Nat.lt_trans (hac p hp x hk h.2) (hB p.1 hs h.1)

/-- one round, whatever the order of the pairs: the greatest rank that still occurs goes down by one -/
theorem fold_lowers {m r M} (hac : Acyclic m r) :
    ∀ (l : List (Nat × E)), (∀ p ∈ l, p ∈ m) → ∀ t, Below m r (M + 1) t →
      (∀ x, isKey m x = true → occT x t = true → r x = M → x ∈ l.map (·.1)) →
      Below m r M (l.foldl (fun t p => substT p.1 p.2 t) t) := by
  intro l
  induction l with
  | nil =>
    intro _ t hB hM x hk ho
    have h1 := hB x hk ho
    have h2 : r x ≠ M := fun h => by have := hM x hk ho h; simp at this
    omega
  | cons p l ih =>
    intro hl t hB hM
    simp only [List.foldl_cons]
    have hpm : p ∈ m := hl p (List.mem_cons_self ..)
    apply ih (fun q hq => hl q (List.mem_cons_of_mem _ hq)) _ (below_subst hac p hpm hB)
    intro x hk ho hr
    rw [occT_subst] at ho
    simp only [Bool.or_eq_true, Bool.and_eq_true, bne_iff_ne, ne_eq] at ho
    cases ho with
    | inl h =>
      have := hM x hk h.2 hr
      simp only [List.map_cons, List.mem_cons] at this
      cases this with
      | inl he => exact absurd he h.1
      | inr hm => exact hm
    | inr h =>
      have hs : isKey m p.1 = true := (isKey_iff m p.1).2 (List.mem_map.2 ⟨p, hpm, rfl⟩)
      have h1 := hac p hpm x hk h.2
      have h2 := hB p.1 hs h.1
      omega

theorem pass_lowers {m r M t} (hac : Acyclic m r) (hB : Below m r (M + 1) t) : Below m r M (pass m t) :=
  fold_lowers hac m (fun _ h => h) t hB (fun x hk _ _ => (isKey_iff m x).1 hk)

theorem passes_lower {m r} (hac : Acyclic m r) : ∀ (k M : Nat) (t : T), Below m r (M + k) t → Below m r M (passes m k t) := by
  intro k
  induction k with
  | zero => intro M t h; simpa [passes] using h
  | succ k ih =>
    intro M t h
    simp only [passes]
    apply ih M (pass m t)
    apply pass_lowers hac
    have : M + k + 1 = M + (k + 1) := by omega
    rw [this]; exact h

/-- a full permutation of the rounds' order does not matter when the arguments are closed (mention no mapped symbol) and the mapped
    symbols are distinct -/
theorem pass_perm {m m' : List (Nat × E)} (hp : m.Perm m') :
    (m.map (·.1)).Nodup → (∀ p ∈ m, ∀ q ∈ m, occE q.1 p.2 = false) → ∀ t, pass m t = pass m' t := by
  induction hp with
  | nil => intro _ _ t; rfl
  | cons p _ ih =>
    intro hnd hcl t
    simp only [pass, List.foldl_cons]
    simp only [List.map_cons, List.nodup_cons] at hnd
    exact ih hnd.2 (fun a ha b hb => hcl a (List.mem_cons_of_mem _ ha) b (List.mem_cons_of_mem _ hb)) _
  | swap p q l =>
    intro hnd hcl t
    simp only [pass, List.foldl_cons]
    simp only [List.map_cons, List.nodup_cons, List.mem_cons, not_or] at hnd
    have hne : q.1 ≠ p.1 := hnd.1.1
    have h1 := hcl q (by simp) p (by simp)
    have h2 := hcl p (by simp) q (by simp)
    rw [substT_comm p.1 q.1 p.2 q.2 t (Ne.symm hne) h1 h2]
  | trans h1 h2 ih1 ih2 =>
    intro hnd hcl t
    rw [ih1 hnd hcl t]
    apply ih2
    · exact (h1.map (·.1)).nodup_iff.1 hnd
    · intro a ha b hb
      exact hcl a (h1.mem_iff.2 ha) b (h1.mem_iff.2 hb)

/-- substitution in a type is substitution in its tree -/
theorem embed_subst (s : Nat) (e : E) (t : T) : embed (substT s e t) = substE s e (embed t) := by
  induction t with
  | prim k => rfl
  | withExpr t x ih => simp only [substT, embed, substE, ih]
  | child t l c iht ihc => simp only [substT, embed, substE, iht, ihc]

theorem embed_pass (m : List (Nat × E)) (t : T) : embed (pass m t) = passE m (embed t) := by
  unfold pass passE
  induction m generalizing t with
  | nil => rfl
  | cons p l ih => simp only [List.foldl_cons, ih, embed_subst]

theorem embed_passes (m : List (Nat × E)) (k : Nat) (t : T) : embed (passes m k t) = passesE m k (embed t) := by
  induction k generalizing t with
  | zero => rfl
  | succ k ih => simp only [passes, passesE, ih, embed_pass]

theorem occ_embed (x : Nat) (t : T) : occE x (embed t) = occT x t := by
  induction t with
  | prim k => rfl
  | withExpr t e ih => simp [embed, occE, occT, ih]
  | child t l c iht ihc => simp [embed, occE, occT, iht, ihc]

/-- once no mapped symbol occurs, further rounds change nothing -/
theorem pass_stable (m : List (Nat × E)) (t : T) (h : ∀ x, isKey m x = true → occT x t = false) : pass m t = t := by
  unfold pass
  have : ∀ (l : List (Nat × E)), (∀ p ∈ l, p ∈ m) → l.foldl (fun t p => substT p.1 p.2 t) t = t := by
    intro l
    induction l with
    | nil => intro _; rfl
    | cons p l ih =>
      intro hl
      have hp : p ∈ m := hl p (List.mem_cons_self ..)
      have hk : isKey m p.1 = true := (isKey_iff m p.1).2 (List.mem_map.2 ⟨p, hp, rfl⟩)
      simp only [List.foldl_cons, substT_notocc p.1 p.2 t (h p.1 hk)]
      exact ih (fun q hq => hl q (List.mem_cons_of_mem _ hq))
  exact this m (fun _ h => h)

theorem passes_stable (m : List (Nat × E)) (k : Nat) (t : T) (h : ∀ x, isKey m x = true → occT x t = false) : passes m k t = t := by
  induction k with
  | zero => rfl
  | succ k ih => simp only [passes, pass_stable m t h, ih]

end UtapModel.TypeSubst
