/-
C18 — interval operations of `range_t` agree with their set semantics.

The definitions these theorems speak about are in `Gen/RangeGen.lean`, which `translate/range_h.py` regenerates
from `/repo/include/utap/range.h` on every run (integral instantiation of `T`, arithmetic in `Int`, i.e. exactly
the property's "results do not overflow the type").  A change to `range.h` therefore changes the definitions
below and each theorem is re-checked against what the code says now.

Membership is the set-theoretic reading of the interval: `x ∈ r ↔ r.start ≤ x ∧ x ≤ r.finish`.
Every theorem is unbounded (all integers); nothing is enumerated.
-/
import UtapModel.Gen.RangeGen
import Mathlib.Tactic.Linarith

namespace UtapModel.C18
open UtapModel.RangeGen

/-- set-theoretic membership -/
def Mem (x : Int) (r : Range) : Prop := r.start ≤ x ∧ x ≤ r.finish

/-- non-empty interval (the property's hypothesis on operands) -/
def NonEmpty (r : Range) : Prop := r.start ≤ r.finish

instance (x : Int) (r : Range) : Decidable (Mem x r) := by unfold Mem; infer_instance

/-- `omega`, after splitting any `if`/`match` that a rewrite of `range.h` may have introduced
    (e.g. `a < b ? b : a` instead of `std::max(a, b)`), so that harmless rewrites keep the proofs intact. -/
macro "omega'" : tactic =>
  `(tactic| first
    | omega
    | (simp only [decide_eq_true_eq, Bool.and_eq_true, Bool.or_eq_true, Bool.not_eq_true'] at *
       repeat' (first | omega | split)
       all_goals (simp only [decide_eq_true_eq, decide_eq_false_iff_not] at *; omega)))

/-! ### bounds: gt / geq / lt / leq keep exactly the members satisfying the bound -/

theorem mem_gt (r : Range) (l x : Int) : Mem x (r.gt l) ↔ Mem x r ∧ l < x := by
  simp only [Mem, Range.gt, next_value]; omega'

theorem mem_geq (r : Range) (l x : Int) : Mem x (r.geq l) ↔ Mem x r ∧ l ≤ x := by
  simp only [Mem, Range.geq]; omega'

theorem mem_lt (r : Range) (u x : Int) : Mem x (r.lt u) ↔ Mem x r ∧ x < u := by
  simp only [Mem, Range.lt, prev_value]; omega'

theorem mem_leq (r : Range) (u x : Int) : Mem x (r.leq u) ↔ Mem x r ∧ x ≤ u := by
  simp only [Mem, Range.leq]; omega'

/-! ### intersection is exact (all spellings: `&=`, `&`, intersect, intersection; range and element) -/

theorem mem_andAssignR (a b : Range) (x : Int) : Mem x (a.andAssignR b) ↔ Mem x a ∧ Mem x b := by
  simp only [Mem, Range.andAssignR, Range.geq, Range.leq]; omega'

theorem mem_andR (a b : Range) (x : Int) : Mem x (a.andR b) ↔ Mem x a ∧ Mem x b := by
  simp only [Range.andR]; exact mem_andAssignR a b x

theorem mem_intersectR (a b : Range) (x : Int) : Mem x (a.intersectR b) ↔ Mem x a ∧ Mem x b := by
  simp only [Range.intersectR]; exact mem_andAssignR a b x

theorem mem_intersectionR (a b : Range) (x : Int) : Mem x (a.intersectionR b) ↔ Mem x a ∧ Mem x b := by
  simp only [Range.intersectionR]; exact mem_andR a b x

theorem mem_andAssignT (a : Range) (e x : Int) : Mem x (a.andAssignT e) ↔ Mem x a ∧ x = e := by
  simp only [Mem, Range.andAssignT, Range.geq, Range.leq]; omega'

theorem mem_andT (a : Range) (e x : Int) : Mem x (a.andT e) ↔ Mem x a ∧ x = e := by
  simp only [Range.andT]; exact mem_andAssignT a e x

theorem mem_intersectT (a : Range) (e x : Int) : Mem x (a.intersectT e) ↔ Mem x a ∧ x = e := by
  simp only [Range.intersectT]; exact mem_andAssignT a e x

theorem mem_intersectionT (a : Range) (e x : Int) : Mem x (a.intersectionT e) ↔ Mem x a ∧ x = e := by
  simp only [Range.intersectionT]; exact mem_andT a e x

/-! ### convex union is exact: it contains both operands and is contained in every interval that does -/

theorem union_contains (a b : Range) (x : Int) (h : Mem x a ∨ Mem x b) : Mem x (a.orAssignR b) := by
  simp only [Mem, Range.orAssignR, Range.lower, Range.raise] at *; omega'

theorem union_tightest (a b c : Range) (ha : NonEmpty a) (hb : NonEmpty b)
    (hca : ∀ x, Mem x a → Mem x c) (hcb : ∀ x, Mem x b → Mem x c) (x : Int) :
    Mem x (a.orAssignR b) → Mem x c := by
  have h1 := hca a.start; have h2 := hca a.finish; have h3 := hcb b.start; have h4 := hcb b.finish
  simp only [Mem, NonEmpty, Range.orAssignR, Range.lower, Range.raise] at *; omega'

/-- convex union, as a membership characterisation: the members are exactly the points between two members -/
theorem mem_union (a b : Range) (ha : NonEmpty a) (hb : NonEmpty b) (x : Int) :
    Mem x (a.orAssignR b) ↔ ∃ p q, (Mem p a ∨ Mem p b) ∧ (Mem q a ∨ Mem q b) ∧ p ≤ x ∧ x ≤ q := by
  constructor
  · intro h
    refine ⟨min a.start b.start, max a.finish b.finish, ?_, ?_, ?_, ?_⟩ <;>
      simp only [Mem, NonEmpty, Range.orAssignR, Range.lower, Range.raise] at * <;> omega
  · rintro ⟨p, q, hp, hq, h1, h2⟩
    simp only [Mem, NonEmpty, Range.orAssignR, Range.lower, Range.raise] at *; omega'

theorem orR_eq (a b : Range) : a.orR b = a.orAssignR b := rfl
theorem uniteR_eq (a b : Range) : a.uniteR b = a.orAssignR b := rfl
theorem addR_eq (a b : Range) : a.addR b = a.orAssignR b := rfl

theorem mem_orAssignT (a : Range) (ha : NonEmpty a) (e x : Int) :
    Mem x (a.orAssignT e) ↔ Mem x (a.orAssignR (Range.single e)) := by
  simp only [Mem, Range.orAssignT, Range.orAssignR, Range.lower, Range.raise, Range.single]

theorem orT_eq (a : Range) (e : Int) : a.orT e = a.orAssignT e := rfl
theorem uniteT_eq (a : Range) (e : Int) : a.uniteT e = a.orAssignT e := rfl
theorem addT_eq (a : Range) (e : Int) : a.addT e = a.orAssignT e := rfl

/-! ### arithmetic: the tightest interval containing all pointwise results -/

/-- `+` is exact on integers: the members of `a + b` are precisely the sums -/
theorem mem_add (a b : Range) (ha : NonEmpty a) (hb : NonEmpty b) (z : Int) :
    Mem z (a.addAssignR b) ↔ ∃ x y, Mem x a ∧ Mem y b ∧ z = x + y := by
  simp only [Mem, NonEmpty, Range.addAssignR, Range.first, Range.last] at *
  constructor
  · intro h
    by_cases hz : z - b.start ≤ a.finish
    · exact ⟨z - b.start, b.start, by omega⟩
    · exact ⟨a.finish, z - a.finish, by omega⟩
  · rintro ⟨x, y, h⟩; omega

theorem mem_sub (a b : Range) (ha : NonEmpty a) (hb : NonEmpty b) (z : Int) :
    Mem z (a.subAssignR b) ↔ ∃ x y, Mem x a ∧ Mem y b ∧ z = x - y := by
  simp only [Mem, NonEmpty, Range.subAssignR, Range.first, Range.last] at *
  constructor
  · intro h
    by_cases hz : z + b.finish ≤ a.finish
    · exact ⟨z + b.finish, b.finish, by omega⟩
    · exact ⟨a.finish, a.finish - z, by omega⟩
  · rintro ⟨x, y, h⟩; omega

theorem mem_addT (a : Range) (e z : Int) : Mem z (a.addAssignT e) ↔ ∃ x, Mem x a ∧ z = x + e := by
  simp only [Mem, Range.addAssignT]
  constructor
  · intro h; exact ⟨z - e, by omega⟩
  · rintro ⟨x, h⟩; omega

theorem mem_subT (a : Range) (e z : Int) : Mem z (a.subAssignT e) ↔ ∃ x, Mem x a ∧ z = x - e := by
  simp only [Mem, Range.subAssignT]
  constructor
  · intro h; exact ⟨z + e, by omega⟩
  · rintro ⟨x, h⟩; omega

theorem add_opR_eq (a b : Range) : a.add_opR b = a.addAssignR b := rfl
theorem sub_opR_eq (a b : Range) : a.sub_opR b = a.subAssignR b := rfl
theorem mul_opR_eq (a b : Range) : a.mul_opR b = a.mulAssignR b := rfl
theorem add_opT_eq (a : Range) (e : Int) : a.add_opT e = a.addAssignT e := rfl
theorem sub_opT_eq (a : Range) (e : Int) : a.sub_opT e = a.subAssignT e := rfl
theorem mul_opT_eq (a : Range) (e : Int) : a.mul_opT e = a.mulAssignT e := rfl

/-- `*`: every pointwise product lies in the result (four-corner lemma) -/
theorem mul_contains (a b : Range) (x y : Int) (hx : Mem x a) (hy : Mem y b) : Mem (x * y) (a.mulAssignR b) := by
  simp only [Mem, Range.mulAssignR, Range.first, Range.last] at *
  obtain ⟨hx1, hx2⟩ := hx
  obtain ⟨hy1, hy2⟩ := hy
  have e1 : 0 ≤ (x - a.start) * (y - b.start) := Int.mul_nonneg (by omega) (by omega)
  have e2 : 0 ≤ (x - a.start) * (b.finish - y) := Int.mul_nonneg (by omega) (by omega)
  have e3 : 0 ≤ (a.finish - x) * (y - b.start) := Int.mul_nonneg (by omega) (by omega)
  have e4 : 0 ≤ (a.finish - x) * (b.finish - y) := Int.mul_nonneg (by omega) (by omega)
  constructor
  · -- lower bound: some corner is ≤ x*y
    rcases Int.le_total 0 y with hy0 | hy0
    · rcases Int.le_total 0 a.start with ha0 | ha0
      · -- a.start*b.start ≤ x*y
        have : a.start * b.start ≤ x * y := by nlinarith
        omega
      · -- a.start ≤ 0: a.start*b.finish ≤ a.start * y ≤ x*y
        have : a.start * b.finish ≤ x * y := by nlinarith
        omega
    · rcases Int.le_total 0 a.finish with ha0 | ha0
      · have : a.finish * b.start ≤ x * y := by nlinarith
        omega
      · have : a.finish * b.finish ≤ x * y := by nlinarith
        omega
  · rcases Int.le_total 0 y with hy0 | hy0
    · rcases Int.le_total 0 a.finish with ha0 | ha0
      · have : x * y ≤ a.finish * b.finish := by nlinarith
        omega
      · have : x * y ≤ a.finish * b.start := by nlinarith
        omega
    · rcases Int.le_total 0 a.start with ha0 | ha0
      · have : x * y ≤ a.start * b.finish := by nlinarith
        omega
      · have : x * y ≤ a.start * b.start := by nlinarith
        omega

/-- `*`: both bounds of the result are attained by members, so no tighter interval contains all products -/
theorem mul_tight (a b : Range) (ha : NonEmpty a) (hb : NonEmpty b) :
    (∃ x y, Mem x a ∧ Mem y b ∧ (a.mulAssignR b).start = x * y) ∧
    (∃ x y, Mem x a ∧ Mem y b ∧ (a.mulAssignR b).finish = x * y) := by
  simp only [Mem, NonEmpty, Range.mulAssignR, Range.first, Range.last] at *
  constructor
  · rcases Int.le_total (a.start * b.start) (a.start * b.finish) with h1 | h1 <;>
    rcases Int.le_total (a.finish * b.start) (a.finish * b.finish) with h2 | h2
    · rcases Int.le_total (a.start * b.start) (a.finish * b.start) with h3 | h3
      · exact ⟨a.start, b.start, by omega⟩
      · exact ⟨a.finish, b.start, by omega⟩
    · rcases Int.le_total (a.start * b.start) (a.finish * b.finish) with h3 | h3
      · exact ⟨a.start, b.start, by omega⟩
      · exact ⟨a.finish, b.finish, by omega⟩
    · rcases Int.le_total (a.start * b.finish) (a.finish * b.start) with h3 | h3
      · exact ⟨a.start, b.finish, by omega⟩
      · exact ⟨a.finish, b.start, by omega⟩
    · rcases Int.le_total (a.start * b.finish) (a.finish * b.finish) with h3 | h3
      · exact ⟨a.start, b.finish, by omega⟩
      · exact ⟨a.finish, b.finish, by omega⟩
  · rcases Int.le_total (a.start * b.start) (a.start * b.finish) with h1 | h1 <;>
    rcases Int.le_total (a.finish * b.start) (a.finish * b.finish) with h2 | h2
    · rcases Int.le_total (a.start * b.finish) (a.finish * b.finish) with h3 | h3
      · exact ⟨a.finish, b.finish, by omega⟩
      · exact ⟨a.start, b.finish, by omega⟩
    · rcases Int.le_total (a.start * b.finish) (a.finish * b.start) with h3 | h3
      · exact ⟨a.finish, b.start, by omega⟩
      · exact ⟨a.start, b.finish, by omega⟩
    · rcases Int.le_total (a.start * b.start) (a.finish * b.finish) with h3 | h3
      · exact ⟨a.finish, b.finish, by omega⟩
      · exact ⟨a.start, b.start, by omega⟩
    · rcases Int.le_total (a.start * b.start) (a.finish * b.start) with h3 | h3
      · exact ⟨a.finish, b.start, by omega⟩
      · exact ⟨a.start, b.start, by omega⟩

/-- scalar `*`: contains every product and both bounds are attained -/
theorem mulT_contains (a : Range) (e x : Int) (hx : Mem x a) : Mem (x * e) (a.mulAssignT e) := by
  simp only [Mem, Range.mulAssignT] at *
  obtain ⟨h1, h2⟩ := hx
  rcases Int.le_total 0 e with he | he
  · have p1 : a.start * e ≤ x * e := Int.mul_le_mul_of_nonneg_right h1 he
    have p2 : x * e ≤ a.finish * e := Int.mul_le_mul_of_nonneg_right h2 he
    split <;> dsimp only <;> simp only [decide_eq_true_eq] at * <;> omega
  · have p1 : x * e ≤ a.start * e := Int.mul_le_mul_of_nonpos_right h1 he
    have p2 : a.finish * e ≤ x * e := Int.mul_le_mul_of_nonpos_right h2 he
    split <;> dsimp only <;> simp only [decide_eq_true_eq] at * <;> omega

theorem mulT_tight (a : Range) (e : Int) (ha : NonEmpty a) :
    (∃ x, Mem x a ∧ (a.mulAssignT e).start = x * e) ∧ (∃ x, Mem x a ∧ (a.mulAssignT e).finish = x * e) := by
  simp only [Mem, NonEmpty, Range.mulAssignT] at *
  split
  · exact ⟨⟨a.finish, by dsimp only; omega⟩, ⟨a.start, by dsimp only; omega⟩⟩
  · exact ⟨⟨a.start, by dsimp only; omega⟩, ⟨a.finish, by dsimp only; omega⟩⟩

/-! ### predicates -/

theorem contains_iff (r : Range) (e : Int) : r.contains e = true ↔ Mem e r := by
  simp [Range.contains, Range.overlapsT, Mem]

theorem overlapsT_iff (r : Range) (e : Int) : r.overlapsT e = true ↔ Mem e r := by
  simp [Range.overlapsT, Mem]

theorem intersects_iff (a b : Range) (ha : NonEmpty a) (hb : NonEmpty b) :
    a.intersects b = true ↔ ∃ x, Mem x a ∧ Mem x b := by
  simp only [Range.intersects, Range.overlapsR, Mem, NonEmpty] at *
  constructor
  · intro h
    split at h <;> simp only [decide_eq_true_eq] at *
    · exact ⟨b.start, by omega⟩
    · exact ⟨a.start, by omega⟩
  · rintro ⟨x, hx⟩
    split <;> simp only [decide_eq_true_eq] at * <;> omega

theorem overlapsR_iff (a b : Range) (ha : NonEmpty a) (hb : NonEmpty b) :
    a.overlapsR b = true ↔ ∃ x, Mem x a ∧ Mem x b := intersects_iff a b ha hb

theorem empty_iff (r : Range) : r.empty = true ↔ ¬ ∃ x, Mem x r := by
  simp only [Range.empty, Mem, decide_eq_true_eq]
  constructor
  · rintro h ⟨x, hx⟩; omega
  · intro h
    by_cases hh : r.start > r.finish
    · exact hh
    · exact absurd ⟨r.start, by omega⟩ h

/-- `==` decides equality of the member sets (also for empty operands) -/
theorem eq_iff (a b : Range) : a.eq_opR b = true ↔ ∀ x, Mem x a ↔ Mem x b := by
  simp only [Range.eq_opR, Range.empty, Mem]
  by_cases ha : a.start > a.finish <;> by_cases hb : b.start > b.finish <;> simp only [ha, hb, decide_true,
    decide_false, Bool.or_self, Bool.or_true, Bool.true_or, Bool.or_false, if_true, if_false, beq_self_eq_true,
    Bool.false_eq_true, Bool.and_eq_true, decide_eq_true_eq, beq_iff_eq]
  · constructor
    · intro _ x; constructor <;> intro h <;> omega
    · intro _; trivial
  · constructor
    · intro h; exact absurd h (by decide)
    · intro h; have := (h b.start).2 (by omega); omega
  · constructor
    · intro h; exact absurd h (by decide)
    · intro h; have := (h a.start).1 (by omega); omega
  · constructor
    · rintro ⟨h1, h2⟩ x; omega
    · intro h
      have h1 := (h a.start).1 (by omega); have h2 := (h a.finish).1 (by omega)
      have h3 := (h b.start).2 (by omega); have h4 := (h b.finish).2 (by omega)
      omega

theorem eqT_iff (a : Range) (e : Int) : a.eq_opT e = true ↔ ∀ x, Mem x a ↔ x = e := by
  rw [Range.eq_opT, eq_iff]
  simp only [Mem, Range.single]
  constructor <;> intro h x <;> have := h x <;> omega

/-- `<` / `>`: strict ordering of all members -/
theorem lt_iff (a b : Range) (ha : NonEmpty a) (hb : NonEmpty b) :
    a.lt_op b = true ↔ ∀ x y, Mem x a → Mem y b → x < y := by
  simp only [Range.lt_op, Mem, NonEmpty, decide_eq_true_eq] at *
  constructor
  · intro h x y hx hy; omega
  · intro h; exact h a.finish b.start (by omega) (by omega)

theorem gt_iff (a b : Range) (ha : NonEmpty a) (hb : NonEmpty b) :
    a.gt_op b = true ↔ ∀ x y, Mem x a → Mem y b → y < x := by
  rw [Range.gt_op, lt_iff b a hb ha]
  constructor <;> intro h x y hx hy <;> exact h y x hy hx

theorem le_iff (a b : Range) : a.le_op b = !(a.gt_op b) := rfl
theorem ge_iff (a b : Range) : a.ge_op b = !(a.lt_op b) := rfl

/-! ### size counts the members -/

/-- explicit enumeration of the members of an interval -/
def members (r : Range) : List Int := (List.range (r.finish + 1 - r.start).toNat).map (fun (i : Nat) => r.start + (i : Int))

theorem mem_members (r : Range) (x : Int) : x ∈ members r ↔ Mem x r := by
  simp only [members, List.mem_map, List.mem_range, Mem]
  constructor
  · rintro ⟨i, hi, rfl⟩; omega
  · intro h; exact ⟨(x - r.start).toNat, by omega, by omega⟩

theorem members_nodup (r : Range) : (members r).Nodup := by
  unfold members
  have h := @List.nodup_range (r.finish + 1 - r.start).toNat
  exact List.Pairwise.map _ (fun i j (hij : i ≠ j) => by omega) h

theorem size_counts (r : Range) : r.size = ((members r).length : Int) := by
  simp only [Range.size, Range.empty, members, List.length_map, List.length_range]
  by_cases h : r.start > r.finish <;> simp only [h, decide_true, decide_false, if_true, if_false,
    Bool.false_eq_true] <;> omega

/-! ### the operand may be the object itself (`r -= r`, `r *= r`, ...)

`range.h` takes its range operand by reference.  The `…Self` definitions (regenerated like the others) are what the member
computes when the operand aliases `*this`: every read of the operand sees the assignments already made.  The property's
set semantics do not care whether the two operands are the same object, so each must equal the two-operand definition
applied to `(r, r)`. -/

theorem addAssign_self (r : Range) : r.addAssignRSelf = r.addAssignR r := by
  cases r; simp [Range.addAssignRSelf, Range.addAssignR, Range.first, Range.last]

theorem subAssign_self (r : Range) : r.subAssignRSelf = r.subAssignR r := by
  cases r; simp [Range.subAssignRSelf, Range.subAssignR, Range.first, Range.last]

theorem mulAssign_self (r : Range) : r.mulAssignRSelf = r.mulAssignR r := by
  cases r; simp [Range.mulAssignRSelf, Range.mulAssignR, Range.first, Range.last]

theorem andAssign_self (r : Range) : r.andAssignRSelf = r.andAssignR r := by
  cases r; simp [Range.andAssignRSelf, Range.andAssignR]

theorem orAssign_self (r : Range) : r.orAssignRSelf = r.orAssignR r := by
  cases r; simp [Range.orAssignRSelf, Range.orAssignR]

theorem unite_intersect_self (r : Range) : r.addRSelf = r.addR r ∧ r.intersectRSelf = r.intersectR r := by
  simp [Range.addRSelf, Range.addR, Range.intersectRSelf, Range.intersectR]

/-- consequence: `r -= r` is the tightest interval of the differences of two members of `r` -/
theorem sub_self_tight (r : Range) : r.subAssignRSelf = ⟨r.start - r.finish, r.finish - r.start⟩ := by
  rw [subAssign_self]; cases r; simp [Range.subAssignR, Range.first, Range.last]

example : (Range.mk 1 10).subAssignRSelf = ⟨-9, 9⟩ := by decide

/-! ### non-vacuity: concrete operands meet every hypothesis used above -/
example : NonEmpty ⟨-3, 4⟩ ∧ NonEmpty ⟨2, 2⟩ ∧ Mem 0 ⟨-3, 4⟩ := by simp [NonEmpty, Mem]
example : (Range.mk (-3) 4).mulAssignR ⟨-2, 5⟩ = ⟨-15, 20⟩ := by decide
example : (Range.mk 0 5).gt 3 = ⟨4, 5⟩ := by decide

end UtapModel.C18
