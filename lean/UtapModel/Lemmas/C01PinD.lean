/- C01: pinned exception set, stacks Q, E (finite check over the generated table; split over several modules so that
   lake checks them in parallel). -/
import UtapModel.Lemmas.C01Pin
namespace UtapModel.C01
theorem pinned_Q : pinnedOn .Q = true := by decide +kernel
theorem pinned_E : pinnedOn .E = true := by decide +kernel
end UtapModel.C01
