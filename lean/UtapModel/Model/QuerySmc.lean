/-
M-QUERY-SMC — the statistical query forms on top of the expression language (C03):

    Pr[B](<> e)    Pr[B]([] e)    Pr[B](a U b)    E[B](max: e)    E[B](min: e)    simulate[B]{ e1, .., en }

with the bounds  B ::= <=e | #<=e | l<=e   optionally followed by `; n` (the number of runs).  In `l<=e` both sides are expressions and the
text `l <= e` is itself an expression: the LALR parser reads the whole text as one and splits it at its top `<=` (so `c <= a <= b` bounds
`c <= a` by `b`, and `c <= a && b` is not a bound at all); the model does the same, and the printer writes such a bound as the expression
`l <= e` (since the repair 9985bc8; before, both sides were written bare and `c <= (a && b)` did not come back).

* `SQuery`: the trees `expr_proba_quantitative`, `expr_proba_expected`, `expr_simulate` build (ExpressionBuilder.cpp): the run count
  (-1 = not given), the bound type (constant 1 = time, 0 = steps, or the bounding clock), the bound, and the operands.
* `printS`: `expression_t::print` for PROBA_BOX / PROBA_DIAMOND / PROBA_EXP / SIMULATE and `print_bound_type`.  These cases print
  conditionally, so they are not layouts; translate/query_tables.py matches their whole texts against the texts this model was written
  from (fail closed) and regenerates the terminals of their literals (`QueryTables.smcLits`), which `printS` uses by role.
* `parseS`: the productions `PropertyExpr: T_PROBA SMCBounds '(' PathType Expression ')'`, `.. '(' Expression 'U' Expression ')'`,
  `'E' SMCBounds '(' Id ':' Expression ')'`, `T_SIMULATE SMCBounds '{' NonEmptyExpressionList '}'`, `SMCBounds`, `BoundType`, `PathType`.
`Pr[..](..) >= p`, comparisons of two probabilities and `simulate .. : n : e` are in Model/QuerySmc2.lean.  Outside: minE/maxE, strategies.
Core Lean only.
-/
import UtapModel.Model.Query

namespace UtapModel.QuerySmc
open UtapModel.Pratt UtapModel.ExprTable UtapModel.ExprGrammar UtapModel.QueryTables UtapModel.Query

inductive BKind where
  | time                 -- `<=`   (the builder pushes the constant 1)
  | steps                -- `#<=`  (the constant 0)
  | expr (l : Expr)      -- `l<=`  (`BoundType: Expression T_LEQ Expression`; usually a clock)
deriving DecidableEq, Repr, Inhabited

structure Bnd where
  kind : BKind
  bound : Expr
  runs : Option Nat      -- `; n`;  none = the builder's -1
deriving DecidableEq, Repr, Inhabited

inductive SQuery where
  | pr (box : Bool) (b : Bnd) (pred unt : Expr)       -- PROBA_BOX / PROBA_DIAMOND (runs, type, bound, pred, until); `<>`/`[]` push until = true
  | ex (b : Bnd) (isMax : Bool) (e : Expr)            -- PROBA_EXP
  | sim (b : Bnd) (l : List Expr)                     -- SIMULATE (an absent run count becomes 1)
deriving DecidableEq, Repr, Inhabited

/-! ### printing -/

/-- the terminals of a literal of the print cases, by role -/
def lit (role : String) : List Tok := ((smcLits.lookup role).getD []).map qtok

/-- the token `<=` -/
def leqTok : Nat := qid "T_LEQ"

/-- `print_bound`: `<=e`, `#<=e`; the form `l<=e` is written as the expression `l <= e` itself (`create_binary(LE, l, e).print`), which puts
    parentheses around an operand that needs them next to `<=` -/
def boundToks (P : Expr → List Tok) (b : Bnd) : List Tok :=
  match b.kind with
  | .time => lit "leq" ++ P b.bound
  | .steps => lit "steps" ++ lit "leq" ++ P b.bound
  | .expr l => P (.bin leqTok l b.bound)

/-- `print_bound(..); if (get(0) >= 0) print("; ", get(0))` -/
def runsToks : Option Nat → List Tok
  | some n => lit "runs" ++ [.atom (.nat n)]
  | none => []

def bndToks (P : Expr → List Tok) (b : Bnd) : List Tok := boundToks P b ++ runsToks b.runs

/-- `expression_t::is_true()`: an integral constant of value 1 -/
def isTrue (e : Expr) : Bool := e == .atom .tru || e == .atom (.nat 1)

def printS (P : Expr → List Tok) : SQuery → List Tok
  | .pr box b pred u =>
    lit "pr" ++ bndToks P b ++
      (if box || isTrue u then (if box then lit "box" else lit "diamond") ++ P pred ++ lit "close"
       else lit "untilOpen" ++ P pred ++ lit "until" ++ P u ++ lit "close")
  | .ex b isMax e =>
    lit "ex" ++ bndToks P b ++ lit "exOpen" ++ .atom (.ident (if isMax then "max" else "min")) :: (lit "colon" ++ P e ++ lit "close")
  | .sim b l =>
    -- the run count is always printed (`get(0).print`)
    lit "sim" ++ boundToks P b ++ lit "runs" ++ .atom (.nat (b.runs.getD 1)) :: (lit "simOpen" ++ printList P l ++ lit "simClose")

def sprint (q : SQuery) : List Tok := printS (PrintModel.lprint genData mt) q

/-! ### parsing -/

def modelProdsSmc : List (String × List String × List String) := [
  ("PropertyExpr", ["T_PROBA", "SMCBounds", "'('", "PathType", "Expression", "')'", "Subjection"], ["expr_true()", "expr_proba_quantitative($4)", "property()"]),
  ("PropertyExpr", ["T_PROBA", "SMCBounds", "'('", "Expression", "'U'", "Expression", "')'", "Subjection"], ["expr_proba_quantitative(DIAMOND)", "property()"]),
  ("PropertyExpr", ["T_SIMULATE", "SMCBounds", "'{'", "NonEmptyExpressionList", "'}'", "Subjection"], ["expr_simulate($4)", "property()"]),
  ("PropertyExpr", ["'E'", "SMCBounds", "'('", "Id", "':'", "Expression", "')'", "Subjection"], ["expr_proba_expected($4)", "property()"]),
  ("SMCBounds", ["'['", "BoundType", "']'"], ["expr_nat(-1)"]),
  ("SMCBounds", ["'['", "BoundType", "';'", "T_NAT", "']'"], ["expr_nat($4)"]),
  ("BoundType", ["T_HASH", "T_LEQ", "Expression"], ["expr_nat(0)"]),
  ("BoundType", ["T_LEQ", "Expression"], ["expr_nat(1)"]),
  ("BoundType", ["Expression", "T_LEQ", "Expression"], []),
  ("PathType", ["T_BOX"], []),
  ("PathType", ["T_DIAMOND"], [])
]

/-- after the bound: `]` or `; n ]` -/
def runsTail (k : BKind) (bound : Expr) (r : List Tok) : Option (Bnd × List Tok) :=
  match r with
  | .rb :: r' => some ({ kind := k, bound := bound, runs := none }, r')
  | .sym s :: .atom (.nat n) :: .rb :: r' => if isTok s "';'" then some ({ kind := k, bound := bound, runs := some n }, r') else none
  | _ => none

def boundAfter (k : BKind) (r : List Tok) : Option (Bnd × List Tok) :=
  match pE r with
  | some (e, r') => runsTail k e r'
  | none => none

/-- `l <= e`: one expression whose top node is `<=` -/
def boundExpr (r : List Tok) : Option (Bnd × List Tok) :=
  match pE r with
  | some (.bin t l e, r') => if t == leqTok then runsTail (.expr l) e r' else none
  | _ => none

/-- `SMCBounds` after its `[` -/
def parseBnd (ts : List Tok) : Option (Bnd × List Tok) :=
  match ts with
  | .sym t :: r =>
    if isTok t "T_LEQ" then boundAfter .time r
    else if isTok t "T_HASH" then
      match r with
      | .sym l :: r1 => if isTok l "T_LEQ" then boundAfter .steps r1 else none
      | _ => none
    else boundExpr ts
  | _ => boundExpr ts

def closeEnd (r : List Tok) : Bool := r == [.rp]

def prBody (b : Bnd) (r : List Tok) : Option SQuery :=
  -- after `Pr[..](`
  match r with
  | .sym t :: r1 =>
    if isTok t "T_BOX" then (match pE r1 with | some (e, r2) => if closeEnd r2 then some (.pr true b e (.atom .tru)) else none | none => none)
    else if isTok t "T_DIAMOND" then (match pE r1 with | some (e, r2) => if closeEnd r2 then some (.pr false b e (.atom .tru)) else none | none => none)
    else untilBody b r
  | _ => untilBody b r
where
  untilBody (b : Bnd) (r : List Tok) : Option SQuery :=
    match pE r with
    | some (a, .sym u :: r1) =>
      if isTok u "'U'" then (match pE r1 with | some (c, r2) => if closeEnd r2 then some (.pr false b a c) else none | none => none) else none
    | _ => none

def parseS (ts : List Tok) : Option SQuery :=
  match ts with
  | .sym t :: .lb :: r =>
    if isTok t "T_PROBA" then
      match parseBnd r with
      | some (b, .lp :: r1) => prBody b r1
      | _ => none
    else if isTok t "'E'" then
      match parseBnd r with
      | some (b, .lp :: .atom (.ident m) :: .colon :: r1) =>
        if m == "max" || m == "min" then
          (match pE r1 with | some (e, r2) => if closeEnd r2 then some (.ex b (m == "max") e) else none | none => none)
        else none
      | _ => none
    else if isTok t "T_SIMULATE" then
      match parseBnd r with
      | some (b, .sym ob :: r1) =>
        if isTok ob "'{'" then
          match parseList (r1.length + 1) r1 with
          | some (l, [.sym cb]) => if isTok cb "'}'" then some (.sim { b with runs := some (b.runs.getD 1) } l) else none
          | _ => none
        else none
      | _ => none
    else none
  | _ => none

/-! ### well-formedness and the kind tree -/

/-- the operands of a bound meet the criterion of the expression level; in `l<=e` that is the criterion of the expression `l <= e` -/
def Bnd.wf (b : Bnd) : Bool :=
  goodE b.bound &&
    (match b.kind with
     | .expr l => goodE l && goodE (.bin leqTok l b.bound)
     | _ => true)

def SQuery.wf : SQuery → Bool
  | .pr box b pred u => b.wf && goodE pred && goodE u && (!(box || isTrue u) || u == .atom .tru)
  | .ex b _ e => b.wf && goodE e
  | .sim b l => b.wf && b.runs.isSome && l.all goodE && !l.isEmpty

def natK (n : Int) : KTree := .node "CONSTANT" ["int", toString n] []
def kindK : BKind → KTree
  | .time => natK 1
  | .steps => natK 0
  | .expr l => toK genData l
def runsK (r : Option Nat) : KTree := match r with | some n => natK n | none => natK (-1)

def sToK : SQuery → KTree
  | .pr box b pred u => .node (if box then "PROBA_BOX" else "PROBA_DIAMOND") [] [runsK b.runs, kindK b.kind, toK genData b.bound, toK genData pred, toK genData u]
  | .ex b isMax e => .node "PROBA_EXP" [] [runsK b.runs, kindK b.kind, toK genData b.bound, natK (if isMax then 1 else 0), toK genData e]
  | .sim b l => .node "SIMULATE" [] ([runsK (some (b.runs.getD 1)), kindK b.kind, toK genData b.bound] ++ l.map (toK genData))

end UtapModel.QuerySmc
