/- stub: line-protocol driver for C05 (to be written) -/
def main : IO Unit := pure ()
