/-
C09 — the parenthesis theorem for the precedence-climbing core (core Lean only): for every well-formed tree, with any
number of redundant parenthesis nodes anywhere, the parser's callback trace of its token string is `val` of the tree.
-/
import UtapModel.Model.C09Pratt
namespace UtapModel.C09.Pratt

theorem parseE_zero (T : Tbl) (q ts) : parseE T 0 q ts = none := by simp [parseE]
theorem loop_zero (T : Tbl) (q l ts) : loop T 0 q l ts = none := by simp [loop]
theorem parseE_atom (T : Tbl) (f q n ts) : parseE T (f+1) q (.atom n :: ts) = loop T f q [.at n] ts := by
  simp only [parseE]
theorem parseE_lp (T : Tbl) (f q ts) : parseE T (f+1) q (.lp :: ts) =
    (match parseE T f 0 ts with
      | some (v, .rp :: ts'') => loop T f q v ts''
      | _ => none) := by
  simp only [parseE]; try rfl
theorem parseE_pre (T : Tbl) (f q p ts) : parseE T (f+1) q (.pre p :: ts) =
    (match parseE T f (T.pbp p) ts with
      | some (v, ts'') => loop T f q (v ++ [.un p]) ts''
      | none => none) := by
  simp only [parseE]; try rfl
theorem parseE_nil (T : Tbl) (f q) : parseE T (f+1) q [] = none := by simp only [parseE]
theorem parseE_op (T : Tbl) (f q o ts) : parseE T (f+1) q (.op o :: ts) = none := by simp only [parseE]
theorem parseE_rp (T : Tbl) (f q ts) : parseE T (f+1) q (.rp :: ts) = none := by simp only [parseE]
theorem loop_op (T : Tbl) (f q l o ts) : loop T (f+1) q l (.op o :: ts) =
    (if T.bp o ≥ q then
        match parseE T f (T.next o) ts with
        | some (rhs, ts'') => loop T f q (l ++ rhs ++ [.bi o]) ts''
        | none => none
      else some (l, .op o :: ts)) := by
  simp only [loop]; try rfl
theorem loop_nil (T : Tbl) (f q l) : loop T (f+1) q l [] = some (l, []) := by simp only [loop]
theorem loop_atom (T : Tbl) (f q l n ts) : loop T (f+1) q l (.atom n :: ts) = some (l, .atom n :: ts) := by simp only [loop]
theorem loop_lp (T : Tbl) (f q l ts) : loop T (f+1) q l (.lp :: ts) = some (l, .lp :: ts) := by simp only [loop]
theorem loop_rp (T : Tbl) (f q l ts) : loop T (f+1) q l (.rp :: ts) = some (l, .rp :: ts) := by simp only [loop]
theorem loop_pre (T : Tbl) (f q l p ts) : loop T (f+1) q l (.pre p :: ts) = some (l, .pre p :: ts) := by simp only [loop]

theorem loop_stop (T : Tbl) (f q l ts) (h : ∀ o ts', ts = .op o :: ts' → T.bp o < q) :
    loop T (f+1) q l ts = some (l, ts) := by
  match ts with
  | [] => exact loop_nil ..
  | .atom _ :: _ => exact loop_atom ..
  | .lp :: _ => exact loop_lp ..
  | .rp :: _ => exact loop_rp ..
  | .pre _ :: _ => exact loop_pre ..
  | .op o :: ts' =>
    rw [loop_op]
    have := h o ts' rfl
    have : ¬ (T.bp o ≥ q) := by omega
    simp [this]

theorem mono (T : Tbl) : ∀ f,
    (∀ q ts r, parseE T f q ts = some r → parseE T (f+1) q ts = some r) ∧
    (∀ q l ts r, loop T f q l ts = some r → loop T (f+1) q l ts = some r) := by
  intro f
  induction f with
  | zero => exact ⟨by intro q ts r h; simp [parseE_zero] at h, by intro q l ts r h; simp [loop_zero] at h⟩
  | succ f ih =>
    obtain ⟨ihE, ihL⟩ := ih
    constructor
    · intro q ts r h
      match ts with
      | [] => simp [parseE_nil] at h
      | .atom n :: ts' =>
        rw [parseE_atom] at h ⊢
        exact ihL _ _ _ _ h
      | .lp :: ts' =>
        rw [parseE_lp] at h ⊢
        cases hp : parseE T f 0 ts' with
        | none => simp [hp] at h
        | some p =>
          obtain ⟨e, rest⟩ := p
          rw [hp] at h
          rw [ihE _ _ _ hp]
          match rest with
          | [] => simp at h
          | .rp :: ts'' => simp only at h ⊢; exact ihL _ _ _ _ h
          | .atom _ :: _ => simp at h
          | .op _ :: _ => simp at h
          | .lp :: _ => simp at h
          | .pre _ :: _ => simp at h
      | .pre p :: ts' =>
        rw [parseE_pre] at h ⊢
        cases hp : parseE T f (T.pbp p) ts' with
        | none => simp [hp] at h
        | some pr =>
          obtain ⟨v, ts''⟩ := pr
          rw [hp] at h
          rw [ihE _ _ _ hp]
          exact ihL _ _ _ _ h
      | .op _ :: _ => simp [parseE_op] at h
      | .rp :: _ => simp [parseE_rp] at h
    · intro q l ts r h
      match ts with
      | [] => rw [loop_nil] at h ⊢; exact h
      | .op o :: ts' =>
        rw [loop_op] at h ⊢
        by_cases hq : T.bp o ≥ q
        · simp only [hq, if_true] at h ⊢
          cases hp : parseE T f (T.next o) ts' with
          | none => simp [hp] at h
          | some p =>
            obtain ⟨rhs, ts''⟩ := p
            rw [hp] at h
            rw [ihE _ _ _ hp]
            exact ihL _ _ _ _ h
        · simp only [hq, if_false] at h ⊢
          exact h
      | .atom _ :: _ => rw [loop_atom] at h ⊢; exact h
      | .lp :: _ => rw [loop_lp] at h ⊢; exact h
      | .rp :: _ => rw [loop_rp] at h ⊢; exact h
      | .pre _ :: _ => rw [loop_pre] at h ⊢; exact h

theorem monoE_le (T : Tbl) {f g q ts r} (h : parseE T f q ts = some r) (hle : f ≤ g) : parseE T g q ts = some r := by
  induction hle with
  | refl => exact h
  | step _ ih => exact (mono T _).1 _ _ _ ih

theorem monoL_le (T : Tbl) {f g q l ts r} (h : loop T f q l ts = some r) (hle : f ≤ g) : loop T g q l ts = some r := by
  induction hle with
  | refl => exact h
  | step _ ih => exact (mono T _).2 _ _ _ _ ih

/-- operators on one level share associativity (true of any %left/%right table) -/
def Tbl.Consistent (T : Tbl) : Prop :=
  (∀ o o', T.bp o = T.bp o' → T.rassoc o = T.rassoc o') ∧ (∀ o p, T.bp o = T.plevel p → T.rassoc o = T.prassoc p)

/-- the continuation `rest` is not swallowed by the unparenthesised right spine of `e` -/
def NA (T : Tbl) : PExpr → List PTok → Prop
  | .atom _, _ => True
  | .paren _, _ => True
  | .bin o _ r, rest => (∀ t ts, rest = .op t :: ts → T.bp t < T.next o) ∧ NA T r rest
  | .pre p e, rest => (∀ t ts, rest = .op t :: ts → T.bp t < T.pbp p) ∧ NA T e rest

/-- the parser's minimum binding power does not exceed the level of an unparenthesised root -/
def Fits (T : Tbl) (q : Nat) : PExpr → Prop
  | .atom _ => True
  | .paren _ => True
  | .bin o _ _ => q ≤ T.bp o
  | .pre _ _ => True

theorem wf_mono (T : Tbl) (e : PExpr) (c c' : Nat) (h : c' ≤ c) (hw : WF T c e) : WF T c' e := by
  cases e with
  | atom n => trivial
  | paren e => exact hw
  | bin o l r => exact ⟨Nat.le_trans h hw.1, hw.2.1, hw.2.2⟩
  | pre p e => exact ⟨Nat.le_trans h hw.1, hw.2⟩

theorem na_of (T : Tbl) (t : Nat) (ts : List PTok) : ∀ (e : PExpr) (c : Nat), WF T c e →
    (∀ o', c ≤ T.bp o' → T.bp t < T.next o') → (∀ p', c ≤ T.plevel p' → T.bp t < T.pbp p') → NA T e (.op t :: ts) := by
  intro e
  induction e with
  | atom n => intro c _ _ _; trivial
  | paren e _ => intro c _ _ _; trivial
  | bin o l r _ ihr =>
    intro c hw h h'
    have h1 : T.bp o ≤ T.next o := by unfold Tbl.next; split <;> omega
    have h2 := hw.1
    refine ⟨?_, ?_⟩
    · intro t' ts' heq
      injection heq with e1 e2
      injection e1 with e1
      subst e1
      exact h o hw.1
    · apply ihr (T.next o) hw.2.2
      · intro o'' hle; apply h o''; omega
      · intro p'' hle; apply h' p''; omega
  | pre p e ih =>
    intro c hw h h'
    have h1 : T.plevel p ≤ T.pbp p := by unfold Tbl.pbp; split <;> omega
    have h2 := hw.1
    refine ⟨?_, ?_⟩
    · intro t' ts' heq
      injection heq with e1 e2
      injection e1 with e1
      subst e1
      exact h' p hw.1
    · apply ih (T.pbp p) hw.2
      · intro o'' hle; apply h o''; omega
      · intro p'' hle; apply h' p''; omega

theorem na_rp (T : Tbl) (ts : List PTok) : ∀ (e : PExpr), NA T e (.rp :: ts) := by
  intro e
  induction e with
  | atom n => trivial
  | paren e _ => trivial
  | bin o l r _ ihr => exact ⟨fun t ts' h => (by cases h), ihr⟩
  | pre p e ih => exact ⟨fun t ts' h => (by cases h), ih⟩

theorem na_nil (T : Tbl) : ∀ (e : PExpr), NA T e [] := by
  intro e
  induction e with
  | atom n => trivial
  | paren e _ => trivial
  | bin o l r _ ihr => exact ⟨fun t ts' h => (by cases h), ihr⟩
  | pre p e ih => exact ⟨fun t ts' h => (by cases h), ih⟩

theorem main (T : Tbl) (hT : T.Consistent) : ∀ (e : PExpr) (ctx q : Nat) (rest : List PTok) (res) (g : Nat),
    WF T ctx e → Fits T q e → NA T e rest → loop T g q (val e) rest = some res →
    ∃ f, parseE T f q (toks e ++ rest) = some res := by
  intro e
  induction e with
  | atom n =>
    intro ctx q rest res g _ _ _ hl
    refine ⟨g+1, ?_⟩
    simp only [toks, List.cons_append, List.nil_append]
    rw [parseE_atom]; exact hl
  | paren e ih =>
    intro ctx q rest res g hw _ _ hl
    -- inside the parentheses: any tree fits at binding power 0 and is followed by `)`
    have hfit0 : Fits T 0 e := by cases e <;> simp [Fits]
    obtain ⟨fi, hfi⟩ := ih 0 0 (.rp :: rest) (val e, .rp :: rest) 1 hw hfit0 (na_rp T _ e)
      (loop_stop T 0 _ _ _ (by intro o ts h; cases h))
    refine ⟨max fi g + 1, ?_⟩
    simp only [toks, List.cons_append, List.nil_append, List.append_assoc]
    rw [parseE_lp, monoE_le T hfi (Nat.le_max_left fi g)]
    exact monoL_le T hl (Nat.le_max_right _ _)
  | pre p e ih =>
    intro ctx q rest res g hw _ hna hl
    obtain ⟨_, hwe⟩ := hw
    obtain ⟨hhead, hnae⟩ := hna
    have he1 : loop T 1 (T.pbp p) (val e) rest = some (val e, rest) := loop_stop T 0 _ _ _ hhead
    have hfite : Fits T (T.pbp p) e := by
      cases e with
      | atom _ => trivial
      | paren _ => trivial
      | pre _ _ => trivial
      | bin o2 _ _ => exact hwe.1
    obtain ⟨fe, hfe⟩ := ih (T.pbp p) (T.pbp p) rest (val e, rest) 1 hwe hfite hnae he1
    refine ⟨max fe g + 1, ?_⟩
    simp only [toks, List.cons_append, List.nil_append]
    rw [parseE_pre, monoE_le T hfe (Nat.le_max_left fe g)]
    exact monoL_le T hl (Nat.le_max_right _ _)
  | bin o l r ihl ihr =>
    intro ctx q rest res g hw hfit hna hl
    obtain ⟨_, hwl, hwr⟩ := hw
    have hq : q ≤ T.bp o := hfit
    obtain ⟨hhead, hnar⟩ := hna
    -- right operand
    have hr1 : loop T 1 (T.next o) (val r) rest = some (val r, rest) := loop_stop T 0 _ _ _ hhead
    have hfitr : Fits T (T.next o) r := by
      cases r with
      | atom _ => trivial
      | paren _ => trivial
      | pre _ _ => trivial
      | bin o2 _ _ => exact hwr.1
    obtain ⟨fr, hfr⟩ := ihr (T.next o) (T.next o) rest (val r, rest) 1 hwr hfitr hnar hr1
    -- the loop step after the left operand
    let F := max fr g
    have hstep : loop T (F+1) q (val l) (.op o :: (toks r ++ rest)) = some res := by
      rw [loop_op]
      have : T.bp o ≥ q := hq
      simp only [this, if_true]
      rw [monoE_le T hfr (Nat.le_max_left _ _)]
      exact monoL_le T hl (Nat.le_max_right _ _)
    -- left operand
    have hfitl : Fits T q l := by
      cases l with
      | atom _ => trivial
      | paren _ => trivial
      | pre _ _ => trivial
      | bin o1 _ _ =>
        have h1 : T.lctx o ≤ T.bp o1 := hwl.1
        have : T.bp o ≤ T.lctx o := by unfold Tbl.lctx; split <;> omega
        show q ≤ T.bp o1
        omega
    have hnal : NA T l (.op o :: (toks r ++ rest)) := by
      apply na_of T o _ l (T.lctx o) hwl
      · intro o' hle
        unfold Tbl.next
        unfold Tbl.lctx at hle
        by_cases hro : T.rassoc o
        · simp only [hro, if_true] at hle
          split <;> omega
        · simp [hro] at hle
          by_cases heq : T.bp o' = T.bp o
          · have := hT.1 o' o heq
            rw [this]; simp [hro]; omega
          · split <;> omega
      · intro p' hle
        unfold Tbl.pbp
        unfold Tbl.lctx at hle
        by_cases hro : T.rassoc o
        · simp only [hro, if_true] at hle
          split <;> omega
        · simp [hro] at hle
          by_cases heq : T.bp o = T.plevel p'
          · have := hT.2 o p' heq
            rw [← this]; simp [hro]; omega
          · split <;> omega
    obtain ⟨fl, hfl⟩ := ihl (T.lctx o) q _ res (F+1) hwl hfitl hnal hstep
    refine ⟨fl, ?_⟩
    simpa [toks, List.append_assoc] using hfl

theorem roundtrip (T : Tbl) (hT : T.Consistent) (e : PExpr) (hw : WF T 0 e) :
    ∃ f, ∀ g, f ≤ g → parseE T g 0 (toks e) = some (val e, []) := by
  have hfit : Fits T 0 e := by cases e <;> simp [Fits]
  obtain ⟨f, hf⟩ := main T hT e 0 0 [] (val e, []) 1 hw hfit (na_nil T e)
    (loop_stop T 0 0 (val e) [] (by intro o ts h; cases h))
  exact ⟨f, fun g hg => monoE_le T (by simpa using hf) hg⟩

theorem parenExt_val {t t' : PExpr} (h : ParenExt t t') : val t' = val t := by
  induction h with
  | atom n => rfl
  | bin o _ _ ihl ihr => simp [val, ihl, ihr]
  | pre p _ ih => simp [val, ih]
  | paren _ ih => simpa [val] using ih
  | wrap _ ih => simpa [val] using ih

theorem parenExt_wf (T : Tbl) {t t' : PExpr} (h : ParenExt t t') : ∀ c, WF T c t → WF T c t' := by
  induction h with
  | atom n => intro c hw; exact hw
  | bin o _ _ ihl ihr => intro c hw; exact ⟨hw.1, ihl _ hw.2.1, ihr _ hw.2.2⟩
  | pre p _ ih => intro c hw; exact ⟨hw.1, ih _ hw.2⟩
  | paren _ ih => intro c hw; exact ih 0 hw
  | wrap _ ih => intro c hw; exact ih 0 (wf_mono T _ c 0 (Nat.zero_le _) hw)

end UtapModel.C09.Pratt
