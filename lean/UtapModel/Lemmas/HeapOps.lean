/- Lemmas about clone_deeper, subst, mutate, replaceAt, get_size and text for Props/C19.lean. Core Lean only. -/
import UtapModel.Lemmas.Heap

namespace UtapModel.Heap

/-! ### clone_deeper: fresh identities, in allocation order -/

mutual
theorem cloneDeeperWith_ids (g : Option Nat → Option Nat) : ∀ (n : Nat) (e : HExpr),
    n ≤ (cloneDeeperWith g n e).2 ∧ ∀ i ∈ ids (cloneDeeperWith g n e).1, n ≤ i ∧ i < (cloneDeeperWith g n e).2
  | n, .null => by simp [cloneDeeperWith, ids]
  | n, .node j a sub => by
    have ih := cloneDeeperWithL_ids g (n + 1) sub
    simp only [cloneDeeperWith, ids, List.mem_cons]
    refine ⟨by omega, ?_⟩
    intro i hi
    rcases hi with hi | hi
    · subst hi; omega
    · have := ih.2 i hi; omega
theorem cloneDeeperWithL_ids (g : Option Nat → Option Nat) : ∀ (n : Nat) (es : List HExpr),
    n ≤ (cloneDeeperWithL g n es).2 ∧ ∀ i ∈ idsL (cloneDeeperWithL g n es).1, n ≤ i ∧ i < (cloneDeeperWithL g n es).2
  | n, [] => by simp [cloneDeeperWithL, idsL]
  | n, e :: es => by
    have ih1 := cloneDeeperWith_ids g n e
    have ih2 := cloneDeeperWithL_ids g (cloneDeeperWith g n e).2 es
    simp only [cloneDeeperWithL, idsL, List.mem_append]
    refine ⟨by omega, ?_⟩
    intro i hi
    rcases hi with hi | hi
    · have := ih1.2 i hi; omega
    · have := ih2.2 i hi; omega
end

mutual
theorem cloneDeeperWith_length (g : Option Nat → Option Nat) : ∀ (n : Nat) (es : List HExpr),
    (cloneDeeperWithL g n es).1.length = es.length
  | _, [] => by simp [cloneDeeperWithL]
  | n, e :: es => by simp [cloneDeeperWithL, cloneDeeperWith_length g _ es]
end

mutual
/-- a deep clone is structurally equal to the original -/
theorem equal_cloneDeeper : ∀ (n : Nat) (e : HExpr), noNaN e = true → wellBuilt e = true →
    equal (cloneDeeperWith id n e).1 e = true
  | _, .null, _, _ => by simp [cloneDeeperWith, equal]
  | n, .node j a sub, hn, hw => by
    simp only [noNaN, Bool.and_eq_true] at hn
    simp only [wellBuilt, Bool.and_eq_true, beq_iff_eq] at hw
    simp only [cloneDeeperWith, id]
    unfold equal
    by_cases hnj : (n == j) = true
    · simp [hnj]
    · simp only [hnj, Bool.false_eq_true, if_false, attrDiff_self a hn.1]
      rw [hw.1]
      exact equalL_cloneDeeper (n + 1) sub hn.2 hw.2
theorem equalL_cloneDeeper : ∀ (n : Nat) (es : List HExpr), noNaNL es = true → wellBuiltL es = true →
    equalL es.length (cloneDeeperWithL id n es).1 es = true
  | _, [], _, _ => by simp [equalL]
  | n, e :: es, hn, hw => by
    simp only [noNaNL, Bool.and_eq_true] at hn
    simp only [wellBuiltL, Bool.and_eq_true] at hw
    simp only [cloneDeeperWithL, List.length_cons, equalL, Bool.and_eq_true]
    exact ⟨equal_cloneDeeper n e hn.1 hw.1, equalL_cloneDeeper _ es hn.2 hw.2⟩
end

theorem same_attr_refl (a : Attr) : (a == a) = true := by simp

mutual
/-- … and identical to it up to node identities -/
theorem same_cloneDeeper : ∀ (n : Nat) (e : HExpr), same (cloneDeeperWith id n e).1 e = true
  | _, .null => by simp [cloneDeeperWith, same]
  | n, .node j a sub => by
    simp only [cloneDeeperWith, id, same, Bool.and_eq_true]
    exact ⟨by simp, sameL_cloneDeeper (n + 1) sub⟩
theorem sameL_cloneDeeper : ∀ (n : Nat) (es : List HExpr), sameL (cloneDeeperWithL id n es).1 es = true
  | _, [] => by simp [cloneDeeperWithL, sameL]
  | n, e :: es => by
    simp only [cloneDeeperWithL, sameL, Bool.and_eq_true]
    exact ⟨same_cloneDeeper n e, sameL_cloneDeeper _ es⟩
end

/-! ### later changes -/

mutual
theorem mutate_of_not_mem (k : Nat) (f : Attr → List HExpr → Attr × List HExpr) : ∀ (t : HExpr), k ∉ ids t → mutate k f t = t
  | .null, _ => by simp [mutate]
  | .node i a sub, h => by
    simp only [ids, List.mem_cons, not_or] at h
    have hik : (i == k) = false := by simpa using (fun e => h.1 e.symm)
    simp [mutate, hik, mutateL_of_not_mem k f sub h.2]
theorem mutateL_of_not_mem (k : Nat) (f : Attr → List HExpr → Attr × List HExpr) : ∀ (ts : List HExpr), k ∉ idsL ts → mutateL k f ts = ts
  | [], _ => by simp [mutateL]
  | t :: ts, h => by
    simp only [idsL, List.mem_append, not_or] at h
    simp [mutateL, mutate_of_not_mem k f t h.1, mutateL_of_not_mem k f ts h.2]
end

/-! ### subst -/

mutual
/-- frame property: `subst` allocates identities from `n` upwards, and every node of the result that carries an older
    identity is a node of the source or of the replacement, unchanged -/
theorem subst_frame (s : Nat) (r : HExpr) : ∀ (n : Nat) (e : HExpr),
    n ≤ (subst s r n e).2 ∧
    ∀ i a sub, HExpr.node i a sub ∈ subtrees (subst s r n e).1 → i < n → (HExpr.node i a sub ∈ subtrees e ∨ HExpr.node i a sub ∈ subtrees r)
  | n, .null => by simp [subst, subtrees]
  | n, .node j b sub => by
    unfold subst
    by_cases h1 : isIdentOf s b = true
    · simp only [h1, if_true]
      exact ⟨Nat.le_refl _, fun i a t h _ => Or.inr h⟩
    · simp only [h1, Bool.false_eq_true, if_false]
      by_cases h2 : (sizeOfAttr b == 0) = true
      · simp only [h2, if_true]
        exact ⟨Nat.le_refl _, fun i a t h _ => Or.inl h⟩
      · simp only [h2, Bool.false_eq_true, if_false]
        have ih := substL_frame s r (n + 1) (sizeOfAttr b) sub
        refine ⟨by omega, ?_⟩
        intro i a t h hlt
        simp only [subtrees, List.mem_cons] at h
        rcases h with h | h
        · injection h with h0; omega
        · rcases ih.2 i a t h (by omega) with h' | h'
          · exact Or.inl (by simp only [subtrees, List.mem_cons]; exact Or.inr h')
          · exact Or.inr h'
theorem substL_frame (s : Nat) (r : HExpr) : ∀ (n k : Nat) (es : List HExpr),
    n ≤ (substL s r n k es).2 ∧
    ∀ i a sub, HExpr.node i a sub ∈ subtreesL (substL s r n k es).1 → i < n → (HExpr.node i a sub ∈ subtreesL es ∨ HExpr.node i a sub ∈ subtrees r)
  | n, 0, es => by simp only [substL]; exact ⟨Nat.le_refl _, fun i a t h _ => Or.inl h⟩
  | n, k + 1, [] => by simp [substL, subtreesL]
  | n, k + 1, e :: es => by
    have ih1 := subst_frame s r n e
    have ih2 := substL_frame s r (subst s r n e).2 k es
    simp only [substL]
    refine ⟨by omega, ?_⟩
    intro i a t h hlt
    simp only [subtreesL, List.mem_append] at h ⊢
    rcases h with h | h
    · rcases ih1.2 i a t h hlt with h' | h'
      · exact Or.inl (Or.inl h')
      · exact Or.inr h'
    · rcases ih2.2 i a t h (by omega) with h' | h'
      · exact Or.inl (Or.inr h')
      · exact Or.inr h'
end

mutual
theorem same_refl : ∀ (e : HExpr), same e e = true
  | .null => by simp [same]
  | .node i a s => by simp [same, sameL_refl s]
theorem sameL_refl : ∀ (es : List HExpr), sameL es es = true
  | [] => by simp [sameL]
  | e :: es => by simp [sameL, same_refl e, sameL_refl es]
end

mutual
/-- `subst` replaces exactly the identifier occurrences of the symbol (on trees whose get_size is right) -/
theorem subst_same_spec (s : Nat) (r : HExpr) : ∀ (n : Nat) (e : HExpr), wellBuilt e = true →
    same (subst s r n e).1 (substSpec s r e) = true
  | _, .null, _ => by simp [subst, substSpec, same]
  | n, .node j b sub, hw => by
    simp only [wellBuilt, Bool.and_eq_true, beq_iff_eq] at hw
    unfold subst substSpec
    by_cases h1 : isIdentOf s b = true
    · simp only [h1, if_true]; exact same_refl r
    · simp only [h1, Bool.false_eq_true, if_false]
      by_cases h2 : (sizeOfAttr b == 0) = true
      · simp only [h2, if_true]
        have hl : sub = [] := by
          have : sizeOfAttr b = 0 := by simpa using h2
          rw [this] at hw
          exact List.eq_nil_of_length_eq_zero hw.1.symm
        subst hl
        simp [substSpecL, same, sameL]
      · simp only [h2, Bool.false_eq_true, if_false, same, Bool.and_eq_true]
        refine ⟨by simp, ?_⟩
        rw [hw.1]
        exact substL_same_spec s r (n + 1) sub hw.2
theorem substL_same_spec (s : Nat) (r : HExpr) : ∀ (n : Nat) (es : List HExpr), wellBuiltL es = true →
    sameL (substL s r n es.length es).1 (substSpecL s r es) = true
  | _, [], _ => by simp [substL, substSpecL, sameL]
  | n, e :: es, hw => by
    simp only [wellBuiltL, Bool.and_eq_true] at hw
    simp only [List.length_cons, substL, substSpecL, sameL, Bool.and_eq_true]
    exact ⟨subst_same_spec s r n e hw.1, substL_same_spec s r _ es hw.2⟩
end

mutual
/-- substituting a symbol by (an expression equal to) itself is the identity -/
theorem subst_self_equal (s : Nat) (r : HExpr) : ∀ (n : Nat) (e : HExpr), noNaN e = true → wellBuilt e = true →
    (∀ i a sub, HExpr.node i a sub ∈ subtrees e → isIdentOf s a = true → equal r (HExpr.node i a sub) = true) →
    equal (subst s r n e).1 e = true
  | _, .null, _, _, _ => by simp [subst, equal]
  | n, .node j b sub, hn, hw, hr => by
    simp only [noNaN, Bool.and_eq_true] at hn
    simp only [wellBuilt, Bool.and_eq_true, beq_iff_eq] at hw
    unfold subst
    by_cases h1 : isIdentOf s b = true
    · simp only [h1, if_true]
      exact hr j b sub (subtrees_self _) h1
    · simp only [h1, Bool.false_eq_true, if_false]
      by_cases h2 : (sizeOfAttr b == 0) = true
      · simp only [h2, if_true]; exact equal_refl _
      · simp only [h2, Bool.false_eq_true, if_false]
        unfold equal
        by_cases hnj : (n == j) = true
        · simp [hnj]
        · simp only [hnj, Bool.false_eq_true, if_false, attrDiff_self b hn.1]
          rw [hw.1]
          refine substL_self_equal s r (n + 1) sub hn.2 hw.2 ?_
          intro i a t h hi
          exact hr i a t (by simp only [subtrees, List.mem_cons]; exact Or.inr h) hi
theorem substL_self_equal (s : Nat) (r : HExpr) : ∀ (n : Nat) (es : List HExpr), noNaNL es = true → wellBuiltL es = true →
    (∀ i a sub, HExpr.node i a sub ∈ subtreesL es → isIdentOf s a = true → equal r (HExpr.node i a sub) = true) →
    equalL es.length (substL s r n es.length es).1 es = true
  | _, [], _, _, _ => by simp [equalL]
  | n, e :: es, hn, hw, hr => by
    simp only [noNaNL, Bool.and_eq_true] at hn
    simp only [wellBuiltL, Bool.and_eq_true] at hw
    simp only [List.length_cons, substL, equalL, Bool.and_eq_true]
    refine ⟨subst_self_equal s r n e hn.1 hw.1 ?_, substL_self_equal s r _ es hn.2 hw.2 ?_⟩
    · intro i a t h hi
      exact hr i a t (by simp only [subtreesL, List.mem_append]; exact Or.inl h) hi
    · intro i a t h hi
      exact hr i a t (by simp only [subtreesL, List.mem_append]; exact Or.inr h) hi
end

/-! ### equal distinguishes -/

/-- one differing pair among the first `n` children makes the child loop answer `false` -/
theorem equalL_false_at : ∀ (n p : Nat) (s t : List HExpr), p < n →
    equal (s.getD p .null) (t.getD p .null) = false → p < s.length → p < t.length → equalL n s t = false
  | 0, _, _, _, h, _, _, _ => by omega
  | n + 1, _, [], _, _, _, h, _ => by simp at h
  | n + 1, _, _ :: _, [], _, _, _, h => by simp at h
  | n + 1, 0, x :: xs, y :: ys, _, h, _, _ => by
    simp only [List.getD_cons_zero] at h
    simp [equalL, h]
  | n + 1, p + 1, x :: xs, y :: ys, hp, h, h1, h2 => by
    simp only [List.getD_cons_succ] at h
    simp only [List.length_cons] at h1 h2
    have := equalL_false_at n p xs ys (by omega) h (by omega) (by omega)
    simp [equalL, this]

/-- the path exists in the tree -/
def validPath : List Nat → HExpr → Bool
  | [], _ => true
  | _ :: _, .null => false
  | p :: ps, .node _ _ sub => p < sub.length && validPath ps (sub.getD p .null)

mutual
theorem ids_getD_lt : ∀ (es : List HExpr) (p n : Nat), (∀ i ∈ idsL es, i < n) → ∀ i ∈ ids (es.getD p .null), i < n
  | [], _, _, _, i, hi => by simp [ids] at hi
  | e :: es, 0, n, h, i, hi => by
    simp only [List.getD_cons_zero] at hi
    exact h i (by simp only [idsL, List.mem_append]; exact Or.inl hi)
  | e :: es, p + 1, n, h, i, hi => by
    simp only [List.getD_cons_succ] at hi
    exact ids_getD_lt es p n (fun j hj => h j (by simp only [idsL, List.mem_append]; exact Or.inr hj)) i hi
end

theorem replaceAtL_spec (new : HExpr) : ∀ (p : Nat) (ps : List Nat) (n : Nat) (es : List HExpr), p < es.length →
    (replaceAtL new p ps n es).1.length = es.length ∧
    (replaceAtL new p ps n es).1.getD p .null = (replaceAt new ps n (es.getD p .null)).1
  | _, _, _, [], h => by simp at h
  | 0, ps, n, e :: es, _ => by simp [replaceAtL]
  | p + 1, ps, n, e :: es, h => by
    simp only [List.length_cons] at h
    have := replaceAtL_spec new p ps n es (by omega)
    simp only [replaceAtL, List.length_cons, List.getD_cons_succ]
    exact ⟨by rw [this.1], this.2⟩

/-- rebuilding the path to a node and putting a tree that is not `equal` in its place gives a tree that is not `equal` -/
theorem equal_replaceAt (new : HExpr) : ∀ (path : List Nat) (n : Nat) (e : HExpr), wellBuilt e = true → (∀ i ∈ ids e, i < n) →
    validPath path e = true → equal (subAt path e) new = false → equal e (replaceAt new path n e).1 = false
  | [], _, _, _, _, _, h => by simpa [replaceAt, subAt] using h
  | _ :: _, _, .null, _, _, hv, _ => by simp [validPath] at hv
  | p :: ps, n, .node j a sub, hw, hf, hv, h => by
    simp only [wellBuilt, Bool.and_eq_true, beq_iff_eq] at hw
    simp only [validPath, Bool.and_eq_true, decide_eq_true_eq] at hv
    simp only [subAt] at h
    have hjn : (j == n) = false := by
      have := hf j (by simp [ids])
      simpa using (by omega : j ≠ n)
    have hsub : ∀ i ∈ idsL sub, i < n + 1 := fun i hi => by
      have := hf i (by simp only [ids, List.mem_cons]; exact Or.inr hi); omega
    have hwc : wellBuilt (sub.getD p .null) = true := by
      have : ∀ (es : List HExpr) (q : Nat), wellBuiltL es = true → wellBuilt (es.getD q .null) = true := by
        intro es
        induction es with
        | nil => intro q _; simp [wellBuilt]
        | cons x xs ih =>
          intro q hq
          simp only [wellBuiltL, Bool.and_eq_true] at hq
          cases q with
          | zero => simpa using hq.1
          | succ q => simpa using ih q hq.2
      exact this sub p hw.2
    have ih := equal_replaceAt new ps (n + 1) (sub.getD p .null) hwc (ids_getD_lt sub p (n + 1) hsub) hv.2 h
    have sp := replaceAtL_spec new p ps (n + 1) sub hv.1
    simp only [replaceAt]
    unfold equal
    simp only [hjn, Bool.false_eq_true, if_false]
    cases hd : attrDiff a a with
    | true => simp
    | false =>
      simp only [Bool.false_eq_true, if_false]
      refine equalL_false_at _ p _ _ (by rw [hw.1]; exact hv.1) ?_ hv.1 (by rw [sp.1]; exact hv.1)
      rw [sp.2]; exact ih

/-! ### get_size on the trees the builders make -/

/-- the generated `get_size` table agrees with the arity each kind is built with (one closed evaluation per kind) -/
theorem builtArity_table (k : Kind) : builtArity k = none ∨ builtArity k = some (arityOf k) := by
  cases k <;> decide

theorem sizeOfAttr_of_built (a : Attr) (n : Nat) (h : builtSize a n = true) : sizeOfAttr a = n := by
  unfold builtSize at h
  unfold sizeOfAttr
  cases hb : builtArity a.kind with
  | none => simp [hb] at h
  | some ar =>
    have := builtArity_table a.kind
    rw [hb] at this
    have : arityOf a.kind = ar := by
      rcases this with h0 | h0
      · cases h0
      · injection h0 with h0; exact h0.symm
    rw [this]
    cases ar with
    | fixed m => simpa [hb] using h
    | counted =>
      simp only [hb, beq_iff_eq] at h
      simp [h]
    | unlisted => simp [hb] at h

mutual
theorem wellBuilt_of_parseBuilt : ∀ (e : HExpr), parseBuilt e = true → wellBuilt e = true
  | .null, h => by simp [parseBuilt] at h
  | .node i a sub, h => by
    simp only [parseBuilt, Bool.and_eq_true] at h
    simp only [wellBuilt, Bool.and_eq_true, beq_iff_eq]
    exact ⟨sizeOfAttr_of_built a _ h.1, wellBuiltL_of_parseBuiltL sub h.2⟩
theorem wellBuiltL_of_parseBuiltL : ∀ (es : List HExpr), parseBuiltL es = true → wellBuiltL es = true
  | [], _ => by simp [wellBuiltL]
  | e :: es, h => by
    simp only [parseBuiltL, Bool.and_eq_true] at h
    simp [wellBuiltL, wellBuilt_of_parseBuilt e h.1, wellBuiltL_of_parseBuiltL es h.2]
end

/-! ### equal implies equal text, when corresponding constants have the same type -/

theorem valText_eq (v w : Val) (h : valEq v w = true) : valText v = valText w := by
  cases v <;> cases w <;> simp [valEq] at h <;> simp [valText, h]

theorem payload_eq (symName : Nat → String) (fmtDouble : Nat → String) (a b : Attr) (hd : attrDiff a b = false)
    (hc : ((!(a.kind == .kCONSTANT || a.kind == .kVAR_INDEX)) || (a.ty == b.ty && a.val == b.val)) = true) :
    payload symName fmtDouble a = payload symName fmtDouble b := by
  obtain ⟨_, hk, hv, hs⟩ := attrDiff_false a b hd
  unfold payload
  rw [← hk, ← hs]
  by_cases hcon : (a.kind == Kind.kCONSTANT || a.kind == Kind.kVAR_INDEX) = true
  · simp only [hcon, Bool.not_true, Bool.false_or, Bool.and_eq_true, beq_iff_eq] at hc
    simp only [hcon, if_true]
    rw [← hc.1, ← hc.2]
  · simp only [hcon, Bool.false_eq_true, if_false]
    by_cases hid : (a.kind == Kind.kIDENTIFIER) = true
    · simp [hid]
    · simp only [hid, Bool.false_eq_true, if_false]
      exact valText_eq _ _ hv

mutual
theorem text_eq_of_equal (U : List HExpr) (hcl : Closed U) (hco : Coherent U)
    (symName : Nat → String) (fmtDouble : Nat → String) (lay : Kind → String → List String → String) :
    ∀ (a b : HExpr), a ∈ U → b ∈ U → wellBuilt a = true → wellBuilt b = true → equal a b = true → constCompat a b = true →
      text symName fmtDouble lay a = text symName fmtDouble lay b
  | .null, .null, _, _, _, _, _, _ => rfl
  | .null, .node .., _, _, _, _, h, _ => by simp [equal] at h
  | .node .., .null, _, _, _, _, h, _ => by simp [equal] at h
  | .node i a s, .node j b t, ha, hb, hwa, hwb, h, hc => by
    by_cases hij : i = j
    · rw [hco i a s j b t ha hb hij]
    · have e1 : (i == j) = false := by simpa using hij
      unfold equal at h
      simp only [e1, Bool.false_eq_true, if_false] at h
      cases hd : attrDiff a b with
      | true => simp [hd] at h
      | false =>
        simp only [hd, Bool.false_eq_true, if_false] at h
        simp only [constCompat, Bool.and_eq_true] at hc
        simp only [wellBuilt, Bool.and_eq_true, beq_iff_eq] at hwa hwb
        have hsz := (attrDiff_false a b hd).1
        simp only [text]
        rw [payload_eq symName fmtDouble a b hd hc.1, (attrDiff_false a b hd).2.1]
        congr 1
        exact textL_eq_of_equalL U hcl hco symName fmtDouble lay s t (hcl i a s ha) (hcl j b t hb) hwa.2 hwb.2
          (by rw [← hwa.1, ← hwb.1]; exact hsz) (by rw [← hwa.1]; exact h) hc.2
theorem textL_eq_of_equalL (U : List HExpr) (hcl : Closed U) (hco : Coherent U)
    (symName : Nat → String) (fmtDouble : Nat → String) (lay : Kind → String → List String → String) :
    ∀ (s t : List HExpr), (∀ x ∈ s, x ∈ U) → (∀ x ∈ t, x ∈ U) → wellBuiltL s = true → wellBuiltL t = true →
      s.length = t.length → equalL s.length s t = true → constCompatL s t = true →
      textL symName fmtDouble lay s = textL symName fmtDouble lay t
  | [], [], _, _, _, _, _, _, _ => rfl
  | [], _ :: _, _, _, _, _, hl, _, _ => by simp at hl
  | _ :: _, [], _, _, _, _, hl, _, _ => by simp at hl
  | x :: xs, y :: ys, hs, ht, hws, hwt, hl, h, hc => by
    simp only [wellBuiltL, Bool.and_eq_true] at hws hwt
    simp only [List.length_cons, equalL, Bool.and_eq_true] at h
    simp only [constCompatL, Bool.and_eq_true] at hc
    simp only [List.length_cons, Nat.add_right_cancel_iff] at hl
    simp only [textL]
    rw [text_eq_of_equal U hcl hco symName fmtDouble lay x y (hs x (by simp)) (ht y (by simp)) hws.1 hwt.1 h.1 hc.1,
        textL_eq_of_equalL U hcl hco symName fmtDouble lay xs ys (fun w hw => hs w (by simp [hw])) (fun w hw => ht w (by simp [hw]))
          hws.2 hwt.2 hl h.2 hc.2]
end

end UtapModel.Heap
