/- Model of the `ParserBuilder` callbacks that build the structure of a document
   (src/DocumentBuilder.cpp `proc_*`, `instantiation_*`, `process`; src/document.cpp `add_location`, `add_edge`,
   `add_instance`, `add_process`), as a state machine over the callback sequence.  Core Lean only. -/
import UtapModel.Model.AModel
namespace UtapModel.AM

/-- the callback sequence (the line protocol between the two front ends and the builder).  `pushExpr k` stands for the
    callbacks of parsing one expression text `k` (net effect: one more entry on the expression stack); `declItem` and
    `declParam` for those of one declaration / one parameter. -/
inductive Call
  | declItem (d : Decl)
  | declParam (p : Param)
  | pushExpr (k : Key)
  | procBegin (name : String)
  | procLocation (name : String) (hasInv hasER : Bool)
  | procLocationCommit (name : String)
  | procLocationUrgent (name : String)
  | procBranchpoint (name : String)
  | procLocationInit (name : String)
  | procEdgeBegin (src dst : String) (ctrl : Bool)
  | procSelect (id : String) (ty : Key)
  | procGuard
  | procSync (d : Dir)
  | procUpdate
  | procProb
  | procEdgeEnd (src dst : String)
  | procEnd
  | instBegin (name : String) (nparams : Nat) (templ : String)
  | instEnd (name : String) (nparams : Nat) (templ : String) (nargs : Nat)
  | process (name : String)
  | priorityInc
  | processListEnd
  | done
  | error (msg : String)            -- a diagnostic raised by the front end itself (handle_error)
  deriving DecidableEq, Repr, Inhabited

structure BState where
  doc : Doc := {}
  frags : List Key := []             -- expression stack, top first
  params : List Param := []          -- parameters collected by decl_parameter since the last consumer
  pending : List Param := []         -- parameters of the instantiation being parsed (its frame)
  cur : Option BTempl := none        -- currentTemplate
  edge : Option BEdge := none        -- currentEdge (between proc_edge_begin and proc_edge_end)
  prio : Nat := 0                    -- currentProcPriority
  errs : List String := []
  deriving DecidableEq, Repr, Inhabited

inductive SymKind | loc | bp | other
  deriving DecidableEq, Repr

/-- `resolve(name)` in the frame of the current template.  Symbols are added in the order parameters, local
    declarations, locations, branchpoints and the most recent one wins (frame_t::add_symbol overwrites the mapping). -/
def symKind (t : BTempl) (n : String) : Option SymKind :=
  if t.bps.contains n then some .bp
  else if t.locs.any (·.name == n) then some .loc
  else if (t.decls.any (·.name == n)) || (t.params.any (·.name == n)) then some .other
  else none

def declared (t : BTempl) (n : String) : Bool := (symKind t n).isSome

/-- apply `f` to the last element satisfying `p` -/
def updateLast {α} (p : α → Bool) (f : α → α) : List α → List α
  | [] => []
  | a :: r => if r.any p then a :: updateLast p f r else if p a then f a :: r else a :: r

def endpointFor (t : BTempl) (n : String) : Option Endpoint :=
  match symKind t n with
  | some .loc => some (.loc n)
  | some .bp => some (.bp n)
  | _ => none

def err (s : BState) (m : String) : BState := { s with errs := s.errs ++ [m] }

def popOpt (b : Bool) (fr : List Key) : Option Key × List Key :=
  if b then (fr.head?, fr.tail) else (none, fr)

def step (s : BState) : Call → BState
  | .declItem d =>
    match s.cur with
    | some t => { s with cur := some { t with decls := t.decls ++ [d] } }
    | none => { s with doc := { s.doc with gdecls := s.doc.gdecls ++ [d] } }
  | .declParam p => { s with params := s.params ++ [p] }
  | .pushExpr k => { s with frags := k :: s.frags }
  | .procBegin name =>
    { s with cur := some { name := name, params := s.params, decls := [], locs := [], bps := [], init := none, edges := [] },
             params := [] }
  | .procLocation name hi he =>
    match s.cur with
    | none => err s "no template"
    | some t =>
      -- DocumentBuilder::proc_location pops the rate first, then the invariant
      let (f, fr1) := popOpt he s.frags
      let (e, fr2) := popOpt hi fr1
      let s' := { s with frags := fr2,
                         cur := some { t with locs := t.locs ++ [{ name := name, inv := e, rate := f, urgent := false, committed := false }] } }
      if declared t name then err s' "duplicate definition" else s'
  | .procLocationCommit name =>
    match s.cur with
    | none => err s "no template"
    | some t =>
      match symKind t name with
      | some .loc =>
        if t.locs.any (fun l => l.name == name && l.urgent) then err s "committed and urgent"
        else { s with cur := some { t with locs := updateLast (·.name == name) (fun l => { l with committed := true }) t.locs } }
      | _ => err s "location expected"
  | .procLocationUrgent name =>
    match s.cur with
    | none => err s "no template"
    | some t =>
      match symKind t name with
      | some .loc =>
        if t.locs.any (fun l => l.name == name && l.committed) then err s "committed and urgent"
        else { s with cur := some { t with locs := updateLast (·.name == name) (fun l => { l with urgent := true }) t.locs } }
      | _ => err s "location expected"
  | .procBranchpoint name =>
    match s.cur with
    | none => err s "no template"
    | some t =>
      let s' := { s with cur := some { t with bps := t.bps ++ [name] } }
      if declared t name then err s' "duplicate definition" else s'
  | .procLocationInit name =>
    match s.cur with
    | none => err s "no template"
    | some t =>
      match symKind t name with
      | some .loc => { s with cur := some { t with init := some name } }
      | _ => err s "location expected"
  | .procEdgeBegin src dst ctrl =>
    match s.cur with
    | none => err s "no template"
    | some t =>
      match endpointFor t src, endpointFor t dst with
      | some a, some b => { s with edge := some (edge0 a b ctrl) }
      | none, _ => err s "no such location or branchpoint (source)"
      | _, none => err s "no such location or branchpoint (destination)"
  | .procSelect id ty =>
    match s.edge with
    | some e => { s with edge := some (applyLabel e (.select [(id, ty)])) }
    | none => err s "select outside of an edge"
  | .procGuard =>
    match s.edge, s.frags with
    | some e, k :: fr => { s with edge := some (applyLabel e (.guard k)), frags := fr }
    | _, _ => err s "must be declared inside of an edge"
  | .procSync d =>
    match s.edge, s.frags with
    | some e, k :: fr => { s with edge := some (applyLabel e (.sync k d)), frags := fr }
    | _, _ => err s "must be declared inside of an edge"
  | .procUpdate =>
    match s.edge, s.frags with
    | some e, k :: fr => { s with edge := some (applyLabel e (.assign k)), frags := fr }
    | _, _ => err s "must be declared inside of an edge"
  | .procProb =>
    match s.edge, s.frags with
    | some e, k :: fr => { s with edge := some (applyLabel e (.prob k)), frags := fr }
    | _, _ => err s "must be declared inside of an edge"
  | .procEdgeEnd _ _ =>
    match s.cur, s.edge with
    | some t, some e => { s with cur := some { t with edges := t.edges ++ [e] }, edge := none }
    | _, _ => s
  | .procEnd =>
    match s.cur with
    | some t => { s with doc := { s.doc with templates := s.doc.templates ++ [t] }, cur := none }
    | none => s
  | .instBegin _ _ _ => { s with pending := s.params, params := [] }
  | .instEnd name _ templ nargs =>
    let s1 := { s with pending := [] }
    match findInst s.doc templ with
    | none => err { s1 with frags := s.frags.drop nargs } "not a template"
    | some old =>
      if nargs = old.unbound then
        let args := (s.frags.take nargs).reverse
        { s1 with frags := s.frags.drop nargs,
                  doc := { s.doc with instances := s.doc.instances ++ [mkInst name s.pending old args] } }
      else err { s1 with frags := s.frags.drop nargs } "wrong number of arguments"
  | .process name =>
    match findInst s.doc name with
    | some i => { s with doc := { s.doc with processes := s.doc.processes ++ [i], priorities := s.doc.priorities ++ [(name, s.prio)] } }
    | none => err s "no such process"
  | .priorityInc => { s with prio := s.prio + 1 }
  | .processListEnd => s
  | .done => s
  | .error m => err s m

def run (s : BState) (cs : List Call) : BState := cs.foldl step s

def build (cs : List Call) : BState := run {} cs

theorem run_append (s : BState) (a b : List Call) : run s (a ++ b) = run (run s a) b := by
  simp [run, List.foldl_append]

theorem run_cons (s : BState) (c : Call) (cs : List Call) : run s (c :: cs) = run (step s c) cs := rfl
theorem run_nil (s : BState) : run s [] = s := rfl

end UtapModel.AM
