/- C16: which grammar productions can be abandoned (bison `error` recovery) with a scope frame still pushed.
   Computed from the generated production table (Gen/C16Grammar.lean) and the builder model itself: a callback
   "pushes" / "pops" iff the model's `step` for it changes the depth of the frame stack of the initial state.
   Core Lean only. -/
import UtapModel.Gen.C16Grammar
import UtapModel.Model.BuilderTrace

namespace UtapModel.C16
open UtapModel.Builder UtapModel.C16Grammar

/-- representative call of a callback name (arguments do not matter for the frame effect) -/
def callOf (cb : String) : Option Call := Call.ofTrace cb ["\"x\"", "\"x\"", "\"x\"", "0"]

/-- a state with two frames on the stack, so that a pop is visible -/
def probe : BState := BState.init.pushNewFrame

def frameEffect (cb : String) : Int :=
  match callOf cb with
  | some c => ((step probe c).frames.length : Int) - (probe.frames.length : Int)
  | none => 0

def pushesFrame (cb : String) : Bool := frameEffect cb > 0
def popsFrame (cb : String) : Bool := frameEffect cb < 0

def isNonterminal (s : String) : Bool :=
  productions.any (fun p => p.1 == s)

/-- nonterminals reachable from the label entry points (guard / invariant / sync / update / probability / rate) -/
def labelEntries : List String := ["Expression", "SyncExpr", "ExprList", "ExpRate"]

def reachStep (seen : List String) : List String :=
  productions.foldl (fun acc p =>
    if acc.contains p.1 then
      p.2.foldl (fun acc it => match it with
        | .sym s => if isNonterminal s && !acc.contains s then acc ++ [s] else acc
        | .call _ => acc) acc
    else acc) seen

def reach : Nat → List String → List String
  | 0, seen => seen
  | n + 1, seen => let s' := reachStep seen; if s'.length = seen.length then seen else reach n s'

def labelNonterminals : List String := reach 40 labelEntries

/-- in `items`: a pushing callback, later a nonterminal (where a syntax error can abandon the production), later the
    matching pop -- returns the pushing callback -/
def openAcross : List Item → Option String
  | [] => none
  | .call c :: rest =>
    if pushesFrame c ∧ rest.any (fun it => match it with | .sym s => isNonterminal s || s == "error" | _ => false)
        ∧ rest.any (fun it => match it with | .call d => popsFrame d | _ => false)
    then some c else openAcross rest
  | _ :: rest => openAcross rest

/-- the exception shapes: callbacks whose frame can be left pushed by an abandoned production inside a label -/
def exceptionShapes : List String :=
  (productions.filterMap (fun p => if labelNonterminals.contains p.1 then openAcross p.2 else none)).eraseDups

end UtapModel.C16
