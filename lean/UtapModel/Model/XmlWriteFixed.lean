/- A variant of the writer model in which the two crash sites are repaired the way proposed_fixes/C20-branchpoint-edges.diff
   repairs them (branchpoint elements `bp<nr>` are written and referenced).  Nothing is proved about it: the driver prints
   its prediction so that the correspondence run stays meaningful on a tree where the crash has been fixed
   (checks/c20.py uses it only when the real writer survives a document for which `writeXml` predicts a crash). -/
import UtapModel.Model.XmlWrite
namespace UtapModel.AM

def endIdFixed : WEnd → String
  | .loc n => idOf n
  | .bp n => "bp" ++ toString n

def wEdgeFixed (e : WEdge) : Xml :=
  .elem "transition" []
    ([Xml.elem "source" [("ref", endIdFixed e.src)] [], Xml.elem "target" [("ref", endIdFixed e.dst)] []] ++ wEdgeLabels e)

def wTemplFixed (t : WTempl) : Xml :=
  .elem "template" []
    ([Xml.elem "name" [] [.text (.str t.name)], Xml.elem "parameter" [] [], Xml.elem "declaration" [] []] ++
     (t.locs.zipIdx.map (fun nl => Xml.elem "location" (wLocAttrs nl) (wLocKids nl)) ++
      (t.bps.zipIdx.map (fun b => Xml.elem "branchpoint" [("id", "bp" ++ toString b.2)] []) ++
       ((match t.init with | some i => [Xml.elem "init" [("ref", idOf i)] []] | none => []) ++ t.edges.map wEdgeFixed))))

def writeXmlFixed (d : WDoc) : Xml :=
  .elem "nta" [] ([Xml.elem "declaration" [] []] ++ (d.templs.map wTemplFixed ++ [Xml.elem "system" [] []]))

end UtapModel.AM
