/- Comma lists (Model/ExprList.lean): the elements of a rendered list are read back one by one, whatever their number. -/
import UtapModel.Lemmas.PrattRender
import UtapModel.Model.ExprList

namespace UtapModel.Pratt

variable (T : Tbl) (mt : Nat)

/-- every element of a rendered list parses back to itself and stops in front of its comma -/
theorem parseItems_render (hT : T.ternL ≤ T.questL) (full : Bool) :
    ∀ (es : List Expr) (e : Expr), wf T mt false e = true → (∀ x ∈ es, wf T mt false x = true) →
      ∀ f, es.length + 1 ≤ f → parseItems T f (renderList T mt full e es) = some (e :: es) := by
  intro es
  induction es with
  | nil =>
    intro e he _ f hf
    obtain ⟨f', rfl⟩ := succ_of_le hf
    have hm := main T mt hT ((render_R T mt full e).1 he 0)
    simp only [Goal] at hm
    have := hm 0 [] (e, []) (Nat.le_refl 0) (safe_nil T 0) (stopAll T 0 e [] rfl)
      ((render T mt full 0 e).length + 1) (by simp)
    simp only [List.append_nil] at this
    simp only [renderList, parseItems, this]
  | cons x es ih =>
    intro e he hes f hf
    obtain ⟨f', rfl⟩ := succ_of_le hf
    have hm := main T mt hT ((render_R T mt full e).1 he 0)
    simp only [Goal] at hm
    have e1 : renderList T mt full e (x :: es) = render T mt full 0 e ++ (Tok.comma :: renderList T mt full x es) := by
      simp [renderList]
    have := hm 0 (Tok.comma :: renderList T mt full x es) (e, Tok.comma :: renderList T mt full x es) (Nat.le_refl 0)
      (safe_comma T 0 _) (stopAll T 0 e _ rfl) _ (Nat.le_refl _)
    rw [e1]
    simp only [parseItems, this]
    rw [ih x (hes x (by simp)) (fun y hy => hes y (by simp [hy])) f' (by simp only [List.length_cons] at hf; omega)]

/-- **a rendered comma list parses to the nesting the grammar's recursion gives it** -/
theorem parseList_render (hT : T.ternL ≤ T.questL) (full leftRec : Bool) (e : Expr) (es : List Expr)
    (he : wf T mt false e = true) (hes : ∀ x ∈ es, wf T mt false x = true) :
    parseList T leftRec (renderList T mt full e es) = some (nest leftRec e es) := by
  have hl : es.length + 1 ≤ (renderList T mt full e es).length + 1 := by
    induction es generalizing e with
    | nil => simp
    | cons x es ih =>
      have := ih x (hes x (by simp)) (fun y hy => hes y (by simp [hy]))
      simp only [renderList, List.length_append, List.length_cons, List.length_nil] at this ⊢
      omega
  simp only [parseList, parseItems_render T mt hT full es e he hes _ hl]

/-- one and two elements: the side of the recursion cannot be seen -/
theorem nest_le_two (e : Expr) (es : List Expr) (h : es.length ≤ 1) : nest true e es = nest false e es := by
  match es, h with
  | [], _ => rfl
  | [_], _ => rfl

end UtapModel.Pratt
