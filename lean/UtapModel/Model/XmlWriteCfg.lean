/- The configuration of the writer model, read off the generated tables of the current source (tie T). -/
import UtapModel.Model.XmlWrite
import UtapModel.Gen.XmlTables
namespace UtapModel.AM

def cfgOfSource : WCfg :=
  { prob := Gen.XmlTables.writerEdgeLabels.contains "probability",
    ctrl := Gen.XmlTables.writerTransitionAttributes.contains "controllable",
    bps := Gen.XmlTables.writerBranchpoints,
    sel := Gen.XmlTables.writerSelectAll && Gen.XmlTables.writerSelectDeclared }

end UtapModel.AM
