/- From the rule table to honest lexemes: every pattern kind of lexer.l matches exactly as many newline characters as
   its action reports to the tracker — except the string rule.  Helper lemmas for `Props/C06.lean`. -/
import UtapModel.Lemmas.LexLinesRun

namespace UtapModel.LexLines
open UtapModel.Pos

/-- does the `tracker.newline` argument of a rule fit its pattern?  (`str` is the known exception and is handled by
    a hypothesis on the text; `eof` matches no text) -/
def Pat.nlOK (p : Pat) (a : NlArg) : Bool :=
  match p with
  | .lit s => a == .none && !(s.contains '\n')
  | .contin => a == .one
  | .nls => a == .yyleng
  | .crlfs => a == .yylengHalf
  | .nl1 => a == .one
  | .str => a == .none
  | .eof => true
  | .lineComment => a == .none
  | .blanks => a == .none
  | .ident => a == .none
  | .num => a == .none
  | .float => a == .none
  | .any => a == .none
  | .expect => a == .none
  | .expect2 => a == .none

/-- the whole table reports newlines faithfully -/
def Faithful (rules : List Rule) : Bool := rules.all fun r => r.pat.nlOK r.nl

theorem take_spanLen_all (p : Char → Bool) : ∀ (t : List Char), ∀ c ∈ t.take (spanLen p t), p c = true := by
  intro t
  induction t with
  | nil => intro c hc; simp [spanLen] at hc
  | cons a as ih =>
    intro c hc
    simp only [spanLen] at hc
    by_cases ha : p a = true
    · simp only [ha, ↓reduceIte, List.take_succ_cons, List.mem_cons] at hc
      rcases hc with rfl | hc
      · exact ha
      · exact ih c hc
    · simp [ha] at hc

theorem noNl_take_span (p : Char → Bool) (hp : ∀ c, p c = true → c ≠ '\n') (t : List Char) (n : Nat)
    (hn : n ≤ spanLen p t) : noNl (t.take n) := by
  intro c hc
  have : c ∈ t.take (spanLen p t) := by
    have hsub : (t.take n).Sublist (t.take (spanLen p t)) := by
      have : t.take n = (t.take (spanLen p t)).take n := by
        rw [List.take_take, Nat.min_eq_left hn]
      rw [this]; exact List.take_sublist _ _
    exact hsub.subset hc
  exact hp c (take_spanLen_all p t c this)

theorem noNl_nil : noNl [] := by intro c hc; simp at hc

theorem noNl_cons {c : Char} {l : List Char} (hc : c ≠ '\n') (hl : noNl l) : noNl (c :: l) := by
  intro x hx
  rcases List.mem_cons.mp hx with rfl | hx
  · exact hc
  · exact hl x hx

theorem noNl_append {a b : List Char} (ha : noNl a) (hb : noNl b) : noNl (a ++ b) := by
  intro x hx
  rcases List.mem_append.mp hx with hx | hx
  · exact ha x hx
  · exact hb x hx

theorem noNl_take_add (t : List Char) (a b : Nat) (h1 : noNl (t.take a)) (h2 : noNl ((t.drop a).take b)) :
    noNl (t.take (a + b)) := by
  rw [List.take_add]; exact noNl_append h1 h2

theorem isDigit_ne_nl (c : Char) (h : isDigit c = true) : c ≠ '\n' := by
  intro heq; subst heq; simp [isDigit] at h

theorem isPrefix_take : ∀ (s t : List Char), isPrefix s t = true → t.take s.length = s := by
  intro s
  induction s with
  | nil => intro t _; simp
  | cons a as ih =>
    intro t h
    cases t with
    | nil => simp [isPrefix] at h
    | cons b bs =>
      simp only [isPrefix, Bool.and_eq_true, beq_iff_eq] at h
      simp [h.1, ih bs h.2]

theorem countNl_replicate_like : ∀ (t : List Char), countNl (t.take (spanLen (· == '\n') t)) = spanLen (· == '\n') t := by
  intro t
  induction t with
  | nil => simp [spanLen, countNl]
  | cons a as ih =>
    by_cases ha : a = '\n'
    · subst ha
      simp only [spanLen, beq_self_eq_true, ↓reduceIte, List.take_succ_cons]
      simp only [countNl, List.filter_cons, beq_self_eq_true, ↓reduceIte, List.length_cons] at ih ⊢
      omega
    · have : (a == '\n') = false := by simpa using ha
      simp [spanLen, this, countNl]

theorem spanLen_le (p : Char → Bool) : ∀ (t : List Char), spanLen p t ≤ t.length := by
  intro t
  induction t with
  | nil => simp [spanLen]
  | cons a as ih => simp only [spanLen]; split <;> simp <;> omega

theorem span_nl_ends (t : List Char) (h : 0 < spanLen (· == '\n') t) :
    ∃ w, t.take (spanLen (· == '\n') t) = w ++ ['\n'] := by
  have hall := take_spanLen_all (· == '\n') t
  have hlen : (t.take (spanLen (· == '\n') t)).length = spanLen (· == '\n') t := by
    rw [List.length_take]
    have := spanLen_le (· == '\n') t
    omega
  have hne : t.take (spanLen (· == '\n') t) ≠ [] := by
    intro hnil; rw [hnil] at hlen; simp at hlen; omega
  refine ⟨(t.take (spanLen (· == '\n') t)).dropLast, ?_⟩
  have hl := List.dropLast_concat_getLast hne
  have hlast : (t.take (spanLen (· == '\n') t)).getLast hne = '\n' := by
    have := hall _ (List.getLast_mem hne)
    simpa using this
  rw [hlast] at hl
  exact hl.symm

theorem crlf_take : ∀ (t : List Char), countNl (t.take (2 * crlfPairs t)) = crlfPairs t ∧
    (0 < crlfPairs t → ∃ w, t.take (2 * crlfPairs t) = w ++ ['\n']) := by
  intro t
  induction t using crlfPairs.induct with
  | case1 a b cs hab ih =>
    obtain ⟨ih1, ih2⟩ := ih
    have hmul : 2 * (crlfPairs cs + 1) = 2 * crlfPairs cs + 1 + 1 := by omega
    have hab' := hab
    simp only [Bool.and_eq_true, beq_iff_eq] at hab'
    obtain ⟨ha, hb⟩ := hab'
    subst ha; subst hb
    constructor
    · simp only [crlfPairs, beq_self_eq_true, Bool.and_self, ↓reduceIte, hmul, List.take_succ_cons]
      simp only [countNl, List.filter_cons] at ih1 ⊢
      simp [ih1]
    · intro _
      simp only [crlfPairs, beq_self_eq_true, Bool.and_self, ↓reduceIte, hmul, List.take_succ_cons]
      by_cases hz : 0 < crlfPairs cs
      · obtain ⟨w, hw⟩ := ih2 hz
        exact ⟨'\r' :: '\n' :: w, by simp [hw]⟩
      · have : crlfPairs cs = 0 := by omega
        exact ⟨['\r'], by simp [this]⟩
  | case2 a b cs hab =>
    simp [crlfPairs, hab, countNl]
  | case3 t hne =>
    have : crlfPairs t = 0 := by
      unfold crlfPairs
      split
      · rename_i a b cs; exact absurd rfl (hne a b cs)
      · rfl
    simp [this, countNl]

theorem fracLen_noNl (r : List Char) : noNl (r.take (fracLen r)) := by
  cases r with
  | nil => simp [fracLen, noNl_nil]
  | cons c r' =>
    simp only [fracLen]
    by_cases hc : (c == '.') = true
    · simp only [hc, ↓reduceIte]
      by_cases hz : spanLen isDigit r' = 0
      · simp [hz, noNl_nil]
      · simp only [hz, ↓reduceIte, List.take_succ_cons]
        refine noNl_cons (by intro h; subst h; simp at hc) ?_
        exact noNl_take_span isDigit isDigit_ne_nl r' _ (Nat.le_refl _)
    · simp [hc, noNl_nil]

theorem expLen_noNl (r : List Char) : noNl (r.take (expLen r)) := by
  cases r with
  | nil => simp [expLen, noNl_nil]
  | cons e r3 =>
    simp only [expLen]
    by_cases he : (e == 'e' || e == 'E') = true
    · simp only [he, ↓reduceIte]
      have hene : e ≠ '\n' := by intro h; subst h; simp at he
      cases r3 with
      | nil => simp [noNl_nil]
      | cons s r4 =>
        simp only
        by_cases hs : (s == '+' || s == '-') = true
        · simp only [hs, ↓reduceIte]
          by_cases hk : spanLen isDigit r4 = 0
          · simp [hk, noNl_nil]
          · simp only [hk, ↓reduceIte, List.take_succ_cons]
            have hsne : s ≠ '\n' := by intro h; subst h; simp at hs
            exact noNl_cons hene (noNl_cons hsne (noNl_take_span isDigit isDigit_ne_nl r4 _ (Nat.le_refl _)))
        · simp only [hs, Bool.false_eq_true, ↓reduceIte]
          by_cases hk : spanLen isDigit (s :: r4) = 0
          · simp [hk, noNl_nil]
          · simp only [hk, ↓reduceIte, List.take_succ_cons]
            exact noNl_cons hene (noNl_take_span isDigit isDigit_ne_nl (s :: r4) _ (Nat.le_refl _))
    · simp [he, noNl_nil]

/-- `floatLen` never crosses a newline -/
theorem floatLen_noNl (t : List Char) : noNl (t.take (floatLen t)) := by
  unfold floatLen
  by_cases hd : spanLen isDigit t = 0
  · simp [hd, noNl_nil]
  · simp only [hd, ↓reduceIte]
    apply noNl_take_add
    · apply noNl_take_add
      · exact noNl_take_span isDigit isDigit_ne_nl t _ (Nat.le_refl _)
      · exact fracLen_noNl _
    · exact expLen_noNl _

theorem noNl_take_expect2Tail : ∀ t : List Char, noNl (t.take (expect2Tail t)) := by
  intro t
  induction t with
  | nil => simp [expect2Tail, noNl_nil]
  | cons c r ih =>
    simp only [expect2Tail]
    by_cases hb : (c == '\t' || c == ' ' || c == '\n') = true
    · simp [hb, noNl_nil]
    · have hc : c ≠ '\n' := by intro h; subst h; simp at hb
      simp only [hb, Bool.false_eq_true, ↓reduceIte]
      by_cases hs : (c == '*') = true
      · simp only [hs, ↓reduceIte]
        by_cases ho : starOk r = true
        · simp only [ho, ↓reduceIte, List.take_succ_cons]; exact noNl_cons hc ih
        · simp [ho, noNl_nil]
      · simp only [hs, Bool.false_eq_true, ↓reduceIte, List.take_succ_cons]; exact noNl_cons hc ih

/-- patterns other than the newline rules and `str` never match a newline character -/
theorem matchLen_noNl (p : Pat) (t : List Char)
    (hp : p = .lineComment ∨ p = .blanks ∨ p = .ident ∨ p = .num ∨ p = .float ∨ p = .any ∨ p = .expect ∨ p = .expect2) :
    noNl (t.take (matchLen p t)) := by
  rcases hp with rfl | rfl | rfl | rfl | rfl | rfl | rfl | rfl
  · -- lineComment
    simp only [matchLen]
    unfold lineCommentLen
    split
    · rename_i a b r
      by_cases hab : (a == '/' && b == '/') = true
      · simp only [hab, ↓reduceIte, List.take_succ_cons]
        simp only [Bool.and_eq_true, beq_iff_eq] at hab
        refine noNl_cons (by rw [hab.1]; decide) (noNl_cons (by rw [hab.2]; decide) ?_)
        exact noNl_take_span (· != '\n') (by intro c hc; simpa using hc) r _ (Nat.le_refl _)
      · simp [hab, noNl_nil]
    · simp [noNl_nil]
  · -- blanks
    exact noNl_take_span _ (by intro c hc heq; subst heq; simp [isBlank] at hc) t _ (Nat.le_refl _)
  · -- ident
    simp only [matchLen]
    cases t with
    | nil => simp [identLen, noNl_nil]
    | cons c r =>
      simp only [identLen]
      by_cases hc : isAlpha c = true
      · simp only [hc, ↓reduceIte, List.take_succ_cons]
        refine noNl_cons (by intro h; subst h; simp [isAlpha] at hc) ?_
        exact noNl_take_span isIdChr (by intro c hc heq; subst heq; simp [isIdChr, isAlpha, isDigit] at hc) r _ (Nat.le_refl _)
      · simp [hc, noNl_nil]
  · -- num
    exact noNl_take_span isDigit isDigit_ne_nl t _ (Nat.le_refl _)
  · -- float
    exact floatLen_noNl t
  · -- any
    simp only [matchLen]
    cases t with
    | nil => simp [anyLen, noNl_nil]
    | cons c r =>
      simp only [anyLen]
      by_cases hc : (c != '\n') = true
      · simp only [hc, ↓reduceIte, List.take_succ_cons, List.take_zero]
        exact noNl_cons (by simpa using hc) noNl_nil
      · simp [hc, noNl_nil]
  · -- expect
    simp only [matchLen]
    unfold expectLen
    split
    · rename_i hpre
      apply noNl_take_add
      · have := isPrefix_take "EXPECT:".toList t hpre
        have h7 : "EXPECT:".toList.length = 7 := by decide
        rw [h7] at this
        rw [this]
        intro c hc heq; subst heq; simp at hc
      · exact noNl_take_span _ (by intro c hc heq; subst heq; simp at hc) _ _ (Nat.le_refl _)
    · simp [noNl_nil]
  · -- expect2
    simp only [matchLen]
    unfold expect2Len
    split
    · rename_i hpre
      apply noNl_take_add
      · have := isPrefix_take "EXPECT:".toList t hpre
        have h7 : "EXPECT:".toList.length = 7 := by decide
        rw [h7] at this
        rw [this]
        intro c hc heq; subst heq; simp at hc
      · exact noNl_take_expect2Tail _
    · simp [noNl_nil]

theorem honest_of_noNl (chars : List Char) (r : Rule) (h : noNl chars) : Honest ⟨chars, 0, r⟩ := by
  refine ⟨(countNl_noNl h).symm, ?_⟩
  intro hne; exact absurd rfl hne

theorem contin_take (t : List Char) (hn : 0 < continLen t) :
    ∃ w, noNl w ∧ t.take (continLen t) = w ++ ['\n'] := by
  cases t with
  | nil => simp [continLen] at hn
  | cons c r =>
    simp only [continLen] at hn ⊢
    by_cases hc : (c == '\\') = true
    · simp only [hc, ↓reduceIte] at hn ⊢
      have hcne : c ≠ '\n' := by intro h; subst h; simp at hc
      generalize hd : r.drop (spanLen isBlank r) = d at hn ⊢
      cases d with
      | nil => simp at hn
      | cons n rest =>
        simp only at hn ⊢
        by_cases hnn : (n == '\n') = true
        · simp only [hnn, ↓reduceIte]
          have hneq : n = '\n' := by simpa using hnn
          subst hneq
          refine ⟨c :: r.take (spanLen isBlank r), ?_, ?_⟩
          · refine noNl_cons hcne ?_
            exact noNl_take_span isBlank (by intro c hc heq; subst heq; simp [isBlank] at hc) r _ (Nat.le_refl _)
          · rw [show spanLen isBlank r + 2 = (spanLen isBlank r + 1) + 1 by omega, List.take_succ_cons, List.take_add, hd]
            simp
        · simp [hnn] at hn
    · simp [hc] at hn

/-- the lexeme a faithful rule produces is honest, unless the rule is the string rule -/
theorem honest_of_rule (r : Rule) (hok : r.pat.nlOK r.nl = true) (hstr : r.pat ≠ .str) (t : List Char)
    (hn : 0 < matchLen r.pat t) :
    Honest ⟨t.take (matchLen r.pat t), nlValue r.nl (matchLen r.pat t), r⟩ := by
  cases hpat : r.pat with
  | lit s =>
    rw [hpat] at hok hn
    simp only [Pat.nlOK, Bool.and_eq_true, beq_iff_eq, Bool.not_eq_true'] at hok
    have hpre : isPrefix s t = true := by
      simp only [matchLen] at hn; by_cases h : isPrefix s t = true
      · exact h
      · simp [h] at hn
    have htake : t.take (matchLen (.lit s) t) = s := by
      simp only [matchLen, hpre, ↓reduceIte]; exact isPrefix_take s t hpre
    rw [hok.1, htake]
    simp only [nlValue]
    apply honest_of_noNl
    intro c hc heq; subst heq
    have : s.contains '\n' = true := by simpa using hc
    rw [hok.2] at this; exact absurd this (by simp)
  | contin =>
    rw [hpat] at hok hn
    simp only [Pat.nlOK, beq_iff_eq] at hok
    rw [hok]
    simp only [matchLen] at hn ⊢
    obtain ⟨w, hw, htake⟩ := contin_take t hn
    rw [htake]
    refine ⟨?_, fun _ => ⟨_, rfl⟩⟩
    simp only [nlValue, countNl_append, countNl_noNl hw]; decide
  | nls =>
    rw [hpat] at hok hn
    simp only [Pat.nlOK, beq_iff_eq] at hok
    rw [hok]
    simp only [matchLen] at hn ⊢
    refine ⟨?_, fun _ => span_nl_ends t hn⟩
    simp only [nlValue]; exact (countNl_replicate_like t).symm
  | crlfs =>
    rw [hpat] at hok hn
    simp only [Pat.nlOK, beq_iff_eq] at hok
    rw [hok]
    simp only [matchLen] at hn ⊢
    obtain ⟨h1, h2⟩ := crlf_take t
    refine ⟨?_, fun _ => h2 (by omega)⟩
    simp only [nlValue]; rw [h1]; omega
  | nl1 =>
    rw [hpat] at hok hn
    simp only [Pat.nlOK, beq_iff_eq] at hok
    rw [hok]
    simp only [matchLen] at hn ⊢
    cases t with
    | nil => simp [nl1Len] at hn
    | cons c rest =>
      simp only [nl1Len] at hn ⊢
      by_cases hc : (c == '\n') = true
      · have : c = '\n' := by simpa using hc
        subst this
        simp only [beq_self_eq_true, ↓reduceIte, List.take_succ_cons, List.take_zero]
        exact ⟨by simp [nlValue, countNl], fun _ => ⟨[], rfl⟩⟩
      · simp [hc] at hn
  | str => exact absurd hpat hstr
  | eof => rw [hpat] at hn; simp [matchLen] at hn
  | lineComment =>
    rw [hpat] at hok; simp only [Pat.nlOK, beq_iff_eq] at hok; rw [hok]
    exact honest_of_noNl _ r (matchLen_noNl _ t (by simp))
  | blanks =>
    rw [hpat] at hok; simp only [Pat.nlOK, beq_iff_eq] at hok; rw [hok]
    exact honest_of_noNl _ r (matchLen_noNl _ t (by simp))
  | ident =>
    rw [hpat] at hok; simp only [Pat.nlOK, beq_iff_eq] at hok; rw [hok]
    exact honest_of_noNl _ r (matchLen_noNl _ t (by simp))
  | num =>
    rw [hpat] at hok; simp only [Pat.nlOK, beq_iff_eq] at hok; rw [hok]
    exact honest_of_noNl _ r (matchLen_noNl _ t (by simp))
  | float =>
    rw [hpat] at hok; simp only [Pat.nlOK, beq_iff_eq] at hok; rw [hok]
    exact honest_of_noNl _ r (matchLen_noNl _ t (by simp))
  | any =>
    rw [hpat] at hok; simp only [Pat.nlOK, beq_iff_eq] at hok; rw [hok]
    exact honest_of_noNl _ r (matchLen_noNl _ t (by simp))
  | expect =>
    rw [hpat] at hok; simp only [Pat.nlOK, beq_iff_eq] at hok; rw [hok]
    exact honest_of_noNl _ r (matchLen_noNl _ t (by simp))
  | expect2 =>
    rw [hpat] at hok; simp only [Pat.nlOK, beq_iff_eq] at hok; rw [hok]
    exact honest_of_noNl _ r (matchLen_noNl _ t (by simp))

end UtapModel.LexLines
