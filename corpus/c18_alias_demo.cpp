#include "utap/range.h"
#include <cstdio>
int main(){ UTAP::range_t<int> r{1,10}; r -= r; std::printf("[%d,%d]\n", r.first(), r.last()); return (r.first()==-9 && r.last()==9) ? 0 : 1; }
