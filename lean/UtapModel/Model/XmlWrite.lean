/- Model of the XML writer (src/xmlwriter.cpp: `project / taTempl / location / init / transition / source / target /
   labels / label`) at tree level, an *independent* reader of the written tree (`readGraph`), and the specification
   `graphOf` of the template graph a document denotes (property C20).  Core Lean only.

   Label texts are the printed expressions (`expression_t::str()`), opaque keys except for the two shapes the writer's
   `label()` looks at: the text "1" and a text starting with "1 && ".  GUI attributes (x, y, color) and nails are not
   modelled (the independent reader ignores them). -/
import UtapModel.Model.Xml
namespace UtapModel.AM

/-- a printed expression, as far as `XMLWriter::label` distinguishes -/
inductive LTxt
  | one                      -- the text "1" (default guard / update / weight, and literally written 1)
  | andOne (rest : Key)      -- "1 && " ++ rest (how the type checker re-composes invariants)
  | plain (k : Key)          -- anything else
  deriving DecidableEq, Repr, Inhabited

structure WLoc where
  name : String
  inv : Option LTxt          -- `none`: empty expression
  rate : Option LTxt
  urgent : Bool
  committed : Bool
  deriving DecidableEq, Repr, Inhabited

/-- `edge_t::src / srcb`: a location (by its number `nr` = index in `locations`) or a branchpoint -/
inductive WEnd
  | loc (nr : Nat)
  | bp (nr : Nat)
  deriving DecidableEq, Repr, Inhabited

structure WSel where
  id : String
  ty : String                -- the text of the select type
  named : Bool               -- the type is a typedef name (the only case in which the writer can print it)
  deriving DecidableEq, Repr, Inhabited

structure WEdge where
  src : WEnd
  dst : WEnd
  ctrl : Bool
  select : List WSel
  guard : Option LTxt
  sync : Option LTxt
  assign : Option LTxt
  prob : Option LTxt
  deriving DecidableEq, Repr, Inhabited

structure WTempl where
  name : String
  locs : List WLoc
  bps : List String
  init : Option Nat          -- number of the initial location; `none`: no (or an unresolved) init
  edges : List WEdge
  deriving DecidableEq, Repr, Inhabited

/-- a process of the system line: is it a template used directly (then no instantiation line is written), and for each of
    its parameters whether it is bound (`instance_t::mapping`) -/
structure WProc where
  name : String
  isTempl : Bool
  bound : List Bool
  deriving DecidableEq, Repr, Inhabited

structure WDoc where
  templs : List WTempl
  procs : List WProc := []
  deriving DecidableEq, Repr, Inhabited

/-- what the writer of the *current* source does for the three optional features; computed from the generated tables
    (Gen/XmlTables.lean) by `Model/XmlWriteCfg.lean`, so that the model follows a repaired writer -/
structure WCfg where
  prob : Bool        -- a "probability" label is written (XMLWriter::labels)
  ctrl : Bool        -- the "controllable" attribute is written (XMLWriter::transition)
  bps : Bool         -- branchpoint elements are written and referenced (XMLWriter::taTempl / source / target)
  sel : Bool := false  -- every select binding is written, each with its declared type (XMLWriter::labels)
  deriving DecidableEq, Repr, Inhabited

def idOf (nr : Nat) : String := "id" ++ toString nr
def bpIdOf (nr : Nat) : String := "bp" ++ toString nr

/-! ### The writer -/

/-- `XMLWriter::label(kind, data)`: nothing for "1", a leading "1 && " is cut off -/
def wLabel (kind : String) : LTxt → List Xml
  | .one => []
  | .andOne r => [.elem "label" [("kind", kind)] [.text (.expr r)]]
  | .plain k => [.elem "label" [("kind", kind)] [.text (.expr k)]]

def wOptLabel (kind : String) : Option LTxt → List Xml
  | none => []
  | some t => wLabel kind t

def wLocAttrs (nl : WLoc × Nat) : List (String × String) := [("id", idOf nl.2)]
def wLocKids (nl : WLoc × Nat) : List Xml :=
  [Xml.elem "name" [] [.text (.str nl.1.name)]] ++ wOptLabel "invariant" nl.1.inv ++ wOptLabel "exponentialrate" nl.1.rate ++
  (if nl.1.committed then [Xml.elem "committed" [] []] else if nl.1.urgent then [Xml.elem "urgent" [] []] else [])

def selText (s : WSel) (withType : Bool) : String := s.id ++ " : " ++ (if withType then s.ty else "")

def selectsText : List WSel → String
  | [] => ""
  | [s] => selText s true
  | s :: r => selText s true ++ ", " ++ selectsText r

/-- `XMLWriter::labels`: only `select[0]`, its type only when it carries a typedef label; a probability only if the
    source has that `label("probability", ..)` call -/
def wEdgeLabels (c : WCfg) (e : WEdge) : List Xml :=
  (if c.sel then (if e.select.isEmpty then [] else [Xml.elem "label" [("kind", "select")] [.text (.str (selectsText e.select))]])
   else match e.select with
   | [] => []
   | s :: _ => [Xml.elem "label" [("kind", "select")] [.text (.str (selText s s.named))]]) ++
  wOptLabel "guard" e.guard ++ wOptLabel "synchronisation" e.sync ++ wOptLabel "assignment" e.assign ++
  (if c.prob then wOptLabel "probability" e.prob else [])

/-- the id written for an endpoint; `none` = the null `location_t*` of a branchpoint endpoint is dereferenced -/
def wEnd (c : WCfg) : WEnd → Option String
  | .loc n => some (idOf n)
  | .bp n => if c.bps then some (bpIdOf n) else none

def wEdgeAttrs (c : WCfg) (e : WEdge) : List (String × String) :=
  if c.ctrl && !e.ctrl then [("controllable", "false")] else []

def wEdgeKids (c : WCfg) (e : WEdge) (s d : String) : List Xml :=
  [Xml.elem "source" [("ref", s)] [], Xml.elem "target" [("ref", d)] []] ++ wEdgeLabels c e

/-- `XMLWriter::transition` -/
def wEdge (c : WCfg) (e : WEdge) : Option Xml :=
  match wEnd c e.src with
  | none => none
  | some s =>
    match wEnd c e.dst with
    | none => none
    | some d => some (.elem "transition" (wEdgeAttrs c e) (wEdgeKids c e s d))

def allSome {α} : List (Option α) → Option (List α)
  | [] => some []
  | none :: _ => none
  | some a :: r => (allSome r).map (a :: ·)

def wBps (c : WCfg) (t : WTempl) : List Xml :=
  if c.bps then t.bps.zipIdx.map (fun b => Xml.elem "branchpoint" [("id", bpIdOf b.2)] []) else []

def wTempl (c : WCfg) (t : WTempl) : Option Xml :=
  match t.init, allSome (t.edges.map (wEdge c)) with
  | some i, some es =>
    some (.elem "template" []
      ([Xml.elem "name" [] [.text (.str t.name)], Xml.elem "parameter" [] [], Xml.elem "declaration" [] []] ++
       (t.locs.zipIdx.map (fun nl => Xml.elem "location" (wLocAttrs nl) (wLocKids nl)) ++
        (wBps c t ++ ([Xml.elem "init" [("ref", idOf i)] []] ++ es)))))
  | _, _ => none

/-- `XMLWriter::system_instantiation` prints `p.arguments_str()` for every process that is not a template itself;
    `instance_t::print_arguments` looks up *every* parameter in `mapping` and dereferences the result: a free parameter
    (process with unbound parameters in the system line) dereferences `mapping.end()` -/
def procCrash (p : WProc) : Bool := !p.isTempl && p.bound.any (!·)

/-- `XMLWriter::project`; `none` = the writer crashes -/
def writeXml (c : WCfg) (d : WDoc) : Option Xml :=
  if d.procs.any procCrash then none
  else (allSome (d.templs.map (wTempl c))).map fun ts =>
    .elem "nta" [] ([Xml.elem "declaration" [] []] ++ (ts ++ [Xml.elem "system" [] []]))

/-! ### An independent reader of the written tree -/

inductive Flag | none | urgent | committed | both
  deriving DecidableEq, Repr, Inhabited

structure GLoc where
  id : Option String
  name : Option String
  inv : Option String
  rate : Option String
  flag : Flag
  deriving DecidableEq, Repr, Inhabited

structure GEdge where
  src : Option String
  tgt : Option String
  ctrl : Bool                          -- the `controllable` attribute, absent = true
  labels : List (String × String)      -- (kind, text) in document order
  deriving DecidableEq, Repr, Inhabited

structure GTempl where
  name : Option String
  locs : List GLoc
  inits : List (Option String)         -- the refs of all init elements
  edges : List GEdge
  deriving DecidableEq, Repr, Inhabited

abbrev Graph := List GTempl

def txtStr : Txt → String
  | .str s => s
  | .expr k => k
  | _ => "?"

/-- text content of an element -/
def contentOf (kids : List Xml) : String :=
  match kids with
  | .text t :: _ => txtStr t
  | _ => ""

def childText (tag : String) (kids : List Xml) : Option String :=
  kids.findSome? fun x => match x with
    | .elem t _ k => if t = tag then some (contentOf k) else none
    | .text _ => none

def labelOf (kind : String) (kids : List Xml) : Option String :=
  kids.findSome? fun x => match x with
    | .elem t a k => if t = "label" ∧ a.lookup "kind" = some kind then some (contentOf k) else none
    | .text _ => none

def hasChild (tag : String) (kids : List Xml) : Bool :=
  kids.any fun x => match x with
    | .elem t _ _ => t = tag
    | .text _ => false

def gLoc (a : List (String × String)) (k : List Xml) : GLoc :=
  { id := a.lookup "id", name := childText "name" k, inv := labelOf "invariant" k, rate := labelOf "exponentialrate" k,
    flag := match hasChild "urgent" k, hasChild "committed" k with
            | false, false => .none
            | true, false => .urgent
            | false, true => .committed
            | true, true => .both }

def refOf (tag : String) (kids : List Xml) : Option String :=
  kids.findSome? fun x => match x with
    | .elem t a _ => if t = tag then a.lookup "ref" else none
    | .text _ => none

/-- a `<label kind=..>text</label>` child -/
def lblF (x : Xml) : Option (String × String) :=
  match x with
  | .elem t la lk => if t = "label" then some ((la.lookup "kind").getD "", contentOf lk) else none
  | .text _ => none

/-- the `controllable` attribute of a transition, absent = true -/
def ctrlOfAttrs (a : List (String × String)) : Bool :=
  match a.lookup "controllable" with
  | none => true
  | some v => v = "true"

def gEdge (a : List (String × String)) (k : List Xml) : GEdge :=
  { src := refOf "source" k, tgt := refOf "target" k, ctrl := ctrlOfAttrs a, labels := k.filterMap lblF }

def locF (x : Xml) : Option GLoc :=
  match x with
  | .elem t a lk => if t = "location" then some (gLoc a lk) else none
  | .text _ => none

def initF (x : Xml) : Option (Option String) :=
  match x with
  | .elem t a _ => if t = "init" then some (a.lookup "ref") else none
  | .text _ => none

def edgeF (x : Xml) : Option GEdge :=
  match x with
  | .elem t a ek => if t = "transition" then some (gEdge a ek) else none
  | .text _ => none

def gTempl (k : List Xml) : GTempl :=
  { name := childText "name" k, locs := k.filterMap locF, inits := k.filterMap initF, edges := k.filterMap edgeF }

def templF (x : Xml) : Option GTempl :=
  match x with
  | .elem t _ k => if t = "template" then some (gTempl k) else none
  | .text _ => none

def readGraph : Xml → Graph
  | .elem _ _ kids => kids.filterMap templF
  | .text _ => []

/-! ### Specification: the graph a document denotes -/

/-- the text a label has to carry; `none`: no label (empty or trivially true / 1).  A leading "1 && " (the way the
    type checker stores invariants) is not part of the text. -/
def nontrivial : Option LTxt → Option String
  | none => none
  | some .one => none
  | some (.andOne r) => some r
  | some (.plain k) => some k

def flagOf (l : WLoc) : Flag :=
  match l.urgent, l.committed with
  | false, false => .none
  | true, false => .urgent
  | false, true => .committed
  | true, true => .both

def glocOf (nl : WLoc × Nat) : GLoc :=
  { id := some (idOf nl.2), name := some nl.1.name, inv := nontrivial nl.1.inv, rate := nontrivial nl.1.rate, flag := flagOf nl.1 }

/-- the id of an endpoint: for a branchpoint only if the writer writes branchpoint elements at all (edges through
    branchpoints are outside the property's statement except for "writing never crashes") -/
def endId (c : WCfg) : WEnd → Option String
  | .loc n => some (idOf n)
  | .bp n => if c.bps then some (bpIdOf n) else none

def optLabel (kind : String) (t : Option LTxt) : List (String × String) :=
  match nontrivial t with
  | some s => [(kind, s)]
  | none => []

def gedgeOf (c : WCfg) (e : WEdge) : GEdge :=
  { src := endId c e.src, tgt := endId c e.dst, ctrl := e.ctrl,
    labels := (if e.select.isEmpty then [] else [("select", selectsText e.select)]) ++ optLabel "guard" e.guard ++
              optLabel "synchronisation" e.sync ++ optLabel "assignment" e.assign ++ optLabel "probability" e.prob }

def gtemplOf (c : WCfg) (t : WTempl) : GTempl :=
  { name := some t.name, locs := t.locs.zipIdx.map glocOf, inits := [t.init.map idOf], edges := t.edges.map (gedgeOf c) }

def graphOf (c : WCfg) (d : WDoc) : Graph := d.templs.map (gtemplOf c)

/-! ### Exception shapes (computed) -/

inductive Shape
  | probabilityDropped        -- a non-trivial probability label is never written
  | selectBindingsDropped     -- only the first select binding is written
  | selectTypeDropped         -- the type of the (first) select binding is written only if it is a typedef name
  | controllableDropped       -- controllable="false" is never written
  | branchpointEndpoint       -- an edge from/to a branchpoint: null location_t* dereferenced
  | urgentAndCommitted        -- (cannot arise from the builder) only <committed/> is written
  | noInit                    -- template without initial location: null symbol dereferenced
  | unboundProcess            -- a process with free parameters: `mapping.end()` dereferenced by print_arguments
  deriving DecidableEq, Repr, Inhabited

def selShapes (select : List WSel) : List Shape :=
  match select with
  | s :: _ => if s.named then [] else [Shape.selectTypeDropped]
  | [] => []

def edgeShapes (c : WCfg) (e : WEdge) : List Shape :=
  (if !c.prob && (nontrivial e.prob).isSome then [Shape.probabilityDropped] else []) ++
  (if !c.sel && e.select.length ≥ 2 then [Shape.selectBindingsDropped] else []) ++
  (if c.sel then [] else selShapes e.select) ++
  (if c.ctrl || e.ctrl then [] else [Shape.controllableDropped]) ++
  (if (wEnd c e.src).isSome && (wEnd c e.dst).isSome then [] else [Shape.branchpointEndpoint])

def templShapes (c : WCfg) (t : WTempl) : List Shape :=
  t.edges.flatMap (edgeShapes c) ++
  (if t.locs.any (fun l => l.urgent && l.committed) then [Shape.urgentAndCommitted] else []) ++
  (if t.init.isNone then [Shape.noInit] else [])

def docShapes (c : WCfg) (d : WDoc) : List Shape :=
  d.templs.flatMap (templShapes c) ++ (if d.procs.any procCrash then [Shape.unboundProcess] else [])

end UtapModel.AM
