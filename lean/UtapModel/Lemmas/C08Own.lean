/- Own-template clauses of C08 (edge endpoints, initial location): invariant `OwnT` and its preservation.
   Helper lemmas for Props/C08.lean. -/
import UtapModel.Lemmas.C08Scope
import UtapModel.Lemmas.C16
namespace UtapModel.Builder

/-- an endpoint pointer (if set) denotes a location / branchpoint of template t -/
def ownEnd (v : View) (t : Nat) (o : Option Obj) : Prop := ∀ x, o = some x → v.objTempl (some x) = some t

def Edge.own (v : View) (t : Nat) (e : Edge) : Prop :=
  ownEnd v t e.src ∧ ownEnd v t e.srcb ∧ ownEnd v t e.dst ∧ ownEnd v t e.dstb

/-- every edge's source and target belong to the edge's own template; a template's initial location is one of its own -/
structure OwnT (s : BState) : Prop where
  edges : ∀ (t : Nat) (T : Templ) (e : Edge), s.doc.templates[t]? = some T → e ∈ T.edges → e.own s.view t
  init : ∀ (t : Nat) (T : Templ) (sid : SymId), s.doc.templates[t]? = some T → T.init = some sid →
    s.view.objTempl (symUser s.syms sid) = some t ∧ ∃ sym : Symbol, s.syms[sid]? = some sym ∧ sym.ty.isLocation = true

theorem objTempl_mono {s s' : BState} (g : Grows s s') (o : Option Obj) (t : Nat) (h : s.view.objTempl o = some t) :
    s'.view.objTempl o = some t := by
  cases o with
  | none => simp [View.objTempl] at h
  | some x =>
    cases x <;> simp only [View.objTempl, BState.view, List.getElem?_map] at h ⊢ <;> try exact h
    · rename_i i
      obtain ⟨l, hl⟩ := g.locs
      cases hi : s.doc.locs[i]? with
      | none => simp [hi] at h
      | some a => rw [← hl, List.getElem?_append_left (getElem?_lt_of_some hi), hi]; simpa [hi] using h
    · rename_i i
      obtain ⟨l, hl⟩ := g.bps
      cases hi : s.doc.bps[i]? with
      | none => simp [hi] at h
      | some a => rw [← hl, List.getElem?_append_left (getElem?_lt_of_some hi), hi]; simpa [hi] using h

theorem symUser_mono {s s' : BState} (g : Grows s s') (sid : SymId) (u : Obj) (h : symUser s.syms sid = some u) :
    symUser s'.syms sid = some u := by
  unfold symUser at h ⊢
  cases hs : s.syms[sid]? with
  | none => simp [hs] at h
  | some sym =>
    obtain ⟨sym', h1, _, h3, _⟩ := g.syms sid sym hs
    simp [hs] at h
    simp [h1, h3, h]

theorem Edge.own_mono {s s' : BState} (g : Grows s s') {t : Nat} {e : Edge} (h : e.own s.view t) : e.own s'.view t := by
  obtain ⟨h1, h2, h3, h4⟩ := h
  exact ⟨fun x hx => objTempl_mono g _ _ (h1 x hx), fun x hx => objTempl_mono g _ _ (h2 x hx),
         fun x hx => objTempl_mono g _ _ (h3 x hx), fun x hx => objTempl_mono g _ _ (h4 x hx)⟩

/-- general transfer: every template of s' is a template of s whose edges are old or own and whose init is old or own,
    or a brand-new template without edges and init -/
theorem OwnT.transfer {s s' : BState} (h : OwnT s) (g : Grows s s')
    (hT : ∀ (t : Nat) (T' : Templ), s'.doc.templates[t]? = some T' →
      (∃ T, s.doc.templates[t]? = some T ∧ (∀ e ∈ T'.edges, e ∈ T.edges ∨ e.own s'.view t) ∧
        (T'.init = T.init ∨ ∃ sid, T'.init = some sid ∧ s'.view.objTempl (symUser s'.syms sid) = some t ∧
          ∃ sym : Symbol, s'.syms[sid]? = some sym ∧ sym.ty.isLocation = true)) ∨
      (T'.edges = [] ∧ T'.init = none)) : OwnT s' := by
  refine ⟨?_, ?_⟩
  · intro t T' e hT' he
    rcases hT t T' hT' with ⟨T, hTo, hed, _⟩ | ⟨he0, _⟩
    · rcases hed e he with h1 | h1
      · exact Edge.own_mono g (h.edges t T e hTo h1)
      · exact h1
    · rw [he0] at he; cases he
  · intro t T' sid hT' hi
    rcases hT t T' hT' with ⟨T, hTo, _, hin⟩ | ⟨_, hi0⟩
    · rcases hin with h1 | ⟨sid', h1, h2⟩
      · rw [h1] at hi
        obtain ⟨this, sym, hs, hl⟩ := h.init t T sid hTo hi
        obtain ⟨sym', hs', _, _, hl'⟩ := g.syms sid sym hs
        refine ⟨?_, sym', hs', hl' hl⟩
        cases hu : symUser s.syms sid with
        | none => rw [hu] at this; simp [View.objTempl] at this
        | some u => rw [symUser_mono g sid u hu]; rw [hu] at this; exact objTempl_mono g _ _ this
      · rw [h1] at hi; cases hi; exact h2
    · rw [hi0] at hi; cases hi

/-- steps that do not touch the templates -/
theorem OwnT.same {s s' : BState} (h : OwnT s) (g : Grows s s') (hT : s'.doc.templates = s.doc.templates) : OwnT s' :=
  h.transfer g (fun t T' hT' => Or.inl ⟨T', by rw [← hT]; exact hT', fun e he => Or.inl he, Or.inl rfl⟩)

theorem OwnT_init : OwnT BState.init :=
  ⟨by intro t T e hT; simp [BState.init] at hT, by intro t T sid hT; simp [BState.init] at hT⟩


theorem ownT_modifyTempl {s s' : BState} (h : OwnT s) (g : Grows s s') (t : Nat) (f : Templ → Templ)
    (hs : s'.doc.templates = s.doc.templates.modify t f)
    (hf : ∀ T, s.doc.templates[t]? = some T → (∀ e ∈ (f T).edges, e ∈ T.edges ∨ e.own s'.view t) ∧
      ((f T).init = T.init ∨ ∃ sid, (f T).init = some sid ∧ s'.view.objTempl (symUser s'.syms sid) = some t ∧
        ∃ sym : Symbol, s'.syms[sid]? = some sym ∧ sym.ty.isLocation = true)) : OwnT s' := by
  refine h.transfer g ?_
  intro t' T' hT'
  rw [hs, List.getElem?_modify] at hT'
  cases hd : s.doc.templates[t']? with
  | none => simp [hd] at hT'
  | some T =>
    simp [hd] at hT'
    by_cases he : t = t'
    · subst he
      simp at hT'; subst hT'
      exact Or.inl ⟨T, rfl, (hf T hd).1, (hf T hd).2⟩
    · simp [he] at hT'; subst hT'
      exact Or.inl ⟨T, rfl, fun e he => Or.inl he, Or.inl rfl⟩

theorem ownT_appendTempl {s s' : BState} (h : OwnT s) (g : Grows s s') (Tn : Templ)
    (hs : s'.doc.templates = s.doc.templates ++ [Tn]) (he : Tn.edges = []) (hi : Tn.init = none) : OwnT s' := by
  refine h.transfer g ?_
  intro t' T' hT'
  rw [hs] at hT'
  rcases append_one_split hT' with ⟨_, ho⟩ | ⟨_, hx⟩
  · exact Or.inl ⟨T', ho, fun e he => Or.inl he, Or.inl rfl⟩
  · subst hx; exact Or.inr ⟨he, hi⟩

theorem mem_modify_endpoints (l : List Edge) (i : Nat) (k : Edge → Edge)
    (hk : ∀ ed, (k ed).src = ed.src ∧ (k ed).srcb = ed.srcb ∧ (k ed).dst = ed.dst ∧ (k ed).dstb = ed.dstb)
    (e' : Edge) (he : e' ∈ l.modify i k) : ∃ e ∈ l, e'.src = e.src ∧ e'.srcb = e.srcb ∧ e'.dst = e.dst ∧ e'.dstb = e.dstb := by
  obtain ⟨j, hj⟩ := List.getElem?_of_mem he
  rw [List.getElem?_modify] at hj
  cases ho : l[j]? with
  | none => simp [ho] at hj
  | some e =>
    simp [ho] at hj
    refine ⟨e, List.mem_of_getElem? ho, ?_⟩
    by_cases hij : i = j
    · simp [hij] at hj; rw [← hj]; exact hk e
    · simp [hij] at hj; rw [← hj]; exact ⟨rfl, rfl, rfl, rfl⟩

theorem ownT_setEdge {s : BState} (h : OwnT s) (f : Edge → Expr → Edge)
    (hk : ∀ ed e, (f ed e).src = ed.src ∧ (f ed e).srcb = ed.srcb ∧ (f ed e).dst = ed.dst ∧ (f ed e).dstb = ed.dstb) :
    OwnT (s.setEdge f) := by
  have g : Grows s (s.setEdge f) := grows_setEdge s f
  unfold BState.setEdge at g ⊢
  split
  · exact h.same (Grows.of_eq rfl rfl rfl) rfl
  · rename_i t i hce
    simp only [hce] at g
    refine ownT_modifyTempl h g t _ rfl ?_
    intro T hT
    refine ⟨?_, Or.inl rfl⟩
    intro e' he'
    obtain ⟨e, hm, h1, h2, h3, h4⟩ := mem_modify_endpoints T.edges i _ (fun ed => hk ed _) e' he'
    right
    have := Edge.own_mono g (h.edges t T e hT hm)
    unfold Edge.own at this ⊢
    rw [h1, h2, h3, h4]; exact this


theorem resolveEndpoint_resolveSym {s : BState} {name : String} {sym : Symbol} (h : s.resolveEndpoint name = some sym) :
    ∃ sid, s.resolveSym name = some (sid, sym) ∧ (sym.ty.isLocation ∨ sym.ty.isBranchpoint) := by
  unfold BState.resolveEndpoint at h
  split at h
  · rename_i sid sym' hr
    split at h
    · cases h; rename_i hc; exact ⟨sid, hr, by simpa using hc⟩
    · cases h
  · cases h

/-- the endpoints of the edge proc_edge_begin creates belong to the template being parsed -/
theorem mkEdge_own {s : BState} (h2 : Inv2 s.view) {t : Nat} (hc : s.currentTemplate = some t) {a b : String} {fs ts : Symbol}
    (hf : s.resolveEndpoint a = some fs) (ht : s.resolveEndpoint b = some ts) (edges : List Edge) (c : Bool) (fr : FrameId) (x y z : Expr) :
    (mkEdge edges fs ts c fr x y z).own s.view t := by
  obtain ⟨_, hrf, hkf⟩ := resolveEndpoint_resolveSym hf
  obtain ⟨_, hrt, hkt⟩ := resolveEndpoint_resolveSym ht
  have of := h2.resolve_own hc hrf hkf
  have ot := h2.resolve_own hc hrt hkt
  refine ⟨?_, ?_, ?_, ?_⟩ <;> intro o ho <;> simp only [mkEdge] at ho
  · split at ho
    · rw [← ho]; exact of
    · cases ho
  · split at ho
    · cases ho
    · rw [← ho]; exact of
  · split at ho
    · rw [← ho]; exact ot
    · cases ho
  · split at ho
    · cases ho
    · rw [← ho]; exact ot

theorem ite_doc {c : Prop} [Decidable c] {a b : BState} {d : Doc} (h1 : a.doc = d) (h2 : b.doc = d) : (if c then a else b).doc = d := by
  split <;> assumption

theorem addSelectSymbol_doc (s : BState) (n : String) (f : Option FrameId) : (s.addSelectSymbol n f).doc = s.doc := by
  unfold BState.addSelectSymbol
  simp only [BState.popType]
  refine ite_doc rfl ?_
  cases f with
  | some f =>
    show (BState.addSymbol _ f n _ none).1.doc = s.doc
    simp only [BState.addSymbol]
    exact ite_doc rfl rfl
  | none => exact ite_doc rfl rfl

theorem OwnT_step (s : BState) (c : Call) (h2 : Inv2 s.view) (h : OwnT s) : OwnT (step s c) := by
  have g := C16_decl_step s c
  cases c
  case typeName n =>
    refine h.same g ?_
    simp only [step]
    cases s.resolveSym n with
    | none => rfl
    | some p => obtain ⟨sid, ⟨nm, ty, u⟩⟩ := p; cases ty <;> rfl
  case declTypedef n => refine h.same g ?_; simp only [step, BState.popType]; split <;> rfl
  case declVar n i => refine h.same g ?_; cases i <;> (simp only [step, BState.addVariable]; split <;> rfl)
  case declFuncBegin n => refine h.same g ?_; simp only [step, BState.pushNewFrame, BState.newFrame, BState.pushFrame]; split <;> rfl
  case declExternalFunc n =>
    refine h.same g ?_; simp only [step, BState.pushNewFrame, BState.newFrame, BState.pushFrame, BState.popFrame]; split <;> rfl
  case iterationBegin n => refine h.same g ?_; simp only [step, BState.addVariable]; split <;> rfl
  case returnStatement a =>
    refine h.same g ?_
    simp only [step]
    cases s.currentFun with
    | none => rfl
    | some f => cases a <;> rfl
  case declDynamicTemplate n =>
    refine ownT_appendTempl h g (mkTempl s.syms.length (s.frameD s.params).syms s.doc.templates.length s.store.length true true) ?_ rfl rfl
    simp only [step, BState.addTemplate, BState.addSymbol, BState.newFrame]
    split <;> rfl
  case procBegin n isTA =>
    simp only [step] at g ⊢
    cases hd : s.findDynamicTemplate n with
    | some t =>
      simp only [hd] at g
      exact ownT_modifyTempl h g t (fun T => { T with isDefined := true }) rfl (fun T _ => ⟨fun e he => Or.inl he, Or.inl rfl⟩)
    | none =>
      simp only [hd] at g
      refine ownT_appendTempl h g (mkTempl s.syms.length (s.frameD s.params).syms s.doc.templates.length s.store.length isTA false) ?_ rfl rfl
      simp only [BState.addTemplate, BState.addSymbol, BState.newFrame, BState.pushFrame]
      split <;> rfl
  case procLocation n a b =>
    refine h.same g ?_
    simp only [step, BState.addLocation]
    cases a <;> cases b <;> simp only [if_true, if_false, Bool.false_eq_true] <;> split <;> (try rfl) <;> (split <;> rfl)
  case procLocationCommit n =>
    refine h.same g ?_
    simp only [step]
    cases s.resolveSym n with
    | none => rfl
    | some p =>
      obtain ⟨sid, ⟨nm, ty, u⟩⟩ := p
      cases ty <;> try rfl
      rename_i ur cm
      cases ur <;> rfl
  case procLocationUrgent n =>
    refine h.same g ?_
    simp only [step]
    cases s.resolveSym n with
    | none => rfl
    | some p =>
      obtain ⟨sid, ⟨nm, ty, u⟩⟩ := p
      cases ty <;> try rfl
      rename_i ur cm
      cases cm <;> rfl
  case procLocationInit n =>
    simp only [step] at g ⊢
    cases hr : s.resolveSym n with
    | none => exact h.same (Grows.of_eq rfl rfl rfl) rfl
    | some p =>
      obtain ⟨sid, ⟨nm, ty, u⟩⟩ := p
      cases ty <;> try exact h.same (Grows.of_eq rfl rfl rfl) rfl
      rename_i ur cm
      cases hc : s.currentTemplate with
      | none => exact h.same (Grows.of_eq rfl rfl rfl) rfl
      | some t =>
        refine ownT_modifyTempl h (Grows.of_eq rfl rfl rfl) t (fun T => { T with init := some sid }) rfl ?_
        intro T _
        have ho := h2.resolve_own hc hr (Or.inl rfl)
        have hsym := resolveSym_sym hr
        refine ⟨fun e he => Or.inl he, Or.inr ⟨sid, rfl, ?_, _, hsym, rfl⟩⟩
        have : symUser s.syms sid = u := by simp [symUser, BState.sym?] at hsym ⊢; simp [hsym]
        show s.view.objTempl (symUser s.syms sid) = some t
        rw [this]; exact ho
  case procBranchpoint n =>
    refine h.same g ?_
    simp only [step, BState.addBranchpoint]
    cases s.currentTemplate with
    | none => rfl
    | some t => simp only; split <;> rfl
  case procEdgeBegin a b c =>
    simp only [step] at g ⊢
    cases hf : s.resolveEndpoint a with
    | none => exact h.same (Grows.of_eq rfl rfl rfl) rfl
    | some fs =>
      cases ht : s.resolveEndpoint b with
      | none => exact h.same (Grows.of_eq rfl rfl rfl) rfl
      | some ts =>
        cases hc : s.currentTemplate with
        | none => exact h.same (Grows.of_eq rfl rfl rfl) rfl
        | some t =>
          refine ownT_modifyTempl h (Grows.of_eq rfl rfl rfl) t
            (fun T => { T with edges := T.edges ++ [mkEdge T.edges fs ts c s.store.length s.nextExpr (s.nextExpr + 1) (s.nextExpr + 1 + 1)] }) rfl ?_
          intro T _
          refine ⟨?_, Or.inl rfl⟩
          intro e he
          rcases List.mem_append.mp he with h1 | h1
          · exact Or.inl h1
          · right
            simp at h1; subst h1
            have := mkEdge_own h2 hc hf ht T.edges c s.store.length s.nextExpr (s.nextExpr + 1) (s.nextExpr + 1 + 1)
            exact this
  case procSelect n =>
    refine h.same g ?_
    simp only [step]
    cases s.currentEdge with
    | none => rfl
    | some p => simp only []; rw [addSelectSymbol_doc]
  case ganttSelect n => refine h.same g ?_; simp only [step]; rw [addSelectSymbol_doc]
  case procGuard => simp only [step]; exact ownT_setEdge h _ (fun _ _ => ⟨rfl, rfl, rfl, rfl⟩)
  case procUpdate => simp only [step]; exact ownT_setEdge h _ (fun _ _ => ⟨rfl, rfl, rfl, rfl⟩)
  case procProb => simp only [step]; exact ownT_setEdge h _ (fun _ _ => ⟨rfl, rfl, rfl, rfl⟩)
  case procSync =>
    simp only [step]
    cases s.currentEdge with
    | none => exact h.same (Grows.of_eq rfl rfl rfl) rfl
    | some p =>
      have h' : OwnT s.fresh.1 := h.same (Grows.of_eq rfl rfl rfl) rfl
      exact ownT_setEdge h' _ (fun _ _ => ⟨rfl, rfl, rfl, rfl⟩)
  case instantiationBegin a b =>
    refine h.same g ?_
    simp only [step, BState.newFrame, BState.pushFrame]
    split <;> (try rfl) <;> (split <;> rfl)
  case instantiationEnd a b n =>
    refine h.same g ?_
    simp only [step]
    have key : ∀ (lsc : Bool) (expected : Nat) (user : Option Obj),
        (if n < expected then s.popFrame.error.popFrag n
         else if n > expected then s.popFrame.error.popFrag n
         else match user.bind s.popFrame.doc.inst? with
           | some old => (s.popFrame.popFrag n).addInstance lsc a old (s.frameD s.top).syms
               ((List.range n).map (fun i => s.popFrame.fragments.getD (n - 1 - i) 0))
           | none => s.popFrame.popFrag n).doc.templates = s.doc.templates := by
      intro lsc expected user
      split
      · rfl
      · split
        · rfl
        · cases user.bind s.popFrame.doc.inst? with
          | none => rfl
          | some old => cases lsc <;> rfl
    cases s.popFrame.resolveSym b with
    | none => rfl
    | some p =>
      obtain ⟨sid, ⟨nm, ty, u⟩⟩ := p
      cases ty <;> first | exact key _ _ _ | rfl
  case process n =>
    refine h.same g ?_
    simp only [step]
    split
    · split
      · simp only [BState.addProcess, BState.addSymbol]
      · rfl
    · rfl
  all_goals exact h.same g rfl


/-- the callers' discipline along a whole callback list -/
def SafeRun : BState → List Call → Prop
  | _, [] => True
  | s, c :: r => safeCall s c = true ∧ SafeRun (step s c) r

theorem scope_reachable (cs : List Call) : ∀ (s : BState), Inv2 s.view → OwnT s → SafeRun s cs →
    Inv2 (run s cs).view ∧ OwnT (run s cs) := by
  induction cs with
  | nil => intro s h2 h _; exact ⟨h2, h⟩
  | cons c r ih =>
    intro s h2 h hs
    exact ih (step s c) (Inv2_step s c h2 hs.1) (OwnT_step s c h2 h) hs.2

end UtapModel.Builder
