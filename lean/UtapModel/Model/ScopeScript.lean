/- Scope scripts (property C07).

   A script is a list of scope events.  Two semantics:
   * `specRun` -- the declarative reading of "identifiers bind to the innermost preceding declaration in scope": an
     environment = list of open scopes, innermost first, each scope = its declarations, latest first; a use of x binds
     to the latest declaration of x in the nearest enclosing scope that declares x; unknown if no open scope does;
   * `implRun` -- the operational M-SCOPE machine of src/symbols.cpp + ExpressionBuilder: a symbol heap, a frame
     store with parent links, the builder's frame stack; `enter` = push_frame(frame_t::create(frames.top())) with the
     binders added, `leave` = popFrame, `declare` = frames.top().add_symbol, `use` = frames.top().resolve (the very
     `resolveIn` of Model/Scope.lean that M-BUILD uses), i.e. the name->LAST-index mapping per frame and the walk
     along raw parent pointers.
   A symbol can also be taken out of a frame again (`frame_t::remove`, reached through `Document::remove_process`): event
   `remove x`.  Declaratively the latest declaration of x in the innermost open scope is withdrawn -- every other
   declaration stays where it was, and an earlier declaration of x that it was hiding is visible again; operationally
   the frame is rebuilt from all its symbols but that one.
   Declarations are identified by their ordinal (0,1,2,… in script order; binders of an `enter` in list order).
   Core Lean only. -/
import UtapModel.Model.Scope

namespace UtapModel.Builder

inductive Ev where
  | enter (binders : List String)   -- function(params) / block / iteration(x) / quantifier(x) / template(params) / edge / instantiation(params)
  | leave
  | declare (x : String)
  | use (x : String)
  | remove (x : String)             -- frames.top().remove(s), s = the top frame's own symbol of that name (Document::remove_process on the globals)
  deriving Repr, DecidableEq, Inhabited

/-! ### declarative semantics -/

abbrev Scope := List (String × Nat)     -- declarations of one scope, latest first

/-- (a symbol with an empty name is never found: `frame_data::mapping` has no entry for it) -/
def lookupScope (x : String) (sc : Scope) : Option Nat := if x = "" then none else (sc.find? (fun d => d.1 = x)).map (·.2)

/-- nearest enclosing scope that declares `x`, and in it the latest declaration -/
def lookupScopes (x : String) : List Scope → Option Nat
  | [] => none
  | sc :: rest => match lookupScope x sc with
    | some d => some d
    | none => lookupScopes x rest

/-- binders numbered from `next`, as a scope (latest first) -/
def binderScope (next : Nat) : List String → Scope → Scope
  | [], acc => acc
  | b :: bs, acc => binderScope (next + 1) bs ((b, next) :: acc)

/-- the scope without its latest declaration of `x` (nothing else moves; "" names no declaration) -/
def withdraw (x : String) (sc : Scope) : Scope := if x = "" then sc else sc.eraseP (fun d => d.1 = x)

def specRun (scopes : List Scope) (next : Nat) : List Ev → List (Option Nat)
  | [] => []
  | .use x :: r => lookupScopes x scopes :: specRun scopes next r
  | .remove x :: r =>
    (match scopes with
     | sc :: rest => specRun (withdraw x sc :: rest) next r
     | [] => specRun [] next r)
  | .declare x :: r =>
    (match scopes with
     | sc :: rest => specRun (((x, next) :: sc) :: rest) (next + 1) r
     | [] => specRun [] (next + 1) r)
  | .enter bs :: r => specRun (binderScope next bs [] :: scopes) (next + bs.length) r
  | .leave :: r => specRun scopes.tail next r

/-- the depth never drops to zero: every `leave` closes a scope opened by an earlier `enter` (the global scope stays) -/
def wellNested : Nat → List Ev → Bool
  | _, [] => true
  | d, .enter _ :: r => wellNested (d + 1) r
  | d, .leave :: r => d > 0 && wellNested (d - 1) r
  | d, _ :: r => wellNested d r

/-! ### operational semantics (M-SCOPE) -/

structure SState where
  syms : List Symbol
  store : List Frame
  frames : List FrameId
  deriving Repr, Inhabited

def SState.init : SState := ⟨[], [⟨none, []⟩], [0]⟩

def SState.top (s : SState) : FrameId := s.frames.headD 0

def mkSyms (names : List String) : List Symbol := names.map (fun n => ⟨n, .var ⟨false⟩, none⟩)

/-- `push_frame(frame_t::create(frames.top()))` + `add_symbol` for every binder -/
def SState.enter (s : SState) (bs : List String) : SState :=
  { syms := s.syms ++ mkSyms bs,
    store := s.store ++ [⟨some s.top, (List.range bs.length).map (fun i => s.syms.length + i)⟩],
    frames := s.store.length :: s.frames }

def SState.leave (s : SState) : SState := { s with frames := s.frames.tail }

/-- `frames.top().add_symbol(x, …)` -/
def SState.declare (s : SState) (x : String) : SState :=
  { s with syms := s.syms ++ [⟨x, .var ⟨false⟩, none⟩],
           store := s.store.modify s.top (fun f => { f with syms := f.syms ++ [s.syms.length] }) }

/-- `frames.top().remove(s)` for the symbol s that the top frame itself holds under the name x: symbols and mapping are
    cleared and every symbol but s is added again, in order (symbols.cpp, frame_t::remove) -/
def SState.remove (s : SState) (x : String) : SState :=
  match (s.store[s.top]?).bind (fun f => f.lookup s.syms x) with
  | some sid => { s with store := s.store.modify s.top (fun f => { f with syms := f.syms.filter (· ≠ sid) }) }
  | none => s

/-- `frames.top().resolve(x, uid)` -/
def SState.use (s : SState) (x : String) : Option SymId :=
  resolveIn s.syms s.store (s.store.length + 1) s.top x

def implRun (s : SState) : List Ev → List (Option Nat)
  | [] => []
  | .use x :: r => s.use x :: implRun s r
  | .remove x :: r => implRun (s.remove x) r
  | .declare x :: r => implRun (s.declare x) r
  | .enter bs :: r => implRun (s.enter bs) r
  | .leave :: r => implRun s.leave r

end UtapModel.Builder
