/- C05 -- XML and XTA renderings of the same model yield equivalent documents.

   Model: `renderXta prefs M : XFile` and `xtaRead : XFile → List Call` (Model/Xta.lean: the process productions of
   src/parser.y with the static `rootTransId`), the XML side `readXml (renderXml M)` (Model/Xml.lean), the builder
   `build` (Model/XmlBuild.lean).  Helper lemmas: Lemmas/C05.lean (and those of C04).
   Diagnostics of the type checker and the supported-methods verdict are functions of the built document
   (`static_analysis(doc)` in src/typechecker.cpp never looks at the front end); their equality is therefore a
   consequence of document equality *in the model* and is additionally compared on the real library by checks/c05.py. -/
import UtapModel.Lemmas.C05
import UtapModel.Props.C04
namespace UtapModel.AM

/-- `sampleModel` of C04 with the edge labels in grammar order (XTA has no other order) -/
def sampleModelXta : AModel :=
  { sampleModel with
    templates := sampleModel.templates.map fun t =>
      { t with edges := (t.edges.map fun e =>
          { e with labels := match e.labels with
                             | [.select bs, .assign a, .guard g, .sync s d] => [.select bs, .guard g, .sync s d, .assign a]
                             | [.prob p, .assign a] => [.assign a, .prob p]
                             | ls => ls }) ++ [{ src := "id2", tgt := "id0", ctrl := some false, labels := [.guard "e13"] }] } }

example : sampleModelXta.inCommonSubset = true := by decide

/-- the sample exercises the chained form: with the preference "chain wherever possible" the second edge out of the
    branchpoint cannot be chained (it has a probability), the second edge out of L2 is -/
example : ((renderXta [true, true, true, true, true, true] sampleModelXta).procs.map (fun p => p.trans.map fun x =>
    match x with | .full .. => "full" | .chained .. => "chained")) = [["full", "full", "full", "full", "full", "chained"]] := by decide

/-- **C05, XTA side.**  For every model of the common subset and every choice of where to use chained transitions, the
    document built from the XTA rendering is the document the model denotes. -/
theorem C05_xta_document (M : AModel) (prefs : List Bool) (h : M.inCommonSubset = true) :
    (build (xtaRead (renderXta prefs M))).doc = docOf M ∧ (build (xtaRead (renderXta prefs M))).frags = [] ∧
    (build (xtaRead (renderXta prefs M))).cur = none ∧ (build (xtaRead (renderXta prefs M))).edge = none := by
  simp only [AModel.inCommonSubset, Bool.and_eq_true, List.all_eq_true] at h
  obtain ⟨hwf, hso⟩ := h
  have hw : ∀ t ∈ M.templates, TemplWf t := by
    intro t ht
    simp only [AModel.wf, List.all_eq_true] at hwf
    exact templWf_of t (hwf t ht)
  have hso' : ∀ t ∈ M.templates, ∀ e ∈ t.edges, sortedFrom 0 e.labels = true := fun t ht e he => hso t ht e he
  simp only [build, xtaRead, renderXta, run_append]
  rw [run_gdecls _ _ rfl]
  rw [run_procs' _ M.templates prefs rfl rfl rfl rfl hw hso']
  obtain ⟨es1, h1⟩ := run_insts
    { doc := { gdecls := [] ++ M.gdecls, templates := [] ++ M.templates.map templOf }, frags := [], params := [], pending := [],
      cur := none, edge := none, prio := 0, errs := [] } M.insts rfl rfl rfl
  simp only [List.nil_append] at h1 ⊢
  rw [h1]
  by_cases hp : M.procs.isEmpty = true
  · have hnil : M.procs = [] := by simpa using hp
    simp [hp, run, step, err, docOf, hnil, addProcs]
  · obtain ⟨es2, p, h2⟩ := run_procs
      { doc := M.insts.foldl addInst { gdecls := M.gdecls, templates := M.templates.map templOf }, frags := [], params := [],
        pending := [], cur := none, edge := none, prio := 0, errs := es1 } M.procs
    simp only [hp, Bool.false_eq_true, ↓reduceIte, run_append]
    rw [h2]
    simp [run, step, docOf]

/-- **C05.**  The XML rendering and the XTA rendering of a model of the common subset build the same document
    (declarations, templates, parameters, locations with labels and flags, branchpoints, init, edges with endpoints,
    controllable flag and labels, instances with their bindings, processes and priorities): the input format is not
    observable in the result.  In particular the place of the commit / urgent lists (after all states in XTA, after each
    location in XML), the chained transition form with `rootTransId`, and `-u->` versus `controllable="false"` do not
    matter. -/
theorem C05_equivalent (M : AModel) (prefs : List Bool) (h : M.inCommonSubset = true) :
    (build (xtaRead (renderXta prefs M))).doc = (build (readXml (renderXml M))).doc := by
  have hwf : M.wf = true := by
    simp only [AModel.inCommonSubset, Bool.and_eq_true] at h
    exact h.1
  rw [(C05_xta_document M prefs h).1, (C04_roundtrip M hwf).1]

/-- the choice between full and chained transitions is not observable -/
theorem C05_chaining_irrelevant (M : AModel) (p q : List Bool) (h : M.inCommonSubset = true) :
    (build (xtaRead (renderXta p M))).doc = (build (xtaRead (renderXta q M))).doc := by
  rw [(C05_xta_document M p h).1, (C05_xta_document M q h).1]

/-! ### tie to the current grammar (tables generated by translate/xml_tables.py from src/parser.y) -/

open Gen.XmlTables in
/-- the process productions the XTA model relies on are those of the current grammar: the sections of a `Transition`
    (`labelRank` is their order) and of a `TransitionOpt` (no `Probability`), `->` / `-u->` ↦ controllable, `rootTransId`
    is written from `$1` of a full transition and used as the source of a chained one, the order of the parts of a
    process body (states, branchpoints, commit / urgent lists, init, transitions), and the four `proc_location` flag
    combinations of `StateDecl` -/
theorem C05_tables :
    xtaTransitionSections = ["Select", "Guard", "Sync", "Assign", "Probability"] ∧
    [ELabel.select [], .guard "", .sync "" .bang, .assign "", .prob ""].map labelRank = [0, 1, 2, 3, 4] ∧
    xtaTransitionOptSections = xtaTransitionSections.take 4 ∧
    xtaControl = [("T_ARROW", "true"), ("T_UNCONTROL_ARROW", "false")] ∧
    xtaRootSet = ["$1"] ∧ xtaRootUse = ["$2"] ∧
    xtaProcBody = [["ProcLocalDeclList", "States", "LocFlags", "Init", "Transitions"],
                   ["ProcLocalDeclList", "States", "Branchpoints", "LocFlags", "Init", "Transitions"]] ∧
    ((procRead "" (renderProc [] (sampleModelXta.templates.headD default))).map callName).eraseDups.filter
        (fun n => n ∈ ["proc_location", "proc_branchpoint", "proc_location_commit", "proc_location_urgent", "proc_location_init", "proc_edge_begin"])
      = ["proc_location", "proc_branchpoint", "proc_location_commit", "proc_location_urgent", "proc_location_init", "proc_edge_begin"] ∧
    xtaStateDecl = [("false", "false"), ("false", "true"), ("true", "false"), ("true", "true"), ("false", "false")] ∧
    [stateCalls ⟨"L", none, none⟩, stateCalls ⟨"L", none, some "r"⟩, stateCalls ⟨"L", some "i", none⟩, stateCalls ⟨"L", some "i", some "r"⟩]
      = [[.procLocation "L" false false], [.pushExpr "r", .procLocation "L" false true],
         [.pushExpr "i", .procLocation "L" true false], [.pushExpr "i", .pushExpr "r", .procLocation "L" true true]] := by
  decide

end UtapModel.AM
