/-
M-QUERY — the verification-query layer on top of the expression language (C03, "expression or verification query").

* `Sub`, `Query`: the symbolic and timed-game query forms of parser.y (`SubProperty`, the `control` family of
  `AssignablePropperty`, `sup` / `inf` / `bounds`), as the trees `expr_unary` / `expr_binary` / `expr_ternary` / `expr_nary(LIST)`
  build for them.  Outside this layer (correspondence and testing only): the Büchi form `A[] (p and A<> q)`, the statistical forms
  (`Pr`, `E`, `simulate`), strategies and subjections, MITL.
* `printQ`: `expression_t::print` for the query kinds, DRIVEN BY THE GENERATED LAYOUTS (Gen/QueryTables.lean, read from
  expression.cpp on every run): what is written before, between and after the operands, as terminals.
* `parseQ`: the productions listed in `modelProds`, by hand, over the token type of the expression model; an operand is parsed by
  the expression parser of C02 (`parseE`, level 0) and ends where the next token cannot continue an expression.
  `modelProds ⊆ queryProds` (the productions of the current grammar, with their callbacks) is proved by `decide` in Props/C03Query.lean.
Core Lean only (the driver links this file).
-/
import UtapModel.Gen.QueryTables
import UtapModel.Model.PrintModel

namespace UtapModel.Query
open UtapModel.Pratt UtapModel.ExprTable UtapModel.ExprGrammar UtapModel.QueryTables

/-- terminal name ↦ token of the expression model.  Terminals of the operator table keep their index there; the others get
    1000 + their index in the generated list of query terminals (no operator table entry can mention them) -/
def qtok (name : String) : Tok :=
  if name == "'('" then .lp else if name == "')'" then .rp else if name == "'['" then .lb else if name == "']'" then .rb
  else if name == "','" then .comma else if name == "':'" then .colon else if name == "'?'" then .quest
  else if tokNames.contains name then .sym (tokId name) else .sym (1000 + queryTokNames.idxOf name)

def qid (name : String) : Nat := match qtok name with | .sym t => t | _ => 0

inductive Sub where
  | path (k : Nat) (e : Expr)            -- 0 `A<>`  1 `A[]`  2 `E<>`  3 `E[]`
  | leadsTo (a b : Expr)
  | until (weak : Bool) (a b : Expr)     -- `A[a U b]`, `A[a W b]`
deriving DecidableEq, Repr, Inhabited

inductive Query where
  | sub (s : Sub)
  | control (s : Sub)                    -- `control: s`
  | efControl (s : Sub)                  -- `E<> control: s`
  | ct2 (a b : Expr) (s : Sub)           -- `control_t*(a, b): s`
  | ct1 (a : Expr) (s : Sub)             -- `control_t*(a): s`
  | ct0 (s : Sub)                        -- `control_t*: s`
  | po (l : List Expr) (s : Sub)         -- `{ l } control: s`
  | opt (w : Nat) (p : Expr) (l : List Expr)   -- 0 `sup{p}: l`  1 `inf{p}: l`  2 `bounds{p}: l`;  `sup: l` has p = true
deriving DecidableEq, Repr, Inhabited

def pathKind (k : Nat) : String := match k with | 0 => "AF" | 1 => "AG" | 2 => "EF" | _ => "EG"
def pathTokName (k : Nat) : String := match k with | 0 => "T_AF" | 1 => "T_AG" | 2 => "T_EF" | _ => "T_EG"
def optKind (w : Nat) : String := match w with | 0 => "SUP_VAR" | 1 => "INF_VAR" | _ => "BOUNDS_VAR"
def optTokName (w : Nat) : String := match w with | 0 => "T_SUP" | 1 => "T_INF" | _ => "T_BOUNDS"

/-! ### printing (generated layouts) -/

/-- the layout of a kind; the literal texts are dropped (white space does not reach the token level) -/
def stripText : LItem → LItem
  | .lit _ ts => .lit "" ts
  | .arg i => .arg i
def layout (k : String) : List LItem := ((printLayouts.lookup k).getD []).map stripText

def renderQ (items : List LItem) (args : List (List Tok)) : List Tok :=
  items.flatMap fun
    | .lit _ ts => ts.map qtok
    | .arg i => args.getD i []

/-- the LIST case of `print`: operands joined by commas -/
def printList (P : Expr → List Tok) : List Expr → List Tok
  | [] => []
  | [e] => P e
  | e :: r => P e ++ .comma :: printList P r

def printSub (P : Expr → List Tok) : Sub → List Tok
  | .path k e => renderQ (layout (pathKind k)) [P e]
  | .leadsTo a b => renderQ (layout "LEADS_TO") [P a, P b]
  | .until w a b => renderQ (layout (if w then "A_WEAK_UNTIL" else "A_UNTIL")) [P a, P b]

def printQ (P : Expr → List Tok) : Query → List Tok
  | .sub s => printSub P s
  | .control s => renderQ (layout "CONTROL") [printSub P s]
  | .efControl s => renderQ (layout "EF_CONTROL") [printSub P s]
  | .ct2 a b s => renderQ (layout "CONTROL_TOPT") [P a, P b, printSub P s]
  | .ct1 a s => renderQ (layout "CONTROL_TOPT_DEF1") [P a, printSub P s]
  | .ct0 s => renderQ (layout "CONTROL_TOPT_DEF2") [printSub P s]
  | .po l s => renderQ (layout "PO_CONTROL") [printList P l, printSub P s]
  | .opt w p l => renderQ (layout (optKind w)) [P p, printList P l]

/-- the printer of the library on a query of the model -/
def qprint (q : Query) : List Tok := printQ (PrintModel.lprint genData mt) q

/-! ### parsing -/

/-- the productions of parser.y this parser implements, in the format of `QueryTables.queryProds` -/
def modelProds : List (String × List String × List String) := [
  ("SubProperty", ["T_AF", "Expression"], ["expr_unary(AF)"]),
  ("SubProperty", ["T_AG", "Expression"], ["expr_unary(AG)"]),
  ("SubProperty", ["T_EF", "Expression"], ["expr_unary(EF)"]),
  ("SubProperty", ["T_EG", "Expression"], ["expr_unary(EG)"]),
  ("SubProperty", ["Expression", "T_LEADS_TO", "Expression"], ["expr_binary(LEADS_TO)"]),
  ("SubProperty", ["'A'", "'['", "Expression", "'U'", "Expression", "']'"], ["expr_binary(A_UNTIL)"]),
  ("SubProperty", ["'A'", "'['", "Expression", "'W'", "Expression", "']'"], ["expr_binary(A_WEAK_UNTIL)"]),
  ("AssignablePropperty", ["T_CONTROL", "':'", "SubProperty", "Subjection"], ["expr_unary(CONTROL)", "property()"]),
  ("AssignablePropperty", ["T_CONTROL_T", "T_MULT", "'('", "Expression", "','", "Expression", "')'", "':'", "SubProperty"],
    ["expr_ternary(CONTROL_TOPT)", "property()"]),
  ("AssignablePropperty", ["T_CONTROL_T", "T_MULT", "'('", "Expression", "')'", "':'", "SubProperty"],
    ["expr_binary(CONTROL_TOPT_DEF1)", "property()"]),
  ("AssignablePropperty", ["T_CONTROL_T", "T_MULT", "':'", "SubProperty"], ["expr_unary(CONTROL_TOPT_DEF2)", "property()"]),
  ("AssignablePropperty", ["T_EF", "T_CONTROL", "':'", "SubProperty", "Subjection"], ["expr_unary(EF_CONTROL)", "property()"]),
  ("AssignablePropperty", ["BracketExprList", "T_CONTROL", "':'", "SubProperty", "Subjection"], ["expr_binary(PO_CONTROL)", "property()"]),
  ("Property", ["PropertyExpr"], []),
  ("Property", ["SupPrefix", "NonEmptyExpressionList", "Subjection"], ["expr_nary(LIST,$2)", "expr_binary(SUP_VAR)", "property()"]),
  ("Property", ["InfPrefix", "NonEmptyExpressionList", "Subjection"], ["expr_nary(LIST,$2)", "expr_binary(INF_VAR)", "property()"]),
  ("Property", ["BoundsPrefix", "NonEmptyExpressionList", "Subjection"], ["expr_nary(LIST,$2)", "expr_binary(BOUNDS_VAR)", "property()"]),
  ("PropertyExpr", ["SubProperty", "Subjection"], ["property()"]),
  ("PropertyExpr", ["AssignablePropperty"], []),
  ("SupPrefix", ["T_SUP", "':'"], ["expr_true()"]),
  ("SupPrefix", ["T_SUP", "'{'", "Expression", "'}'", "':'"], []),
  ("InfPrefix", ["T_INF", "':'"], ["expr_true()"]),
  ("InfPrefix", ["T_INF", "'{'", "Expression", "'}'", "':'"], []),
  ("BoundsPrefix", ["T_BOUNDS", "':'"], ["expr_true()"]),
  ("BoundsPrefix", ["T_BOUNDS", "'{'", "Expression", "'}'", "':'"], []),
  ("BracketExprList", ["'{'", "ExpressionList", "'}'"], ["expr_nary(LIST,$2)"]),
  ("ExpressionList", [], []),
  ("ExpressionList", ["NonEmptyExpressionList"], []),
  ("NonEmptyExpressionList", ["Expression"], []),
  ("NonEmptyExpressionList", ["NonEmptyExpressionList", "','", "Expression"], [])
]

/-- one `Expression` at the head of the input -/
def pE (ts : List Tok) : Option (Expr × List Tok) := parseE utapT (ts.length + 1) 0 ts

/-- `NonEmptyExpressionList` -/
def parseList : Nat → List Tok → Option (List Expr × List Tok)
  | 0, _ => none
  | f+1, ts =>
    match pE ts with
    | some (e, .comma :: r) =>
      match parseList f r with
      | some (l, r') => some (e :: l, r')
      | none => none
    | some (e, r) => some ([e], r)
    | none => none

/-- is `t` the terminal called `name`? -/
def isTok (t : Nat) (name : String) : Bool := t == qid name

def leads (ts : List Tok) : Option (Sub × List Tok) :=
  match pE ts with
  | some (a, .sym t :: r) =>
    if isTok t "T_LEADS_TO" then
      match pE r with
      | some (b, r') => some (.leadsTo a b, r')
      | none => none
    else none
  | _ => none

def untilTail (r : List Tok) : Option (Sub × List Tok) :=
  match r with
  | .lb :: r1 =>
    match pE r1 with
    | some (a, .sym u :: r2) =>
      if isTok u "'U'" || isTok u "'W'" then
        match pE r2 with
        | some (b, .rb :: r3) => some (.until (isTok u "'W'") a b, r3)
        | _ => none
      else none
    | _ => none
  | _ => none

/-- `SubProperty` at the head of the input -/
def parseSub (ts : List Tok) : Option (Sub × List Tok) :=
  match ts with
  | .sym t :: r =>
    if isTok t "T_AF" then (pE r).map fun p => (.path 0 p.1, p.2)
    else if isTok t "T_AG" then (pE r).map fun p => (.path 1 p.1, p.2)
    else if isTok t "T_EF" then (pE r).map fun p => (.path 2 p.1, p.2)
    else if isTok t "T_EG" then (pE r).map fun p => (.path 3 p.1, p.2)
    else if isTok t "'A'" then untilTail r
    else leads ts
  | _ => leads ts

/-- a `SubProperty` that ends the input, wrapped by `mk` -/
def subEnd (ts : List Tok) (mk : Sub → Query) : Option Query :=
  match parseSub ts with
  | some (s, []) => some (mk s)
  | _ => none

def optOf (t : Nat) : Option Nat :=
  if isTok t "T_SUP" then some 0 else if isTok t "T_INF" then some 1 else if isTok t "T_BOUNDS" then some 2 else none

def listEnd (w : Nat) (p : Expr) (ts : List Tok) : Option Query :=
  match parseList (ts.length + 1) ts with
  | some (l, []) => some (.opt w p l)
  | _ => none

/-- after `control_t *` -/
def ctTail (r : List Tok) : Option Query :=
  match r with
  | .colon :: r1 => subEnd r1 .ct0
  | .lp :: r1 =>
    match pE r1 with
    | some (a, .comma :: r2) =>
      match pE r2 with
      | some (b, .rp :: .colon :: r3) => subEnd r3 (.ct2 a b)
      | _ => none
    | some (a, .rp :: .colon :: r2) => subEnd r2 (.ct1 a)
    | _ => none
  | _ => none

/-- after `{ l`: `} control : SubProperty` -/
def poTail (l : List Expr) (r : List Tok) : Option Query :=
  match r with
  | .sym cb :: .sym c :: .colon :: r1 => if isTok cb "'}'" && isTok c "T_CONTROL" then subEnd r1 (.po l) else none
  | _ => none

def poList (r : List Tok) : Option Query :=
  match parseList (r.length + 1) r with
  | some (l, r') => poTail l r'
  | none => none

/-- after `sup` / `inf` / `bounds` -/
def optTail (w : Nat) (r : List Tok) : Option Query :=
  match r with
  | .colon :: r1 => listEnd w (.atom .tru) r1
  | .sym ob :: r1 =>
    if isTok ob "'{'" then
      match pE r1 with
      | some (p, .sym cb :: .colon :: r2) => if isTok cb "'}'" then listEnd w p r2 else none
      | _ => none
    else none
  | _ => none

/-- `Property` (the modelled alternatives) -/
def parseQ (ts : List Tok) : Option Query :=
  match ts with
  | .sym t :: r =>
    if isTok t "T_CONTROL" then
      match r with
      | .colon :: r1 => subEnd r1 .control
      | _ => none
    else if isTok t "T_CONTROL_T" then
      match r with
      | .sym m :: r1 => if isTok m "T_MULT" then ctTail r1 else none
      | _ => none
    else if isTok t "'{'" then
      match r with
      | .sym cb :: _ => if isTok cb "'}'" then poTail [] r else poList r
      | _ => poList r
    else
      match optOf t with
      | some w => optTail w r
      | none =>
        if isTok t "T_EF" then
          match r with
          | .sym c :: r' =>
            if isTok c "T_CONTROL" then
              match r' with
              | .colon :: r1 => subEnd r1 .efControl
              | _ => none
            else subEnd ts .sub
          | _ => subEnd ts .sub
        else subEnd ts .sub
  | _ => subEnd ts .sub

/-! ### the `kind_t` tree the builder makes (expr_unary / expr_binary / expr_ternary / expr_nary(LIST) of the productions' actions) -/

def subK : Sub → KTree
  | .path k e => .node (pathKind k) [] [toK genData e]
  | .leadsTo a b => .node "LEADS_TO" [] [toK genData a, toK genData b]
  | .until w a b => .node (if w then "A_WEAK_UNTIL" else "A_UNTIL") [] [toK genData a, toK genData b]

def listK (l : List Expr) : KTree := .node "LIST" [] (l.map (toK genData))

def qToK : Query → KTree
  | .sub s => subK s
  | .control s => .node "CONTROL" [] [subK s]
  | .efControl s => .node "EF_CONTROL" [] [subK s]
  | .ct2 a b s => .node "CONTROL_TOPT" [] [toK genData a, toK genData b, subK s]
  | .ct1 a s => .node "CONTROL_TOPT_DEF1" [] [toK genData a, subK s]
  | .ct0 s => .node "CONTROL_TOPT_DEF2" [] [subK s]
  | .po l s => .node "PO_CONTROL" [] [listK l, subK s]
  | .opt w p l => .node (optKind w) [] [toK genData p, listK l]

/-! ### text of a token stream (driver, examples) -/

/-- source text of a terminal of the query layer -/
def termText (name : String) : String :=
  match literals.find? (fun x => x.2 == name) with
  | some (l, _) => l
  | none =>
    match propertyKeywords.find? (fun x => x.2 == name) with
    | some (w, _) => w
    | none => if name.length == 3 then String.ofList ((name.toList.drop 1).take 1) else "?" ++ name

def qTokText : Tok → String
  | .sym t =>
    if t ≥ 1000 then termText (queryTokNames.getD (t - 1000) "?")
    else match tokNames[t]? with
      | some n => (literalOf n).getD (termText n)
      | none => "?tok" ++ toString t
  | x => tokText x

def toksTextQ (ts : List Tok) : String := " ".intercalate (ts.map qTokText)

/-! ### well-formedness: what the round-trip theorem asks of a query -/

def goodE (e : Expr) : Bool := PrintModel.good genData mt false e

def Sub.wf : Sub → Bool
  | .path k e => decide (k < 4) && goodE e
  | .leadsTo a b => goodE a && goodE b
  | .until _ a b => goodE a && goodE b

def Query.wf : Query → Bool
  | .sub s => s.wf
  | .control s => s.wf
  | .efControl s => s.wf
  | .ct2 a b s => goodE a && goodE b && s.wf
  | .ct1 a s => goodE a && s.wf
  | .ct0 s => s.wf
  | .po l s => l.all goodE && s.wf
  | .opt w p l => decide (w < 3) && goodE p && l.all goodE && !l.isEmpty

end UtapModel.Query
