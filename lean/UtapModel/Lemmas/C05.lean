/- Helper lemmas of C05: the XTA front end fires, for the XTA rendering of a model in the common subset, callbacks that
   build the same document as the XML front end. -/
import UtapModel.Model.Xta
import UtapModel.Lemmas.C04Builder
namespace UtapModel.AM

/-! ### label sections -/

theorem toX_cons (a : ELabel) (r : List ELabel) : toX (a :: r) = addX a (toX r) := rfl

/-- sections of rank below `k` are empty when all labels have rank ≥ k -/
theorem toX_empty_below (k : Nat) (ls : List ELabel) (h : sortedFrom k ls = true) :
    (0 < k → (toX ls).select = []) ∧ (1 < k → (toX ls).guard = none) ∧ (2 < k → (toX ls).sync = none) ∧
    (3 < k → (toX ls).assign = none) ∧ (4 < k → (toX ls).prob = none) := by
  induction ls generalizing k with
  | nil => simp [toX]
  | cons a r ih =>
    simp only [sortedFrom, Bool.and_eq_true, decide_eq_true_eq] at h
    obtain ⟨hk, hr⟩ := h
    have ih' := ih (labelRank a + 1) hr
    rw [toX_cons]
    cases a <;> simp only [labelRank] at hk ih' <;> simp only [addX] <;>
      refine ⟨?_, ?_, ?_, ?_, ?_⟩ <;> intro hlt <;> first | omega | (apply_rules [ih'.1, ih'.2.1, ih'.2.2.1, ih'.2.2.2.1, ih'.2.2.2.2] <;> omega)

theorem xlabelCalls_toX (ls : List ELabel) (k : Nat) (h : sortedFrom k ls = true) :
    xlabelCalls (toX ls) = ls.flatMap labelCalls := by
  induction ls generalizing k with
  | nil => simp [toX, xlabelCalls, xlabelCalls4, optCalls]
  | cons a r ih =>
    simp only [sortedFrom, Bool.and_eq_true, decide_eq_true_eq] at h
    obtain ⟨_, hr⟩ := h
    have he := toX_empty_below (labelRank a + 1) r hr
    have ihr := ih (labelRank a + 1) hr
    rw [toX_cons, List.flatMap_cons, ← ihr]
    cases a <;> simp only [labelRank] at he <;>
      simp [addX, xlabelCalls, xlabelCalls4, optCalls, labelCalls, he.1, he.2.1, he.2.2.1, he.2.2.2.1, he.2.2.2.2]

theorem toX_prob_none (ls : List ELabel) (h : hasProb ls = false) : (toX ls).prob = none := by
  induction ls with
  | nil => rfl
  | cons a r ih =>
    rw [toX_cons]
    cases a <;> simp_all [hasProb, addX]

theorem xlabelCalls4_toX (ls : List ELabel) (k : Nat) (h : sortedFrom k ls = true) (hp : hasProb ls = false) :
    xlabelCalls4 (toX ls) = ls.flatMap labelCalls := by
  rw [← xlabelCalls_toX ls k h]
  simp [xlabelCalls, toX_prob_none ls hp, optCalls]

/-! ### transitions and `rootTransId` -/

def edgeCallsR (e : String × String × Bool × List ELabel) : List Call :=
  [.procEdgeBegin e.1 e.2.1 e.2.2.1] ++ e.2.2.2.flatMap labelCalls ++ [.procEdgeEnd e.1 e.2.1]

/-- whatever mix of full and chained transitions the rendering chooses, the callbacks are those of the full forms:
    `rootTransId` always holds the source of the last full transition, and a chained one is only used for that source -/
theorem readTrans_render (prefs : List Bool) (root : Option String) (root0 : String)
    (es : List (String × String × Bool × List ELabel))
    (hroot : ∀ s, root = some s → root0 = s) (hs : ∀ e ∈ es, sortedFrom 0 e.2.2.2 = true) :
    readTrans root0 (renderTrans prefs root es) = es.flatMap edgeCallsR := by
  induction es generalizing prefs root root0 with
  | nil => rfl
  | cons e r ih =>
    obtain ⟨s, t, c, ls⟩ := e
    have hsl : sortedFrom 0 ls = true := hs (s, t, c, ls) (by simp)
    have hr : ∀ e ∈ r, sortedFrom 0 e.2.2.2 = true := fun e he => hs e (by simp [he])
    simp only [renderTrans, List.flatMap_cons]
    by_cases hch : (prefs.headD false && root == some s && !hasProb ls) = true
    · simp only [hch, ↓reduceIte, readTrans]
      simp only [Bool.and_eq_true, beq_iff_eq, Bool.not_eq_true'] at hch
      have h0 : root0 = s := hroot s hch.1.2
      rw [ih prefs.tail root root0 hroot hr, xlabelCalls4_toX ls 0 hsl hch.2, h0]
      simp [edgeCallsR]
    · simp only [hch, Bool.false_eq_true, ↓reduceIte, readTrans]
      rw [ih prefs.tail (some s) s (fun s' h => by cases h; rfl) hr, xlabelCalls_toX ls 0 hsl]
      simp [edgeCallsR]

/-! ### states -/

theorem stateCalls_stateOf (l : ALoc) (h : labelsOrdered l.labels = true) :
    stateCalls (stateOf l) = locCallsX { l with urgent := false, committed := false } := by
  obtain ⟨id, name, labels, u, c⟩ := l
  simp only at h
  match labels, h with
  | [], _ => simp [stateCalls, stateOf, locCallsX, lookupLabel, List.lookup, hasKind, ALoc.effName]
  | [(k, a)], _ =>
    cases k <;> simp [stateCalls, stateOf, locCallsX, lookupLabel, List.lookup, hasKind, ALoc.effName, lk_ne1, lk_ne2]
  | [(.invariant, a), (.exponentialrate, b)], _ =>
    simp [stateCalls, stateOf, locCallsX, lookupLabel, List.lookup, hasKind, ALoc.effName, lk_ne1, lk_ne2]

/-! ### the commit / urgent lists (they come after all states in XTA, right after each location in XML) -/

theorem nodup_map_inj {α β} (f : α → β) (l : List α) (h : (l.map f).Nodup) {a b : α} (ha : a ∈ l) (hb : b ∈ l)
    (hab : f a = f b) : a = b := by
  induction l with
  | nil => cases ha
  | cons x r ih =>
    simp only [List.map_cons, List.nodup_cons] at h
    rcases List.mem_cons.mp ha with rfl | ha' <;> rcases List.mem_cons.mp hb with rfl | hb'
    · rfl
    · exact absurd (List.mem_map.mpr ⟨b, hb', hab.symm⟩) h.1
    · exact absurd (List.mem_map.mpr ⟨a, ha', hab⟩) h.1
    · exact ih h.2 ha' hb'

theorem updateLast_unique (n : String) (f : BLoc → BLoc) (l : List BLoc) (h : (l.map (·.name)).Nodup) :
    updateLast (·.name == n) f l = l.map (fun x => if x.name = n then f x else x) := by
  induction l with
  | nil => rfl
  | cons a r ih =>
    simp only [List.map_cons, List.nodup_cons] at h
    simp only [updateLast, List.map_cons]
    by_cases hany : r.any (·.name == n) = true
    · simp only [hany, ↓reduceIte]
      obtain ⟨x, hx, hxn⟩ := List.any_eq_true.mp hany
      have hxn' : x.name = n := by simpa using hxn
      have han : a.name ≠ n := by
        intro heq; exact h.1 (List.mem_map.mpr ⟨x, hx, by rw [hxn', heq]⟩)
      simp [han, ih h.2]
    · have hnone : ∀ x ∈ r, x.name ≠ n := by
        intro x hx heq
        exact hany (List.any_eq_true.mpr ⟨x, hx, by simp [heq]⟩)
      have hr : r.map (fun x => if x.name = n then f x else x) = r := by
        have : ∀ x ∈ r, (fun x : BLoc => if x.name = n then f x else x) x = id x := by
          intro x hx; simp [hnone x hx]
        rw [List.map_congr_left this]; simp
      simp only [hany, Bool.false_eq_true, ↓reduceIte, hr]
      by_cases han : a.name = n <;> simp [han]

def setC (ns : List String) (x : BLoc) : BLoc := if x.name ∈ ns then { x with committed := true } else x
def setU (ns : List String) (x : BLoc) : BLoc := if x.name ∈ ns then { x with urgent := true } else x

theorem map_setC_names (ns : List String) (l : List BLoc) : (l.map (setC ns)).map (·.name) = l.map (·.name) := by
  simp only [List.map_map]; apply List.map_congr_left; intro x _; simp only [Function.comp, setC]; split <;> rfl

theorem map_setU_names (ns : List String) (l : List BLoc) : (l.map (setU ns)).map (·.name) = l.map (·.name) := by
  simp only [List.map_map]; apply List.map_congr_left; intro x _; simp only [Function.comp, setU]; split <;> rfl

theorem run_commits (s : BState) (T : BTempl) (ns : List String) (hc : s.cur = some T)
    (hnd : (T.locs.map (·.name)).Nodup) (hin : ∀ n ∈ ns, n ∈ T.locs.map (·.name) ∧ n ∉ T.bps)
    (hu : ∀ n ∈ ns, ∀ x ∈ T.locs, x.name = n → x.urgent = false) :
    run s (ns.map .procLocationCommit) = { s with cur := some { T with locs := T.locs.map (setC ns) } } := by
  induction ns generalizing s T with
  | nil =>
    have : T.locs.map (setC []) = T.locs := by
      have : ∀ x ∈ T.locs, setC [] x = id x := by intro x _; simp [setC]
      rw [List.map_congr_left this]; simp
    simp [run, this, ← hc]
  | cons n r ih =>
    simp only [List.map_cons, run_cons]
    have hk := symKind_loc T n (hin n (by simp)).1 (hin n (by simp)).2
    have hnu : T.locs.any (fun l => l.name == n && l.urgent) = false := by
      simp only [List.any_eq_false, Bool.and_eq_true, beq_iff_eq, not_and, Bool.not_eq_true]
      intro x hx hxn; exact hu n (by simp) x hx hxn
    have hstep : step s (.procLocationCommit n) =
        { s with cur := some { T with locs := T.locs.map (fun x => if x.name = n then { x with committed := true } else x) } } := by
      simp [step, hc, hk, hnu, updateLast_unique n _ T.locs hnd]
    rw [hstep]
    have hnames : (T.locs.map (fun x => if x.name = n then { x with committed := true } else x)).map (·.name) = T.locs.map (·.name) := by
      simp only [List.map_map]; apply List.map_congr_left; intro x _; simp only [Function.comp]; split <;> rfl
    refine (ih _ { T with locs := T.locs.map (fun x => if x.name = n then { x with committed := true } else x) } rfl
      (by simpa [hnames] using hnd) (by intro m hm; simpa [hnames] using hin m (by simp [hm])) ?_).trans ?_
    · intro m hm x hx hxm
      obtain ⟨y, hy, rfl⟩ := List.mem_map.mp hx
      have := hu m (by simp [hm]) y hy (by by_cases hyn : y.name = n <;> simp_all)
      by_cases hyn : y.name = n <;> simp_all
    · congr 2
      simp only [List.map_map]
      have : ∀ x ∈ T.locs, (setC r ∘ fun x => if x.name = n then { x with committed := true } else x) x = setC (n :: r) x := by
        intro x _
        simp only [Function.comp, setC, List.mem_cons]
        by_cases hxn : x.name = n <;> by_cases hxr : x.name ∈ r <;> simp [hxn, hxr]
      simp [List.map_congr_left this]

theorem run_urgents (s : BState) (T : BTempl) (ns : List String) (hc : s.cur = some T)
    (hnd : (T.locs.map (·.name)).Nodup) (hin : ∀ n ∈ ns, n ∈ T.locs.map (·.name) ∧ n ∉ T.bps)
    (hu : ∀ n ∈ ns, ∀ x ∈ T.locs, x.name = n → x.committed = false) :
    run s (ns.map .procLocationUrgent) = { s with cur := some { T with locs := T.locs.map (setU ns) } } := by
  induction ns generalizing s T with
  | nil =>
    have : T.locs.map (setU []) = T.locs := by
      have : ∀ x ∈ T.locs, setU [] x = id x := by intro x _; simp [setU]
      rw [List.map_congr_left this]; simp
    simp [run, this, ← hc]
  | cons n r ih =>
    simp only [List.map_cons, run_cons]
    have hk := symKind_loc T n (hin n (by simp)).1 (hin n (by simp)).2
    have hnu : T.locs.any (fun l => l.name == n && l.committed) = false := by
      simp only [List.any_eq_false, Bool.and_eq_true, beq_iff_eq, not_and, Bool.not_eq_true]
      intro x hx hxn; exact hu n (by simp) x hx hxn
    have hstep : step s (.procLocationUrgent n) =
        { s with cur := some { T with locs := T.locs.map (fun x => if x.name = n then { x with urgent := true } else x) } } := by
      simp [step, hc, hk, hnu, updateLast_unique n _ T.locs hnd]
    rw [hstep]
    have hnames : (T.locs.map (fun x => if x.name = n then { x with urgent := true } else x)).map (·.name) = T.locs.map (·.name) := by
      simp only [List.map_map]; apply List.map_congr_left; intro x _; simp only [Function.comp]; split <;> rfl
    refine (ih _ { T with locs := T.locs.map (fun x => if x.name = n then { x with urgent := true } else x) } rfl
      (by simpa [hnames] using hnd) (by intro m hm; simpa [hnames] using hin m (by simp [hm])) ?_).trans ?_
    · intro m hm x hx hxm
      obtain ⟨y, hy, rfl⟩ := List.mem_map.mp hx
      have := hu m (by simp [hm]) y hy (by by_cases hyn : y.name = n <;> simp_all)
      by_cases hyn : y.name = n <;> simp_all
    · congr 2
      simp only [List.map_map]
      have : ∀ x ∈ T.locs, (setU r ∘ fun x => if x.name = n then { x with urgent := true } else x) x = setU (n :: r) x := by
        intro x _
        simp only [Function.comp, setU, List.mem_cons]
        by_cases hxn : x.name = n <;> by_cases hxr : x.name ∈ r <;> simp [hxn, hxr]
      simp [List.map_congr_left this]

/-! ### one process -/

theorem refName'_eq (t : ATempl) (r : String) : refName' t r = nameOf t r := rfl

def clearFlags (l : ALoc) : ALoc := { l with urgent := false, committed := false }

theorem clearFlags_effName (l : ALoc) : (clearFlags l).effName = l.effName := rfl

theorem resolved_calls (t : ATempl) (es : List AEdge)
    (h : ∀ e ∈ es, (nameOf t e.src).isSome = true ∧ (nameOf t e.tgt).isSome = true) :
    (es.filterMap (resolveEdge t)).flatMap edgeCallsR = es.flatMap (edgeCallsX t) := by
  induction es with
  | nil => rfl
  | cons e r ih =>
    obtain ⟨h1, h2⟩ := h e (by simp)
    obtain ⟨a, ha⟩ := Option.isSome_iff_exists.mp h1
    obtain ⟨b, hb⟩ := Option.isSome_iff_exists.mp h2
    simp only [List.filterMap_cons, resolveEdge, refName'_eq, ha, hb, List.flatMap_cons, edgeCallsX, edgeCallsR,
      ih (fun x hx => h x (by simp [hx]))]

theorem resolved_sorted (t : ATempl) (es : List AEdge) (h : ∀ e ∈ es, sortedFrom 0 e.labels = true) :
    ∀ x ∈ es.filterMap (resolveEdge t), sortedFrom 0 x.2.2.2 = true := by
  intro x hx
  obtain ⟨e, he, hxe⟩ := List.mem_filterMap.mp hx
  unfold resolveEdge at hxe
  cases h1 : refName' t e.src with
  | none => simp [h1] at hxe
  | some a =>
    cases h2 : refName' t e.tgt with
    | none => simp [h1, h2] at hxe
    | some b =>
      simp only [h1, h2, Option.some.injEq] at hxe
      subst hxe
      exact h e he

theorem mem_filter_names (ls : List ALoc) (p : ALoc → Bool) (hnd : (ls.map (·.effName)).Nodup) (l : ALoc) (hl : l ∈ ls) :
    l.effName ∈ (ls.filter p).map (·.effName) ↔ p l = true := by
  constructor
  · intro h
    obtain ⟨l', hl', heq⟩ := List.mem_map.mp h
    have hmem := List.mem_filter.mp hl'
    have : l' = l := nodup_map_inj (·.effName) ls hnd hmem.1 hl heq
    rw [← this]; exact hmem.2
  · intro h
    exact List.mem_map.mpr ⟨l, List.mem_filter.mpr ⟨hl, h⟩, rfl⟩

theorem setC_name (ns : List String) (x : BLoc) : (setC ns x).name = x.name := by
  simp only [setC]; split <;> rfl

theorem flags_final (ls : List ALoc) (hnd : (ls.map (·.effName)).Nodup) :
    (((ls.map clearFlags).map locOf).map (setC ((ls.filter (·.committed)).map (·.effName)))).map
        (setU ((ls.filter (·.urgent)).map (·.effName))) = ls.map locOf := by
  simp only [List.map_map]
  apply List.map_congr_left
  intro l hl
  have hc := mem_filter_names ls (·.committed) hnd l hl
  have hu := mem_filter_names ls (·.urgent) hnd l hl
  have hn0 : (locOf (clearFlags l)).name = l.effName := rfl
  simp only [Function.comp]
  have hU : setU ((ls.filter (·.urgent)).map (·.effName)) (setC ((ls.filter (·.committed)).map (·.effName)) (locOf (clearFlags l)))
      = if l.urgent = true then { setC ((ls.filter (·.committed)).map (·.effName)) (locOf (clearFlags l)) with urgent := true }
        else setC ((ls.filter (·.committed)).map (·.effName)) (locOf (clearFlags l)) := by
    simp only [setU, setC_name, hn0]
    by_cases huv : l.urgent = true
    · rw [if_pos (hu.mpr huv), if_pos huv]
    · rw [if_neg (fun h => huv (hu.mp h)), if_neg huv]
  have hC : setC ((ls.filter (·.committed)).map (·.effName)) (locOf (clearFlags l))
      = if l.committed = true then { locOf (clearFlags l) with committed := true } else locOf (clearFlags l) := by
    simp only [setC, hn0]
    by_cases hcv : l.committed = true
    · rw [if_pos (hc.mpr hcv), if_pos hcv]
    · rw [if_neg (fun h => hcv (hc.mp h)), if_neg hcv]
  rw [hU, hC]
  cases hcv : l.committed <;> cases huv : l.urgent <;> simp [locOf, clearFlags, hcv, huv, ALoc.effName]

theorem flatMap_congr' {α β} (f g : α → List β) (l : List α) (h : ∀ x ∈ l, f x = g x) : l.flatMap f = l.flatMap g := by
  induction l with
  | nil => rfl
  | cons x r ih => simp [List.flatMap_cons, h x (by simp), ih (fun y hy => h y (by simp [hy]))]

theorem run_proc (s : BState) (t : ATempl) (prefs : List Bool) (hc : s.cur = none) (he : s.edge = none) (hf : s.frags = [])
    (hp : s.params = []) (hw : TemplWf t) (hso : ∀ e ∈ t.edges, sortedFrom 0 e.labels = true) :
    run s (procRead "" (renderProc prefs t)) = { s with doc := { s.doc with templates := s.doc.templates ++ [templOf t] } } := by
  obtain ⟨doc, frags, params, pending, cur, edge, prio, errs⟩ := s
  simp only at hc he hf hp
  subst hc he hf hp
  obtain ⟨hids, hnames, hres, hlocs, ⟨r, hinit, hrmem⟩, hedges⟩ := hw
  have hnl := (List.nodup_append.mp hnames).1
  have hnb := (List.nodup_append.mp hnames).2.1
  have hdisj := (List.nodup_append.mp hnames).2.2
  -- the states are the locations without their flags
  have hstates : (t.locs.map stateOf).flatMap stateCalls = (t.locs.map clearFlags).flatMap locCallsX := by
    simp only [List.flatMap_map]
    exact flatMap_congr' _ _ _ (fun l hl => by
      have hlw := hlocs l hl
      simp only [ALoc.wf, Bool.and_eq_true] at hlw
      exact stateCalls_stateOf l hlw.1)
  simp only [procRead, renderProc, run_append, run_params, List.nil_append, List.singleton_append, run_cons, run_nil, hstates]
  simp only [step]
  rw [run_decls _ { name := t.name, params := t.params, decls := [], locs := [], bps := [], init := none, edges := [] } t.decls rfl]
  simp only [List.nil_append]
  rw [run_locs _ { name := t.name, params := t.params, decls := t.decls, locs := [], bps := [], init := none, edges := [] }
        (t.locs.map clearFlags) rfl rfl rfl
        (by simpa [List.map_map, Function.comp_def, clearFlags_effName] using hnl)
        (by intro l hl hmem
            obtain ⟨l', hl', rfl⟩ := List.mem_map.mp hl
            apply hres l'.effName (List.mem_append.mpr (Or.inl (List.mem_map.mpr ⟨l', hl', rfl⟩)))
            simpa [namesOf, ATempl.reserved, clearFlags_effName] using hmem)
        (by intro l hl
            obtain ⟨l', hl', rfl⟩ := List.mem_map.mp hl
            have := hlocs l' hl'
            simp only [ALoc.wf, Bool.and_eq_true] at this
            simp [ALoc.wf, clearFlags, this.1])]
  simp only [List.nil_append]
  rw [run_bps _ { name := t.name, params := t.params, decls := t.decls, locs := (t.locs.map clearFlags).map locOf, bps := [], init := none, edges := [] }
        (t.bps.map bpName) rfl hnb
        (by intro b hb hmem
            simp only [namesOf, List.mem_append, List.map_map] at hmem
            rcases hmem with (hmem | hmem) | hmem
            · exact hres b (List.mem_append.mpr (Or.inr hb)) (by simpa [ATempl.reserved] using hmem)
            · obtain ⟨l, hl, hle⟩ := List.mem_map.mp hmem
              exact hdisj l.effName (List.mem_map.mpr ⟨l, hl, rfl⟩) b hb (by rw [← hle]; rfl)
            · cases hmem)]
  simp only [List.nil_append]
  have hL1 : ((t.locs.map clearFlags).map locOf).map (·.name) = t.locs.map (·.effName) := by
    simp [List.map_map, Function.comp_def, locOf, clearFlags_effName]
  -- commit list
  rw [run_commits _ { name := t.name, params := t.params, decls := t.decls, locs := (t.locs.map clearFlags).map locOf,
                      bps := t.bps.map bpName, init := none, edges := [] } _ rfl (by rw [hL1]; exact hnl)
        (by intro n hn
            obtain ⟨l, hl, rfl⟩ := List.mem_map.mp hn
            have hlm := (List.mem_filter.mp hl).1
            refine ⟨by rw [hL1]; exact List.mem_map.mpr ⟨l, hlm, rfl⟩, ?_⟩
            intro hmem; exact hdisj l.effName (List.mem_map.mpr ⟨l, hlm, rfl⟩) l.effName hmem rfl)
        (by intro n _ x hx _
            obtain ⟨y, _, rfl⟩ := List.mem_map.mp hx
            obtain ⟨l, _, rfl⟩ := List.mem_map.mp ‹y ∈ _›
            rfl)]
  -- urgent list
  rw [run_urgents _ { name := t.name, params := t.params, decls := t.decls,
                      locs := ((t.locs.map clearFlags).map locOf).map (setC ((t.locs.filter (·.committed)).map (·.effName))),
                      bps := t.bps.map bpName, init := none, edges := [] } _ rfl (by rw [map_setC_names, hL1]; exact hnl)
        (by intro n hn
            obtain ⟨l, hl, rfl⟩ := List.mem_map.mp hn
            have hlm := (List.mem_filter.mp hl).1
            refine ⟨by rw [map_setC_names, hL1]; exact List.mem_map.mpr ⟨l, hlm, rfl⟩, ?_⟩
            intro hmem; exact hdisj l.effName (List.mem_map.mpr ⟨l, hlm, rfl⟩) l.effName hmem rfl)
        (by intro n hn x hx hxn
            obtain ⟨lu, hlu, rfl⟩ := List.mem_map.mp hn
            obtain ⟨hlum, hluu⟩ := List.mem_filter.mp hlu
            obtain ⟨y, hy, rfl⟩ := List.mem_map.mp hx
            obtain ⟨z, hz, rfl⟩ := List.mem_map.mp hy
            obtain ⟨l, hl, rfl⟩ := List.mem_map.mp hz
            have hname : l.effName = lu.effName := by
              have : (setC ((t.locs.filter (·.committed)).map (·.effName)) (locOf (clearFlags l))).name = l.effName := by
                simp only [setC]; split <;> rfl
              rw [← this]; exact hxn
            have hleq : l = lu := nodup_map_inj (·.effName) t.locs hnl hl hlum hname
            subst hleq
            have hwf := hlocs l hl
            have hnc : l.committed = false := by
              simp only [ALoc.wf, Bool.and_eq_true, Bool.not_eq_true', Bool.and_eq_false_iff] at hwf
              rcases hwf.2 with h | h
              · simp [h] at hluu
              · exact h
            have hnot : l.effName ∉ (t.locs.filter (·.committed)).map (·.effName) := by
              intro hmem
              have := (mem_filter_names t.locs (·.committed) hnl l hl).mp hmem
              simp [hnc] at this
            have hn0 : (locOf (clearFlags l)).name = l.effName := rfl
            simp only [setC, hn0, if_neg hnot]
            rfl)]
  rw [flags_final t.locs hnl]
  -- init
  obtain ⟨l0, hl0, hl0id⟩ := List.mem_map.mp hrmem
  have hfind : ∃ l, t.locs.find? (·.id == r) = some l := by
    cases hf : t.locs.find? (·.id == r) with
    | some l => exact ⟨l, rfl⟩
    | none =>
      have := List.find?_eq_none.mp hf l0 hl0
      simp [hl0id] at this
  obtain ⟨li, hli⟩ := hfind
  have hlimem : li ∈ t.locs := List.mem_of_find?_eq_some hli
  have hsk : symKind { name := t.name, params := t.params, decls := t.decls, locs := t.locs.map locOf, bps := t.bps.map bpName,
                       init := none, edges := [] } li.effName = some .loc := by
    apply symKind_loc
    · simp only [List.map_map]; exact List.mem_map.mpr ⟨li, hlimem, rfl⟩
    · intro hmem; exact hdisj li.effName (List.mem_map.mpr ⟨li, hlimem, rfl⟩) li.effName hmem rfl
  simp only [hinit, refName', hli, run_cons, run_nil, step, hsk]
  -- transitions
  have hres' : ∀ e ∈ t.edges, (nameOf t e.src).isSome = true ∧ (nameOf t e.tgt).isSome = true := by
    intro e he
    let T : BTempl := { name := t.name, params := [], decls := [], locs := t.locs.map locOf, bps := t.bps.map bpName, init := none, edges := [] }
    obtain ⟨_, _, h1, _, _⟩ := endpoint_resolve T t e.src (by simp [T, List.map_map, Function.comp_def, locOf_name]) rfl hnames (hedges e he).1
    obtain ⟨_, _, h2, _, _⟩ := endpoint_resolve T t e.tgt (by simp [T, List.map_map, Function.comp_def, locOf_name]) rfl hnames (hedges e he).2
    simp [h1, h2]
  rw [readTrans_render prefs none "" _ (by intro s h; cases h) (resolved_sorted t t.edges hso), resolved_calls t t.edges hres']
  rw [run_edges _ { name := t.name, params := t.params, decls := t.decls, locs := t.locs.map locOf, bps := t.bps.map bpName,
                    init := some li.effName, edges := [] } t t.edges rfl rfl rfl (by simp [List.map_map, locOf_name, Function.comp_def]) rfl hnames hedges]
  simp [step, templOf, initOf, hinit, hli]

theorem run_procs' (s : BState) (ts : List ATempl) (prefs : List Bool) (hc : s.cur = none) (he : s.edge = none)
    (hf : s.frags = []) (hp : s.params = []) (hw : ∀ t ∈ ts, TemplWf t)
    (hso : ∀ t ∈ ts, ∀ e ∈ t.edges, sortedFrom 0 e.labels = true) :
    run s ((ts.map (renderProc prefs)).flatMap (procRead ""))
      = { s with doc := { s.doc with templates := s.doc.templates ++ ts.map templOf } } := by
  induction ts generalizing s with
  | nil => simp [run]
  | cons t r ih =>
    simp only [List.map_cons, List.flatMap_cons, run_append]
    rw [run_proc s t prefs hc he hf hp (hw t (by simp)) (hso t (by simp))]
    refine (ih { s with doc := { s.doc with templates := s.doc.templates ++ [templOf t] } } hc he hf hp
      (fun x hx => hw x (by simp [hx])) (fun x hx => hso x (by simp [hx]))).trans ?_
    simp

end UtapModel.AM
