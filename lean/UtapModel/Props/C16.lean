/- C16: a fault in one text block does not disturb the rest of the document.

   Model: M-BUILD (`UtapModel.Model.Builder`).  A non-declaring label (guard, invariant, synchronisation, update,
   probability, rate) is parsed through its own grammar entry point; whatever token string it contains -- valid, faulty,
   abandoned half way by bison's error recovery -- the builder only ever sees *expression-level* callbacks
   (`Call.isExprCall`: expression / type-stack callbacks, quantifier binders, diagnostics) followed, if the parse got
   that far, by the label's own callback (proc_guard, proc_sync, proc_update, proc_prob; invariant and rate labels have
   none: proc_location consumes the expression later).  The theorems quantify over ALL such call lists.
   The one clause that fails on the unchanged tree is `frames` (exception set computed in Model/C16.lean from the
   generated grammar): proved for frame-balanced lists, negated for lists with an abandoned binder. -/
import UtapModel.Lemmas.C16

namespace UtapModel.Builder

/-- an expression-level callback never touches the document, the current edge or the current template -/
theorem C16_expr_call_keeps_doc (s : BState) (c : Call) (h : c.isExprCall = true) :
    (step s c).doc = s.doc ∧ (step s c).currentEdge = s.currentEdge ∧ (step s c).currentTemplate = s.currentTemplate := by
  cases c <;> simp [Call.isExprCall] at h
  case handleError => exact ⟨rfl, rfl, rfl⟩
  case handleWarning => exact ⟨rfl, rfl, rfl⟩
  case frag => exact ⟨rfl, rfl, rfl⟩
  case exprIdentifier => exact ⟨rfl, rfl, rfl⟩
  case quantBegin name => exact ⟨rfl, rfl, rfl⟩
  case quantEnd => exact ⟨rfl, rfl, rfl⟩
  case dynQuantBegin => exact ⟨rfl, rfl, rfl⟩
  case dynQuantEnd => exact ⟨rfl, rfl, rfl⟩
  case typeDuplicate => exact ⟨rfl, rfl, rfl⟩
  case typePop => exact ⟨rfl, rfl, rfl⟩
  case typePrim => exact ⟨rfl, rfl, rfl⟩
  case typeName name =>
    simp only [step]
    split <;> exact ⟨rfl, rfl, rfl⟩
  case typeArrayOfSize => exact ⟨rfl, rfl, rfl⟩
  case typeArrayOfType => exact ⟨rfl, rfl, rfl⟩
  case typeStruct => exact ⟨rfl, rfl, rfl⟩
  case structField => exact ⟨rfl, rfl, rfl⟩

/-- hence any list of them (any token string of a label, however faulty) leaves the whole document untouched -/
theorem C16_label_text_keeps_doc (t : List Call) (ht : ∀ c ∈ t, c.isExprCall = true) (s : BState) :
    (run s t).doc = s.doc ∧ (run s t).currentEdge = s.currentEdge ∧ (run s t).currentTemplate = s.currentTemplate := by
  induction t generalizing s with
  | nil => exact ⟨rfl, rfl, rfl⟩
  | cons c cs ih =>
    have hc := C16_expr_call_keeps_doc s c (ht c (List.mem_cons_self))
    have := ih (fun c' hc' => ht c' (List.mem_cons_of_mem _ hc')) (step s c)
    simp only [run, List.foldl] at this ⊢
    exact ⟨this.1.trans hc.1, this.2.1.trans hc.2.1, this.2.2.trans hc.2.2⟩

/-- the label's own callback: which field of the current edge it writes -/
inductive LabelKind where
  | guard | sync | update | prob
  deriving DecidableEq, Repr

def LabelKind.call : LabelKind → Call
  | .guard => .procGuard
  | .sync => .procSync
  | .update => .procUpdate
  | .prob => .procProb

def LabelKind.set : LabelKind → Edge → Expr → Edge
  | .guard, ed, e => { ed with guard := e }
  | .sync, ed, e => { ed with sync := e }
  | .update, ed, e => { ed with assign := e }
  | .prob, ed, e => { ed with prob := e }

/-- frame theorem: a label of kind κ, whatever its text, changes at most the κ field of the current edge -- every other
    label of that edge, every other edge, all locations, declarations, templates, instances and processes are the
    very same objects as before (and with no current edge nothing changes at all) -/
theorem C16_label_frame (κ : LabelKind) (t : List Call) (ht : ∀ c ∈ t, c.isExprCall = true) (s : BState) :
    ∃ v, (run s (t ++ [κ.call])).doc =
      match s.currentEdge with
      | none => s.doc
      | some (te, ie) => s.doc.modifyTempl te (fun T => { T with edges := T.edges.modify ie (fun ed => κ.set ed v) }) := by
  obtain ⟨hd, he, _⟩ := C16_label_text_keeps_doc t ht s
  have hrun : run s (t ++ [κ.call]) = step (run s t) κ.call := by simp [run, List.foldl_append]
  rw [hrun]
  generalize run s t = s' at hd he
  cases hce : s.currentEdge with
  | none =>
    rw [hce] at he
    refine ⟨0, ?_⟩
    cases κ <;> simp [LabelKind.call, step, BState.setEdge, he, BState.error, hd]
  | some p =>
    obtain ⟨te, ie⟩ := p
    rw [hce] at he
    cases κ
    · exact ⟨s'.frag0, by simp [LabelKind.call, LabelKind.set, step, BState.setEdge, he, BState.popFrag, hd]⟩
    · exact ⟨s'.nextExpr, by simp [LabelKind.call, LabelKind.set, step, BState.setEdge, he, BState.popFrag, BState.fresh, hd]⟩
    · exact ⟨s'.frag0, by simp [LabelKind.call, LabelKind.set, step, BState.setEdge, he, BState.popFrag, hd]⟩
    · exact ⟨s'.frag0, by simp [LabelKind.call, LabelKind.set, step, BState.setEdge, he, BState.popFrag, hd]⟩

/-- `frames` clause: a label text whose binder pushes and pops are balanced leaves the frame stack as it found it;
    in general the stack is the old one with exactly `d` frames on top, `d` = number of abandoned binders -/
theorem C16_frames (t : List Call) (ht : ∀ c ∈ t, c.isExprCall = true) (s : BState) (d0 d : Nat) (pushed : List FrameId)
    (hs : pushed.length = d0) (base : List FrameId) (hf : s.frames = pushed ++ base) (hb : frameBal d0 t = some d) :
    ∃ pushed', pushed'.length = d ∧ (run s t).frames = pushed' ++ base := by
  induction t generalizing s d0 pushed with
  | nil => simp [frameBal] at hb; subst hb; exact ⟨pushed, hs, hf⟩
  | cons c cs ih =>
    have hc := ht c List.mem_cons_self
    have hcs : ∀ c' ∈ cs, c'.isExprCall = true := fun c' hc' => ht c' (List.mem_cons_of_mem _ hc')
    simp only [run, List.foldl] at ih ⊢
    cases c <;> simp [Call.isExprCall] at hc <;> simp only [frameBal, Call.frameDelta] at hb
    case quantBegin name =>
      simp at hb
      refine ih hcs (step s (.quantBegin name)) (d0 + 1) (s.store.length :: pushed) (by simp [hs]) ?_ hb
      simp [step, BState.popType, BState.pushNewFrame, BState.newFrame, BState.pushFrame, BState.addSymbol, BState.errorIf, hf]
    case dynQuantBegin name =>
      simp at hb
      refine ih hcs (step s (.dynQuantBegin name)) (d0 + 1) (s.store.length :: pushed) (by simp [hs]) ?_ hb
      simp [step, BState.pushNewFrame, BState.newFrame, BState.pushFrame, BState.addSymbol, hf]
    case quantEnd =>
      simp at hb
      obtain ⟨hne, hb⟩ := hb
      cases pushed with
      | nil => simp at hs; omega
      | cons p ps =>
        refine ih hcs (step s .quantEnd) (d0 - 1) ps (by simp at hs; omega) ?_ hb
        simp [step, BState.popFrame, BState.pushFresh, BState.popFrag, hf]
    case dynQuantEnd =>
      simp at hb
      obtain ⟨hne, hb⟩ := hb
      cases pushed with
      | nil => simp at hs; omega
      | cons p ps =>
        refine ih hcs (step s .dynQuantEnd) (d0 - 1) ps (by simp at hs; omega) ?_ hb
        simp [step, BState.popFrame, BState.pushFresh, BState.popFrag, hf]
    all_goals (
      simp at hb
      refine ih hcs _ d0 pushed hs ?_ hb
      first
        | (rw [typeName_frames]; exact hf)
        | simpa [step, BState.error, BState.warning, BState.popFrag, BState.pushFresh, BState.pushType, BState.popType] using hf)

/-- balanced label text: `frames` is unchanged (what the property needs for the labels parsed afterwards) -/
theorem C16_frames_balanced (t : List Call) (ht : ∀ c ∈ t, c.isExprCall = true) (s : BState) (hb : frameBal 0 t = some 0) :
    (run s t).frames = s.frames := by
  obtain ⟨p, hp, hr⟩ := C16_frames t ht s 0 0 [] rfl s.frames (by simp) hb
  cases p with
  | nil => simpa using hr
  | cons _ _ => simp at hp

/-- the exception: a label text that abandons d ≥ 1 binders (syntax error between `forall (i : T)` and the end of its
    body) leaves d frames pushed -- the frame stack seen by every later label is NOT the one before the fault -/
theorem C16_frames_abandoned (t : List Call) (ht : ∀ c ∈ t, c.isExprCall = true) (s : BState) (d : Nat) (hd : 0 < d)
    (hb : frameBal 0 t = some d) : (run s t).frames ≠ s.frames := by
  obtain ⟨p, hp, hr⟩ := C16_frames t ht s 0 d [] rfl s.frames (by simp) hb
  intro heq
  rw [heq] at hr
  have := congrArg List.length hr
  rw [List.length_append] at this; omega

-- hypotheses are satisfiable: the callbacks of the guard `forall (i : int[0,1]) i > 0` and of the faulty `forall (i : int[0,1]) (`
example : (∀ c ∈ [Call.frag 0 1, .frag 0 1, .typePrim true 2 false, .quantBegin "i", .exprIdentifier "i", .frag 0 1, .frag 2 1, .quantEnd],
    Call.isExprCall c = true) ∧
    frameBal 0 [Call.frag 0 1, .frag 0 1, .typePrim true 2 false, .quantBegin "i", .exprIdentifier "i", .frag 0 1, .frag 2 1, .quantEnd] = some 0 := by
  decide
example : frameBal 0 [Call.frag 0 1, .frag 0 1, .typePrim true 2 false, .quantBegin "i", .handleError] = some 1 := by decide

/-- negation on the witness: edge with `select i`, faulty guard `forall (i : int[0,1]) (`, then the update label `i`:
    the identifier of the LATER label binds to the abandoned binder (symbol 1), not to the select variable (symbol 0),
    and after proc_edge_end the select frame of this edge is still on the stack for all later edges -/
def witnessState : BState :=
  run BState.init [.procBegin "P" true, .procLocation "A" false false, .procEdgeBegin "A" "A" true,
    .frag 0 1, .frag 0 1, .typePrim true 2 false, .procSelect "i"]

def faultyGuard : List Call := [.frag 0 1, .frag 0 1, .typePrim true 2 false, .quantBegin "i", .handleError]

theorem C16_witness_binding :
    ((run witnessState [.exprIdentifier "i"]).binds.head?.map (·.2)) ≠
    ((run witnessState (faultyGuard ++ [.exprIdentifier "i"])).binds.head?.map (·.2)) := by decide

theorem C16_witness_frames :
    (run witnessState (faultyGuard ++ [.procEdgeEnd])).frames.length = (run witnessState [.procEdgeEnd]).frames.length + 1 := by decide

/-- what the theorems above quantify over is what the grammar can emit: every callback of every production reachable from
    a label entry point (Expression, SyncExpr, ExprList, ExpRate) is an expression-level callback of the model, except the
    synchronisation label's own proc_sync (table regenerated from src/parser.y on every run) -/
theorem C16_label_callbacks_are_expression_level :
    (UtapModel.C16.labelCallbacks.filter (fun c => match UtapModel.C16.callOf c with
      | some cl => !cl.isExprCall
      | none => true)) = ["proc_sync"] := by decide +kernel

/-- the exception set computed from the generated grammar table and the model's own frame effects: productions
    reachable from a label entry point whose frame push (mid-rule action) and pop (final action) are separated by a
    nonterminal.  A change of parser.y or of the model that alters this list changes the finding keys. -/
theorem C16_exception_shapes : UtapModel.C16.exceptionShapes =
    ["expr_sum_begin", "expr_forall_begin", "expr_exists_begin", "expr_forall_dynamic_begin", "expr_exists_dynamic_begin",
     "expr_sum_dynamic_begin", "expr_foreach_dynamic_begin"] := by decide +kernel

/-- a label text that never reaches below its entry level leaves every older operand in place: the old expression
    stack is a suffix of the new one (left-overs of a faulted label sit above it and are inert for later labels,
    which index from the top) -/
theorem C16_fragments (t : List Call) (ht : ∀ c ∈ t, c.isExprCall = true) (s : BState) (d0 d : Nat) (pushed base : List Expr)
    (hs : pushed.length = d0) (hf : s.fragments = pushed ++ base) (hb : fragBal d0 t = some d) :
    ∃ pushed', pushed'.length = d ∧ (run s t).fragments = pushed' ++ base := by
  induction t generalizing s d0 pushed with
  | nil => simp [fragBal] at hb; subst hb; exact ⟨pushed, hs, hf⟩
  | cons c cs ih =>
    have hc := ht c List.mem_cons_self
    have hcs : ∀ c' ∈ cs, c'.isExprCall = true := fun c' hc' => ht c' (List.mem_cons_of_mem _ hc')
    simp only [fragBal] at hb
    split at hb
    · cases hb
    · rename_i hge
      obtain ⟨new, hnl, hne⟩ := frag_effect s c hc
      simp only [run, List.foldl] at ih ⊢
      refine ih hcs (step s c) (d0 - c.fragNeed.1 + c.fragNeed.2) (new ++ pushed.drop c.fragNeed.1) ?_ ?_ hb
      · simp [hnl, hs]; omega
      · rw [hne, hf, List.drop_append_of_le_length (by omega), List.append_assoc]

theorem C16_fragments_suffix (t : List Call) (ht : ∀ c ∈ t, c.isExprCall = true) (s : BState) (d : Nat)
    (hb : fragBal 0 t = some d) : s.fragments <:+ (run s t).fragments := by
  obtain ⟨p, _, hr⟩ := C16_fragments t ht s 0 d [] s.fragments rfl (by simp) hb
  exact ⟨p, hr.symm⟩

example : fragBal 0 [Call.frag 0 1, .frag 0 1, .typePrim true 2 false, .quantBegin "i", .exprIdentifier "i", .handleError] = some 1 := by decide


/-- C16, declaration blocks: whatever callbacks follow (a faulted declaration, error recovery, anything), every variable and
    function declared so far stays in place, and its symbol keeps its name and its object -/
theorem C16_decl_prefix (s : BState) (cs : List Call) : Grows s (run s cs) := by
  induction cs generalizing s with
  | nil => exact Grows.refl _
  | cons c cs ih => exact Grows.trans (C16_decl_step s c) (ih (step s c))


/- The declaration-block clause on the real library (truncation / token deletion inside declaration i keeps the
   declarations < i unchanged) is checked by checks/c16.py; `C16_decl_prefix` is its model-level counterpart. -/

end UtapModel.Builder
