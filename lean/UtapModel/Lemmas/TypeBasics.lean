/- Basics shared by the C14 and C10 lemma files: `∀ k : TK` is decidable (complete finite table), and `type_t::is` on a
   leaf kind is a function of the terminal kind of the type. -/
import UtapModel.Gen.TypeClauses
namespace UtapModel.TypeBasics
open UtapModel.Types UtapModel.TypeClauses

/-! ### `∀ k : TK` is decidable (complete finite table) -/
theorem TK.mem_all (k : TK) : k ∈ TK.all := by cases k <;> decide

instance instDecidableForallTK (p : TK → Prop) [DecidablePred p] : Decidable (∀ k, p k) :=
  decidable_of_iff (∀ k ∈ TK.all, p k) ⟨fun h k => h k (TK.mem_all k), fun h k _ => h k⟩

instance instDecidableExistsTK (p : TK → Prop) [DecidablePred p] : Decidable (∃ k, p k) :=
  decidable_of_iff (∃ k ∈ TK.all, p k) ⟨fun ⟨k, _, h⟩ => ⟨k, h⟩, fun ⟨k, h⟩ => ⟨k, TK.mem_all k, h⟩⟩

/-- kinds that only ever sit at the end of a prefix / REF / LABEL / RANGE chain -/
def TK.leaf : TK → Bool
  | .REF | .RANGE | .LABEL | .CONSTANT | .SYSTEM_META | .URGENT | .BROADCAST | .COMMITTED | .HYBRID => false
  | _ => true

theorem pfx_ne_leaf (p : Pfx) (k : TK) (h : TK.leaf k = true) : (p.toTK == k) = false := by
  cases p <;> cases k <;> simp_all [TK.leaf, Pfx.toTK]

/-- `t.is k` for a leaf kind `k` only looks at the terminal kind of `t` -/
theorem is_term : ∀ (t : Ty) (k : TK), TK.leaf k = true → t.is k = (t.term == k)
  | .prim k', k, _ => by simp [Ty.is, Ty.term]
  | .pfx p t, k, h => by simp [Ty.is, Ty.term, is_term t k h, pfx_ne_leaf p k h]
  | .ref t, k, h => by
      have : (k == TK.REF) = false := by cases k <;> simp_all [TK.leaf]
      simp [Ty.is, Ty.term, is_term t k h, this]
  | .label _ t, k, h => by
      have : (k == TK.LABEL) = false := by cases k <;> simp_all [TK.leaf]
      simp [Ty.is, Ty.term, is_term t k h, this]
  | .range t _ _, k, h => by
      have : (k == TK.RANGE) = false := by cases k <;> simp_all [TK.leaf]
      simp [Ty.is, Ty.term, is_term t k h, this]
  | .array _ _, k, _ => by cases k <;> rfl
  | .record _, k, _ => by cases k <;> rfl


theorem term_prim (k : TK) : (Ty.prim k).term = k := rfl

end UtapModel.TypeBasics
