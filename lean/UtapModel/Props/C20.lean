/- C20 -- the XML writer's template graph mirrors the document it was given; writing never crashes.

   Model: `writeXml : WDoc → Option Xml` (`none` = the writer dereferences a null pointer), the independent reader
   `readGraph : Xml → Graph`, the specification `graphOf : WDoc → Graph` (all in Model/XmlWrite.lean), the computed
   exception shapes `docShapes`.  Helper lemmas: Lemmas/C20.lean.  Tie: correspondence run of checks/c20.py against the
   real `write_XML_file`, read back with libxml2's tree API.

   The writer model is parameterised by `WCfg` (is a probability label / the controllable attribute / are branchpoints
   written); `cfgOfSource` is computed from the tables generated from the current xmlwriter.cpp, so the theorems below hold
   for the unchanged writer (all three false) as well as for a repaired one.

   Full-strength statement (NOT provable for the unchanged writer, see the witnesses below):
     theorem C20_full (d : WDoc) : (writeXml cfgOfSource d).map readGraph = some (graphOf cfgOfSource d)           -/
import UtapModel.Lemmas.C20
import UtapModel.Model.XmlWriteCfg
namespace UtapModel.AM

/-- a document using everything the writer handles: named locations, invariant (as the type checker stores it) and
    rate, urgent / committed, self loop, parallel edges, a select over a typedef'd type, guard, sync, update -/
def sampleDoc : WDoc :=
  { procs := [{ name := "P", isTempl := false, bound := [true, true] }, { name := "T", isTempl := true, bound := [false] }],
    templs := [
   { name := "T",
     locs := [{ name := "L0", inv := some (.andOne "x <= 5"), rate := some (.plain "3"), urgent := false, committed := false },
              { name := "_id1", inv := none, rate := none, urgent := true, committed := false },
              { name := "L<2>", inv := some .one, rate := none, urgent := false, committed := true }],
     bps := [], init := some 0,
     edges := [{ src := .loc 0, dst := .loc 1, ctrl := true, select := [{ id := "i", ty := "idT", named := true }],
                 guard := some (.plain "x >= 1 && m == i"), sync := some (.plain "ch[1]!"), assign := some (.plain "m = 4, x = 0"),
                 prob := some .one },
               { src := .loc 0, dst := .loc 1, ctrl := true, select := [], guard := some .one, sync := none, assign := some .one,
                 prob := some .one },
               { src := .loc 2, dst := .loc 2, ctrl := true, select := [], guard := some .one, sync := some (.plain "ch[2]?"),
                 assign := some .one, prob := some .one }] }] }

example : docShapes cfgOfSource sampleDoc = [] := by decide
example : ∀ a b c d : Bool, docShapes ⟨a, b, c, d⟩ sampleDoc = [] := by decide

/-- **C20 (outside the exception shapes).**  For every document none of whose edges / templates has one of the computed
    shapes, the writer does not crash and an independent reader of the written tree finds exactly the document's graph:
    per template one location element per location (id `id<nr>`, name, invariant and rate label, urgent / committed),
    one init reference to the initial location, one transition per edge in order with the ids of its endpoints, the
    controllable flag and the select / guard / synchronisation / assignment labels carrying the non-trivial texts. -/
theorem C20_partial (c : WCfg) (d : WDoc) (h : docShapes c d = []) :
    (writeXml c d).map readGraph = some (graphOf c d) := by
  simp only [docShapes, List.append_eq_nil_iff, List.flatMap_eq_nil_iff] at h
  obtain ⟨h, hp⟩ := h
  have hpc : d.procs.any procCrash = false := by
    cases hc : d.procs.any procCrash with
    | false => rfl
    | true => simp [hc] at hp
  have hok : ∀ t ∈ d.templs, TemplOk c t := fun t ht => templOk_of c t (h t ht)
  have hall := allSome_map_some (wTempl c) (wTempl' c) d.templs (fun t ht => wTempl_ok c t (hok t ht))
  simp only [writeXml, hpc, Bool.false_eq_true, ↓reduceIte, hall, Option.map_some, readGraph, graphOf, List.filterMap_append]
  have hts : (d.templs.map (wTempl' c)).filterMap templF = d.templs.map (gtemplOf c) := by
    apply filterMap_map_some
    intro t ht
    obtain ⟨k, hk, hg⟩ := gTempl_wTempl c t (hok t ht)
    simp [hk, templF, hg]
  simp [hts, templF, List.filterMap_cons]

/-- **C20, crashes.**  The writer dereferences a null pointer exactly when some edge starts or ends in a branchpoint
    or some template has no initial location. -/
theorem C20_crash_iff (c : WCfg) (d : WDoc) :
    writeXml c d = none ↔
      Shape.branchpointEndpoint ∈ docShapes c d ∨ Shape.noInit ∈ docShapes c d ∨ Shape.unboundProcess ∈ docShapes c d := by
  have hu : Shape.unboundProcess ∈ docShapes c d ↔ d.procs.any procCrash = true := by
    simp only [docShapes, List.mem_append, List.mem_flatMap, mem_ite_singleton, and_true]
    constructor
    · rintro (⟨t, _, h⟩ | h)
      · exact absurd h (unbound_not_mem_templShapes c t)
      · exact h
    · intro h; exact Or.inr h
  have hb : ∀ s, s ≠ Shape.unboundProcess → (s ∈ docShapes c d ↔ ∃ t ∈ d.templs, s ∈ templShapes c t) := by
    intro s hs
    simp only [docShapes, List.mem_append, List.mem_flatMap, mem_ite_singleton]
    constructor
    · rintro (h | ⟨_, h⟩)
      · exact h
      · exact absurd h hs
    · intro h; exact Or.inl h
  rw [hu, hb _ (by decide), hb _ (by decide)]
  cases hc : d.procs.any procCrash with
  | true => simp [writeXml, hc]
  | false =>
    have h1 : writeXml c d = none ↔ ∃ t ∈ d.templs, wTempl c t = none := by
      simp only [writeXml, hc, Bool.false_eq_true, ↓reduceIte, Option.map_eq_none_iff, allSome_eq_none_iff, List.mem_map]
    rw [h1]
    simp only [Bool.false_eq_true, or_false]
    constructor
    · rintro ⟨t, ht, h⟩
      rcases (wTempl_eq_none_iff c t).mp h with h | h
      · exact Or.inl ⟨t, ht, h⟩
      · exact Or.inr ⟨t, ht, h⟩
    · rintro (⟨t, ht, h⟩ | ⟨t, ht, h⟩)
      · exact ⟨t, ht, (wTempl_eq_none_iff c t).mpr (Or.inl h)⟩
      · exact ⟨t, ht, (wTempl_eq_none_iff c t).mpr (Or.inr h)⟩

/-- **C20, ids.**  The location ids the writer emits are unique within a template. -/
theorem C20_ids_unique (c : WCfg) (t : WTempl) : ((gtemplOf c t).locs.map (·.id)).Nodup := by
  have h : (gtemplOf c t).locs.map (·.id) = (List.range t.locs.length).map (fun i => some (idOf i)) := by
    simp only [gtemplOf, List.map_map]
    apply List.ext_getElem
    · simp
    · intro i h1 h2
      simp [glocOf]
  rw [h]
  exact List.Pairwise.map _ (fun a b hab heq => hab (idOf_injective (Option.some.inj heq))) List.nodup_range


/-- **C20, endpoints resolve.**  Among the location elements of a written template, the ones carrying the id that an edge
    endpoint `loc n` is written with are exactly the element of the `n`-th location of the document: an endpoint can never be
    read back as a different location (e.g. after a renumbering of ids) and never dangles. -/
theorem C20_endpoint_resolves (c : WCfg) (t : WTempl) (n : Nat) (hn : n < t.locs.length) (g : GLoc) :
    (g ∈ (gtemplOf c t).locs ∧ g.id = endId c (.loc n)) ↔ g = glocOf (t.locs[n], n) := by
  simp only [gtemplOf, List.mem_map, endId]
  constructor
  · rintro ⟨⟨⟨l, i⟩, hm, rfl⟩, hid⟩
    have hi : i = n := idOf_injective (Option.some.inj (by simpa [glocOf] using hid))
    subst hi
    have h1 := List.mk_mem_zipIdx_iff_getElem?.mp hm
    rw [List.getElem?_eq_getElem hn] at h1
    rw [← Option.some.inj h1]
  · rintro rfl
    refine ⟨⟨(t.locs[n], n), ?_, rfl⟩, by simp [glocOf]⟩
    exact List.mk_mem_zipIdx_iff_getElem?.mpr (List.getElem?_eq_getElem hn)

/-- **C20, endpoints in range.**  In a written-and-read template every edge whose endpoints are locations of the template
    refers to ids that occur on a location element, and the init reference does too. -/
theorem C20_refs_in_range (c : WCfg) (t : WTempl) (e : WEdge) (he : e ∈ t.edges) (n m : Nat)
    (hs : e.src = .loc n) (hd : e.dst = .loc m) (hn : n < t.locs.length) (hm : m < t.locs.length) :
    ∃ ge ∈ (gtemplOf c t).edges, ge = gedgeOf c e ∧
      ge.src ∈ (gtemplOf c t).locs.map (·.id) ∧ ge.tgt ∈ (gtemplOf c t).locs.map (·.id) := by
  refine ⟨gedgeOf c e, List.mem_map.mpr ⟨e, he, rfl⟩, rfl, ?_, ?_⟩
  · exact List.mem_map.mpr ⟨glocOf (t.locs[n], n), ((C20_endpoint_resolves c t n hn _).mpr rfl).1, by simp [gedgeOf, hs, endId, glocOf]⟩
  · exact List.mem_map.mpr ⟨glocOf (t.locs[m], m), ((C20_endpoint_resolves c t m hm _).mpr rfl).1, by simp [gedgeOf, hd, endId, glocOf]⟩

/-- **C20, counts.**  Outside the exception shapes the written tree has exactly one template element per template, one
    location element per location and one transition per edge, in the document's order. -/
theorem C20_counts (c : WCfg) (d : WDoc) (h : docShapes c d = []) :
    ∃ g, (writeXml c d).map readGraph = some g ∧ g.length = d.templs.length ∧
      g.map (fun t => (t.locs.length, t.edges.length)) = d.templs.map (fun t => (t.locs.length, t.edges.length)) := by
  refine ⟨graphOf c d, C20_partial c d h, by simp [graphOf], ?_⟩
  simp [graphOf, gtemplOf, List.map_map, Function.comp_def]

/-! ### the exception shapes are real: a witness for each -/

def wEdgeBase : WEdge :=
  { src := .loc 0, dst := .loc 0, ctrl := true, select := [], guard := some .one, sync := none, assign := some .one, prob := some .one }

def wLocBase : WLoc := { name := "L0", inv := none, rate := none, urgent := false, committed := false }

def wDocWith (e : WEdge) : WDoc := { templs := [{ name := "T", locs := [wLocBase], bps := ["_b"], init := some 0, edges := [e] }] }

def witness : Shape → WDoc
  | .probabilityDropped => wDocWith { wEdgeBase with prob := some (.plain "3") }
  | .selectBindingsDropped =>
    wDocWith { wEdgeBase with select := [{ id := "i", ty := "idT", named := true }, { id := "j", ty := "idT", named := true }] }
  | .selectTypeDropped => wDocWith { wEdgeBase with select := [{ id := "i", ty := "int[0,3]", named := false }] }
  | .controllableDropped => wDocWith { wEdgeBase with ctrl := false }
  | .branchpointEndpoint => wDocWith { wEdgeBase with dst := .bp 0 }
  | .urgentAndCommitted =>
    { templs := [{ name := "T", locs := [{ wLocBase with urgent := true, committed := true }], bps := [], init := some 0, edges := [] }] }
  | .noInit => { templs := [{ name := "T", locs := [wLocBase], bps := [], init := none, edges := [] }] }
  | .unboundProcess =>
    { templs := [{ name := "T", locs := [wLocBase], bps := [], init := some 0, edges := [] }],
      procs := [{ name := "P", isTempl := false, bound := [false, true] }] }

/-- every shape occurs in its witness, and on the witness the written graph differs from the document's graph
    (or the writer crashes) -/
theorem C20_witness (s : Shape) :
    s ∈ docShapes ⟨false, false, false, false⟩ (witness s) ∧
    (writeXml ⟨false, false, false, false⟩ (witness s)).map readGraph ≠ some (graphOf ⟨false, false, false, false⟩ (witness s)) := by
  cases s <;> decide

/-- the shapes that the writer of the *current* source has: computed from the generated tables -/
def sourceShapes : List Shape := (List.map (fun s => (s, docShapes cfgOfSource (witness s))) [Shape.probabilityDropped,
  .selectBindingsDropped, .selectTypeDropped, .controllableDropped, .branchpointEndpoint, .urgentAndCommitted, .noInit,
  .unboundProcess]).filterMap fun p => if p.2.contains p.1 then some p.1 else none

/-! ### tie to the current source (tables generated by translate/xml_tables.py) -/

def allLabelsEdge : WEdge :=
  { src := .loc 0, dst := .loc 0, ctrl := false, select := [{ id := "i", ty := "T", named := true }], guard := some (.plain "g"),
    sync := some (.plain "s"), assign := some (.plain "a"), prob := some (.plain "p") }

def allLabelsLoc : WLoc := { name := "L", inv := some (.plain "i"), rate := some (.plain "r"), urgent := false, committed := false }

/-- the label kinds the model writes, in order, are exactly the `label("kind", ..)` calls of `XMLWriter::labels` and
    `XMLWriter::location`; the attributes of a transition are those of `XMLWriter::transition`; `XMLWriter::label`
    skips "1" and strips "1 && "; whether only `select[0]` or every binding with its declared type is written is read off the source -/
theorem C20_tables :
    ((wEdgeLabels cfgOfSource allLabelsEdge).filterMap lblF).map (·.1) = Gen.XmlTables.writerEdgeLabels ∧
    ((wLocKids (allLabelsLoc, 0)).filterMap lblF).map (·.1) = Gen.XmlTables.writerLocLabels ∧
    (wEdgeAttrs cfgOfSource allLabelsEdge).map (·.1) = Gen.XmlTables.writerTransitionAttributes ∧
    Gen.XmlTables.writerSkips = ["1"] ∧ Gen.XmlTables.writerStrips = ["1 && "] ∧
    cfgOfSource.sel = (Gen.XmlTables.writerSelectAll && Gen.XmlTables.writerSelectDeclared) := by
  decide

end UtapModel.AM
