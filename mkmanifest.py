#!/usr/bin/env python3
"""Writes MANIFEST.json from the table below (kept as code so that the 20 entries stay consistent)."""
import json

CHECKS = {
 "C18": dict(
   text="Lean 4 proof over two models regenerated from include/utap/range.h on every run: for integral T (arithmetic in Int, i.e. no "
        "overflow) 50 theorems give the set-theoretic membership characterisation of every range_t operation for all integers; for "
        "floating-point T the order-theoretic operations (gt lt geq leq & | contains intersects == <, incl. the +-infinity branches) "
        "are proved over an abstract linear order with infinities and nexttoward as successor. The translator is validated by "
        "running the generated model and the real range_t<int32_t> on the same operation lines; a direct set-semantics oracle "
        "on the implementation (exhaustive for int8_t) produces the replay when a proof or the correspondence breaks.",
   note="Trusted: Lean kernel, axioms propext/Quot.sound/Classical.choice, translate/range_h.py (validated by the correspondence), "
        "harness/c18.cpp. Floating point: the FloatLike axioms are assumed of IEEE double (NaN excluded, -0.0 = +0.0); "
        "floating-point + - * round and are not claimed (boundary values are tested by the oracle).",
   technique="Lean 4 theorems over a model translated from range.h + differential correspondence",
   design="4/C18"),
}
CHECKS["C02"] = dict(
   text="Lean 4 proof, for an operator-precedence model of the Expression grammar whose table is regenerated from parser.y / lexer.l / "
        "keywords.cpp on every run: parse(render_min t) = t and parse(render_full t) = t for every tree over the full operator set "
        "(unary, binary, assignment family, inline-if, indexing, field access, calls, builtin functions, quantifiers, rate; unbounded size), "
        "any redundant parentheses, alias / unary-plus / imply laws, exact-or-rejected integer literals, and equality (by decide) of the "
        "generated table with a hand-written reference operator table. The model parser is compared with the real parser on every operator "
        "pair/triple, random trees, mutated token strings and boundary literals; the reference table decides disagreements and yields the replay.",
   note="Trusted: Lean kernel, axioms propext/Quot.sound/Classical.choice, translate/exprgrammar.py, harness/c02.cpp, the reference table "
        "Spec/OperatorTable.lean (hand-written from the UPPAAL language reference). That bison's LALR automaton behaves as the "
        "operator-precedence model is validated by the correspondence, not proved. Double literals: nearest-double conversion is tested "
        "against Python float(), not proved. Identifier binding is C07. New (4.x) syntax only.",
   technique="Lean 4 round-trip theorem for a Pratt model over a table translated from parser.y + differential correspondence",
   design="4/C02")
CHECKS["C03"] = dict(
   text="Lean 4 proof: a token-level model of expression_t::print (layout per kind with embrace / embrace_strict, tables regenerated from "
        "expression.cpp get_precedence/print on every run) composed with the grammar model of C02: parse(str e) = e and "
        "str(parse(str e)) = str e for every tree (all operator pairs and positions, unbounded) that meets a computed, decidable criterion; "
        "the criterion's failures are enumerated from the tables as (parent, position, child) classes, each with a regenerated witness "
        "theorem proving the negation, and replayed on the library. Correspondence: real str() against the model's token stream, real "
        "parse/str/parse/equal/str on random accepted trees and all witnesses. Query forms (A[] E<> Pr E[] simulate control* minE/maxE "
        "strategies) are exercised on the real library by the same oracle but are outside the Lean model (testing).",
   note="Trusted: Lean kernel, axioms propext/Quot.sound/Classical.choice, translate/printer.py + exprgrammar.py, harness/c02.cpp, c03q.cpp. "
        "The theorem is about token streams; that lexing the printed text gives those tokens is checked per case, not proved. Literal "
        "formatting (doubles, strings, -2147483648), the quantifier binder type text and all query syntax are not modelled: deviations there "
        "are found by the differential oracle only (4 known findings listed in known_findings.d/C03.json; 3 defects repaired by fix: commits).",
   technique="Lean 4 print/parse round-trip theorem over tables translated from expression.cpp and parser.y + differential correspondence",
   design="4/C03")
NOT_APPLICABLE = {}
ALL = ["C%02d" % i for i in range(1, 21)]
PENDING = "check not built yet in this revision (work in progress, see DESIGN.md section 8 order of work)"

m = {
 "version": 1,
 "setup_cmd": "./check --setup",
 "hooks": {"guard": "UTAP_VERIF", "enable": "checks compile /repo's working tree themselves with -DUTAP_VERIF (vlib/core.py build_repo)",
           "baseline_off_cmd": "cmake -S /repo -B /repo/_build -G Ninja && cmake --build /repo/_build && ctest --test-dir /repo/_build -j8 --timeout 900",
           "source_commits": [], "add_only": True},
 "engines": [{"name": "lean4-proof", "path": "lean/", "serves_properties": sorted(CHECKS),
              "kind_free_text": "Lean 4.33 models + theorems; python translators; C++ correspondence harnesses"}],
 "checks": [],
 "notes": "See DESIGN.md. Findings: KNOWN_FINDINGS.json.",
 "not_applicable": [],
}
for pid in ALL:
    if pid in CHECKS:
        c = CHECKS[pid]
        m["checks"].append({
            "property_id": pid, "quick_cmd": "./check %s --tier quick" % pid, "thorough_cmd": "./check %s --tier thorough" % pid,
            "evidence_file": "/verif/evidence/%s.json" % pid, "replay_cmd_template": "./check %s --replay {path}" % pid,
            "engine": "lean4-proof", "level_claimed": {"category": "proof", "text": c["text"], "design_ref": c["design"]},
            "level_note": c["note"], "technique": c["technique"]})
    else:
        m["not_applicable"].append({"property_id": pid, "reason": NOT_APPLICABLE.get(pid, PENDING)})
json.dump(m, open("MANIFEST.json", "w"), indent=1)
print("checks:", len(m["checks"]), "not_applicable:", len(m["not_applicable"]))
