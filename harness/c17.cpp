// C17 harness: the real FeatureChecker verdict (Document::get_supported_methods after parse_XML_buffer) plus an abstract
// dump of the parsed document -- exactly the facts the FeatureChecker's visitors look at (kinds, the type predicates
// is(DOUBLE) / is(HYBRID) / is_clock(), constant values, the frames) -- as one S-expression per model.
// The Lean driver (lean/UtapModel/Drv/C17.lean) recomputes the verdict and the declarative Spec from that dump.
//
// protocol: stdin lines  `M <hex of XML text>` | `X <hex of XTA text>`  ->  stdout  `R <sym> <sto> <con> <nerr> <exc> <abstract doc>`
#include "common.hpp"

using namespace vh;

static std::string unhex(const std::string& h)
{
    std::string o;
    auto v = [](char c) { return c <= '9' ? c - '0' : (c | 32) - 'a' + 10; };
    for (size_t i = 0; i + 1 < h.size(); i += 2) o += (char)(v(h[i]) * 16 + v(h[i + 1]));
    return o;
}

// flags: D type.is(DOUBLE), H type.is(HYBRID), C type.is_clock(), S get_symbol().get_type().is(HYBRID)
// (S is what isRateDisallowedInSymbolic asks of the operand of a RATE node; reported for identifiers and RATE operands)
static std::string ex(const expression_t& e, bool symFlag = false)
{
    if (e.empty()) return "()";
    std::ostringstream os;
    auto k = e.get_kind();
    os << "(" << kindName(k) << " ";
    type_t t = e.get_type();
    std::string fl;
    if (!t.unknown()) {
        if (t.is(Constants::DOUBLE)) fl += "D";
        if (t.is(Constants::HYBRID)) fl += "H";
        if (t.is_clock()) fl += "C";
    }
    if (k == IDENTIFIER || symFlag) {
        try {
            symbol_t s = e.get_symbol();
            if (s != symbol_t() && !s.get_type().unknown() && s.get_type().is(Constants::HYBRID)) fl += "S";
        } catch (std::exception&) {
        }
    }
    os << (fl.empty() ? "-" : fl) << " ";
    if (k == CONSTANT && !t.unknown() && t.is_integral()) os << e.get_value();
    else if (k == CONSTANT && !t.unknown() && t.is(Constants::DOUBLE))
        os << (e.get_double_value() == 0.0 ? "d0" : e.get_double_value() == 1.0 ? "d1" : "dx");
    else os << "-";
    for (size_t i = 0; i < e.get_size(); ++i) os << " " << ex(e[i], k == RATE);
    os << ")";
    return os.str();
}

static std::string frameSyms(const frame_t& f)
{
    std::ostringstream os;
    os << "(frame";
    for (uint32_t i = 0; i < f.get_size(); ++i) {
        symbol_t s = f[i];
        type_t t = s.get_type();
        std::string fl;
        type_t st = t.get_kind() == TYPEDEF ? t : t.strip_array();
        type_t el = t;  // element type of (nested) arrays, prefixes kept
        if (t.get_kind() != TYPEDEF)
            for (int d = 0; d < 16 && el.is_array(); ++d) el = el.get_sub();
        if (t.is_clock()) fl += "c";
        if (st.is_clock()) fl += "C";
        if (t.is_channel()) fl += "h";
        if (t.is(Constants::BROADCAST)) fl += "b";
        if (el.is_channel()) fl += "H";
        if (el.is(Constants::BROADCAST)) fl += "B";
        if (t.is(Constants::REF)) fl += "r";
        if (fl.empty()) fl = "-";
        void* data = s.get_data();
        if (t.get_kind() == TYPEDEF) {
            os << " (tdef " << fl << ")";
        } else if ((st.is(Constants::INT) || st.is(Constants::STRING) || st.is(Constants::DOUBLE) || st.is(Constants::BOOL) ||
                    st.is(CLOCK) || st.is(CHANNEL) || st.is(SCALAR) || st.get_kind() == RECORD) &&
                   data != nullptr) {
            auto* v = static_cast<variable_t*>(data);
            os << " (var " << fl << " " << ex(v->init) << ")";
        } else if (st.is(LOCATION) || st.is(LOCATION_EXPR)) {
            auto* l = static_cast<location_t*>(data);
            os << " (loc " << fl << " " << ex(l->invariant) << ")";
        } else {
            os << " (other " << fl << ")";
        }
    }
    os << ")";
    return os.str();
}

static std::string absDoc(Document& doc)
{
    std::ostringstream os;
    os << "(doc " << (doc.has_dynamic_templates() ? 1 : 0) << " " << (doc.has_priority_declaration() ? 1 : 0) << " "
       << frameSyms(doc.get_globals().frame);
    auto templ = [&](template_t& t, int dyn) {
        os << " (templ " << (t.is_instantiated ? 1 : 0) << " " << dyn << " " << frameSyms(t.frame) << " (edges";
        for (auto& e : t.edges) os << " (edge " << ex(e.guard) << " " << ex(e.assign) << ")";
        os << "))";
    };
    for (auto& t : doc.get_templates()) templ(t, 0);
    for (auto* t : doc.get_dynamic_templates()) templ(*t, 1);
    os << ")";
    return os.str();
}

int main(int argc, char** argv)
{
    std::string line;
    while (std::getline(std::cin, line)) {
        if (line.size() < 2 || (line[0] != 'M' && line[0] != 'X')) {
            std::cout << "bad-op" << std::endl;
            continue;
        }
        std::string xml = unhex(line.substr(2));
        Document doc;
        std::string exc = "none";
        try {
            if (line[0] == 'M') parse_XML_buffer(xml.c_str(), &doc, true);
            else parse_XTA(xml.c_str(), &doc, true);   // the same model as XTA text
        } catch (std::bad_variant_access&) {
            exc = "bad_variant_access";
        } catch (std::exception& e) {
            exc = "std::exception";
        } catch (...) {
            exc = "unknown";
        }
        auto sm = doc.get_supported_methods();
        std::cout << "R " << sm.symbolic << " " << sm.stochastic << " " << sm.concrete << " " << doc.get_errors().size() << " " << exc << " ";
        try {
            std::cout << absDoc(doc);
        } catch (std::exception& e) {
            std::cout << "(dump-exception)";
        }
        if (argc > 1 && std::string(argv[1]) == "-v") {
            std::cout << "\n";
            dumpDiags(std::cout, doc, false);
        }
        std::cout << std::endl;
    }
    return 0;
}
