/- stub: line-protocol driver for C12 (to be written) -/
def main : IO Unit := pure ()
