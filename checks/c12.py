"""C12 -- no accepted model writes to a constant (DESIGN.md section 4, C12).

 1 translate   src/type.cpp, src/typechecker.cpp, the three binder callbacks -> lean/UtapModel/Gen/ConstGen.lean
               (kind lists and branch shapes of is_prefix / is / is_constant / is_mutable / get_sub / get_sub(i) / strip,
               the per-kind clauses of isModifiableLValue / isLValue / isUniqueReference, which write clauses of
               checkExpression test the lvalue, the refusal conditions of isParameterCompatible / visitInstance, whether the
               binder callbacks force CONSTANT)                                                                   (tie T)
 2 prove       UtapModel.Props.C12: C12_reject / C12_accept and their liftings, for paths and types of any depth
 3 correspond  generated models (constness source x write form x access path x place of the write, const / mutable twins;
               write forms include unparenthesised chains of assignment operators, places include code behind a returning
               statement, sources include parameters of dynamic templates) through the real
               parser + type checker (harness/c12.cpp); every write target and call argument the library saw is fed to
               the Lean model (drv_c12): isModifiableLValue / isLValue / isUniqueReference / is_mutable / is_constant /
               static type / refusal must agree                                                                   (tie C)
 4 search      direct oracle on the implementation: const-rooted write accepted, or mutable twin rejected -> violation
               with the model text as replay
"""
import json
import os
import re
import sys

from vlib import core

sys.path.insert(0, os.path.join(core.VERIF, "translate"))
import constness  # noqa: E402

GEN = os.path.join(core.LEAN_DIR, "UtapModel", "Gen", "ConstGen.lean")
MODULE = "UtapModel.Props.C12"
LHS = "$Left_hand_side_value_expected"
INCOMP = "$Incompatible_argument"

# ------------------------------------------------------------------------------------------------------------------
# types of the generated objects
# ------------------------------------------------------------------------------------------------------------------


class T:
    """int | bint | bool | scalar | arr(elem, n) | struct([(name, T)])  -- every aggregate gets a typedef name"""

    def __init__(self, kind, elem=None, n=0, fields=None, inline=False):
        self.kind, self.elem, self.n, self.fields, self.inline = kind, elem, n, fields or [], inline
        self.name = None

    def is_leaf(self):
        return self.kind in ("int", "bint", "bool", "scalar")


def leaf_text(t):
    return {"int": "int", "bint": "int[0,5]", "bool": "bool", "scalar": "sc_t"}[t.kind]


class TypeEnv:
    """typedef texts, in dependency order; one name per aggregate node"""

    def __init__(self, prefix="t"):
        self.defs = []
        self.count = 0
        self.prefix = prefix

    def name_of(self, t):
        if t.is_leaf():
            return leaf_text(t)
        if t.name:
            return t.name
        if t.kind == "arr":
            base, dims = self.decl_parts(t)
            t.name = "%s%d_t" % (self.prefix, self.count)
            self.count += 1
            self.defs.append("typedef %s %s%s;" % (base, t.name, dims))
        else:
            fs = []
            for fn, ft in t.fields:
                if ft.kind == "arr" and ft.inline:
                    base, dims = self.decl_parts(ft)
                    fs.append("%s %s%s;" % (base, fn, dims))
                else:
                    fs.append("%s %s;" % (self.name_of(ft), fn))
            t.name = "%s%d_t" % (self.prefix, self.count)
            self.count += 1
            self.defs.append("typedef struct { %s } %s;" % (" ".join(fs), t.name))
        return t.name

    def decl_parts(self, t):
        """array type as (element type text, '[n][m]...') with inline dimensions while elements are inline arrays"""
        dims = ""
        while t.kind == "arr":
            dims += "[%d]" % t.n
            if t.elem.kind == "arr" and t.elem.inline:
                t = t.elem
            else:
                return self.name_of(t.elem), dims
        return self.name_of(t), dims


def init_text(t):
    if t.kind == "bool":
        return "true"
    if t.is_leaf():
        return "1"
    if t.kind == "arr":
        return "{" + ",".join([init_text(t.elem)] * t.n) + "}"
    return "{" + ",".join(init_text(ft) for _, ft in t.fields) + "}"


LEAFB = {"int": "int", "bint": "boundedInt", "bool": "bool"}


def parts_t(t):
    """array type -> (the type below its inline dimensions, number of those dimensions); mirrors TypeEnv.decl_parts"""
    n = 0
    while t.kind == "arr":
        n += 1
        if t.elem.kind == "arr" and t.elem.inline:
            t = t.elem
        else:
            return t.elem, n
    return t, n


def arr_wrap(d, n):
    for _ in range(n):
        d = "(array %s)" % d
    return d


def decl_use(t, pfx):
    """abstract syntax (for the Lean elaboration model) of `<pfx> <name_of(t)>`"""
    if t.kind == "scalar":
        return "(named %s sc_t (base scalar none #scalarset))" % pfx
    if t.is_leaf():
        return "(base %s %s)" % (LEAFB[t.kind], pfx)
    return "(named %s %s %s)" % (pfx, t.name, decl_body(t))


def decl_body(t):
    """the typedef body TypeEnv.name_of emitted for the aggregate t"""
    if t.kind == "arr":
        base, n = parts_t(t)
        return arr_wrap(decl_use(base, "none"), n)
    fs = []
    for fn, ft in t.fields:
        if ft.kind == "arr" and ft.inline:
            base, n = parts_t(ft)
            fs.append("%s %s" % (fn, arr_wrap(decl_use(base, "none"), n)))
        else:
            fs.append("%s %s" % (fn, decl_use(ft, "none")))
    return "(struct none %s)" % " ".join(fs)


def has_scalar(t):
    if t.kind == "scalar":
        return True
    if t.kind == "arr":
        return has_scalar(t.elem)
    return any(has_scalar(ft) for _, ft in t.fields)


def rand_type(r, depth, leaves=("int", "int", "bint", "bool")):
    if depth <= 0 or r.random() < 0.25:
        return T(r.choice(leaves))
    if r.random() < 0.5:
        return T("arr", elem=rand_type(r, depth - 1, leaves), n=r.randint(1, 3), inline=r.random() < 0.5)
    nf = r.randint(1, 3)
    return T("struct", fields=[("f%d" % i, rand_type(r, depth - 1, leaves)) for i in range(nf)])


def rand_path(r, t, stop_p=0.15, const_index_only=False):
    """-> (path text, shape string, type at the end)"""
    text, shape = "", []
    while not t.is_leaf():
        if shape and r.random() < stop_p:
            break
        if t.kind == "arr":
            if const_index_only or r.random() < 0.7:
                text += "[%d]" % r.randint(0, t.n - 1)
            else:
                text += "[i0]"
            shape.append("[i]")
            t = t.elem
        else:
            fn, ft = r.choice(t.fields)
            text += "." + fn
            shape.append(".f")
            t = ft
    return text, "".join(shape) or "plain", t


def fixed_shapes():
    """the small set of access paths enumerated exhaustively: (shape, type builder, path text)"""
    def S():
        return T("struct", fields=[("a", T("int")), ("b", T("arr", elem=T("int"), n=2, inline=True))])
    return [
        ("plain", lambda: T("int"), ""),
        ("plain-bint", lambda: T("bint"), ""),
        ("[i]", lambda: T("arr", elem=T("int"), n=3, inline=True), "[1]"),
        ("[v]", lambda: T("arr", elem=T("int"), n=3, inline=True), "[i0]"),
        (".f", S, ".a"),
        (".f[i]", S, ".b[1]"),
        ("[i].f", lambda: T("arr", elem=S(), n=2, inline=True), "[0].a"),
        ("[i].f[i]", lambda: T("arr", elem=S(), n=2, inline=True), "[1].b[0]"),
        ("[i][i]", lambda: T("arr", elem=T("arr", elem=T("int"), n=2, inline=True), n=2, inline=True), "[1][0]"),
        ("whole-array", lambda: T("arr", elem=T("int"), n=3, inline=True), ""),
        ("whole-struct", S, ""),
        (".f-array", S, ".b"),
    ]


def end_type(t, path):
    for m in re.finditer(r"\[[^\]]*\]|\.(\w+)", path):
        if m.group(0).startswith("["):
            t = t.elem
        else:
            t = dict(t.fields)[m.group(1)]
    return t


# ------------------------------------------------------------------------------------------------------------------
# sources of constness, write forms
# ------------------------------------------------------------------------------------------------------------------

# the global update hooks `before_update { .. }` / `after_update { .. }`: the write in one of them, the other absent or harmless
HOOKS = ("hook-after", "hook-before", "hook-after-both", "hook-before-both")

# source -> scopes in which the write may be placed
SOURCES = {
    "global": ("fun", "edge", "tfun", "inst") + HOOKS,
    "global-inline": ("fun", "edge", "inst") + HOOKS,        # const <type text written out> x[..] = ..   (no typedef name)
    "typedef-const": ("fun", "edge", "inst") + HOOKS,        # typedef const T ct;  ct x = ..
    "elem-typedef-const": ("fun", "edge", "inst") + HOOKS,   # typedef const E ce;  ce x[n] = ..           (array of const)
    "meta-typedef-const": ("fun", "edge") + HOOKS,           # typedef const T ct;  meta ct x = ..         (qualifier over a const typedef)
    "instance-cref-param": ("inst",),                # RQ(const T &y) = PR(y..);  parameter of a partial instantiation
    "template-local": ("edge", "tfun"),
    "function-local": ("fun",),
    "block-local": ("fun",),
    "function-param": ("fun",),                      # const T x
    "function-cref-param": ("fun",),                 # const T &x
    "template-param": ("edge", "tfun"),              # const T x
    "template-cref-param": ("edge", "tfun"),         # const T &x
    # a dynamic template is announced (`dynamic PT(.. x);`) and defined (template PT with its own parameter list): two spellings of
    # the same parameter.  Const where the definition says const -- whether the announcement agrees or not
    "dynamic-template-param": ("edge", "tfun"),                   # dynamic PT(T x);        PT(const T x)
    "dynamic-template-param-announced-const": ("edge", "tfun"),   # dynamic PT(const T x);  PT(const T x)
    "const-member": ("fun", "edge") + HOOKS,         # struct { const E k[n]; int v; } x;   target x.k[..]
    "binder-forall": ("fun", "edge") + HOOKS,
    "binder-exists": ("fun", "edge") + HOOKS,
    "binder-sum": ("fun", "edge") + HOOKS,
    "binder-iteration": ("fun", "tfun"),
    "binder-select": ("edge",),
    # the same binders with a name that is already declared, mutable, in an enclosing scope
    "binder-forall-shadow": ("fun", "edge"),
    "binder-exists-shadow": ("fun", "edge"),
    "binder-sum-shadow": ("fun", "edge"),
    "binder-iteration-shadow": ("fun", "tfun"),
    "binder-select-shadow": ("edge",),
}
BINDERS = [s for s in SOURCES if s.startswith("binder-")]

ASSOPS = ["+=", "-=", "*=", "/=", "%=", "&=", "|=", "^=", "<<=", ">>="]
# chains of assignment operators without parentheses (they group to the right): the write to x is the right operand of another
# assignment -- "chain<o>" = `m0 = x <o> 1`, "opchain<o1>:<o2>" = `m0 <o1> x <o2> 1`, "chain3" = `m0 = m1 = x = 1`
CHAIN_FORMS = ["chain" + o for o in ["="] + ASSOPS] + ["chain3"]
OPCHAIN_FORMS = ["opchain%s:%s" % (o1, o2) for o1 in ASSOPS for o2 in ["="] + ASSOPS]
INT_FORMS = ["op" + o for o in ASSOPS] + ["pre++", "post++", "pre--", "post--", "nested-rhs", "preinc-postinc", "for-step"]
ANY_FORMS = ["=", "iif-then", "iif-else", "comma-list", "nested-lhs", "fun-ref", "fun-ref-iif", "inst-ref", "spawn-ref"]
FORMS = ANY_FORMS + INT_FORMS

# where in a function body the write stands: after a statement that returns on every path (the code behind it is unreachable,
# it is still code of the model and has to be checked like any other), and after a conditional return as the reachable control.
# place -> (return type of the function, statements with %s = the write, last statement of the function)
PLACES = {
    "after-return": ("void", "return; %s", ""),
    "after-return-value": ("int", "return 1; %s", "return 0;"),
    "after-if-else-return": ("void", "if (b0) { m0 = 0; return; } else { return; } %s", ""),
    "after-if-else-return-value": ("int", "if (b0) { return 1; } else { m0 = 0; return 2; } %s", "return 0;"),
    "after-block-return": ("void", "{ m0 = 0; return; } %s", ""),
    "after-nested-block-return": ("void", "{ { return; } } %s", ""),
    "after-do-return": ("void", "do { return; } while (b0); %s", ""),
    "after-return-in-inner-block": ("void", "if (b0) { return; %s }", ""),
    "after-return-in-loop-body": ("void", "while (b0) { return; %s }", ""),
    "after-conditional-return": ("void", "if (b0) { return; } %s", ""),
}


class Case:
    pass


def build_case(r, source, form, scope, const, t, path, shape, xml, uninst=False, place=None):
    """-> Case with .text (model), .meta   or None when the combination does not exist"""
    binder = source in BINDERS
    if scope not in SOURCES[source]:
        return None
    if place and (scope not in ("fun", "tfun") or form in ("for-step", "comma-list")):
        return None        # (these two forms are rendered as a for statement of their own)
    shadow = source.endswith("-shadow")
    if shadow and not const:
        return None        # (the twin is that of the plain binder)
    source_full, source = source, source.replace("-shadow", "")
    hook = scope in HOOKS
    if form == "inst-ref":
        if scope != "inst":
            return None
    elif scope == "inst":
        return None
    if form == "for-step" and (scope == "edge" or hook):
        return None
    if form == "spawn-ref" and scope != "edge":
        return None          # `spawn` is an update of an edge
    if binder and (path or not t.is_leaf() or t.kind not in ("bint", "scalar")):
        return None
    if source == "elem-typedef-const" and t.kind != "arr":
        return None
    env = TypeEnv()
    g, tl, fl = [], [], []      # global / template-local / function-local declarations
    fparams, tparams, targs = [], [], []
    g.append("int m0; bool b0; int[0,1] i0;")
    if has_scalar(t):
        g.append("typedef scalar[3] sc_t;")
    tn = env.name_of(t)
    et = end_type(t, path)
    etn = env.name_of(et)
    c = "const " if const else ""
    ini = (" = " + init_text(t)) if const else ""
    x = "x"
    target = x + path
    select = guardq = ""
    wrap = None   # statement wrapper for binders
    if source == "global":
        decl, where = "%s%s x%s;" % (c, tn, ini), g
    elif source == "global-inline":
        if t.kind == "arr":
            base, dims = env.decl_parts(t)
            decl = "%s%s x%s%s;" % (c, base, dims, ini)
        elif t.kind == "struct":
            decl = "%sstruct { %s } x%s;" % (c, " ".join("%s %s;" % (env.name_of(ft), fn) for fn, ft in t.fields), ini)
        else:
            decl = "%s%s x%s;" % (c, tn, ini)
        where = g
    elif source == "typedef-const":
        decl, where = "typedef %s%s cx_t; cx_t x%s;" % (c, tn, ini), g
    elif source == "elem-typedef-const":
        base, dims = env.decl_parts(t)
        decl, where = "typedef %s%s ce_t; ce_t x%s%s;" % (c, base, dims, ini), g
    elif source == "meta-typedef-const":
        decl, where = "typedef %s%s cx_t; meta cx_t x%s;" % (c, tn, ini), g
    elif source == "instance-cref-param":
        if form != "inst-ref":
            return None
        g.append("const %s ga = %s;" % (tn, init_text(t)) if const else "%s ga;" % tn)
        decl = None
    elif source == "template-local":
        decl, where = "%s%s x%s;" % (c, tn, ini), tl
    elif source in ("function-local", "block-local"):
        decl, where = "%s%s x%s;" % (c, tn, ini), fl
    elif source == "function-param":
        fparams.append("%s%s x" % (c, tn))
        decl = None
    elif source == "function-cref-param":
        fparams.append("%s%s &x" % (c, tn))
        decl = None
    elif source == "template-param":
        tparams.append("%s%s x" % (c, tn))
        g.append("const %s ga = %s;" % (tn, init_text(t)))
        targs.append("ga")
        decl = None
    elif source == "template-cref-param":
        tparams.append("%s%s &x" % (c, tn))
        g.append("const %s ga = %s;" % (tn, init_text(t)) if const else "%s ga;" % tn)
        targs.append("ga")
        decl = None
    elif source.startswith("dynamic-template-param"):
        if path or t.kind not in ("int", "bint", "bool"):
            return None      # parameters of dynamic templates are integers or booleans
        announced_const = const and source.endswith("-announced-const")
        g.append("dynamic PT(%s%s x);" % ("const " if announced_const else "", tn))
        tparams.append("%s%s x" % (c, tn))
        decl = None
    elif source == "const-member":
        # the member k carries the generated type t as an array of (const) elements; the sibling v is a plain int
        if t.kind != "arr":
            return None
        base, dims = env.decl_parts(t)
        decl, where = "typedef struct { %s%s k%s; int v; } km_t; km_t x%s;" % (
            c, base, dims, (" = {%s,3}" % init_text(t)) if const else ""), g
        target = "x.k" + path
    elif binder:
        decl = None
        bt = leaf_text(t)
        if not const:   # the twin of a binder is a plain variable of the binder's type
            decl, where = "%s x;" % bt, (tl if scope in ("edge", "tfun") else g if hook else fl)
        elif shadow:        # an outer mutable object of the same name and type; the binder hides it
            outer = [g] + ([tl] if scope in ("edge", "tfun") else []) + ([fl] if scope == "fun" and source == "binder-iteration" else [])
            r.choice(outer).append("%s x;" % bt)
    else:
        raise AssertionError(source)
    if decl:
        where.append(decl)
    pfx = "const" if const else "none"
    dsx, site = None, None
    if source in ("global", "template-local", "function-local", "block-local", "function-param", "template-param"):
        dsx = decl_use(t, pfx)
    elif source in ("function-cref-param", "template-cref-param"):
        dsx = "(ref %s)" % decl_use(t, pfx)
    elif source == "global-inline":
        if t.kind == "arr":
            base, nd = parts_t(t)
            dsx = arr_wrap(decl_use(base, pfx), nd)
        elif t.kind == "struct":
            dsx = "(struct %s %s)" % (pfx, " ".join("%s %s" % (fn, decl_use(ft, "none")) for fn, ft in t.fields))
        else:
            dsx = decl_use(t, pfx)
    elif source == "typedef-const":
        dsx = "(named none cx_t %s)" % decl_use(t, pfx)
    elif source == "meta-typedef-const":
        dsx = "(named systemMeta cx_t %s)" % decl_use(t, pfx)
    elif source == "elem-typedef-const":
        base, nd = parts_t(t)
        dsx = arr_wrap("(named none ce_t %s)" % decl_use(base, pfx), nd)
    elif source == "const-member":
        base, nd = parts_t(t)
        dsx = "(named none km_t (struct none k %s v (base int none)))" % arr_wrap(decl_use(base, pfx), nd)
    elif binder:
        dsx = decl_use(t, "none")
        site = source.split("-")[1] if const else None

    # companions of the target's type: a value to assign and a second mutable lvalue for ?:
    if et.kind == "scalar":
        g.append("sc_t mv; sc_t m2;")
        val = "mv"
    elif et.is_leaf():
        g.append("%s mv; %s m2;" % (etn, etn))
        val = "true" if et.kind == "bool" else "1"
    else:
        g.append("%s mv; %s m2;" % (etn, etn))
        val = "mv"
    if (form in INT_FORMS or form.startswith(("chain", "opchain"))) and et.kind not in ("int", "bint"):
        return None
    E = target
    if form == "=":
        stmt = "%s = %s" % (E, val)
    elif form.startswith("op") and not form.startswith("opchain"):
        stmt = "%s %s 1" % (E, form[2:])
    elif form == "pre++":
        stmt = "++%s" % E
    elif form == "post++":
        stmt = "%s++" % E
    elif form == "pre--":
        stmt = "--%s" % E
    elif form == "post--":
        stmt = "%s--" % E
    elif form == "iif-then":
        stmt = "(b0 ? %s : m2) = %s" % (E, val)
    elif form == "iif-else":
        stmt = "(b0 ? m2 : %s) = %s" % (E, val)
    elif form == "comma-list":
        stmt = "m0 = 0, %s = %s" % (E, val)
    elif form == "nested-rhs":
        stmt = "m0 = (%s = 1)" % E
    elif form == "chain3":
        g.append("int m1;")
        stmt = "m0 = m1 = %s = 1" % E
    elif form.startswith("chain"):
        stmt = "m0 = %s %s 1" % (E, form[5:])
    elif form.startswith("opchain"):
        stmt = "m0 %s %s %s 1" % (form[7:].split(":")[0], E, form[7:].split(":")[1])
    elif form == "nested-lhs":
        stmt = "(%s = %s) = %s" % (E, val, val)
    elif form == "preinc-postinc":
        stmt = "(++%s)++" % E
    elif form == "for-step":
        stmt = None
    elif form in ("fun-ref", "fun-ref-iif"):
        g.append("void gref(%s &p) { }" % etn)
        stmt = "gref(%s)" % (E if form == "fun-ref" else "b0 ? %s : m2" % E)
    elif form == "inst-ref":
        stmt = None
    elif form == "spawn-ref":
        if et.kind not in ("int", "bint", "bool"):
            return None      # parameters of dynamic templates are integers or booleans
        # the object is handed to a non-const reference parameter of a dynamic template
        g.append("dynamic DC(%s &p);" % etn)
        stmt = "spawn DC(%s)" % E
    else:
        raise AssertionError(form)

    if et.kind == "scalar" and form in ("iif-then", "iif-else", "fun-ref-iif", "fun-ref", "inst-ref", "spawn-ref"):
        return None   # (a scalar variable is refused for `scalar &p`: that is finding F-C14-2 of property C14, not a C12 matter)
    if et.kind == "scalar" and scope in ("fun", "tfun") and not const:
        return None   # scalar locals are not allowed in functions: the binder's twin cannot be declared there
    if source in ("binder-forall", "binder-exists", "binder-sum") and form == "comma-list":
        return None   # a comma list is not an expression inside a quantifier body
    # binders wrap the statement
    if binder and const:
        bt = leaf_text(t)
        if source in ("binder-forall", "binder-exists", "binder-sum"):
            if stmt is None or et.kind == "scalar":
                return None
            q = source.split("-")[1]
            stmt = "m0 = (%s (x : %s) (%s))" % (q, bt, stmt)
        elif source == "binder-select":
            select = "x : %s" % bt
        elif source == "binder-iteration":
            wrap = "for (x : %s) { %%s }" % bt
    if binder and form == "for-step":
        return None

    body_stmt = None
    upd = ""
    insts = []
    if form == "inst-ref":
        if "[i0]" in target:
            return None
        if source == "instance-cref-param":
            lines = ["RQ(%s%s &x) = PR(%s);" % (c, tn, target), "RI = RQ(ga);"]
            insts.append(("PR", ["%s &p" % etn], "", "", "", "m0 = 0", (lines, "RI"), []))
        else:
            insts.append(("PR", ["%s &p" % etn], "", "", "", "m0 = 0", "RI", [target]))
    elif scope in ("fun", "tfun"):
        if form == "for-step":
            body_stmt = "for (m0 = 0; m0 < 1; %s++) { }" % E
        elif form == "comma-list":
            body_stmt = "for (%s; m0 < 1; m0++) { }" % stmt
        else:
            body_stmt = stmt + ";"
        if place:
            body_stmt = PLACES[place][1] % body_stmt
        if source == "block-local":
            body_stmt = "{ %s %s }" % (" ".join(fl), body_stmt)
            fl = []
        if wrap:
            body_stmt = wrap % body_stmt
    elif scope == "edge":
        upd = stmt
    elif hook:
        me, other = ("after_update", "before_update") if "after" in scope else ("before_update", "after_update")
        g.append("%s { %s }" % (me, stmt))
        if scope.endswith("-both"):
            g.append("%s { m0 = 0 }" % other)
    fun_text = None
    if body_stmt is not None:
        ret, _, last = PLACES[place] if place else ("void", None, "")
        fun_text = "%s f(%s) { %s %s %s}" % (ret, ", ".join(fparams), " ".join(fl), body_stmt, last + " " if last else "")
    elif fparams or fl:
        return None
    templ = None
    if scope in ("edge", "tfun") or tparams or tl:
        tdecls = list(tl)
        if scope == "tfun":
            tdecls.append(fun_text)
            fun_text = None
        templ = ("PT", tparams, " ".join(tdecls), select, guardq, upd or "m0 = 0", "PI" if tparams else None, targs)
        if source.startswith("dynamic-template-param"):
            templ = templ[:6] + ("SKIP", [])       # processes of a dynamic template are spawned, not listed in the system line
    elif select:
        return None
    gtext = "\n".join(g[:1] + [d for d in g[1:2] if d.startswith("typedef scalar")] + env.defs +
                      [d for d in g[1:] if not d.startswith("typedef scalar")])
    if fun_text:
        gtext += "\n" + fun_text
    templates = []
    if form == "spawn-ref":
        templates.append(("DC", ["%s &p" % etn], "", "", "", "m0 = 0", "SKIP", []))       # the definition of the dynamic template
    if templ:
        # every fourth model leaves the template that holds the write off the system line: the type checker still checks it
        if uninst and not tparams:
            templ = templ[:6] + ("SKIP",) + templ[7:]
        templates.append(templ)
    for i in insts:
        templates.append(i)
    k = Case()
    k.model = (gtext, templates)
    k.text = render_xml(gtext, templates) if xml else render_xta(gtext, templates)
    k.mode = "XML" if xml else "XTA"
    k.meta = {"source": source_full, "form": form, "scope": scope, "shape": shape, "const": const, "target": target,
              "leaf": et.kind, "decl": dsx, "site": site, "instantiated": not (uninst and templ is not None and not tparams)}
    if place:
        k.meta["place"] = place
    return k


def render_xta(gtext, templates):
    out = [gtext]
    procs = []
    for name, params, decls, select, guard, upd, inst, args in templates:
        labels = ""
        if select:
            labels += "select %s; " % select
        if guard:
            labels += "guard %s; " % guard
        labels += "assign %s; " % upd
        out.append("process %s(%s) { %s state s0; init s0; trans s0 -> s0 { %s}; }" % (name, ", ".join(params), decls, labels))
        if inst == "SKIP":
            pass
        elif isinstance(inst, tuple):
            out += inst[0]
            procs.append(inst[1])
        elif inst:
            out.append("%s = %s(%s);" % (inst, name, ", ".join(args)))
            procs.append(inst)
        else:
            procs.append(name)
    if not procs:
        out.append("process P0() { state s0; init s0; }")
        procs.append("P0")
    out.append("system %s;" % ", ".join(procs))
    return "\n".join(out) + "\n"


def xesc(s):
    return s.replace("&", "&amp;").replace("<", "&lt;").replace(">", "&gt;")


def render_xml(gtext, templates):
    out = ['<?xml version="1.0" encoding="utf-8"?>', "<nta>", "<declaration>%s</declaration>" % xesc(gtext)]
    procs, sysdecl = [], []
    if not templates:
        templates = [("P0", [], "", "", "", "", None, [])]
    for name, params, decls, select, guard, upd, inst, args in templates:
        out.append("<template><name>%s</name>" % name)
        if params:
            out.append("<parameter>%s</parameter>" % xesc(", ".join(params)))
        out.append("<declaration>%s</declaration>" % xesc(decls))
        out.append('<location id="id0"><name>s0</name></location><init ref="id0"/>')
        out.append('<transition><source ref="id0"/><target ref="id0"/>')
        if select:
            out.append('<label kind="select">%s</label>' % xesc(select))
        if guard:
            out.append('<label kind="guard">%s</label>' % xesc(guard))
        if upd:
            out.append('<label kind="assignment">%s</label>' % xesc(upd))
        out.append("</transition></template>")
        if inst == "SKIP":
            pass
        elif isinstance(inst, tuple):
            sysdecl += inst[0]
            procs.append(inst[1])
        elif inst:
            sysdecl.append("%s = %s(%s);" % (inst, name, ", ".join(args)))
            procs.append(inst)
        else:
            procs.append(name)
    if not procs:
        out.append('<template><name>P0</name><location id="idp0"><name>s0</name></location><init ref="idp0"/></template>')
        procs.append("P0")
    out.append("<system>%s\nsystem %s;</system>" % (xesc("\n".join(sysdecl)), ", ".join(procs)))
    out.append("</nta>")
    return "\n".join(out) + "\n"


# ------------------------------------------------------------------------------------------------------------------
# generation
# ------------------------------------------------------------------------------------------------------------------

def gen_cases(ctx):
    r = ctx.rng
    cases = []
    # (1) exhaustive product over the small path set
    for source in SOURCES:
        for scope in SOURCES[source]:
            for shape, mk, path in fixed_shapes():
                for form in FORMS:
                    for const in (True, False):
                        for xml in ((False, True) if (scope == "edge" or ctx.thorough) else (r.random() < 0.3,)):
                            k = build_case(r, source, form, scope, const, mk(), path, shape, xml, uninst=(len(cases) % 4 == 3))
                            if k:
                                cases.append(k)
    # (1b) chains of assignment operators and writes behind a returning statement: per source x scope x path a sample of the
    #      operators / operator pairs / forms in the quick tier, all operators and forms in the thorough tier
    places = list(PLACES)
    for source in SOURCES:
        for scope in SOURCES[source]:
            for shape, mk, path in fixed_shapes():
                forms = (r.sample(CHAIN_FORMS, 4) + r.sample(OPCHAIN_FORMS, 2)) if not ctx.thorough else (CHAIN_FORMS + r.sample(OPCHAIN_FORMS, 12))
                todo = [(form, None) for form in forms]
                if scope in ("fun", "tfun"):
                    for place in places:
                        todo += [(form, place) for form in (r.sample(FORMS + CHAIN_FORMS, 3) if not ctx.thorough else FORMS + CHAIN_FORMS)]
                done = set()
                for form, place in todo:
                    if place in done:
                        continue        # quick tier: the first of the three forms that exists for this path
                    xml = r.random() < 0.3
                    for const in (True, False):
                        k = build_case(r, source, form, scope, const, mk(), path, shape, xml, uninst=(len(cases) % 4 == 3), place=place)
                        if k:
                            cases.append(k)
                            if place and not ctx.thorough:
                                done.add(place)
    # parameters of dynamic templates may be booleans as well
    for source in ("dynamic-template-param", "dynamic-template-param-announced-const"):
        for scope in SOURCES[source]:
            for form in FORMS:
                for const in (True, False):
                    for xml in (False, True):
                        k = build_case(r, source, form, scope, const, T("bool"), "", "plain-bool", xml)
                        if k:
                            cases.append(k)
    # binders range over bounded integers / scalar sets
    for source in BINDERS:
        for scope in SOURCES[source]:
            for leaf in ("bint", "scalar"):
                for form in FORMS:
                    for const in (True, False):
                        for xml in (False, True):
                            k = build_case(r, source, form, scope, const, T(leaf), "", "plain-" + leaf, xml)
                            if k:
                                cases.append(k)
    n_exh = len(cases)
    # (2) random deeper types and paths
    want = 6000 if not ctx.thorough else 120000
    tries = 0
    nonbinder = [s for s in SOURCES if s not in BINDERS]
    while len(cases) < n_exh + want and tries < want * 20:
        tries += 1
        source = r.choice(nonbinder)
        scope = r.choice(SOURCES[source])
        form = r.choice(FORMS) if r.random() < 0.8 else r.choice(CHAIN_FORMS + OPCHAIN_FORMS)
        place = r.choice(list(PLACES)) if scope in ("fun", "tfun") and r.random() < 0.25 else None
        leaves = ("int", "int", "bint", "bool") if r.random() < 0.3 else ("int", "int", "bint")
        t = rand_type(r, r.randint(1, 5 if not ctx.thorough else 7), leaves)
        path, shape, _ = rand_path(r, t, const_index_only=(form == "inst-ref"))
        xml = r.random() < 0.5
        # twins share type and path: rebuild the type object for each (names are assigned per environment)
        st = r.getstate()
        for const in (True, False):
            r.setstate(st)
            tt = clone_type(t)
            k = build_case(r, source, form, scope, const, tt, path, "deep:" + shape, xml, uninst=(tries % 4 == 3), place=place)
            if k:
                cases.append(k)
    return cases, n_exh


def clone_type(t):
    if t.is_leaf():
        return T(t.kind)
    if t.kind == "arr":
        return T("arr", elem=clone_type(t.elem), n=t.n, inline=t.inline)
    return T("struct", fields=[(fn, clone_type(ft)) for fn, ft in t.fields])


def sibling_cases():
    """the mutable member next to a const array member (known exception shape) and its const-free twin"""
    out = []
    for form in ("=", "op+=", "post++", "fun-ref"):
        for const in (True, False):
            c = "const " if const else ""
            g = "int m0; bool b0; int[0,1] i0;\ntypedef struct { %sint k[2]; int v; } km_t; km_t x%s;\nvoid gref(int &p) { }\n" % (
                c, " = {{1,2},3}" if const else "")
            stmt = {"=": "x.v = 1", "op+=": "x.v += 1", "post++": "x.v++", "fun-ref": "gref(x.v)"}[form]
            g += "void f() { %s; }" % stmt
            k = Case()
            k.model = (g, [])
            k.text = render_xta(g, [])
            k.mode = "XTA"
            k.meta = {"source": "const-member-sibling", "form": form, "scope": "fun", "shape": ".v", "const": const,
                      "target": "x.v", "leaf": "int", "sibling": True}
            out.append(k)
    return out


# ------------------------------------------------------------------------------------------------------------------
# running
# ------------------------------------------------------------------------------------------------------------------

def run_harness(exe, cases):
    chunks = []
    for i, k in enumerate(cases):
        b = k.text.encode()
        chunks.append(b"%s %d %d\n" % (k.mode.encode(), i, len(b)) + b + b"\n")
    import subprocess
    e = dict(os.environ)
    e.update(core.SAN_ENV)
    res = [None] * len(cases)
    rc_all, err_all = 0, ""
    # several processes: a crash loses only its chunk, and it is faster
    nproc = max(1, min(core.NCPU, 8))
    parts = [list(range(j, len(cases), nproc)) for j in range(nproc)]
    procs = []
    for idxs in parts:
        p = subprocess.Popen([exe], stdin=subprocess.PIPE, stdout=subprocess.PIPE, stderr=subprocess.PIPE, env=e)
        procs.append((p, idxs))
    import threading
    outs = {}

    def feed(p, idxs, slot):
        o, er = p.communicate(b"".join(chunks[i] for i in idxs))
        outs[slot] = (o.decode(errors="replace"), er.decode(errors="replace"), p.returncode)

    ths = []
    for s, (p, idxs) in enumerate(procs):
        th = threading.Thread(target=feed, args=(p, idxs, s))
        th.start()
        ths.append(th)
    for th in ths:
        th.join()
    for s in range(len(procs)):
        o, er, rc = outs[s]
        if rc != 0:
            rc_all, err_all = rc, err_all + er[-3000:]
        cur = None
        for line in o.split("\n"):
            if line.startswith("BEGIN "):
                cur = {"id": int(line.split()[1]), "V": None, "E": [], "S": [], "X": [], "A": [], "done": False}
            elif cur is None:
                continue
            elif line.startswith("V "):
                cur["V"] = line[2:]
            elif line.startswith("E "):
                cur["E"].append(json.loads(line[2:]) if line[2:].startswith('"') and "\\x" not in line else line[2:])
            elif line.startswith("S "):
                cur["S"].append(line)
            elif line.startswith("X "):
                cur["X"].append(line)
            elif line.startswith("A "):
                cur["A"].append(line)
            elif line.startswith("END "):
                cur["done"] = True
                res[cur["id"]] = cur
                cur = None
    return res, rc_all, err_all


RX_INFO = re.compile(r"mod=(\d) lv=(\d) uniq=(\d) tmut=(\d) tconst=(\d) ty=(.*) ex=(.*)$")
RX_A = re.compile(r"^A (\S+) (fun|inst) (\S+) (\d+) ref=(\d) const=(\d) compat=(\d) ctc=(\d) param=(.*?) (mod=.*)$")
RX_S = re.compile(r"^S (\S+) (\S+) mut=(\d) const=(\d) isC=(\d) isRef=(\d) sub=(.*?) strip=(.*?) ty=(.*)$")
RX_DRV = re.compile(r"(\w+)=(\S+)")


def drv_map(queries):
    """run the Lean driver on distinct query lines -> {query: answer}"""
    qs = sorted(set(queries))
    if not qs:
        return {}
    rc, out, err, _ = core.run_exe(core.lean_exe("drv_c12"), [], stdin_text="\n".join(qs) + "\n", timeout=900)
    lines = out.split("\n")
    if rc != 0 or len(lines) < len(qs):
        raise RuntimeError("drv_c12 failed rc=%s: %s" % (rc, err[-1000:]))
    return dict(zip(qs, lines))


def decl_query(m):
    return ("declbinder %s %s" % (m["site"], m["decl"])) if m.get("site") else "decl " + m["decl"]


def pure_chain(ex):
    return "(n1 " not in ex and "(n2 " not in ex and "(iif " not in ex and "(op " not in ex


def run(ctx):
    cov = ctx.coverage
    # 1 translate ---------------------------------------------------------------------------------------------------
    tie_ok = True
    try:
        text, summary = constness.translate(core.REPO)
        core.write_if_changed(GEN, text)
        cov["translated"] = summary
    except constness.TranslateError as ex:
        tie_ok = False
        tie_err = str(ex)
        ctx.log("translator failed:", ex)
    core.regen_kinds()
    # 2 prove -------------------------------------------------------------------------------------------------------
    ok, log = (False, "translation failed")
    broken = []
    if tie_ok:
        ok, log = ctx.prove(MODULE, ["drv_c12"])
        if not ok:
            broken = core.failing_theorems(log)
            ctx.log("proof broken:", broken or log[-1500:])
    else:
        cov.update({"obligations": len(core.theorems_of(MODULE)), "discharged": 0, "checker_cmd": "n/a (translation failed)",
                    "trusted_base": core.TRUSTED_BASE})
    # 3/4 run the implementation --------------------------------------------------------------------------------------
    # all models on the -O2 build (a model costs ~0.2 ms there), every 25th (thorough: every 40th) also on the
    # ASan+UBSan build (~100x slower per model); both builds must give the same verdicts
    b = core.build_repo("plain")
    exe = core.build_harness(b, "c12", ["c12.cpp"])
    cases, n_exh = gen_cases(ctx)
    cases += sibling_cases()
    ctx.log("generated %d models (%d in the exhaustive product)" % (len(cases), n_exh))
    res, rc, err = run_harness(exe, cases)
    ctx.log("implementation (plain build) done")
    ba = core.build_repo("asan")
    exe_a = core.build_harness(ba, "c12", ["c12.cpp"])
    stride = 25 if not ctx.thorough else 40
    off = ctx.rng.randrange(stride)
    sub_idx = list(range(off, len(cases), stride))
    res_a, rc_a, err_a = run_harness(exe_a, [cases[i] for i in sub_idx])
    ctx.log("implementation (sanitizer build, %d models) done" % len(sub_idx))
    cov["sanitizer_build_models"] = len(sub_idx)
    for j, i in enumerate(sub_idx):
        xa, xp = res_a[j], res[i]
        if xa is None:
            ctx.finding("impl:sanitizer", "the sanitizer build of the harness died (rc=%s) on a generated model" % rc_a,
                        {"mode": cases[i].mode, "model": cases[i].text, "meta": cases[i].meta, "stderr": err_a[-3000:]})
            break
        if xp is not None and (xa["V"], xa["E"]) != (xp["V"], xp["E"]):
            ctx.finding("impl:build-dependent-verdict", "the -O2 and the sanitizer build disagree on a model",
                        {"mode": cases[i].mode, "model": cases[i].text, "meta": cases[i].meta, "plain": [xp["V"], xp["E"]],
                         "asan": [xa["V"], xa["E"]]})
            break
    oracle_fail = 0
    MAX_REPORTED = 24   # distinct shapes reported per run (all are counted in the evidence)

    def report(key, what, replay):
        if len(ctx.violations) < MAX_REPORTED or key in [k0["key"] for k0 in ctx.known_db]:
            ctx.finding(key, what, replay)

    dist = {"source": {}, "form": {}, "scope": {}, "shape": {}, "verdict": {}, "mode": {}, "diag": {}}
    crashed = [i for i, x in enumerate(res) if x is None]
    if crashed:
        k = cases[crashed[0]]
        ctx.finding("impl:crash", "the harness died (rc=%s) on a generated model" % rc,
                    {"mode": k.mode, "model": k.text, "meta": k.meta, "stderr": err[-3000:]})
    n_eval = 0
    samples = []
    for i, (k, x) in enumerate(zip(cases, res)):
        if x is None:
            continue
        n_eval += 1
        m = k.meta
        for key, val in (("source", m["source"]), ("form", m["form"]), ("scope", m["scope"]),
                         ("shape", m["shape"].split(":")[0]), ("verdict", x["V"]), ("mode", k.mode)):
            dist[key][val] = dist[key].get(val, 0) + 1
        for e in x["E"]:
            dist["diag"][e] = dist["diag"].get(e, 0) + 1
        shape_key = "%s/%s/%s" % (m["source"], m["form"] + ("@" + m["place"] if m.get("place") else ""), m["shape"].replace("deep:", ""))
        replay = {"mode": k.mode, "model": k.text, "meta": m, "verdict": x["V"], "diagnostics": x["E"],
                  "how": "./check C12 --replay <this file>  (harness/c12.cpp: parse + type check the model)"}
        if m.get("sibling"):
            if m["const"] and x["V"] == "rejected" and (LHS in x["E"] or INCOMP in x["E"]) and \
                    "$Constant_fields_not_allowed_in_struct" not in x["E"]:
                # (when the declaration itself is refused the shape cannot be built and there is nothing to report)
                ctx.finding("rejects-mutable:record-with-const-array-member/sibling-field",
                            "a mutable member next to a const array member cannot be written: `%s` in %s is rejected (%s)"
                            % (m["target"], "struct { const int k[2]; int v; } x", ",".join(x["E"])), replay)
            elif not m["const"] and x["V"] != "accepted":
                oracle_fail += 1
                report("rejects-mutable:" + shape_key, "write to a mutable object rejected: %s" % x["E"], replay)
            continue
        if m["const"] and x["V"] == "accepted":
            oracle_fail += 1
            report("accepts:" + shape_key, "a write to a const object is accepted: `%s` (%s, %s)" % (
                m["target"], m["source"], m["form"]), replay)
        if not m["const"] and x["V"] != "accepted":
            oracle_fail += 1
            report("rejects-mutable:" + shape_key, "the mutable twin is rejected: `%s` (%s, %s): %s" % (
                m["target"], m["source"], m["form"], x["E"]), replay)
        if len(samples) < 4 and i % 997 == 0:
            samples.append({"meta": m, "model": k.text[:600], "verdict": x["V"], "diagnostics": x["E"]})
    cov["oracle_models"] = n_eval
    cov["oracle_failures"] = oracle_fail
    cov["exhaustive_product_models"] = n_exh
    cov["distribution"] = dist
    cov["samples"] = samples

    # tie broken and nothing found by the oracle -----------------------------------------------------------------------
    if not tie_ok:
        if not ctx.violations:
            ctx.proof_broken("translate/constness.py", tie_err, "oracle: %d models on the implementation, no failure" % n_eval)
        cov["evaluations"] = n_eval
        return
    if not ok:
        if not [v for v in ctx.violations if not v[3]]:
            for path, thm, msg in (broken or [("?", "lake build", log[-300:])]):
                ctx.proof_broken(thm, msg + "\n" + log[-2000:], "oracle: %d models on the implementation, no failure" % n_eval)
        if not os.path.exists(core.lean_exe("drv_c12")):
            cov["evaluations"] = n_eval
            return
        ok2, _ = core.lake_build(["drv_c12"])
        if not ok2:
            cov["evaluations"] = n_eval
            return

    # 3 correspondence: every target / argument / symbol the library saw, through the Lean model -----------------------
    queries = []
    for x in res:
        if x is None:
            continue
        for line in x["X"]:
            mm = RX_INFO.search(line)
            if mm:
                queries.append("ex " + mm.group(7))
                queries.append("write %s %s" % (line.split()[2], mm.group(7)))
        for line in x["A"]:
            ma = RX_A.match(line)
            if ma:
                mi = RX_INFO.search(ma.group(10))
                if mi:
                    queries.append("ex " + mi.group(7))
                    queries.append("arg %s %s" % (ma.group(9), mi.group(7)))
                    if ma.group(2) == "inst":
                        queries.append("inst %s %s %s" % (ma.group(8), ma.group(9), mi.group(7)))
        for line in x["S"]:
            ms = RX_S.match(line)
            if ms:
                queries.append("ty " + ms.group(9))
    for k in cases:
        if k.meta.get("decl"):
            queries.append(decl_query(k.meta))
            if k.meta["source"].endswith("-shadow"):
                queries.append("decl " + k.meta["decl"])
    ans = drv_map(queries)
    dis = []
    n_corr = 0
    n_decl = 0
    n_typechecked = 0
    nontrivial = set()

    def cmp(what, q, real, model):
        nonlocal n_corr
        n_corr += 1
        if real != model:
            dis.append({"what": what, "query": q, "implementation": real, "model": model})

    model_verdict_dis = []
    spec_dis = []
    for k, x in zip(cases, res):
        if x is None:
            continue
        any_refused = False
        target_rooted = None
        # the type checker only runs when parsing / building raised no error: expression types exist only then
        typechecked = all(e in (LHS, INCOMP, "$Expression_must_be_side-effect_free") for e in x["E"])
        n_typechecked += typechecked
        for line in (x["X"] if typechecked else []):
            mm = RX_INFO.search(line)
            if not mm:
                continue
            ex = mm.group(7)
            a = dict(RX_DRV.findall(ans["ex " + ex]))
            real = {"mod": mm.group(1), "lv": mm.group(2), "uniq": mm.group(3)}
            cmp("lvalue predicates", ex, real, {kk: a.get(kk) for kk in real})
            if pure_chain(ex):
                tail = ans["ex " + ex].split(" ty=", 1)[1]
                cmp("static type / is_mutable / is_constant", ex, {"tmut": mm.group(4), "tconst": mm.group(5), "ty": mm.group(6)},
                    {"tmut": a.get("tmut"), "tconst": a.get("tconst"), "ty": tail})
            nontrivial.add(ex)
            w = dict(RX_DRV.findall(ans["write %s %s" % (line.split()[2], ex)]))
            if w.get("refused") == "1":
                any_refused = True
            if a.get("rooted") == "1":
                target_rooted = True
            elif target_rooted is None:
                target_rooted = False
        for line in (x["A"] if typechecked else []):
            ma = RX_A.match(line)
            if not ma:
                continue
            mi = RX_INFO.search(ma.group(10))
            if not mi:
                continue
            ex = mi.group(7)
            par = ma.group(9)
            a = dict(RX_DRV.findall(ans["ex " + ex]))
            real = {"mod": mi.group(1), "lv": mi.group(2), "uniq": mi.group(3)}
            cmp("lvalue predicates (argument)", ex, real, {kk: a.get(kk) for kk in real})
            g = dict(RX_DRV.findall(ans["arg %s %s" % (par, ex)]))
            cmp("parameter is(REF) / is_constant", par, {"ref": ma.group(5), "const": ma.group(6)},
                {"ref": g.get("ref"), "const": g.get("const")})
            if g.get("refused") == "1":
                any_refused = True
                cmp("isParameterCompatible refuses", ex, "0", ma.group(7))
            if ma.group(2) == "inst":
                gi = dict(RX_DRV.findall(ans["inst %s %s %s" % (ma.group(8), par, ex)]))
                if gi.get("refused") == "1":
                    any_refused = True
            if g.get("ref") == "1" and g.get("const") == "0":
                if a.get("rooted") == "1":
                    target_rooted = True
                elif target_rooted is None:
                    target_rooted = False
            nontrivial.add(par + ex)
        for line in x["S"]:
            ms = RX_S.match(line)
            if not ms:
                continue
            tyq = ms.group(9)
            a = ans["ty " + tyq]
            d = dict(RX_DRV.findall(a))
            real = {"mut": ms.group(3), "const": ms.group(4), "isC": ms.group(5), "isRef": ms.group(6)}
            cmp("is_mutable / is_constant / is(CONSTANT) / is(REF)", tyq, real, {kk: d.get(kk) for kk in real})
            sub = a.split(" sub=", 1)[1].split(" strip=")[0]
            strip = a.split(" strip=", 1)[1]
            if ms.group(7) != "-":
                cmp("get_sub", tyq, ms.group(7), sub)
            cmp("strip", tyq, ms.group(8), strip)
        # the declared type of x: the builder (real) against the elaboration model (Lean), and source-level constness
        if k.meta.get("decl"):
            a = ans[decl_query(k.meta)]
            mty = a.split(" ty=", 1)[1] if " ty=" in a else a
            real_tys = set()
            for line in x["S"]:
                ms = RX_S.match(line)
                if ms and ms.group(2) == "x":
                    real_tys.add(re.sub(r"#scalarset\d+", "#scalarset", ms.group(9)))
            if k.meta["source"].endswith("-shadow"):     # two objects are called x: the hidden outer one is an ordinary declaration
                a2 = ans["decl " + k.meta["decl"]]
                outer = a2.split(" ty=", 1)[1] if " ty=" in a2 else a2
                cmp("declared type of the hidden outer x (builder callbacks)", k.meta["decl"], outer in real_tys, True)
                real_tys.discard(outer)
            if real_tys:
                cmp("declared type of x (builder callbacks)", k.meta["decl"], sorted(real_tys), [mty])
                n_decl += 1
            if not k.meta.get("site"):
                d = dict(RX_DRV.findall(a))
                if not (k.meta["source"].startswith("binder-")):
                    member = k.meta["source"] == "const-member"   # the variable is not const, one member is
                    cmp("source-level const / const-free", k.meta["decl"],
                        {"const": "1" if (k.meta["const"] and not member) else "0", "free": "0" if k.meta["const"] else "1"},
                        {"const": d.get("const"), "free": d.get("free")})
        # the verdict the model predicts from the lvalue rules alone (single-write models, well-typed otherwise)
        m = k.meta
        if not typechecked:
            continue
        if x["V"] == "accepted" and any_refused:
            model_verdict_dis.append({"meta": m, "model": k.text, "why": "the Lean model refuses a write the library accepted"})
        if x["V"] == "rejected" and not any_refused and (LHS in x["E"] or INCOMP in x["E"]) and not m.get("sibling"):
            model_verdict_dis.append({"meta": m, "model": k.text, "diagnostics": x["E"],
                                      "why": "the library refused an lvalue / argument the Lean model lets pass"})
        # the specification side: Lean's constRooted on the real target agrees with how the generator declared the object
        if target_rooted is not None and not m.get("sibling") and m["form"] not in ("nested-lhs", "preinc-postinc"):
            if bool(target_rooted) != bool(m["const"]):
                spec_dis.append({"meta": m, "model": k.text, "lean_constRooted": target_rooted})
    cov["correspondence_cases"] = n_corr
    cov["declared_types_compared"] = n_decl
    cov["models_reaching_the_type_checker"] = n_typechecked
    cov["correspondence_disagreements"] = len(dis) + len(model_verdict_dis) + len(spec_dis)
    cov["distinct_nontrivial"] = len(nontrivial)
    cov["distinct_driver_queries"] = len(ans)
    cov["evaluations"] = n_eval + n_corr
    cov["rule"] = ("const-rooted target (declared const / binder / const component, any path) => model rejected; "
                   "mutable twin => model accepted; Lean model = implementation on every target, argument and declared type seen")
    if dis or model_verdict_dis or spec_dis:
        first = (dis or model_verdict_dis or spec_dis)[0]
        ctx.log("correspondence disagreements:", len(dis), len(model_verdict_dis), len(spec_dis), json.dumps(first)[:1500])
        if not [v for v in ctx.violations if not v[3]]:
            ctx.proof_broken("correspondence:constness-model",
                             "model and implementation disagree on %d facts, %d verdicts, %d const-rootedness judgements; first: %s"
                             % (len(dis), len(model_verdict_dis), len(spec_dis), json.dumps(first)[:3000]),
                             "oracle: %d models on the implementation, no const write accepted, no mutable twin rejected" % n_eval)
    ctx.assumptions += [
        "the Lean model abstracts index expressions to isCompileTimeComputable(index) and inline-if to areEquivalent(then, else) "
        "(both supplied by the real library in the correspondence run); type compatibility of assignments and arguments "
        "(areAssignmentCompatible / areEquivalent) is exercised by the oracle, not modelled",
        "the builder's construction of declared types from declaration syntax is tied by correspondence (declared types are "
        "read back from the real library), not by a theorem",
        "asserts are compiled out (the baseline configuration is RelWithDebInfo = -DNDEBUG)",
    ]


def replay(ctx, path):
    r = json.load(open(path))
    print(json.dumps({k: v for k, v in r.items() if k != "replay"}, indent=1))
    rep = r.get("replay", {})
    if "model" not in rep:
        # a theorem / the translation / the correspondence did not check: re-run translation and proofs on the current tree
        print(json.dumps(rep, indent=1)[:4000])
        try:
            text, _ = constness.translate(core.REPO)
            core.write_if_changed(GEN, text)
        except constness.TranslateError as ex:
            print("translation still fails:", ex)
            return 1
        core.regen_kinds()
        ok, log = ctx.prove(MODULE, ["drv_c12"])
        print("proofs check now" if ok else "proofs still fail:\n" + log[-2000:])
        if ok and "correspondence" in str(rep.get("theorem_or_correspondence", "")):
            print("(run ./check C12 for the correspondence itself)")
        return 0 if ok else 1
    b = core.build_repo("asan")
    exe = core.build_harness(b, "c12", ["c12.cpp"])
    k = Case()
    k.text, k.mode, k.meta = rep["model"], rep.get("mode", "XTA"), rep.get("meta", {})
    res, rc, err = run_harness(exe, [k])
    print(k.text)
    x = res[0]
    if x is None:
        print("harness died rc=%s\n%s" % (rc, err[-2000:]))
        return 1
    print("verdict:", x["V"], x["E"])
    bad = (k.meta.get("const") and x["V"] == "accepted") or (not k.meta.get("const") and x["V"] != "accepted") or \
          (k.meta.get("sibling") and k.meta.get("const") and x["V"] == "rejected")
    return 1 if bad else 0
