/- Line format of abstract models (written by checks/c04_model.py `lean_lines`), and the canonical printers of
   callback traces and documents used by the drivers of C04 / C05 / C20.  Core Lean only, total. -/
import UtapModel.Model.Xml
namespace UtapModel.AM

structure PS where
  m : AModel := { gdecls := [], templates := [], insts := [], procs := [] }
  t : Option ATempl := none
  i : Option AInst := none

def modLast {α} (f : α → α) : List α → List α
  | [] => []
  | [a] => [f a]
  | a :: r => a :: modLast f r

def catOf : String → Cat
  | "fun" => .func
  | "typedef" => .typedef
  | _ => .var

def unTilde (s : String) : String := s.map (fun c => if c = '~' then ' ' else c)

def mkDecl : List String → Decl
  | cat :: name :: key :: _n :: tr => { cat := catOf cat, name := name, key := key, trace := tr.map unTilde }
  | _ => default

def optTok (s : String) : Option String := if s = "-" then none else some s

def pairs : List String → List (String × String)
  | a :: b :: r => (a, b) :: pairs r
  | _ => []

def parseELabel : List String → Option ELabel
  | "select" :: _n :: r => some (.select (pairs r))
  | ["guard", k] => some (.guard k)
  | ["synchronisation", k, d] => some (.sync k (if d = "!" then .bang else .que))
  | ["assignment", k] => some (.assign k)
  | ["probability", k] => some (.prob k)
  | _ => none

def feed (s : PS) (ws : List String) : PS :=
  let inT (f : ATempl → ATempl) : PS := { s with t := s.t.map f }
  match ws with
  | "gdecl" :: r => { s with m := { s.m with gdecls := s.m.gdecls ++ [mkDecl r] } }
  | ["templ", n] => { s with t := some { name := n, params := [], decls := [], locs := [], bps := [], init := none, edges := [] } }
  | ["param", n, r, k] => inT fun t => { t with params := t.params ++ [{ name := n, ref := decide (r = "1"), key := k }] }
  | "ldecl" :: r => inT fun t => { t with decls := t.decls ++ [mkDecl r] }
  | ["loc", id, n, fl] =>
    inT fun t => { t with locs := t.locs ++ [{ id := id, name := optTok n, labels := [], urgent := fl = "U" || fl = "B",
                                                committed := fl = "C" || fl = "B" }] }
  | ["llabel", kind, k] =>
    inT fun t => { t with locs := modLast (fun l => { l with labels := l.labels ++
                     [(if kind = "invariant" then LocKind.invariant else LocKind.exponentialrate, k)] }) t.locs }
  | ["bp", id] => inT fun t => { t with bps := t.bps ++ [id] }
  | ["init", id] => inT fun t => { t with init := optTok id }
  | ["edge", a, b, c] =>
    inT fun t => { t with edges := t.edges ++ [{ src := a, tgt := b, ctrl := (optTok c).map (fun x => decide (x = "1")), labels := [] }] }
  | "elabel" :: r =>
    match parseELabel r with
    | some l => inT fun t => { t with edges := modLast (fun e => { e with labels := e.labels ++ [l] }) t.edges }
    | none => s
  | ["endtempl"] =>
    match s.t with
    | some t => { s with m := { s.m with templates := s.m.templates ++ [t] }, t := none }
    | none => s
  | ["inst", n, tn] => { s with i := some { name := n, params := [], templ := tn, args := [] } }
  | ["iparam", n, r, k] => { s with i := s.i.map fun i => { i with params := i.params ++ [{ name := n, ref := decide (r = "1"), key := k }] } }
  | ["iarg", k] => { s with i := s.i.map fun i => { i with args := i.args ++ [k] } }
  | ["endinst"] =>
    match s.i with
    | some i => { s with m := { s.m with insts := s.m.insts ++ [i] }, i := none }
    | none => s
  | ["proc", n, lt] => { s with m := { s.m with procs := s.m.procs ++ [(n, decide (lt = "1"))] } }
  | _ => s

/-! ### Printers -/

def b01 (b : Bool) : String := if b then "1" else "0"

def stackStr (fr : List Key) : String :=
  " |" ++ (match fr with
           | [] => ""
           | a :: r => " " ++ a ++ String.join (r.map (" ; " ++ ·)))

def dirStr : Dir → String
  | .bang => "!"
  | .que => "?"

/-- the lines the logging builder of the harness prints for one callback, given the state *before* the call -/
def callLines (s : BState) : Call → List String
  | .declItem d => d.trace
  | .declParam p => [s!"decl_parameter {p.name} {b01 p.ref}"]
  | .pushExpr _ => []
  | .procBegin n => [s!"proc_begin {n} 1"]
  | .procLocation n hi he => [s!"proc_location {n} {b01 hi} {b01 he}" ++ stackStr s.frags]
  | .procLocationCommit n => [s!"proc_location_commit {n}"]
  | .procLocationUrgent n => [s!"proc_location_urgent {n}"]
  | .procBranchpoint n => [s!"proc_branchpoint {n}"]
  | .procLocationInit n => [s!"proc_location_init {n}"]
  | .procEdgeBegin a b c => [s!"proc_edge_begin {a} {b} {b01 c}" ++ stackStr s.frags]
  | .procSelect id ty => [s!"proc_select {id} {ty}"]
  | .procGuard => ["proc_guard" ++ stackStr s.frags]
  | .procSync d => [s!"proc_sync {dirStr d}" ++ stackStr s.frags]
  | .procUpdate => ["proc_update" ++ stackStr s.frags]
  | .procProb => ["proc_prob" ++ stackStr s.frags]
  | .procEdgeEnd a b => [s!"proc_edge_end {a} {b}" ++ stackStr s.frags]
  | .procEnd => ["proc_end" ++ stackStr s.frags]
  | .instBegin n k t => [s!"instantiation_begin {n} {k} {t}"]
  | .instEnd n k t a => [s!"instantiation_end {n} {k} {t} {a}" ++ stackStr s.frags]
  | .process n => [s!"process {n}"]
  | .priorityInc => ["proc_priority_inc"]
  | .processListEnd => ["process_list_end"]
  | .done => ["done" ++ stackStr s.frags]
  | .error _ => []

/-- the name of the ParserBuilder callback a call stands for -/
def callName : Call → String
  | .declItem _ => "declaration"
  | .declParam _ => "decl_parameter"
  | .pushExpr _ => "expression"
  | .procBegin _ => "proc_begin"
  | .procLocation _ _ _ => "proc_location"
  | .procLocationCommit _ => "proc_location_commit"
  | .procLocationUrgent _ => "proc_location_urgent"
  | .procBranchpoint _ => "proc_branchpoint"
  | .procLocationInit _ => "proc_location_init"
  | .procEdgeBegin _ _ _ => "proc_edge_begin"
  | .procSelect _ _ => "proc_select"
  | .procGuard => "proc_guard"
  | .procSync _ => "proc_sync"
  | .procUpdate => "proc_update"
  | .procProb => "proc_prob"
  | .procEdgeEnd _ _ => "proc_edge_end"
  | .procEnd => "proc_end"
  | .instBegin _ _ _ => "instantiation_begin"
  | .instEnd _ _ _ _ => "instantiation_end"
  | .process _ => "process"
  | .priorityInc => "proc_priority_inc"
  | .processListEnd => "process_list_end"
  | .done => "done"
  | .error _ => "handle_error"

def traceLines : BState → List Call → List String
  | _, [] => []
  | s, c :: r => callLines s c ++ traceLines (step s c) r

def spaced (xs : List String) : String := " ".intercalate xs

def declLines (ds : List Decl) : List String :=
  let f (c : Cat) := (ds.filter (·.cat = c)).map (fun d => "  decl " ++ d.key)
  f .var ++ f .func ++ f .typedef

def optKey (k : Option Key) (dflt : String) : String := k.getD dflt

def endpointStr : Endpoint → String
  | .loc n => "L:" ++ n
  | .bp n => "B:" ++ n

def const1 : String := "(CONSTANT int 1)"

def numbered {α} (f : Nat → α → String) : Nat → List α → List String
  | _, [] => []
  | n, a :: r => f n a :: numbered f (n + 1) r

def templLines (t : BTempl) : List String :=
  [s!"template {t.name} params=[{spaced (t.params.map (·.key))}] isTA=1 init={t.init.getD "NONE"}"] ++
  declLines t.decls ++
  numbered (fun n (l : BLoc) =>
    s!"  location {l.name} nr={n} urgent={b01 l.urgent} committed={b01 l.committed} inv={optKey l.inv "()"} exprate={optKey l.rate "()"} costrate=()") 0 t.locs ++
  numbered (fun n (b : String) => s!"  branchpoint {b} nr={n}") 0 t.bps ++
  numbered (fun n (e : BEdge) =>
    let sel := spaced (e.select.map (fun b => b.1 ++ ":" ++ b.2))
    let sy := match e.sync with | some (k, d) => s!"(SYNC {dirStr d} {k})" | none => "()"
    s!"  edge nr={n} {endpointStr e.src} -> {endpointStr e.dst} control={b01 e.ctrl} select=[{sel}] guard={optKey e.guard const1} sync={sy} assign={optKey e.assign const1} prob={optKey e.prob const1}") 0 t.edges

def instLine (tag : String) (i : BInst) : String :=
  let ps := spaced (i.bparams.map (·.1.key))
  let mp := spaced (i.bparams.filterMap (fun b => b.2.map (fun k => b.1.name ++ "=" ++ k)))
  s!"{tag} {i.name} templ={i.templ} unbound={i.unbound} arguments={i.arguments} params=[{ps}] mapping=" ++ "{" ++ mp ++ "}"

def docLines (d : Doc) : List String :=
  ["globals"] ++ declLines d.gdecls ++ d.templates.flatMap templLines ++
  d.processes.map (instLine "process") ++ d.instances.map (instLine "instance") ++
  d.priorities.map (fun p => s!"priority {p.1} {p.2}")

end UtapModel.AM
