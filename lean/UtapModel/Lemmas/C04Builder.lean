/- Helper lemmas of C04: the builder state machine run on the closed-form callback list of a well-formed template
   appends exactly the specified template to the document. -/
import UtapModel.Lemmas.C04Reader
namespace UtapModel.AM

/-! ### symbols of the current template -/

def namesOf (T : BTempl) : List String :=
  T.params.map (·.name) ++ T.decls.map (·.name) ++ T.locs.map (·.name) ++ T.bps

theorem declared_false (T : BTempl) (n : String) (h : n ∉ namesOf T) : declared T n = false := by
  simp only [namesOf, List.mem_append, List.mem_map, not_or, not_exists, not_and] at h
  obtain ⟨⟨⟨hp, hd⟩, hl⟩, hb⟩ := h
  have h2 : T.locs.any (·.name == n) = false := by
    simp only [List.any_eq_false, beq_iff_eq]; intro x hx heq; exact hl x hx heq
  have h3 : T.decls.any (·.name == n) = false := by
    simp only [List.any_eq_false, beq_iff_eq]; intro x hx heq; exact hd x hx heq
  have h4 : T.params.any (·.name == n) = false := by
    simp only [List.any_eq_false, beq_iff_eq]; intro x hx heq; exact hp x hx heq
  simp [declared, symKind, hb, h2, h3, h4]

theorem symKind_loc (T : BTempl) (n : String) (hl : n ∈ T.locs.map (·.name)) (hb : n ∉ T.bps) : symKind T n = some .loc := by
  have h2 : T.locs.any (·.name == n) = true := by
    obtain ⟨x, hx, rfl⟩ := List.mem_map.mp hl
    simp only [List.any_eq_true, beq_iff_eq]; exact ⟨x, hx, rfl⟩
  simp [symKind, hb, h2]

theorem symKind_bp (T : BTempl) (n : String) (hb : n ∈ T.bps) : symKind T n = some .bp := by
  simp [symKind, hb]

theorem updateLast_snoc {α} (p : α → Bool) (f : α → α) (l : List α) (a : α) (h : p a = true) :
    updateLast p f (l ++ [a]) = l ++ [f a] := by
  induction l with
  | nil => simp [updateLast, h]
  | cons x r ih => simp [updateLast, ih, h]

/-! ### phases -/

theorem run_params (s : BState) (ps : List Param) :
    run s (ps.map .declParam) = { s with params := s.params ++ ps } := by
  induction ps generalizing s with
  | nil => simp [run]
  | cons p r ih => simp only [List.map_cons, run_cons, ih, step]; simp

theorem run_decls (s : BState) (T : BTempl) (ds : List Decl) (hc : s.cur = some T) :
    run s (ds.map .declItem) = { s with cur := some { T with decls := T.decls ++ ds } } := by
  induction ds generalizing s T with
  | nil => simp [run, ← hc]
  | cons d r ih =>
    simp only [List.map_cons, run_cons]
    rw [ih (step s (.declItem d)) { T with decls := T.decls ++ [d] } (by simp [step, hc])]
    simp [step, hc]

theorem run_gdecls (s : BState) (ds : List Decl) (hc : s.cur = none) :
    run s (ds.map .declItem) = { s with doc := { s.doc with gdecls := s.doc.gdecls ++ ds } } := by
  induction ds generalizing s with
  | nil => simp [run]
  | cons d r ih =>
    simp only [List.map_cons, run_cons]
    rw [ih (step s (.declItem d)) (by simp [step, hc])]
    simp [step, hc]

theorem lk_ne1 : (LocKind.exponentialrate == LocKind.invariant) = false := by decide
theorem lk_ne2 : (LocKind.invariant == LocKind.exponentialrate) = false := by decide

theorem run_loc (s : BState) (T : BTempl) (l : ALoc) (hc : s.cur = some T) (hf : s.frags = []) (hb : T.bps = [])
    (hn : l.effName ∉ namesOf T) (hw : l.wf = true) :
    run s (locCallsX l) = { s with cur := some { T with locs := T.locs ++ [locOf l] } } := by
  obtain ⟨doc, frags, params, pending, cur, edge, prio, errs⟩ := s
  simp only at hc hf
  subst hc hf
  have hd := declared_false T l.effName hn
  have hnl : T.locs.any (fun x => x.name == l.effName) = false := by
    simp only [namesOf, List.mem_append, List.mem_map, not_or, not_exists, not_and] at hn
    simp only [List.any_eq_false, beq_iff_eq]; intro x hx heq; exact hn.1.2 x hx heq
  have hsk : ∀ b1 b2 i r, symKind { T with locs := T.locs ++ [{ name := l.effName, inv := i, rate := r, urgent := b1, committed := b2 }] } l.effName = some .loc := by
    intro b1 b2 i r
    apply symKind_loc
    · simp
    · simp [hb]
  obtain ⟨id, name, labels, u, c⟩ := l
  generalize hname : ALoc.effName { id := id, name := name, labels := labels, urgent := u, committed := c } = n at *
  have hl : labelsOrdered labels = true ∧ (u = false ∨ c = false) := by simpa [ALoc.wf] using hw
  obtain ⟨hlo, huc⟩ := hl
  match labels, hlo with
  | [], _ =>
    cases u <;> cases c <;> simp_all [run, locCallsX, step, hasKind, popOpt, locOf, lookupLabel, List.lookup, err, updateLast_snoc, lk_ne1, lk_ne2]
  | [(k, a)], _ =>
    cases k <;> cases u <;> cases c <;>
      simp_all [run, locCallsX, step, hasKind, popOpt, locOf, lookupLabel, List.lookup, err, updateLast_snoc, lk_ne1, lk_ne2]
  | [(.invariant, a), (.exponentialrate, b)], _ =>
    cases u <;> cases c <;>
      simp_all [run, locCallsX, step, hasKind, popOpt, locOf, lookupLabel, List.lookup, err, updateLast_snoc, lk_ne1, lk_ne2]

theorem mem_namesOf_addLoc (T : BTempl) (x : BLoc) (n : String) :
    n ∈ namesOf { T with locs := T.locs ++ [x] } ↔ n ∈ namesOf T ∨ n = x.name := by
  simp only [namesOf, List.mem_append, List.map_append, List.map_cons, List.map_nil, List.mem_singleton]
  constructor
  · rintro (((h | h) | (h | h)) | h)
    · exact Or.inl (Or.inl (Or.inl (Or.inl h)))
    · exact Or.inl (Or.inl (Or.inl (Or.inr h)))
    · exact Or.inl (Or.inl (Or.inr h))
    · exact Or.inr h
    · exact Or.inl (Or.inr h)
  · rintro ((((h | h) | h) | h) | h)
    · exact Or.inl (Or.inl (Or.inl h))
    · exact Or.inl (Or.inl (Or.inr h))
    · exact Or.inl (Or.inr (Or.inl h))
    · exact Or.inr h
    · exact Or.inl (Or.inr (Or.inr h))

theorem locOf_name (l : ALoc) : (locOf l).name = l.effName := rfl

theorem run_locs (s : BState) (T : BTempl) (ls : List ALoc) (hc : s.cur = some T) (hf : s.frags = []) (hb : T.bps = [])
    (hnd : (ls.map (·.effName)).Nodup) (hn : ∀ l ∈ ls, l.effName ∉ namesOf T) (hw : ∀ l ∈ ls, l.wf = true) :
    run s (ls.flatMap locCallsX) = { s with cur := some { T with locs := T.locs ++ ls.map locOf } } := by
  induction ls generalizing s T with
  | nil => simp [run, ← hc]
  | cons l r ih =>
    simp only [List.flatMap_cons, run_append]
    rw [run_loc s T l hc hf hb (hn l (by simp)) (hw l (by simp))]
    simp only [List.map_cons, List.nodup_cons] at hnd
    refine (ih { s with cur := some { T with locs := T.locs ++ [locOf l] } } { T with locs := T.locs ++ [locOf l] } rfl hf hb hnd.2 ?_ (fun x hx => hw x (by simp [hx]))).trans ?_
    rotate_left
    · simp
    · intro x hx hmem
      rcases (mem_namesOf_addLoc T (locOf l) x.effName).mp hmem with h | h
      · exact hn x (by simp [hx]) h
      · rw [locOf_name] at h
        exact hnd.1 (List.mem_map.mpr ⟨x, hx, h⟩)

theorem mem_namesOf_addBp (T : BTempl) (x n : String) :
    n ∈ namesOf { T with bps := T.bps ++ [x] } ↔ n ∈ namesOf T ∨ n = x := by
  simp only [namesOf, List.mem_append, List.mem_singleton]
  constructor
  · rintro (h | (h | h))
    · exact Or.inl (Or.inl h)
    · exact Or.inl (Or.inr h)
    · exact Or.inr h
  · rintro ((h | h) | h)
    · exact Or.inl h
    · exact Or.inr (Or.inl h)
    · exact Or.inr (Or.inr h)

theorem run_bps (s : BState) (T : BTempl) (bs : List String) (hc : s.cur = some T) (hnd : bs.Nodup)
    (hn : ∀ b ∈ bs, b ∉ namesOf T) :
    run s (bs.map .procBranchpoint) = { s with cur := some { T with bps := T.bps ++ bs } } := by
  induction bs generalizing s T with
  | nil => simp [run, ← hc]
  | cons b r ih =>
    simp only [List.map_cons, run_cons]
    have hd := declared_false T b (hn b (by simp))
    simp only [List.nodup_cons] at hnd
    have hstep : step s (.procBranchpoint b) = { s with cur := some { T with bps := T.bps ++ [b] } } := by
      simp [step, hc, hd]
    rw [hstep]
    refine (ih { s with cur := some { T with bps := T.bps ++ [b] } } { T with bps := T.bps ++ [b] } rfl hnd.2 ?_).trans ?_
    · intro x hx hmem
      rcases (mem_namesOf_addBp T b x).mp hmem with h | h
      · exact hn x (by simp [hx]) h
      · subst h; exact hnd.1 hx
    · simp

theorem run_selects (s : BState) (e0 : BEdge) (bs : List (String × Key)) (he : s.edge = some e0) :
    run s (bs.map (fun b => Call.procSelect b.1 b.2)) = { s with edge := some { e0 with select := e0.select ++ bs } } := by
  induction bs generalizing s e0 with
  | nil => simp [run, ← he]
  | cons b r ih =>
    simp only [List.map_cons, run_cons]
    refine (ih (step s (.procSelect b.1 b.2)) { e0 with select := e0.select ++ [b] } (by simp [step, he, applyLabel])).trans ?_
    simp [step, he, applyLabel]

theorem run_label (s : BState) (e0 : BEdge) (l : ELabel) (he : s.edge = some e0) (hf : s.frags = []) :
    run s (labelCalls l) = { s with edge := some (applyLabel e0 l) } := by
  obtain ⟨doc, frags, params, pending, cur, edge, prio, errs⟩ := s
  simp only at he hf
  subst he hf
  cases l with
  | select bs => simp only [labelCalls]; rw [run_selects _ e0 bs rfl]; simp [applyLabel]
  | guard k => simp [labelCalls, run, step, applyLabel]
  | sync k d => simp [labelCalls, run, step, applyLabel]
  | assign k => simp [labelCalls, run, step, applyLabel]
  | prob k => simp [labelCalls, run, step, applyLabel]

theorem run_labels (s : BState) (e0 : BEdge) (ls : List ELabel) (he : s.edge = some e0) (hf : s.frags = []) :
    run s (ls.flatMap labelCalls) = { s with edge := some (ls.foldl applyLabel e0) } := by
  induction ls generalizing s e0 with
  | nil => simp [run, ← he]
  | cons l r ih =>
    simp only [List.flatMap_cons, run_append, List.foldl_cons]
    rw [run_label s e0 l he hf]
    refine (ih { s with edge := some (applyLabel e0 l) } (applyLabel e0 l) rfl hf).trans ?_
    simp

theorem run_edge (s : BState) (T : BTempl) (f g : String) (a b : Endpoint) (c : Bool) (ls : List ELabel)
    (hc : s.cur = some T) (he : s.edge = none) (hf : s.frags = [])
    (ha : endpointFor T f = some a) (hb : endpointFor T g = some b) :
    run s ([.procEdgeBegin f g c] ++ ls.flatMap labelCalls ++ [.procEdgeEnd f g])
      = { s with cur := some { T with edges := T.edges ++ [ls.foldl applyLabel (edge0 a b c)] } } := by
  obtain ⟨doc, frags, params, pending, cur, edge, prio, errs⟩ := s
  simp only at hc he hf
  subst hc he hf
  simp only [run_append, List.singleton_append, run_cons, run_nil]
  have h1 : step { doc := doc, frags := [], params := params, pending := pending, cur := some T, edge := none, prio := prio, errs := errs }
      (.procEdgeBegin f g c) = { doc := doc, frags := [], params := params, pending := pending, cur := some T,
                                  edge := some (edge0 a b c), prio := prio, errs := errs } := by
    simp [step, ha, hb]
  rw [h1, run_labels _ (edge0 a b c) ls rfl rfl]
  simp [step]

/-! ### references -/

theorem endpoint_resolve (T : BTempl) (t : ATempl) (ref : String)
    (hT1 : T.locs.map (·.name) = t.locs.map (·.effName)) (hT2 : T.bps = t.bps.map bpName)
    (hnd : t.effNames.Nodup) (href : ref ∈ t.nodeIds) :
    ∃ n ep, nameOf t ref = some n ∧ endpointOf t ref = some ep ∧ endpointFor T n = some ep := by
  have hdisj := (List.nodup_append.mp hnd).2.2
  unfold nameOf endpointOf
  cases hf : t.locs.find? (·.id == ref) with
  | some l =>
    have hl : l ∈ t.locs := List.mem_of_find?_eq_some hf
    refine ⟨l.effName, .loc l.effName, rfl, rfl, ?_⟩
    have hk : symKind T l.effName = some .loc := by
      apply symKind_loc
      · rw [hT1]; exact List.mem_map.mpr ⟨l, hl, rfl⟩
      · rw [hT2]; intro hmem
        exact hdisj l.effName (List.mem_map.mpr ⟨l, hl, rfl⟩) l.effName hmem rfl
    simp [endpointFor, hk]
  | none =>
    have hnot : ref ∉ t.locs.map (·.id) := by
      intro hmem
      obtain ⟨l, hl, hid⟩ := List.mem_map.mp hmem
      have := List.find?_eq_none.mp hf l hl
      simp [hid] at this
    have hb : ref ∈ t.bps := by
      rcases List.mem_append.mp href with h | h
      · exact absurd h hnot
      · exact h
    have hc : t.bps.contains ref = true := by simpa using hb
    refine ⟨bpName ref, .bp (bpName ref), by simp [hb], by simp [hb], ?_⟩
    have hk : symKind T (bpName ref) = some .bp := by
      apply symKind_bp; rw [hT2]; exact List.mem_map.mpr ⟨ref, hb, rfl⟩
    simp [endpointFor, hk]

theorem run_edgeX (s : BState) (T : BTempl) (t : ATempl) (e : AEdge)
    (hc : s.cur = some T) (he : s.edge = none) (hf : s.frags = [])
    (hT1 : T.locs.map (·.name) = t.locs.map (·.effName)) (hT2 : T.bps = t.bps.map bpName)
    (hnd : t.effNames.Nodup) (hs : e.src ∈ t.nodeIds) (ht : e.tgt ∈ t.nodeIds) :
    ∃ be, edgeOf t e = some be ∧
      run s (edgeCallsX t e) = { s with cur := some { T with edges := T.edges ++ [be] } } := by
  obtain ⟨n1, a, h1, h2, h3⟩ := endpoint_resolve T t e.src hT1 hT2 hnd hs
  obtain ⟨n2, b, h4, h5, h6⟩ := endpoint_resolve T t e.tgt hT1 hT2 hnd ht
  refine ⟨e.labels.foldl applyLabel (edge0 a b (ctrlOf e.ctrl)), by simp [edgeOf, h2, h5], ?_⟩
  simp only [edgeCallsX, h1, h4]
  exact run_edge s T n1 n2 a b (ctrlOf e.ctrl) e.labels hc he hf h3 h6

theorem run_edges (s : BState) (T : BTempl) (t : ATempl) (es : List AEdge)
    (hc : s.cur = some T) (he : s.edge = none) (hf : s.frags = [])
    (hT1 : T.locs.map (·.name) = t.locs.map (·.effName)) (hT2 : T.bps = t.bps.map bpName)
    (hnd : t.effNames.Nodup) (h : ∀ e ∈ es, e.src ∈ t.nodeIds ∧ e.tgt ∈ t.nodeIds) :
    run s (es.flatMap (edgeCallsX t)) = { s with cur := some { T with edges := T.edges ++ es.filterMap (edgeOf t) } } := by
  induction es generalizing s T with
  | nil => simp [run, ← hc]
  | cons e r ih =>
    obtain ⟨be, hbe, hrun⟩ := run_edgeX s T t e hc he hf hT1 hT2 hnd (h e (by simp)).1 (h e (by simp)).2
    simp only [List.flatMap_cons, run_append, hrun]
    refine (ih { s with cur := some { T with edges := T.edges ++ [be] } } { T with edges := T.edges ++ [be] } rfl he hf hT1 hT2
      (fun x hx => h x (by simp [hx]))).trans ?_
    simp [List.filterMap_cons, hbe]

/-! ### one template -/

structure TemplWf (t : ATempl) : Prop where
  ids : t.nodeIds.Nodup
  names : t.effNames.Nodup
  reserved : ∀ n ∈ t.effNames, n ∉ t.reserved
  locs : ∀ l ∈ t.locs, l.wf = true
  init : ∃ r, t.init = some r ∧ r ∈ t.locs.map (·.id)
  edges : ∀ e ∈ t.edges, e.src ∈ t.nodeIds ∧ e.tgt ∈ t.nodeIds

theorem templWf_of (t : ATempl) (h : t.wf = true) : TemplWf t := by
  simp only [ATempl.wf, Bool.and_eq_true, decide_eq_true_eq, List.all_eq_true, Bool.not_eq_true', List.contains_eq_mem,
    decide_eq_false_iff_not] at h
  obtain ⟨⟨⟨⟨⟨h1, h2⟩, h3⟩, h4⟩, h5⟩, h6⟩ := h
  refine ⟨h1, h2, h3, h4, ?_, ?_⟩
  · cases hi : t.init with
    | none => simp [hi] at h5
    | some r => exact ⟨r, rfl, by simpa [hi] using h5⟩
  · intro e he
    have := h6 e he
    simpa using this

theorem TemplWf.reader {t : ATempl} (h : TemplWf t) : ReaderWf t := by
  refine ⟨h.ids, ?_, h.edges⟩
  intro r hr
  obtain ⟨r', hr', hmem⟩ := h.init
  rw [hr] at hr'; cases hr'
  exact List.mem_append.mpr (Or.inl hmem)

theorem run_templ (s : BState) (t : ATempl) (hc : s.cur = none) (he : s.edge = none) (hf : s.frags = [])
    (hp : s.params = []) (hw : TemplWf t) :
    run s (templCallsX t) = { s with doc := { s.doc with templates := s.doc.templates ++ [templOf t] } } := by
  obtain ⟨doc, frags, params, pending, cur, edge, prio, errs⟩ := s
  simp only at hc he hf hp
  subst hc he hf hp
  obtain ⟨hids, hnames, hres, hlocs, ⟨r, hinit, hrmem⟩, hedges⟩ := hw
  have hnl := (List.nodup_append.mp hnames).1
  have hnb := (List.nodup_append.mp hnames).2.1
  have hdisj := (List.nodup_append.mp hnames).2.2
  simp only [templCallsX, run_append, run_params, List.nil_append, List.singleton_append, run_cons, run_nil]
  -- proc_begin
  simp only [step]
  -- declarations
  rw [run_decls _ { name := t.name, params := t.params, decls := [], locs := [], bps := [], init := none, edges := [] } t.decls rfl]
  simp only [List.nil_append]
  -- locations
  rw [run_locs _ { name := t.name, params := t.params, decls := t.decls, locs := [], bps := [], init := none, edges := [] } t.locs
        rfl rfl rfl hnl
        (by intro l hl hmem
            apply hres l.effName (List.mem_append.mpr (Or.inl (List.mem_map.mpr ⟨l, hl, rfl⟩)))
            simpa [namesOf, ATempl.reserved] using hmem)
        hlocs]
  simp only [List.nil_append]
  -- branchpoints
  rw [show t.bps.map (fun b => Call.procBranchpoint (bpName b)) = (t.bps.map bpName).map Call.procBranchpoint by simp [List.map_map]]
  rw [run_bps _ { name := t.name, params := t.params, decls := t.decls, locs := t.locs.map locOf, bps := [], init := none, edges := [] }
        (t.bps.map bpName) rfl hnb
        (by intro b hb hmem
            simp only [namesOf, List.mem_append, List.map_map] at hmem
            rcases hmem with (hmem | hmem) | hmem
            · exact hres b (List.mem_append.mpr (Or.inr hb)) (by simpa [ATempl.reserved] using hmem)
            · obtain ⟨l, hl, hle⟩ := List.mem_map.mp hmem
              exact hdisj l.effName (List.mem_map.mpr ⟨l, hl, rfl⟩) b hb (by simpa [locOf] using hle)
            · cases hmem)]
  simp only [List.nil_append]
  -- init
  obtain ⟨l0, hl0, hl0id⟩ := List.mem_map.mp hrmem
  have hfind : ∃ l, t.locs.find? (·.id == r) = some l := by
    cases hf : t.locs.find? (·.id == r) with
    | some l => exact ⟨l, rfl⟩
    | none =>
      have := List.find?_eq_none.mp hf l0 hl0
      simp [hl0id] at this
  obtain ⟨li, hli⟩ := hfind
  have hlimem : li ∈ t.locs := List.mem_of_find?_eq_some hli
  have hsk : symKind { name := t.name, params := t.params, decls := t.decls, locs := t.locs.map locOf, bps := t.bps.map bpName,
                       init := none, edges := [] } li.effName = some .loc := by
    apply symKind_loc
    · simp only [List.map_map]; exact List.mem_map.mpr ⟨li, hlimem, rfl⟩
    · intro hmem; exact hdisj li.effName (List.mem_map.mpr ⟨li, hlimem, rfl⟩) li.effName hmem rfl
  simp only [initCallsX, hinit, nameOf, hli, run_cons, run_nil, step, hsk]
  -- edges
  rw [run_edges _ { name := t.name, params := t.params, decls := t.decls, locs := t.locs.map locOf, bps := t.bps.map bpName,
                    init := some li.effName, edges := [] } t t.edges rfl rfl rfl (by simp [List.map_map, locOf_name, Function.comp_def]) rfl hnames hedges]
  simp [step, templOf, initOf, hinit, hli]

theorem run_templs (s : BState) (ts : List ATempl) (hc : s.cur = none) (he : s.edge = none) (hf : s.frags = [])
    (hp : s.params = []) (hw : ∀ t ∈ ts, TemplWf t) :
    run s (ts.flatMap templCallsX) = { s with doc := { s.doc with templates := s.doc.templates ++ ts.map templOf } } := by
  induction ts generalizing s with
  | nil => simp [run]
  | cons t r ih =>
    simp only [List.flatMap_cons, run_append]
    rw [run_templ s t hc he hf hp (hw t (by simp))]
    refine (ih { s with doc := { s.doc with templates := s.doc.templates ++ [templOf t] } } hc he hf hp
      (fun x hx => hw x (by simp [hx]))).trans ?_
    simp

/-! ### the system section -/

theorem run_push (s : BState) (ks : List Key) :
    run s (ks.map .pushExpr) = { s with frags := ks.reverse ++ s.frags } := by
  induction ks generalizing s with
  | nil => simp [run]
  | cons k r ih => simp only [List.map_cons, run_cons, ih, step]; simp

theorem run_inst (s : BState) (i : AInst) (hf : s.frags = []) (hp : s.params = []) (hpd : s.pending = []) :
    ∃ es, run s (instCalls i) = { s with doc := addInst s.doc i, errs := s.errs ++ es } := by
  obtain ⟨doc, frags, params, pending, cur, edge, prio, errs⟩ := s
  simp only at hf hp hpd
  subst hf hp hpd
  simp only [instCalls, run_append, run_params, List.nil_append, List.singleton_append, run_cons, run_nil, run_push, step,
    List.append_nil, List.length_reverse, List.take_length, List.drop_length, List.reverse_reverse, addInst]
  rw [show List.take i.args.length i.args.reverse = i.args.reverse by
        rw [← List.length_reverse]; exact List.take_length]
  rw [show List.drop i.args.length i.args.reverse = [] by
        rw [← List.length_reverse]; exact List.drop_length]
  cases hfi : findInst doc i.templ with
  | none => exact ⟨["not a template"], by simp [err]⟩
  | some old =>
    by_cases hn : i.args.length = old.unbound
    · exact ⟨[], by simp [hn]⟩
    · exact ⟨["wrong number of arguments"], by simp [hn, err]⟩

theorem run_insts (s : BState) (is : List AInst) (hf : s.frags = []) (hp : s.params = []) (hpd : s.pending = []) :
    ∃ es, run s (is.flatMap instCalls) = { s with doc := is.foldl addInst s.doc, errs := s.errs ++ es } := by
  induction is generalizing s with
  | nil => exact ⟨[], by simp [run]⟩
  | cons i r ih =>
    obtain ⟨es1, h1⟩ := run_inst s i hf hp hpd
    obtain ⟨es2, h2⟩ := ih { s with doc := addInst s.doc i, errs := s.errs ++ es1 } hf hp hpd
    exact ⟨es1 ++ es2, by simp only [List.flatMap_cons, run_append, h1, h2, List.foldl_cons, List.append_assoc]⟩

theorem run_procs (s : BState) (ps : List (String × Bool)) :
    ∃ es p, run s (ps.flatMap procCalls) = { s with doc := addProcs s.doc s.prio ps, prio := p, errs := s.errs ++ es } := by
  induction ps generalizing s with
  | nil => exact ⟨[], s.prio, by simp [run, addProcs]⟩
  | cons x r ih =>
    obtain ⟨n, lt⟩ := x
    simp only [List.flatMap_cons, run_append, procCalls]
    cases lt with
    | false =>
      simp only [Bool.false_eq_true, ↓reduceIte, List.nil_append, run_cons, run_nil, step, addProcs]
      cases hfi : findInst s.doc n with
      | none =>
        obtain ⟨es, p, h⟩ := ih (err s "no such process")
        exact ⟨"no such process" :: es, p, by rw [h]; simp [err]⟩
      | some i =>
        obtain ⟨es, p, h⟩ := ih { s with doc := { s.doc with processes := s.doc.processes ++ [i], priorities := s.doc.priorities ++ [(n, s.prio)] } }
        exact ⟨es, p, by rw [h]⟩
    | true =>
      simp only [↓reduceIte, List.singleton_append, run_cons, run_nil, step, addProcs]
      cases hfi : findInst s.doc n with
      | none =>
        obtain ⟨es, p, h⟩ := ih (err { s with prio := s.prio + 1 } "no such process")
        exact ⟨"no such process" :: es, p, by rw [h]; simp [err]⟩
      | some i =>
        obtain ⟨es, p, h⟩ := ih { s with prio := s.prio + 1, doc := { s.doc with processes := s.doc.processes ++ [i], priorities := s.doc.priorities ++ [(n, s.prio + 1)] } }
        exact ⟨es, p, by rw [h]⟩

/-! ### counting -/

theorem edgeOf_isSome (t : ATempl) (hw : TemplWf t) (e : AEdge) (he : e ∈ t.edges) : (edgeOf t e).isSome = true := by
  let T : BTempl := { name := t.name, params := [], decls := [], locs := t.locs.map locOf, bps := t.bps.map bpName, init := none, edges := [] }
  obtain ⟨_, a, _, h2, _⟩ := endpoint_resolve T t e.src (by simp [T, List.map_map, Function.comp_def, locOf_name]) rfl hw.names (hw.edges e he).1
  obtain ⟨_, b, _, h5, _⟩ := endpoint_resolve T t e.tgt (by simp [T, List.map_map, Function.comp_def, locOf_name]) rfl hw.names (hw.edges e he).2
  simp [edgeOf, h2, h5]

theorem filterMap_length_of_isSome {α β} (f : α → Option β) (l : List α) (h : ∀ x ∈ l, (f x).isSome = true) :
    (l.filterMap f).length = l.length := by
  induction l with
  | nil => rfl
  | cons x r ih =>
    have hx := h x (by simp)
    cases hfx : f x with
    | none => simp [hfx] at hx
    | some y => simp [List.filterMap_cons, hfx, ih (fun z hz => h z (by simp [hz]))]


/-! ### well-formedness proper + no exception shape ⇒ the reader's well-formedness -/

theorem kinds_cases (ks : List LocKind) (h : ks.Nodup) :
    ks = [] ∨ ks = [.invariant] ∨ ks = [.exponentialrate] ∨ ks = [.invariant, .exponentialrate] ∨ ks = [.exponentialrate, .invariant] := by
  match ks, h with
  | [], _ => simp
  | [a], _ => cases a <;> simp
  | [a, b], h => cases a <;> cases b <;> simp_all
  | a :: b :: c :: r, h => cases a <;> cases b <;> cases c <;> simp_all

theorem loc_wf_of (l : ALoc) (h0 : l.wf0 = true) (hs : l.shapes = []) : l.wf = true := by
  simp only [ALoc.wf0, Bool.and_eq_true, decide_eq_true_eq] at h0
  have hk := kinds_cases _ h0.1
  have hns : l.labels.map (·.1) ≠ [.exponentialrate, .invariant] := by
    intro heq; simp [ALoc.shapes, heq] at hs
  have hord : labelsOrdered l.labels = true := by
    obtain ⟨id, name, labels, u, c⟩ := l
    simp only at hk hns
    match labels, hk, hns with
    | [], _, _ => rfl
    | [(k, a)], _, _ => rfl
    | [(k1, a), (k2, b)], hk, hns =>
      cases k1 <;> cases k2 <;> simp_all [labelsOrdered]
    | x :: y :: z :: r, hk, _ => simp at hk
  simp [ALoc.wf, hord, h0.2]

theorem wf_of (M : AModel) (h0 : M.wf0 = true) (hs : M.exceptionShapes = []) : M.wf = true := by
  simp only [AModel.wf, AModel.wf0, List.all_eq_true] at *
  intro t ht
  have h := h0 t ht
  simp only [ATempl.wf0, Bool.and_eq_true, List.all_eq_true] at h
  obtain ⟨⟨⟨⟨⟨h1, h2⟩, h3⟩, h4⟩, h5⟩, h6⟩ := h
  simp only [AModel.exceptionShapes, List.flatMap_eq_nil_iff] at hs
  have hl : ∀ l ∈ t.locs, l.wf = true := fun l hl => loc_wf_of l (h4 l hl) (hs t ht l hl)
  simp only [ATempl.wf, Bool.and_eq_true, List.all_eq_true]
  exact ⟨⟨⟨⟨⟨h1, h2⟩, h3⟩, hl⟩, h5⟩, h6⟩


end UtapModel.AM
