"""C05 -- XML and XTA renderings of the same model yield equivalent documents (DESIGN.md section 4, C05).

 1 prove       UtapModel.Props.C05: for every model of the common subset and every choice of chained transitions
               doc (build (xtaRead (renderXta prefs M))) = doc (build (readXml (renderXml M)))   (= docOf M)
 2 oracle      the same abstract model rendered to XML text and to XTA text (C04's generator, common subset, random use of
               the chained form `A -> B {..}, -> C {..}`), both parsed by the real library through the public entry points
               (parse_XML_buffer / parse_XTA with a Document*): canonical dumps, diagnostics (messages, position-free) and
               the supported-methods verdict must be equal.  A difference is a VIOLATION with both texts as replay.
               Every sixth model also goes through the file entry points (parse_XML_file, parse_XTA(FILE*)): same result as
               from the buffer.  Fault-injected models include texts that END in an unfinished lexical state (a comment that is
               never closed, an unterminated string); after each of them further models are parsed in the same process and
               must give what they give in a fresh one.  3.x-syntax pairs (newxta = false) through all four entry points.
 3 correspond  callback traces of a logging DocumentBuilder for both front ends == traces predicted by drv_c05
               (model of the XTA grammar's process productions incl. rootTransId; model of the XML reader), and the
               real dump == the predicted document (tie C).  This is the first time the XTA whole-file grammar is run.
"""
import base64
import json
import os
import random
import re
import zlib
import time

from vlib import core
from checks import c04_model as m

MODULE = "UtapModel.Props.C05"
HDR = ("SUBSET", "SAME-DOC")


def gen_case(seed, thorough_big=False):
    r = random.Random(seed)
    while True:
        g = m.Gen(r, size=2.5 if thorough_big else 1.0, xta_safe=True)
        M = g.model()
        if M["procs"]:          # a system line without processes is a syntax error in both formats, and not the same text
            break
    prefs = [r.random() < 0.6 for _ in range(40)]
    if r.random() < 0.2:
        inject_fault(M, r)
    if r.random() < 0.3 and not M.get("faulty"):
        # (not for fault-injected models: with a location both urgent and committed the outcome legitimately depends on
        #  which list comes first in the XTA text -- XML always marks commit first)
        M["vary_xta"] = True      # commit/urgent lists split and in the other order, comments: only the documents are compared
    return M, prefs


# texts after the system line that leave the scanner in the middle of something when the input ends: in XML they end the <system>
# element (the last text handed to the grammar), in XTA the file.  Both formats report the same diagnostic and keep the whole model.
# (No trailing backslash: the XTA rendering ends with a newline, which would make it a line continuation there and a stray token in XML.)
OPEN_TAILS = ["\n/* never closed", " /* a\n * b\n", "\n/**", " /*/", "\n/* EXPECT: x", "\n/* closed */ /* open", "\n// no newline at the end",
              "\n\"abc"]
TAIL_NAME = dict(zip(OPEN_TAILS, ["block-comment", "block-comment-lines", "doc-comment", "slash-star-slash", "expect-comment", "second-comment",
                                  "line-comment-at-eof", "string-literal"]))


def inject_fault(M, r):
    """make the model produce diagnostics (the same ones in both formats): type errors in labels, an unknown identifier,
    urgent+committed, a duplicate location name, a wrong argument count, an unknown process"""
    M["faulty"] = True
    ts = [t for t in M["templates"]]
    kind = r.choice(["unknown_id", "sync_int", "both_flags", "dup_name", "few_args", "no_proc", "clock_guard", "bad_inv", "open_tail"])
    es = [(t, e) for t in ts for e in t["edges"]]
    if kind in ("unknown_id", "sync_int", "clock_guard") and es:
        t, e = r.choice(es)
        e["labels"] = [l for l in e["labels"] if l[0] not in ("guard", "synchronisation")]
        if kind == "unknown_id":
            e["labels"].insert(0, ["guard", ["GT", ["id", "zz"], ["int", 77001]]])
        elif kind == "clock_guard":
            e["labels"].insert(0, ["guard", ["id", "x"]])
        else:
            e["labels"].insert(0, ["synchronisation", [["id", "m"], "!"]])
        order = {"select": 0, "guard": 1, "synchronisation": 2, "assignment": 3, "probability": 4}
        e["labels"].sort(key=lambda l: order[l[0]])
    elif kind == "both_flags" and ts:
        l = r.choice(r.choice(ts)["locs"])
        l["urgent"] = l["committed"] = True
    elif kind == "dup_name" and ts:
        t = r.choice(ts)
        if len(t["locs"]) >= 2:
            t["locs"][1]["name"] = t["locs"][0]["name"] = "Dup"
            # (with an urgent/committed flag on a duplicated name the two formats legitimately differ: XML marks the location
            #  just read, the XTA commit/urgent lists resolve the name after all states, i.e. to the last duplicate; both
            #  report the duplicate definition.  Not part of the common subset.)
            for l in t["locs"][:2]:
                l["urgent"] = l["committed"] = False
    elif kind == "few_args" and M["insts"]:
        i = r.choice(M["insts"])
        i["args"] = i["args"][:-1] if i["args"] else [["int", 5]]
    elif kind == "no_proc":
        M["procs"].append({"name": "Zed", "lt": False})
    elif kind == "open_tail":
        M["system_tail"] = r.choice(OPEN_TAILS)
    elif kind == "bad_inv" and ts:
        l = r.choice(r.choice(ts)["locs"])
        l["labels"] = [["invariant", ["GE", ["id", "m"], ["PLUS", ["id", "x"], ["int", 77002]]]]]


class Runner:
    def __init__(self):
        self.b = core.build_repo("asan")
        self.exe = core.build_harness(self.b, "c04", ["c04.cpp"])
        self.drv = core.lean_exe("drv_c05")
        blocks, _ = m.run_batches(self.exe, [], [("ref", m.frame("xml", "ref", m.REF_XML))], nproc=1)
        self.norm = m.Normalizer(blocks["ref"])

    def compare(self, cases):
        """cases: {cid: (M, prefs)} -> ({cid: result} for disagreeing cases, stats)"""
        frames, lean, keys, texts = [], [], {}, {}
        for cid, (M, prefs) in cases.items():
            # every third model is written with the text-layer variations of C04 (CDATA sections, character references, comments, blanks,
            # attribute order): the XML front end must deliver the same texts to the grammar as the plain rendering
            xv = random.Random(zlib.crc32(cid.encode()) * 31 + len(M["templates"])) if zlib.crc32(cid.encode()) % 3 == 0 else None
            xml = m.XmlText(xv).render(M)
            vary = random.Random(len(xml) * 7919 + len(cid)) if M.get("vary_xta") else None
            xta = m.render_xta(M, prefs, vary)
            texts[cid] = (xml, xta)
            frames.append((cid + ".xml", m.frame("xml", cid + ".xml", xml)))
            frames.append((cid + ".xta", m.frame("xta", cid + ".xta", xta)))
            if zlib.crc32(cid.encode()) % 6 == 1 or M.get("system_tail"):
                # the same two texts as files: which entry point of a format is used is no more observable than the format
                frames.append((cid + ".xmlf", m.frame("xmlf", cid + ".xmlf", xml)))
                frames.append((cid + ".xtaf", m.frame("xtaf", cid + ".xtaf", xta)))
            keys[cid] = m.Keys()
            lean += ["model " + cid] + m.lean_lines(M, keys[cid])[:-1] + ["prefs " + " ".join("1" if p else "0" for p in prefs), "end"]
        blocks, crashed = m.run_batches(self.exe, [], frames)
        rc, lblocks, lerr = m.run_lean(self.drv, lean)
        bad = {}
        stats = {"accepted": 0, "with_diagnostics": 0, "chained_used": 0}
        for cid, (M, prefs) in cases.items():
            res = {}
            bx = blocks.get(cid + ".xml", ["<<NO-OUTPUT>>"])
            bt = blocks.get(cid + ".xta", ["<<NO-OUTPUT>>"])
            trx, docx, restx = self.norm.normalize(bx, keys[cid])
            trt, doct, restt = self.norm.normalize(bt, keys[cid])
            if any(l.startswith("VERDICT errors=0") for l in restx):
                stats["accepted"] += 1
            if any(l.startswith(("ERROR", "WARNING")) for l in restx):
                stats["with_diagnostics"] += 1
            if ",\n    ->" in texts[cid][1] or ",\n    -u->" in texts[cid][1]:
                stats["chained_used"] += 1
            for c in (cid + ".xml", cid + ".xta", cid + ".xmlf", cid + ".xtaf"):
                if c in crashed:
                    res["crash"] = (c, crashed[c])
            anomalies = [l for l in restx + restt if l.startswith(("EXCEPTION", "TRACE-EXCEPTION", "TRACED-DOCUMENT-DIFFERS", "<<"))]
            if anomalies:
                res["anomaly"] = anomalies[:3]
            for fmt, bb in (("xml", bx), ("xta", bt)):
                bf = blocks.get(cid + "." + fmt + "f")
                if bf is not None:
                    stats["file_entry_points"] = stats.get("file_entry_points", 0) + 1
                    d = m.first_diff(bb, bf)
                    if d:
                        res["entry_point"] = {"format": fmt, "line": d[0], "buffer": d[1], "file": d[2]}
            # oracle: XML document == XTA document, diagnostics and verdict included
            d = m.first_diff(docx, doct)
            if d:
                res["doc_xml_vs_xta"] = {"line": d[0], "xml": d[1], "xta": d[2]}
            dx = sorted(l for l in restx if l.startswith(("ERROR", "WARNING", "VERDICT", "hasPriorities")))
            dt = sorted(l for l in restt if l.startswith(("ERROR", "WARNING", "VERDICT", "hasPriorities")))
            d = m.first_diff(dx, dt)
            if d:
                res["diagnostics_xml_vs_xta"] = {"xml": d[1], "xta": d[2]}
            ax = [l for l in restx if l.startswith("ACTNAMES")]
            at = [l for l in restt if l.startswith("ACTNAMES")]
            if ax != at:
                res["actname"] = {"xml": ax, "xta": at}
            if M.get("faulty"):
                stats["fault_injected"] = stats.get("fault_injected", 0) + 1
                if res:
                    res["texts"] = texts[cid]
                    bad[cid] = res
                continue            # outside the model's common subset: only the oracle (XML result == XTA result) applies
            # correspondence with the Lean prediction
            lb = lblocks.get(cid, [])
            hdr = [l for l in lb if l.split(" ")[0] in HDR]
            lxta = [l[9:] for l in lb if l.startswith("XTATRACE ")]
            lxml = [l[9:] for l in lb if l.startswith("XMLTRACE ")]
            ldoc = [l for l in lb if not l.startswith(("XTATRACE ", "XMLTRACE ")) and l.split(" ")[0] not in HDR]
            d = None if M.get("vary_xta") else m.first_diff([l[6:] for l in trt], lxta)
            if d:
                res["trace_xta"] = {"line": d[0], "library": d[1], "model": d[2]}
            d = m.first_diff([l[6:] for l in trx], lxml)
            if d:
                res["trace_xml"] = {"line": d[0], "library": d[1], "model": d[2]}
            d = m.first_diff(doct, ldoc)
            if d:
                res["doc_xta_vs_model"] = {"line": d[0], "library": d[1], "model": d[2]}
            if hdr != ["SUBSET 1", "SAME-DOC 1"]:
                res["lean"] = hdr
            if res:
                res["texts"] = texts[cid]
                bad[cid] = res
        return bad, stats


def classify(res):
    if "crash" in res:
        return "crash:" + res["crash"][0].split(".")[-1]
    if "anomaly" in res:
        return "exception:parse"
    if "entry_point" in res:
        return "entry-point:%s-file-vs-buffer" % res["entry_point"]["format"]
    if "doc_xml_vs_xta" in res:
        a = (res["doc_xml_vs_xta"]["xml"].strip().split(" ") or ["line"])[0]
        x, y = res["doc_xml_vs_xta"]["xml"].split(" "), res["doc_xml_vs_xta"]["xta"].split(" ")
        field = "structure"
        if len(x) == len(y):
            for p, q in zip(x, y):
                if p != q:
                    field = p.split("=")[0] if "=" in p else "endpoint/name"
                    break
        return "xml-vs-xta:%s/%s" % (a, field)
    if "diagnostics_xml_vs_xta" in res:
        return "xml-vs-xta:diagnostics"
    if "actname" in res:
        return "edge:actname-default-differs"
    for k in ("trace_xta", "trace_xml", "doc_xta_vs_model", "lean"):
        if k in res:
            return "model:" + k
    return "model:?"


def sequence_stage(ctx, R, cov, cases):
    """call sequences: a model whose last text ends in an unfinished lexical state (OPEN_TAILS), through each of the four entry points, and
    then other models in the SAME process.  What the later parses give must be what they give in a process of their own: nothing of one
    parse (scanner start condition, buffers, counters) may survive into the next.  Testing only."""
    r = ctx.rng
    clean = [c for c, (M, _p) in cases.items() if not M.get("faulty")][:3 if not ctx.thorough else 12]
    if not clean:
        return
    texts = {c: (m.XmlText(None).render(cases[c][0]), m.render_xta(cases[c][0], cases[c][1], None)) for c in clean}
    alone = [("%s.%s" % (c, fmt), m.frame(fmt, "%s.%s" % (c, fmt), texts[c][k])) for c in clean for k, fmt in enumerate(("xml", "xta"))]
    fresh, _ = m.run_batches(R.exe, [], alone, nproc=len(alone))                     # one process per text
    seqs, frames = [], []
    entries = ["xml", "xta", "xmlf", "xtaf"]
    for k, tail in enumerate(OPEN_TAILS * (1 if not ctx.thorough else 6)):
        while True:
            P, pp = gen_case(r.getrandbits(48))
            if not P.get("faulty"):
                break
        P.pop("vary_xta", None)
        P["system_tail"] = tail
        ptext = (m.XmlText(None).render(P), m.render_xta(P, pp, None))
        c = clean[k % len(clean)]
        first, second = entries[k % 4], entries[(k + 1 + k // 4) % 4]
        seq = [("p%d.a" % k, first, ptext[0 if first.startswith("xml") else 1]), ("s%d.1" % k, "xml", texts[c][0]), ("s%d.2" % k, "xta", texts[c][1]),
               ("p%d.b" % k, second, ptext[0 if second.startswith("xml") else 1]), ("s%d.3" % k, "xta", texts[c][1]), ("s%d.4" % k, "xml", texts[c][0])]
        seqs.append((k, tail, c, first, second, ptext))
        frames += [(cid, m.frame(op, cid, t)) for cid, op, t in seq]
    blocks, crashed = m.run_batches(R.exe, [], frames, nproc=min(len(seqs), 16))      # quick tier: chunks of six frames, one process per sequence
    nbad = 0

    def strip(b, cid):            # (the block header carries the id)
        return [l for l in (b or ["<<NO-OUTPUT>>"]) if not l.startswith(("BEGIN ", "END "))]
    for k, tail, c, first, second, ptext in seqs:
        for j, fmt in ((1, "xml"), (2, "xta"), (3, "xta"), (4, "xml")):
            got, want = strip(blocks.get("s%d.%d" % (k, j)), None), strip(fresh.get("%s.%s" % (c, fmt)), None)
            d = m.first_diff(want, got)
            if d:
                nbad += 1
                if nbad <= 2:
                    after = first if j <= 2 else second
                    ctx.finding("sequence:after-%s" % TAIL_NAME[tail],
                                "a model read after another one whose text ends inside an unfinished %s (entry point %s) gives another result than "
                                "in a process of its own: line %d: %r instead of %r" % (TAIL_NAME[tail], after, d[0], d[2][:200], d[1][:200]),
                                {"sequence": "in one process: %s of `first`, then %s of `second`" % (after, fmt), "first_xml": ptext[0], "first_xta": ptext[1],
                                 "second_xml": texts[c][0], "second_xta": texts[c][1], "observed_line": d[2], "alone_line": d[1]})
                break
    cov["sequences_after_unfinished_text"] = len(seqs)
    cov["sequence_differences"] = nbad


def old_syntax_stage(ctx, R, cov):
    """models in the 3.x syntax (newxta = false), rendered by hand in both formats: comma lists as conjunctions in guards and invariants,
    `:=` assignments, parameter-less `process P {`, `const` without a type; some declare names that the 4.x prelude predeclares
    (INT16_MAX, int8_t ...; free names in 3.x, whose models start from an empty global scope).  Each pair goes through the buffer AND the file
    entry point of its format: four results that must be one.  Testing only (the Lean models describe the 4.x syntax)."""
    r = ctx.rng
    pairs = {}
    for k in range(12 if not ctx.thorough else 120):
        ng, ni, na = r.randint(1, 3), r.randint(1, 3), r.randint(1, 3)
        gl = ["c >= %d" % r.randint(0, 3), "d >= %d" % r.randint(0, 3), "x == %d" % r.randint(0, 2)][:ng]
        il = ["c <= %d" % r.randint(4, 9), "d <= %d" % r.randint(4, 9), "c - d <= %d" % r.randint(1, 5)][:ni]
        al = ["x := %d" % r.randint(0, 3), "y := x + %d" % r.randint(1, 3), "c := 0"][:na]
        decl = "const N %d; int x, y; clock c, d; chan a;" % r.randint(1, 5)
        if k % 3 == 1:
            decl += " " + r.choice(["const INT16_MAX 32767;", "const INT8_MIN -128, INT8_MAX 127;", "int int8_t;", "int uint16_t := 3, M_PI := 3;",
                                    "const INT32_MAX 2147483647; int int32_t[2];"])
        xta = ("%s\nprocess P { state S0 { %s }, S1; init S0; trans S0 -> S1 { guard %s; sync a!; assign %s; }, S1 -> S0 { guard x <= N; assign c := 0; }; }\n"
               "process Q { state T0; init T0; trans T0 -> T0 { sync a?; }; }\nsystem P, Q;\n" % (decl, ", ".join(il), ", ".join(gl), ", ".join(al)))
        xml = ('<?xml version="1.0" encoding="utf-8"?><nta><declaration>%s</declaration>'
               '<template><name>P</name><location id="id0"><name>S0</name><label kind="invariant">%s</label></location>'
               '<location id="id1"><name>S1</name></location><init ref="id0"/>'
               '<transition><source ref="id0"/><target ref="id1"/><label kind="guard">%s</label><label kind="synchronisation">a!</label>'
               '<label kind="assignment">%s</label></transition>'
               '<transition><source ref="id1"/><target ref="id0"/><label kind="guard">x &lt;= N</label><label kind="assignment">c := 0</label></transition></template>'
               '<template><name>Q</name><location id="id2"><name>T0</name></location><init ref="id2"/>'
               '<transition><source ref="id2"/><target ref="id2"/><label kind="synchronisation">a?</label></transition></template>'
               '<system>system P, Q;</system></nta>' % (decl, ", ".join(il).replace("<", "&lt;"), ", ".join(gl).replace(">", "&gt;"), ", ".join(al)))
        pairs["o%d" % k] = (xml, xta)
    frames = []
    for cid, (xml, xta) in pairs.items():
        frames += [(cid + ".xml", m.frame("xml0", cid + ".xml", xml)), (cid + ".xta", m.frame("xta0", cid + ".xta", xta)),
                   (cid + ".xmlf", m.frame("xmlf0", cid + ".xmlf", xml)), (cid + ".xtaf", m.frame("xtaf0", cid + ".xtaf", xta))]
    blocks, crashed = m.run_batches(R.exe, [], frames)
    nbad, accepted, nfile = 0, 0, 0

    def view(b):
        doc = [l for l in b if not l.startswith(("TRACE", "BEGIN", "END", "ERROR", "WARNING", "ACTNAMES"))]     # (action names: finding of their own)
        diag = sorted(re.sub(r' path=.*$', "", l) for l in b if l.startswith(("ERROR", "WARNING")))
        return doc, diag
    for cid, (xml, xta) in pairs.items():
        bx, bt, bxf, btf = (blocks.get(cid + e) for e in (".xml", ".xta", ".xmlf", ".xtaf"))
        if bx is None or bt is None or bxf is None or btf is None:
            ctx.finding("crash:old-syntax", "the harness died on an old-syntax model", {"xml": xml, "xta": xta})
            break
        (dx, ex), (dt, et) = view(bx), view(bt)
        accepted += any(l.startswith("VERDICT errors=0") for l in bx)
        for fmt, bb, bf in (("xml", bx, bxf), ("xta", bt, btf)):
            if view(bb) != view(bf):
                nfile += 1
                if nfile == 1:
                    d = m.first_diff(view(bb)[0] + view(bb)[1], view(bf)[0] + view(bf)[1])
                    ctx.finding("entry-point:old-syntax:%s-file-vs-buffer" % fmt,
                                "a 3.x-syntax model read from a file gives another result than the same text read from a buffer (%s): line %d: %r vs %r"
                                % ("parse_XML_file vs parse_XML_buffer" if fmt == "xml" else "parse_XTA(FILE*) vs parse_XTA(const char*)", d[0], d[2][:200], d[1][:200]),
                                {"entry": "newxta=false", "xml": xml, "xta": xta, "file_result": (view(bf)[0] + view(bf)[1])[:60],
                                 "buffer_result": (view(bb)[0] + view(bb)[1])[:60]})
        if dx != dt or ex != et:
            nbad += 1
            if nbad == 1:
                d = [(a, b_) for a, b_ in zip(dx + ex, dt + et) if a != b_][:2]
                ctx.finding("xml-vs-xta:old-syntax", "the XML and the XTA rendering of the same 3.x-syntax model give different results: %r" % (d,),
                            {"entry": "parse_XML_buffer(xml, Document*, newxta=false) vs parse_XTA(xta, Document*, newxta=false)", "xml": xml, "xta": xta,
                             "xml_result": (dx + ex)[:60], "xta_result": (dt + et)[:60]})
    cov["old_syntax_pairs"] = len(pairs)
    cov["old_syntax_accepted"] = accepted
    cov["old_syntax_differences"] = nbad
    cov["old_syntax_file_vs_buffer_differences"] = nfile


def run(ctx):
    cov = ctx.coverage
    m.regen_tables(ctx)      # on failure (reported as a broken tie) go on with the tables of the last good run: the oracle below finds the input
    ok, log = ctx.prove(MODULE, ["drv_c05"])
    broken = []
    if not ok:
        broken = core.failing_theorems(log)
        ctx.log("proof broken:", broken or log[-1500:])
        if not os.path.exists(core.lean_exe("drv_c05")):
            for path, thm, msg in (broken or [("?", "lake build", log[-300:])]):
                ctx.proof_broken(thm, msg + "\n" + log[-2000:], "nothing could be run")
            return
    R = Runner()
    n = 1200 if not ctx.thorough else 15000
    cases = {}
    shapes = set()
    tot = {"templates": 0, "locations": 0, "branchpoints": 0, "edges": 0, "insts": 0, "procs": 0}
    for i in range(n):
        M, prefs = gen_case(ctx.rng.getrandbits(48), (ctx.thorough and i % 4 == 0) or (not ctx.thorough and i % 7 == 0))
        cases["c%d" % i] = (M, prefs)
        st = m.model_stats(M)
        for k, v in st.items():
            tot[k] += v
        shapes.add(json.dumps(st))
    t1 = time.time()
    bad, stats = R.compare(cases)
    cov["run_s"] = round(time.time() - t1, 1)
    old_syntax_stage(ctx, R, cov)
    sequence_stage(ctx, R, cov, cases)
    real = {c: r for c, r in bad.items() if any(k in r for k in ("crash", "anomaly", "entry_point", "doc_xml_vs_xta", "diagnostics_xml_vs_xta"))}
    act = {c: r for c, r in bad.items() if "actname" in r and c not in real}
    modelonly = {c: r for c, r in bad.items() if c not in real and any(k in r for k in ("trace_xta", "trace_xml", "doc_xta_vs_model", "lean"))}
    cov.update({"evaluations": len(cases), "correspondence_cases": 2 * len(cases), "correspondence_disagreements": len(modelonly),
                "oracle_disagreements": len(real), "distinct_nontrivial": len(shapes), "distribution": dict(tot, **stats),
                "rule": "dump(parse_XML_buffer(xml(M))) == dump(parse_XTA(xta(M))) incl. diagnostic messages and verdict; "
                        "both callback traces and the dump == drv_c05's prediction",
                "samples": [{"model": m.model_stats(cases[c][0])} for c in list(cases)[:2]]})
    for cid, res in list(real.items())[:5]:
        key = classify(res)
        M, prefs = cases[cid]

        def still(N, key=key, prefs=prefs):
            b, _ = R.compare({"s": (N, prefs)})
            return "s" in b and classify(b["s"]) == key
        try:
            M = m.shrink(M, still, budget=60 if not ctx.thorough else 200)
        except Exception as ex:
            ctx.log("shrink failed", ex)
        b, _ = R.compare({"s": (M, prefs)})
        res = b.get("s", res)
        xml, xta = res["texts"]
        ctx.finding(key, "the XML and the XTA rendering of the same model give different results: %s" %
                    json.dumps({k: v for k, v in res.items() if k not in ("texts",)})[:600],
                    {"entries": ["parse_XML_buffer(xml, Document*, true)", "parse_XTA(xta, Document*, true)"], "xml": xml, "xta": xta,
                     "xml_b64": base64.b64encode(xml.encode()).decode(), "xta_b64": base64.b64encode(xta.encode()).decode(),
                     "observed": {k: v for k, v in res.items() if k != "texts"}})
    if act:
        cid, res = next(iter(act.items()))
        xml, xta = res["texts"]
        ctx.finding("edge:actname-default-differs",
                    "edge_t::actname is \"SKIP\" for every edge read from XML without an action attribute and \"\" for the same edge "
                    "read from XTA (XMLReader::transition passes \"SKIP\", the grammar relies on the default argument \"\" of "
                    "proc_edge_begin): %r" % res["actname"], {"xml": xml, "xta": xta, "observed": res["actname"]})
    for cid, res in list(modelonly.items())[:3]:
        ctx.proof_broken("correspondence:" + classify(res), json.dumps({k: v for k, v in res.items() if k != "texts"})[:1500],
                         "the real XML and XTA documents agree with each other on all %d models" % len(cases))
    if not ok and not [v for v in ctx.violations if not v[3]]:
        for path, thm, msg in (broken or [("?", "lake build", log[-300:])]):
            ctx.proof_broken(thm, msg + "\n" + log[-2000:], "oracle on the generated models of the real library: no failing input")
    ctx.assumptions += [
        "common subset: well-formed models (C04), edge labels in the order of the XTA grammar with one of each kind, ids such that "
        "_<id> is an identifier, no probability section on chained transitions (the grammar has none), ids unique in the whole file",
        "diagnostics and the supported-methods verdict are computed from the built document by static_analysis(); in the model their "
        "equality follows from document equality, on the real library they are compared (messages without positions)",
        "texts handed to the expression / declaration grammar are opaque keys in the model",
    ]


def replay(ctx, path):
    r = json.load(open(path))
    rep = r.get("replay", {})
    if "xml" not in rep and "first_xml" not in rep:
        print(json.dumps(r, indent=1)[:4000])
        return 1
    b = core.build_repo("asan")
    exe = core.build_harness(b, "c04", ["c04.cpp"])
    body = lambda ls: [l for l in ls if not l.startswith(("BEGIN ", "END "))]
    if "first_xml" in rep:
        # a sequence: the second model after the first in one process, and alone
        both, _ = m.run_batches(exe, [], [("a", m.frame("xml", "a", rep["first_xml"])), ("b", m.frame("xta", "b", rep["first_xta"])),
                                          ("x", m.frame("xml", "x", rep["second_xml"])), ("t", m.frame("xta", "t", rep["second_xta"]))], nproc=1)
        alone, _ = m.run_batches(exe, [], [("x", m.frame("xml", "x", rep["second_xml"])), ("t", m.frame("xta", "t", rep["second_xta"]))], nproc=2)
        d = m.first_diff(body(alone.get("x", [])), body(both.get("x", []))) or m.first_diff(body(alone.get("t", [])), body(both.get("t", [])))
        print("first difference between the second model alone and after the first:", d)
        return 1 if d else 0
    if rep.get("entry") == "newxta=false" or "newxta=false" in str(rep.get("entry")):
        ops = [("xml0", "xml"), ("xta0", "xta"), ("xmlf0", "xml"), ("xtaf0", "xta")]
        blocks, _ = m.run_batches(exe, [], [(o, m.frame(o, o, rep[k])) for o, k in ops], nproc=1)
        keep0 = lambda ls: [re.sub(r' path=.*$', "", l) for l in body(ls) if not l.startswith(("TRACE", "ACTNAMES"))]
        d = None
        for o, _k in ops[1:]:
            d = d or m.first_diff(keep0(blocks.get("xml0", [])), keep0(blocks.get(o, [])))
            print("parse_XML_buffer vs %s:" % o, m.first_diff(keep0(blocks.get("xml0", [])), keep0(blocks.get(o, []))))
        return 1 if d else 0
    blocks, crashed = m.run_batches(exe, [], [("xml", m.frame("xml", "xml", rep["xml"])), ("xta", m.frame("xta", "xta", rep["xta"]))], nproc=1)
    keep = lambda ls: [l for l in ls if not l.startswith("TRACE ") and not l.startswith("  var ") and not l.startswith("  typedef ")]
    bx, bt = keep(blocks.get("xml", [])), keep(blocks.get("xta", []))
    d = m.first_diff(bx, bt)
    print("first difference between the XML and the XTA result:", d)
    print(json.dumps(rep.get("observed"), indent=1))
    return 1 if d else 0
