/-
M-RATEDEC — what the type checker stores as a location's invariant (C04: "each location with its ... invariant and rate labels ... nothing
added, dropped, duplicated"; C16: the invariants of the other locations).

`TypeChecker::visitLocation` replaces a well-typed invariant by `RateDecomposer::decompose(inv)`: a left-nested conjunction that starts
with the constant 1 and takes, in source order, every conjunct of the invariant except the cost rates (`cost' == e`), which go to
`location_t::cost_rate`; a quantified conjunct is taken whole, its body is only searched for rates.

The tree the decomposer sees, abstracted to what it looks at:
  * `inv strict n`   a sub-expression with `is_invariant` (no rate inside); `strict` = its top node is `<`
  * `and a b`        a conjunction that is not itself rate-free
  * `rate cost n`    `x' == e` / `e == x'`; `cost` = the differentiated variable is a cost variable
  * `all body n`     `forall (..) body` of type INVARIANT_WR
`n` names the sub-expression.  The decomposer's state is `Acc`; `decompose cfg` follows `RateDecomposer::decompose`, with the points the
translator reads from the source as parameters (`Gen/RateDecompCfg.lean`, translate/ratedecomp.py).  Core Lean only.
-/
namespace UtapModel.RateDecomp

inductive WR where
  | inv (strict : Bool) (n : Nat)
  | and (a b : WR)
  | rate (cost : Bool) (n : Nat)
  | all (body : WR) (n : Nat)
deriving DecidableEq, Repr, Inhabited

/-- what the translator reads from `RateDecomposer::decompose` and the class's initialisers -/
structure Cfg where
  startsWithOne : Bool        -- `expression_t invariant{expression_t::create_constant(1)}`
  invGuarded : Bool           -- the rate-free case records only `if (!inforall)`
  rateGuarded : Bool          -- the clock-rate case records only `if (!inforall)`
  andLeftPasses : Bool        -- `decompose(expr[0], inforall)`
  andRightPasses : Bool       -- `decompose(expr[1], inforall)`
  allBodyInForall : Bool      -- `decompose(expr[1], true)` in the FORALL case
  allRecordsWhole : Bool      -- the FORALL case appends the whole quantified expression
  allGuarded : Bool           -- .. only `if (!inforall)`: a quantifier nested in another one is part of that one
  costNotRecorded : Bool      -- the cost-rate case appends nothing to the invariant
deriving DecidableEq, Repr

/-- the reading the theorems are about -/
def pinned : Cfg :=
  { startsWithOne := true, invGuarded := true, rateGuarded := true, andLeftPasses := true, andRightPasses := true,
    allBodyInForall := true, allRecordsWhole := true, allGuarded := true, costNotRecorded := true }

/-- a conjunct of the stored invariant: the constant 1 or a sub-expression of the source by name -/
inductive Conj where
  | one
  | sub (n : Nat)
deriving DecidableEq, Repr, Inhabited

structure Acc where
  conj : List Conj            -- `invariant`, as the list of the operands of its left-nested conjunction
  cost : Option Nat           -- `costRate`
  costCount : Nat             -- `countCostRates`
  clockRates : Bool           -- `hasClockRates`
  strict : Bool               -- `hasStrictInvariant`
deriving DecidableEq, Repr, Inhabited

def init (cfg : Cfg) : Acc :=
  { conj := if cfg.startsWithOne then [.one] else [], cost := none, costCount := 0, clockRates := false, strict := false }

def decompose (cfg : Cfg) : WR → Bool → Acc → Acc
  | .inv strict n, inforall, a =>
    let a := if strict then { a with strict := true } else a
    if cfg.invGuarded && inforall then a else { a with conj := a.conj ++ [.sub n] }
  | .and x y, inforall, a =>
    decompose cfg y (if cfg.andRightPasses then inforall else false) (decompose cfg x (if cfg.andLeftPasses then inforall else false) a)
  | .rate true n, _, a =>
    let a := { a with cost := some n, costCount := a.costCount + 1 }
    if cfg.costNotRecorded then a else { a with conj := a.conj ++ [.sub n] }
  | .rate false n, inforall, a =>
    let a := { a with clockRates := true }
    if cfg.rateGuarded && inforall then a else { a with conj := a.conj ++ [.sub n] }
  | .all body n, inforall, a =>
    let a := decompose cfg body (if cfg.allBodyInForall then true else inforall) a
    if cfg.allRecordsWhole && !(cfg.allGuarded && inforall) then { a with conj := a.conj ++ [.sub n] } else a

/-- `visitLocation`: a fresh decomposer on the whole invariant -/
def stored (cfg : Cfg) (e : WR) : Acc := decompose cfg e false (init cfg)

/-! ### the specification: the conjuncts of the source, in order -/

/-- the conjuncts of the source invariant: the leaves of its conjunction spine, left to right (a quantified conjunct is one leaf) -/
def spine : WR → List WR
  | .and a b => spine a ++ spine b
  | e => [e]

def isCost : WR → Bool
  | .rate true _ => true
  | _ => false

def name : WR → Nat
  | .inv _ n => n
  | .and _ _ => 0
  | .rate _ n => n
  | .all _ n => n

/-- cost rates anywhere (a quantified body included), in source order -/
def costs : WR → List Nat
  | .inv _ _ => []
  | .and a b => costs a ++ costs b
  | .rate true n => [n]
  | .rate false _ => []
  | .all b _ => costs b

def hasClockRate : WR → Bool
  | .inv _ _ => false
  | .and a b => hasClockRate a || hasClockRate b
  | .rate c _ => !c
  | .all b _ => hasClockRate b

def hasStrict : WR → Bool
  | .inv s _ => s
  | .and a b => hasStrict a || hasStrict b
  | .rate _ _ => false
  | .all b _ => hasStrict b

/-- a line of the driver's output: the names of the stored conjuncts (0 = the constant 1), the cost rate, the counters and flags -/
def Acc.line (a : Acc) : String :=
  let cs := a.conj.map (fun c => match c with | .one => "1" | .sub n => "#" ++ toString n)
  " ".intercalate cs ++ " | cost=" ++ (match a.cost with | some n => "#" ++ toString n | none => "-") ++
    " count=" ++ toString a.costCount ++ " clockRates=" ++ toString a.clockRates ++ " strict=" ++ toString a.strict

end UtapModel.RateDecomp
