#!/usr/bin/env python3
"""Translators for the position machinery (properties C06 and C15).  Each fails closed (TranslateError) on a source shape
it does not recognise; nothing is silently skipped.

  lexer.l        -> Gen/LexRules.lean : every rule of the lexer as (start condition, pattern kind, argument of the
                                        tracker.newline call, BEGIN target, reported error)   + the YY_USER_ACTION check
  libparser.h    -> Gen/PosGen.lean   : PositionTracker::setPath / increment / newline as field updates
  position.cpp   -> Gen/PosGen.lean   : comparison of the monotonicity check in add, the binary search of find
  document.cpp   -> Gen/PosGen.lean   : which ends of the range add_error / add_warning resolve
  xmlreader.cpp  -> Gen/PathTable.lean: the switch of Path::str (tag, printed name, counted tag) and tag_map
  parser.y       -> Gen/ParseGlobals.lean : the per-call initialisation sequence of parse_XTA / parseProperty and the
                                        reads/writes of the parser's file-scope variables (C15)
"""
import os
import re


class TranslateError(Exception):
    pass


def strip_c_comments(src):
    out, i, n = [], 0, len(src)
    while i < n:
        if src.startswith("/*", i):
            j = src.find("*/", i + 2)
            j = n if j < 0 else j + 2
            out.append(" " * 1 + "\n" * src.count("\n", i, j))
            i = j
        elif src.startswith("//", i):
            j = src.find("\n", i)
            i = n if j < 0 else j
        elif src[i] == '"':
            j = i + 1
            while j < n and src[j] != '"':
                j += 2 if src[j] == "\\" else 1
            out.append(src[i:j + 1])
            i = j + 1
        elif src[i] == "'":
            j = i + 1
            while j < n and src[j] != "'":
                j += 2 if src[j] == "\\" else 1
            out.append(src[i:j + 1])
            i = j + 1
        else:
            out.append(src[i])
            i += 1
    return "".join(out)


def norm(s):
    return re.sub(r"\s+", " ", s).strip()


def lean_str(s):
    o = '"'
    for ch in s:
        c = ord(ch)
        if ch == '"' or ch == "\\":
            o += "\\" + ch
        elif ch == "\n":
            o += "\\n"
        elif ch == "\t":
            o += "\\t"
        elif ch == "\r":
            o += "\\r"
        elif c < 32 or c > 126:
            o += "\\x%02x" % c
        else:
            o += ch
    return o + '"'


def lean_char(ch):
    c = ord(ch)
    if ch in "'\\":
        return "'\\%s'" % ch
    if ch == "\n":
        return "'\\n'"
    if ch == "\t":
        return "'\\t'"
    if ch == "\r":
        return "'\\r'"
    if c < 32 or c > 126:
        return "(Char.ofNat %d)" % c
    return "'%s'" % ch


# ------------------------------------------------------------------------------------------------------------------
# lexer.l
# ------------------------------------------------------------------------------------------------------------------

PATTERNS = {
    r'"\\"[\t ]*"\n"': ".contin",
    r'"//"[^\n]*': ".lineComment",
    r"[ \t]+": ".blanks",
    r"\n+": ".nls",
    r"(\r\n)+": ".crlfs",
    r"{alpha}{idchr}*": ".ident",
    r"{num}": ".num",
    r'{num}("."{num})?([eE]("+"|"-")?{num})?': ".float",
    r".": ".any",
    r'\"[^\"]+\"': ".str",
    r"\n": ".nl1",
    r'"EXPECT:"[^\t \n]*': ".expect",
    r'"EXPECT:"([^\t \n*]|"*"+[^\t \n*/])*': ".expect2",
    r"<<EOF>>": ".eof",
}
DEFINITIONS = {"alpha": "[a-zA-Z_]", "num": "[0-9]+", "idchr": "[a-zA-Z0-9_$#]"}
YY_USER_ACTION = "yylloc.start = tracker.position; tracker.increment(ch, yyleng); yylloc.end = tracker.position;"


def _read_pattern(line):
    """split a rule line into (pattern, rest); pattern ends at the first blank outside quotes / brackets"""
    i, n = 0, len(line)
    while i < n:
        c = line[i]
        if c == '"':
            i += 1
            while i < n and line[i] != '"':
                i += 2 if line[i] == "\\" else 1
            i += 1
        elif c == "[":
            i += 1
            while i < n and line[i] != "]":
                i += 2 if line[i] == "\\" else 1
            i += 1
        elif c == "\\":
            i += 2
        elif c in " \t":
            break
        else:
            i += 1
    return line[:i], line[i:]


def _unescape_lit(p):
    """a pattern that is a single quoted literal -> its text, else None"""
    if len(p) < 2 or p[0] != '"' or p[-1] != '"':
        return None
    body, out, i = p[1:-1], [], 0
    while i < len(body):
        if body[i] == '"':
            return None
        if body[i] == "\\":
            i += 1
            if i >= len(body):
                return None
            esc = {"n": "\n", "t": "\t", "r": "\r", "\\": "\\", '"': '"'}
            if body[i] not in esc:
                return None
            out.append(esc[body[i]])
        else:
            out.append(body[i])
        i += 1
    return "".join(out)


def lexer_rules(repo):
    src = open(os.path.join(repo, "src", "lexer.l")).read()
    parts = re.split(r"^%%[ \t]*$", src, flags=re.M)
    if len(parts) != 3:
        raise TranslateError("lexer.l: expected three sections, got %d" % len(parts))
    head, rules_src, _ = parts
    # definitions and YY_USER_ACTION
    for name, val in DEFINITIONS.items():
        m = re.search(r"^%s\s+(\S+)\s*$" % name, head, re.M)
        if not m or m.group(1) != val:
            raise TranslateError("lexer.l: definition of {%s} is %r, expected %r" % (name, m and m.group(1), val))
    m = re.search(r"^#define\s+YY_USER_ACTION\s+(.*)$", head, re.M)
    if not m or norm(m.group(1)) != YY_USER_ACTION:
        raise TranslateError("lexer.l: YY_USER_ACTION is %r" % (m and m.group(1)))
    m = re.findall(r"^%x\s+(\w+)", head, re.M)
    if m != ["comment"]:
        raise TranslateError("lexer.l: exclusive start conditions %r (model knows: comment)" % m)
    if re.search(r"^%s\s", head, re.M):
        raise TranslateError("lexer.l: inclusive start conditions are not modelled")
    lines = rules_src.split("\n")
    rules = []  # (mode, patkind, littext, nlarg, begin, err, srcline)
    mode = "initial"
    i = 0
    base_line = head.count("\n") + 2
    while i < len(lines):
        line = lines[i]
        s = line.strip()
        if not s:
            i += 1
            continue
        if s == "<comment>{":
            mode = "comment"
            i += 1
            continue
        if s == "}" and mode == "comment":
            mode = "initial"
            i += 1
            continue
        if line[0] in " \t" and mode == "initial":
            raise TranslateError("lexer.l:%d: indented text in the rules section: %r" % (base_line + i, line))
        pat, rest = _read_pattern(s)
        # collect the action: balanced braces, possibly over several lines
        action = rest.strip()
        if action.startswith("{"):
            def braces(t):
                t = re.sub(r"'(\\.|[^'\\])'", "", t)
                t = re.sub(r'"(\\.|[^"\\])*"', "", t)
                return t.count("{") - t.count("}")
            depth = braces(action)
            while depth > 0:
                i += 1
                if i >= len(lines):
                    raise TranslateError("lexer.l: unterminated action of %r" % pat)
                action += "\n" + lines[i]
                depth += braces(lines[i])
            if depth != 0:
                raise TranslateError("lexer.l: unbalanced action of %r" % pat)
        i += 1
        act = norm(strip_c_comments(action))
        lit = _unescape_lit(pat)
        if pat in PATTERNS:
            kind, littext = PATTERNS[pat], None
        elif lit is not None:
            kind, littext = ".lit", lit
        else:
            raise TranslateError("lexer.l: unrecognised pattern %r" % pat)
        # tracker calls in the action
        nl = ".none"
        for mm in re.finditer(r"tracker\s*\.\s*(\w+)\s*\(([^)]*)\)", act):
            if mm.group(1) != "newline":
                raise TranslateError("lexer.l: rule %r calls tracker.%s" % (pat, mm.group(1)))
            args = [a.strip() for a in mm.group(2).split(",")]
            if len(args) != 2 or args[0] != "ch":
                raise TranslateError("lexer.l: rule %r: tracker.newline(%s)" % (pat, mm.group(2)))
            amap = {"1": ".one", "yyleng": ".yyleng", "yyleng / 2": ".yylengHalf", "yyleng/2": ".yylengHalf"}
            if args[1] not in amap or nl != ".none":
                raise TranslateError("lexer.l: rule %r: unrecognised newline argument %r" % (pat, args[1]))
            nl = amap[args[1]]
        if "tracker" in re.sub(r"tracker\s*\.\s*newline\s*\([^)]*\)", "", act):
            raise TranslateError("lexer.l: rule %r uses the tracker in an unrecognised way: %r" % (pat, act))
        if re.search(r"\byyless\b|\byymore\b|\bunput\b|\bREJECT\b|\byy_push_state\b|\binput\s*\(", act):
            raise TranslateError("lexer.l: rule %r uses yyless/yymore/unput/REJECT/input" % pat)
        begin = "none"
        bm = re.findall(r"BEGIN\s*\(\s*(\w+)\s*\)", act)
        if len(bm) > 1:
            raise TranslateError("lexer.l: rule %r has several BEGINs" % pat)
        if bm:
            if bm[0] not in ("INITIAL", "comment"):
                raise TranslateError("lexer.l: BEGIN(%s)" % bm[0])
            begin = "(some .%s)" % ("initial" if bm[0] == "INITIAL" else "comment")
        err = ".none"
        em = re.findall(r"(?:utap_error|yyerror)\s*\(\s*(\"[^\"]*\"|\w+)\s*\)", act)
        if em:
            if kind == ".ident":
                err = ".none"  # ID_TOO_LONG for identifiers of >= 4001 characters: not a position matter
            elif kind == ".str" and re.search(r"if\s*\(\s*static_cast<size_t>\(utap_leng\)\s*>=\s*MAXLEN\s*\)\s*\{\s*utap_error\(STRING_TOO_LONG\);\s*\}", act) and len(em) == 1:
                err = ".none"  # STRING_TOO_LONG for literals of >= 4001 characters: likewise
            elif kind == ".num":
                err = ".overflow %s" % em[0]
            elif re.search(r"if\s*\(\s*syntax\s*&\s*syntax_t::OLD\s*\)\s*\{\s*return", act):
                err = ".unlessOld %s" % em[0]
            elif "if" in re.findall(r"\b\w+\b", act):
                raise TranslateError("lexer.l: rule %r reports an error under an unrecognised condition" % pat)
            else:
                err = ".always %s" % em[0]
            if err != ".none" and not em[0].startswith('"'):
                raise TranslateError("lexer.l: rule %r: error message is not a literal" % pat)
        rules.append((mode, kind, littext, nl, begin, err))
    if mode != "initial":
        raise TranslateError("lexer.l: <comment>{ block not closed")
    if len(rules) < 60:
        raise TranslateError("lexer.l: suspiciously few rules (%d)" % len(rules))
    return rules


def lexrules_lean(rules):
    out = ["/- GENERATED by translate/pos_tables.py from src/lexer.l -- do not edit.",
           "   One entry per rule of the lexer, in file order (flex breaks ties by order). -/",
           "import UtapModel.Model.LexLines", "", "namespace UtapModel.LexRulesGen", "open UtapModel.LexLines", "",
           "def rules : List Rule := ["]
    rows = []
    for mode, kind, lit, nl, begin, err in rules:
        pat = "(.lit [%s])" % ", ".join(lean_char(ch) for ch in lit) if kind == ".lit" else kind
        e = err if err == ".none" else "(%s)" % err
        rows.append("  { mode := .%s, pat := %s, nl := %s, begin := %s, err := %s }" % (mode, pat, nl, begin, e))
    out.append(",\n".join(rows))
    out += ["]", "", "end UtapModel.LexRulesGen", ""]
    return "\n".join(out)


# ------------------------------------------------------------------------------------------------------------------
# libparser.h / position.cpp / document.cpp
# ------------------------------------------------------------------------------------------------------------------

def _method_body(src, signature_re, what):
    m = re.search(signature_re, src)
    if not m:
        raise TranslateError("%s not found" % what)
    i = src.index("{", m.end() - 1)
    depth, j = 0, i
    while True:
        if src[j] == "{":
            depth += 1
        elif src[j] == "}":
            depth -= 1
            if depth == 0:
                break
        j += 1
    return src[i + 1:j]


FIELDS = ("line", "offset", "position")


def _expr(e, what):
    """C++ expression over the tracker's fields, the parameter n and literals with + and - -> Lean term over `t`, `n`"""
    e = e.strip()
    toks = re.findall(r"\d+|[A-Za-z_]\w*|[+\-()]", e)
    if "".join(toks) != re.sub(r"\s+", "", e):
        raise TranslateError("%s: unrecognised expression %r" % (what, e))
    out = []
    for t in toks:
        if t in FIELDS:
            out.append("t." + t)
        elif t == "n" or t.isdigit() or t in "+-()":
            out.append(t)
        else:
            raise TranslateError("%s: unknown name %r in %r" % (what, t, e))
    return " ".join(out)


def _tracker_method(body, what):
    """statements -> (lean lines updating `t`, list of add_position arguments, set_position arguments, return expr)"""
    stmts = [norm(s) for s in strip_c_comments(body).split(";")]
    stmts = [s for s in stmts if s]
    lean, adds, sets, ret = [], [], [], None
    for s in stmts:
        m = re.match(r"^(\w+) = (.+)$", s)
        if m and m.group(1) in FIELDS:
            lean.append("let t := { t with %s := (%s) %% W }" % (m.group(1), _expr(m.group(2), what)))
            continue
        m = re.match(r"^(\w+) \+= (.+)$", s)
        if m and m.group(1) in FIELDS:
            lean.append("let t := { t with %s := (t.%s + (%s)) %% W }" % (m.group(1), m.group(1), _expr(m.group(2), what)))
            continue
        m = re.match(r"^\+\+(\w+)$", s) or re.match(r"^(\w+)\+\+$", s)
        if m and m.group(1) in FIELDS:
            lean.append("let t := { t with %s := (t.%s + 1) %% W }" % (m.group(1), m.group(1)))
            continue
        if s in ("path = std::make_shared<std::string>(s)", "path = std::move(s)"):
            lean.append("let t := { t with path := s }")
            continue
        m = re.match(r"^parser->add_position\((.*)\)$", s)
        if m:
            if [a.strip() for a in m.group(1).split(",")] != ["position", "offset", "line", "path"]:
                raise TranslateError("%s: add_position(%s)" % (what, m.group(1)))
            lean.append("let added := added ++ [t.entry]")
            adds.append(1)
            continue
        m = re.match(r"^parser->set_position\((.*),(.*)\)$", s)
        if m:
            lean.append("let range := some ((%s) %% W, (%s) %% W)" % (_expr(m.group(1), what), _expr(m.group(2), what)))
            continue
        m = re.match(r"^return (.+)$", s)
        if m:
            ret = m.group(1)
            continue
        raise TranslateError("%s: unrecognised statement %r" % (what, s))
    return lean


def posgen(repo):
    lp = open(os.path.join(repo, "src", "libparser.h")).read()
    m = re.search(r"struct\s+PositionTracker\s*\{", lp)
    if not m:
        raise TranslateError("libparser.h: struct PositionTracker not found")
    cls = lp[m.start():lp.index("extern PositionTracker tracker")]
    decl = norm(strip_c_comments(cls))
    for f in FIELDS:
        if not re.search(r"uint32_t %s\{\};" % f, decl):
            raise TranslateError("libparser.h: PositionTracker::%s is not `uint32_t %s{}`" % (f, f))
    bodies = {}
    sp = list(re.finditer(r"void\s+setPath\s*\(\s*UTAP::ParserBuilder\*\s*parser\s*,\s*([^)]*)\)\s*\{", cls))
    if len(sp) != 2:
        raise TranslateError("libparser.h: expected two setPath overloads, found %d" % len(sp))
    out = ["/- GENERATED by translate/pos_tables.py from src/libparser.h, src/position.cpp, src/document.cpp -- do not edit. -/",
           "import UtapModel.Model.Pos", "", "namespace UtapModel.PosGen", "open UtapModel.Pos", ""]
    for k, mm in enumerate(sp):
        body = _method_body(cls[mm.start():], r"\{", "setPath")
        lean = _tracker_method(body, "PositionTracker::setPath#%d" % k)
        out.append("/-- PositionTracker::setPath, overload %d (`%s`): new tracker and the entries passed to add_position -/" % (k, norm(mm.group(1))))
        out.append("def setPath%d (t : Tracker) (s : String) : Tracker × List Line :=" % k)
        out.append("  let added : List Line := []")
        out += ["  " + l for l in lean]
        out.append("  (t, added)")
        out.append("")
    mm = re.search(r"int\s+increment\s*\(\s*UTAP::ParserBuilder\*\s*parser\s*,\s*uint32_t\s+n\s*\)\s*\{", cls)
    if not mm:
        raise TranslateError("libparser.h: increment not found")
    lean = _tracker_method(_method_body(cls[mm.start():], r"\{", "increment"), "PositionTracker::increment")
    out.append("/-- PositionTracker::increment: new tracker, entries added, range passed to set_position -/")
    out.append("def increment (t : Tracker) (n : Nat) : Tracker × List Line × Option (Nat × Nat) :=")
    out.append("  let added : List Line := []")
    out.append("  let range : Option (Nat × Nat) := none")
    out += ["  " + l for l in lean]
    out.append("  (t, added, range)")
    out.append("")
    mm = re.search(r"void\s+newline\s*\(\s*UTAP::ParserBuilder\*\s*parser\s*,\s*uint32_t\s+n\s*\)\s*\{", cls)
    if not mm:
        raise TranslateError("libparser.h: newline not found")
    lean = _tracker_method(_method_body(cls[mm.start():], r"\{", "newline"), "PositionTracker::newline")
    out.append("/-- PositionTracker::newline -/")
    out.append("def newline (t : Tracker) (n : Nat) : Tracker × List Line :=")
    out.append("  let added : List Line := []")
    out += ["  " + l for l in lean]
    out.append("  (t, added)")
    out.append("")
    # position.cpp ------------------------------------------------------------------------------
    pc = strip_c_comments(open(os.path.join(repo, "src", "position.cpp")).read())
    add = norm(_method_body(pc, r"void\s+position_index_t::add\s*\([^)]*\)\s*\{", "position_index_t::add"))
    m = re.match(r'^if \(!lines\.empty\(\) && position (<|<=|>|>=) lines\.back\(\)\.position\) \{ throw std::logic_error\("Positions must be '
                 r'monotonically increasing"\); \} lines\.emplace_back\(position, offset, line, std::move\(path\)\);$', add)
    if not m:
        raise TranslateError("position.cpp: unrecognised body of position_index_t::add: %r" % add)
    out.append("/-- position_index_t::add -/")
    out.append("def add (idx : Index) (e : Line) : Except Err Index :=")
    out.append("  match idx.getLast? with")
    out.append("  | some l => if e.position %s l.position then .error .notMonotone else .ok (idx ++ [e])" % m.group(1))
    out.append("  | none => .ok [e]")
    out.append("")
    fl = norm(_method_body(pc, r"position_index_t::find\s*\(\s*uint32_t\s+position\s*,\s*uint32_t\s+first\s*,\s*uint32_t\s+last\s*\)\s*const\s*\{",
                           "position_index_t::find/3"))
    m = re.match(r"^while \(first \+ 1 < last\) \{ uint32_t i = \(first \+ last\) / 2; if \(position (<|<=|>|>=) lines\[i\]\.position\) "
                 r"\{ last = i; \} else \{ first = i; \} \} return lines\[first\];$", fl)
    if not m:
        raise TranslateError("position.cpp: unrecognised body of find(position, first, last): %r" % fl)
    out.append("/-- position_index_t::find(position, first, last) -/")
    out.append("def findLoop (idx : Index) (pos : Nat) (first last : Nat) : Nat :=")
    out.append("  if h : first + 1 < last then")
    out.append("    let i := (first + last) / 2")
    out.append("    if pos %s (idx.getD i default).position then findLoop idx pos first i else findLoop idx pos i last" % m.group(1))
    out.append("  else first")
    out.append("termination_by last - first")
    out.append("decreasing_by all_goals omega")
    out.append("")
    f1 = norm(_method_body(pc, r"position_index_t::find\s*\(\s*uint32_t\s+position\s*\)\s*const\s*\{", "position_index_t::find/1"))
    if f1 != 'if (lines.empty()) throw std::logic_error("No positions have been added"); return find(position, 0, lines.size());':
        raise TranslateError("position.cpp: unrecognised body of find(position): %r" % f1)
    out.append("/-- position_index_t::find(position) -/")
    out.append("def find (idx : Index) (pos : Nat) : Except Err Line :=")
    out.append("  if idx.isEmpty then .error .noPositions else .ok (idx.getD (findLoop idx pos 0 idx.length) default)")
    out.append("")
    # document.cpp ------------------------------------------------------------------------------
    dc = strip_c_comments(open(os.path.join(repo, "src", "document.cpp")).read())
    for fn, cont in (("add_error", "errors"), ("add_warning", "warnings")):
        b = norm(_method_body(dc, r"void\s+Document::%s\s*\([^)]*\)\s*\{" % fn, "Document::" + fn))
        m = re.match(r"^%s\.emplace_back\(positions\.find\(position\.(start|end)\), positions\.find\(position\.(start|end)\), position, " % cont, b)
        if not m:
            raise TranslateError("document.cpp: unrecognised body of Document::%s: %r" % (fn, b))
        out.append("/-- Document::%s: the two entries stored with the diagnostic -/" % fn)
        out.append("def %s (idx : Index) (start «end» : Nat) : Except Err (Line × Line) :=" % fn)
        out.append("  match find idx %s, find idx %s with" % (m.group(1).replace("end", "«end»"), m.group(2).replace("end", "«end»")))
        out.append("  | .ok a, .ok b => .ok (a, b)")
        out.append("  | .error e, _ => .error e")
        out.append("  | _, .error e => .error e")
        out.append("")
    b = norm(_method_body(dc, r"void\s+Document::add_position\s*\([^)]*\)\s*\{", "Document::add_position"))
    if b != "positions.add(position, offset, line, std::move(path));":
        raise TranslateError("document.cpp: unrecognised Document::add_position: %r" % b)
    # ExpressionBuilder: add_position / handle_error forward to the document with the builder's current position
    eb = strip_c_comments(open(os.path.join(repo, "src", "ExpressionBuilder.cpp")).read())
    b = norm(_method_body(eb, r"void\s+ExpressionBuilder::add_position\s*\([^)]*\)\s*\{", "ExpressionBuilder::add_position"))
    if b != "document.add_position(position, offset, line, std::move(path));":
        raise TranslateError("ExpressionBuilder::add_position: %r" % b)
    for fn, dfn in (("handle_error", "add_error"), ("handle_warning", "add_warning")):
        b = norm(_method_body(eb, r"void\s+ExpressionBuilder::%s\s*\([^)]*\)\s*\{" % fn, "ExpressionBuilder::" + fn))
        if b != "document.%s(position, ex.what());" % dfn:
            raise TranslateError("ExpressionBuilder::%s: %r" % (fn, b))
    ab = strip_c_comments(open(os.path.join(repo, "src", "abstractbuilder.cpp")).read())
    b = norm(_method_body(ab, r"void\s+AbstractBuilder::set_position\s*\([^)]*\)\s*\{", "AbstractBuilder::set_position"))
    if b != "position.start = start; position.end = end;":
        raise TranslateError("AbstractBuilder::set_position: %r" % b)
    tc = strip_c_comments(open(os.path.join(repo, "src", "typechecker.cpp")).read())
    for fn, dfn in (("handleError", "add_error"), ("handleWarning", "add_warning")):
        b = norm(_method_body(tc, r"void\s+TypeChecker::%s\s*\(\s*T\s+expr[^)]*\)\s*\{" % fn, "TypeChecker::" + fn))
        if b != 'document.%s(expr.get_position(), msg, "(typechecking)");' % dfn:
            raise TranslateError("TypeChecker::%s: %r" % (fn, b))
    out.append("end UtapModel.PosGen")
    out.append("")
    return "\n".join(out)


# ------------------------------------------------------------------------------------------------------------------
# xmlreader.cpp: Path::str and tag_map
# ------------------------------------------------------------------------------------------------------------------

def path_table(repo):
    src = strip_c_comments(open(os.path.join(repo, "src", "xmlreader.cpp")).read())
    body = _method_body(src, r"std::string\s+Path::str\s*\(\s*tag_t\s+tag\s*\)\s*const\s*\{", "Path::str")
    nb = norm(body)
    m = re.match(r"^std::ostringstream str; for \(auto&& level : path\) \{ if \(level\.empty\(\)\) break; switch \(level\.back\(\)\) \{ (.*) "
                 r"default: throw xpath_corrupt_error\{\}; \} if \(level\.back\(\) == tag\) \{ break; \} \} return str\.str\(\);$", nb)
    if not m:
        raise TranslateError("xmlreader.cpp: unrecognised frame of Path::str: %r" % nb[:300])
    rows = []
    cases = [c.strip() for c in m.group(1).split("case ") if c.strip()]
    for c in cases:
        mm = re.match(r'^tag_t::(\w+): str << "/([^"\[\]]*)"; break;$', c)
        if mm:
            rows.append((mm.group(1), mm.group(2), None))
            continue
        mm = re.match(r'^tag_t::(\w+): str << "/([^"\[\]]*)\[" << count\(level, tag_t::(\w+)\) << "\]"; break;$', c)
        if mm:
            rows.append((mm.group(1), mm.group(2), mm.group(3)))
            continue
        raise TranslateError("xmlreader.cpp: unrecognised case of Path::str: %r" % c)
    cnt = norm(_method_body(src, r"static\s+inline\s+size_t\s+count\s*\(\s*const\s+std::vector<tag_t>&\s*level\s*,\s*tag_t\s+tag\s*\)\s*\{", "count"))
    if cnt != "return std::count(std::begin(level), std::end(level), tag);":
        raise TranslateError("xmlreader.cpp: unrecognised count(): %r" % cnt)
    # Path::push / pop
    cls = src[src.index("class Path"):src.index("static inline size_t count")]
    push = norm(_method_body(cls, r"void\s+push\s*\(\s*tag_t\s+tag\s*\)\s*\{", "Path::push"))
    pop = norm(_method_body(cls, r"tag_t\s+pop\s*\(\s*\)\s*\{", "Path::pop"))
    ctor = norm(_method_body(cls, r"Path\s*\(\s*\)\s*\{", "Path::Path"))
    if push != "path.back().push_back(tag); path.emplace_back();" or pop != "path.pop_back(); return path.back().back();" \
            or ctor != "path.emplace_back();":
        raise TranslateError("xmlreader.cpp: unrecognised Path::push/pop/ctor: %r / %r / %r" % (push, pop, ctor))
    # XMLReader::read maintains the path
    rd = norm(_method_body(src, r"void\s+XMLReader::read\s*\(\s*\)\s*\{", "XMLReader::read"))
    want = ('if ((getNodeType() == XML_READER_TYPE_END_ELEMENT) || (getNodeType() == XML_READER_TYPE_ELEMENT && isEmpty())) { '
            'if (path.pop() != getElement()) { throw XMLDocError("Invalid nesting"); } } '
            'if (xmlTextReaderRead(reader.get()) != 1) { throw XMLReaderError(errno, std::system_category(), "$unexpected $end"); } '
            'if (getNodeType() == XML_READER_TYPE_ELEMENT) { path.push(getElement()); }')
    if rd != want:
        raise TranslateError("xmlreader.cpp: unrecognised XMLReader::read: %r" % rd)
    # tag_map
    m = re.search(r"tag_map\s*=\s*std::unordered_map<[^>]*>\s*\{(.*?)\};", src, re.S)
    if not m:
        raise TranslateError("xmlreader.cpp: tag_map not found")
    tmap = re.findall(r'\{\s*"([^"]+)"\s*,\s*tag_t::(\w+)\s*\}', m.group(1))
    if len(tmap) < 30 or len(tmap) != m.group(1).count("{"):
        raise TranslateError("xmlreader.cpp: tag_map has unrecognised entries")
    return rows, tmap


def path_table_lean(rows, tmap):
    out = ["/- GENERATED by translate/pos_tables.py from src/xmlreader.cpp (Path::str, tag_map) -- do not edit. -/",
           "import UtapModel.Model.Pos", "", "namespace UtapModel.PathTableGen", "open UtapModel.Pos", "",
           "/-- the `switch` of `Path::str`: tag, printed element name, counted tag -/",
           "def table : List TagRow := ["]
    out.append(",\n".join('  { tag := %s, name := %s, counted := %s }' % (lean_str(t), lean_str(n), "none" if c is None else "some " + lean_str(c))
                          for t, n, c in rows))
    out += ["]", "", "/-- `tag_map`: element name in the XML, tag -/", "def tagMap : List (String × String) := ["]
    out.append(",\n".join("  (%s, %s)" % (lean_str(n), lean_str(t)) for n, t in tmap))
    out += ["]", "", "end UtapModel.PathTableGen", ""]
    return "\n".join(out)


# ------------------------------------------------------------------------------------------------------------------
# parser.y: per-call (re)initialisation and the file-scope variables (C15)
# ------------------------------------------------------------------------------------------------------------------

PARSER_GLOBALS = ["ch", "syntax", "syntax_token", "rootTransId", "types"]


def parse_globals(repo):
    src = open(os.path.join(repo, "src", "parser.y")).read()
    nc = strip_c_comments(src)
    # 1. the file-scope variables of the %code block
    m = re.search(r"%code\s*\{(.*?)\n\}\s*\n\s*%require", nc, re.S)
    if not m:
        raise TranslateError("parser.y: %code block not found")
    code = m.group(1)
    statics = re.findall(r"^static\s+([\w:\* ]+?)\s*\*?(\w+)(\[[^\]]*\])?\s*(?:=\s*[^;]+)?;", code, re.M)
    names = [s[1] for s in statics]
    if sorted(names) != sorted(PARSER_GLOBALS):
        raise TranslateError("parser.y: file-scope variables are %r, the model knows %r" % (names, PARSER_GLOBALS))
    # 2. entry points
    def body(sig, what):
        return norm(_method_body(nc, sig, what))
    px = body(r"static\s+int32_t\s+parse_XTA\s*\(\s*ParserBuilder\s*\*\s*aParserBuilder\s*,\s*bool\s+newxta\s*,\s*xta_part_t\s+part\s*,\s*std::string\s+xpath\s*\)\s*\{",
              "static parse_XTA")
    pp = body(r"static\s+int32_t\s+parseProperty\s*\(\s*ParserBuilder\s*\*\s*aParserBuilder\s*,\s*const\s+std::string&\s*xpath\s*\)\s*\{",
              "static parseProperty")
    # the statement that may follow tracker.setPath: initialisation of the parser's location variable (proposed fix C15-init-yylloc)
    init_variants = ["", "yylloc.start = yylloc.end = tracker.position; ", "yylloc = position_t{tracker.position, tracker.position}; ",
                     "yylloc = position_t(tracker.position, tracker.position); "]
    yylloc_init = None
    for k, iv in enumerate(init_variants):
        want_px = ("syntax = newxta ? syntax_t::NEW_GUIDING : syntax_t::OLD_GUIDING; setStartToken(part, newxta); ch = aParserBuilder; "
                   "tracker.setPath(ch, xpath); " + iv + "int res = 0; if (utap_parse()) { res = -1; } ch = NULL; return res;")
        want_pp = ("syntax = syntax_t::PROPERTY; setStartToken(S_PROPERTY, false); ch = aParserBuilder; tracker.setPath(ch, xpath); " + iv +
                   "return utap_parse() ? -1 : 0;")
        if px == want_px and pp == want_pp:
            yylloc_init = k > 0
    if yylloc_init is None:
        raise TranslateError("parser.y: unrecognised static parse_XTA / parseProperty: %r / %r" % (px, pp))
    pub = body(r"int32_t\s+parse_XTA\s*\(\s*const\s+char\s*\*\s*str\s*,\s*ParserBuilder\s*\*\s*builder\s*,\s*bool\s+newxta\s*,\s*xta_part_t\s+part\s*,\s*std::string\s+xpath\s*\)\s*\{",
               "parse_XTA(str, builder, newxta, part, xpath)")
    if pub != "utap__scan_string(str); int32_t res = parse_XTA(builder, newxta, part, xpath); utap__delete_buffer(YY_CURRENT_BUFFER); return res;":
        raise TranslateError("parser.y: unrecognised parse_XTA(str,…): %r" % pub)
    pubp = body(r"int32_t\s+parseProperty\s*\(\s*const\s+char\s*\*\s*str\s*,\s*ParserBuilder\s*\*\s*aParserBuilder\s*,\s*const\s+std::string&\s*xpath\s*\)\s*\{",
                "parseProperty(str, builder, xpath)")
    if pubp != "utap__scan_string(str); int32_t res = parseProperty(aParserBuilder, xpath); utap__delete_buffer(YY_CURRENT_BUFFER); return res;":
        raise TranslateError("parser.y: unrecognised parseProperty(str,…): %r" % pubp)
    # 3. setStartToken: every case assigns syntax_token
    st = body(r"static\s+void\s+setStartToken\s*\(\s*xta_part_t\s+part\s*,\s*bool\s+newxta\s*\)\s*\{", "setStartToken")
    m = re.match(r"^switch \(part\) \{ (.*) \}$", st)
    if not m:
        raise TranslateError("parser.y: unrecognised setStartToken")
    cases = [c.strip() for c in m.group(1).split("case ") if c.strip()]
    parts = []
    for c in cases:
        mm = re.match(r"^(S_\w+): syntax_token = (newxta \? (T_\w+) : (T_\w+)|(T_\w+)); break;$", c)
        if not mm:
            raise TranslateError("parser.y: setStartToken case %r does not assign syntax_token" % c)
        parts.append((mm.group(1), mm.group(3) or mm.group(5), mm.group(4) or mm.group(5)))
    # the enum xta_part_t must be covered completely
    hdr = strip_c_comments(open(os.path.join(repo, "include", "utap", "builder.h")).read() if os.path.exists(
        os.path.join(repo, "include", "utap", "builder.h")) else "")
    enum_src = None
    for root, _, files in os.walk(os.path.join(repo, "include")):
        for f in files:
            t = strip_c_comments(open(os.path.join(root, f)).read())
            mm = re.search(r"enum\s+xta_part_t\s*\{(.*?)\}", t, re.S)
            if mm:
                enum_src = mm.group(1)
    if enum_src is None:
        raise TranslateError("enum xta_part_t not found")
    enum = [e.strip().split("=")[0].strip() for e in enum_src.split(",") if e.strip()]
    missing = [e for e in enum if e not in [p[0] for p in parts]]
    # 4. utap_lex consumes syntax_token first
    ul = body(r"static\s+int\s+utap_lex\s*\(\s*\)\s*\{", "utap_lex")
    if ul != "int old; if (syntax_token) { old = syntax_token; syntax_token = 0; return old; } return lexer_flex();":
        raise TranslateError("parser.y: unrecognised utap_lex: %r" % ul)
    # 5. reads / writes of rootTransId and types in grammar actions, in file order with the enclosing rule
    grammar = nc[nc.index("%%"):]
    grammar = grammar[:grammar.index("%%", 2)]
    accesses = []
    cur = None
    for ln in grammar.split("\n"):
        mm = re.match(r"^([A-Za-z_]\w*)\s*:", ln)
        if mm:
            cur = mm.group(1)
        for mm in re.finditer(r"strcpy\s*\(\s*rootTransId\s*,", ln):
            accesses.append((cur, "rootTransId", "write"))
        for mm in re.finditer(r"\brootTransId\b", re.sub(r"strcpy\s*\(\s*rootTransId\s*,", "", ln)):
            accesses.append((cur, "rootTransId", "read"))
        for mm in re.finditer(r"\btypes\s*=\s*0\b", ln):
            accesses.append((cur, "types", "write"))
        for mm in re.finditer(r"\btypes\+\+|\btypes--|\(types\)", ln):
            accesses.append((cur, "types", "read"))
    # 6. the productions that order the accesses: a list starts with a full transition (which writes rootTransId at its end),
    #    the short form (which reads it) can only follow inside the same list; ArrayDecl2 (reads `types`) only under ArrayDecl
    def split_grammar(g):
        """rule name -> (body with actions kept, body with actions removed); actions are balanced-brace blocks"""
        out_keep, out_strip, i, n, depth = [], [], 0, len(g), 0
        while i < n:
            c = g[i]
            if c == "'" and depth == 0:
                j = i + 3 if g[i + 1] == "\\" else i + 2
                if j >= n or g[j] != "'":
                    raise TranslateError("parser.y: unrecognised character literal near %r" % g[i:i + 8])
                out_keep.append("'#'")
                out_strip.append("'#'")
                i = j + 1
                continue
            if c in "\"'" and depth > 0:
                j = i + 1
                while j < n and g[j] != c:
                    j += 2 if g[j] == "\\" else 1
                out_keep.append(g[i:j + 1].replace(";", " ").replace("{", " ").replace("}", " "))
                i = j + 1
                continue
            if c == "{":
                depth += 1
            if depth > 0:
                out_keep.append(" " if c == ";" and False else c)
            else:
                out_keep.append(c)
                out_strip.append(c)
            if c == "}":
                depth -= 1
                if depth == 0:
                    out_strip.append(" ")
            i += 1
        return "".join(out_keep), "".join(out_strip)

    keep, stripped = split_grammar(grammar[2:])
    prods = {}
    for m2 in re.finditer(r"([A-Za-z_]\w*)\s*:([^;]*);", stripped):
        prods[m2.group(1)] = norm(m2.group(2))
    # bodies with actions, cut at the same rule boundaries (a rule ends at the first ';' outside an action)
    prods_act = {}
    depth, cur, buf, name_re = 0, None, [], re.compile(r"([A-Za-z_]\w*)\s*:\s*$")
    i = 0
    text = keep
    start = 0
    while i < len(text):
        c = text[i]
        if c == "{":
            depth += 1
        elif c == "}":
            depth -= 1
        elif c == ";" and depth == 0:
            seg = text[start:i]
            mm = re.match(r"\s*([A-Za-z_]\w*)\s*:(.*)$", seg, re.S)
            if mm:
                prods_act[mm.group(1)] = mm.group(2)
            start = i + 1
        i += 1

    def alts(name):
        if name not in prods:
            raise TranslateError("parser.y: production %s not found" % name)
        return [norm(a) for a in prods[name].split("|")]

    def occurrences(sym):
        return sorted(name for name, b_ in prods.items() if re.search(r"\b%s\b" % sym, b_))

    if alts("TransitionList") != ["Transition", "TransitionList '#' TransitionOpt"]:
        raise TranslateError("parser.y: TransitionList is %r" % alts("TransitionList"))
    if alts("OldTransitionList") != ["OldTransition", "OldTransitionList '#' OldTransitionOpt"]:
        raise TranslateError("parser.y: OldTransitionList is %r" % alts("OldTransitionList"))
    if occurrences("TransitionOpt") != ["TransitionList"] or occurrences("OldTransitionOpt") != ["OldTransitionList"]:
        raise TranslateError("parser.y: TransitionOpt / OldTransitionOpt used outside their lists: %r %r"
                             % (occurrences("TransitionOpt"), occurrences("OldTransitionOpt")))
    if occurrences("ArrayDecl2") != ["ArrayDecl", "ArrayDecl2"]:
        raise TranslateError("parser.y: ArrayDecl2 used outside ArrayDecl: %r" % occurrences("ArrayDecl2"))
    if norm(prods_act.get("ArrayDecl", "")) != "{ types = 0; } ArrayDecl2":
        raise TranslateError("parser.y: ArrayDecl is %r" % norm(prods_act.get("ArrayDecl", "")))
    # the write of rootTransId is in the *last* action of each alternative of Transition / OldTransition
    for name in ("Transition", "OldTransition"):
        for alt in prods_act[name].split("|"):
            acts = re.findall(r"\{([^{}]*)\}", alt)
            if not acts or not re.search(r"strcpy\s*\(\s*rootTransId", acts[-1]):
                raise TranslateError("parser.y: %s does not write rootTransId in its final action" % name)
    # YYLLOC_DEFAULT and CALL
    m2 = re.search(r"#define\s+YYLLOC_DEFAULT\(Current, Rhs, N\)(.*?)while \(0\)", src, re.S)
    want_ll = ("do if (N) { (Current).start = YYRHSLOC (Rhs, 1).start; (Current).end = YYRHSLOC (Rhs, N).end; } else { (Current).start = "
               "(Current).end = YYRHSLOC (Rhs, 0).end; }")
    got_ll = m2 and norm(m2.group(1).replace("\\", " "))
    if got_ll != want_ll:
        raise TranslateError("parser.y: unrecognised YYLLOC_DEFAULT: %r" % got_ll)
    cl = re.search(r"#define\s+CALL\(first,last,call\)\s+(.*)", nc)
    want_call = "do { ch->set_position(first.start, last.end); try { ch->call; } catch (TypeException &te) { ch->handle_error(te); } } while (0)"
    if not cl or norm(cl.group(1)) != want_call:
        raise TranslateError("parser.y: unrecognised CALL macro: %r" % (cl and cl.group(1)))
    return {"parts": parts, "enum": enum, "missing_parts": missing, "accesses": accesses, "yylloc_init": yylloc_init}


def parse_globals_lean(info):
    out = ["/- GENERATED by translate/pos_tables.py from src/parser.y -- do not edit.",
           "   The per-call initialisation of parse_XTA / parseProperty was recognised statement by statement",
           "   (syntax, setStartToken, ch, tracker.setPath, [yylloc], utap_parse); so were utap_lex, YYLLOC_DEFAULT, CALL and the",
           "   list productions that order the accesses of rootTransId / types.  Below are the tables the model needs. -/",
           "namespace UtapModel.ParseGlobalsGen", "",
           "/-- does parse_XTA / parseProperty set `yylloc` to the start of the block before `utap_parse()`? -/",
           "def yyllocInit : Bool := %s" % ("true" if info["yylloc_init"] else "false"), "",
           "/-- setStartToken: part, start token for the new syntax, start token for the old syntax -/",
           "def startTokens : List (String × String × String) := ["]
    out.append(",\n".join("  (%s, %s, %s)" % (lean_str(a), lean_str(b), lean_str(c)) for a, b, c in info["parts"]))
    out += ["]", "", "/-- enumerators of xta_part_t -/", "def parts : List String := ["]
    out.append(",\n".join("  " + lean_str(e) for e in info["enum"]))
    out += ["]", "", "/-- grammar actions touching the file-scope variables `rootTransId` and `types`: (rule, variable, access), file order -/",
            "def accesses : List (String × String × String) := ["]
    out.append(",\n".join("  (%s, %s, %s)" % (lean_str(a), lean_str(b), lean_str(c)) for a, b, c in info["accesses"]))
    out += ["]", "", "end UtapModel.ParseGlobalsGen", ""]
    return "\n".join(out)


def generate_all(repo, lean_dir, write):
    """write(path, text) stores a file if changed. Returns a summary dict."""
    g = os.path.join(lean_dir, "UtapModel", "Gen")
    rules = lexer_rules(repo)
    write(os.path.join(g, "LexRules.lean"), lexrules_lean(rules))
    write(os.path.join(g, "PosGen.lean"), posgen(repo))
    rows, tmap = path_table(repo)
    write(os.path.join(g, "PathTable.lean"), path_table_lean(rows, tmap))
    return {"lexer_rules": len(rules), "path_rows": len(rows), "tag_map": len(tmap)}


if __name__ == "__main__":
    import sys
    repo = sys.argv[1] if len(sys.argv) > 1 else "/repo"
    print(lexrules_lean(lexer_rules(repo))[:3000])
    print(posgen(repo))
    r, t = path_table(repo)
    print(path_table_lean(r, t)[:1500])
    print(parse_globals_lean(parse_globals(repo)))
