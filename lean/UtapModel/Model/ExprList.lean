/-
The comma list `ExprList` of src/parser.y (update / assignment labels, the three clauses of `for (;;)`, the heads of `while`,
`do … while`, `if` and `switch`, `before_update { … }` / `after_update { … }`, the entry point S_EXPRESSION_LIST):

    ExprList : Expression | <recursive alternative> { expr_comma(); }

`expr_comma()` pops two fragments and pushes COMMA(l, r) (ExpressionBuilder.cpp), so the tree a client receives is decided by
the ORDER of the reductions, and that order by the side the recursion is on: with `ExprList ',' Expression` bison reduces after
every element and the tree grows to the left, with `Expression ',' ExprList` it can only reduce once the whole list is on the
stack and the tree grows to the right.  Both grammars accept the same texts, print the same text and give the same tree for
one and for two elements; they differ from three elements on.  Which alternative the grammar has is regenerated
(`ExprGrammar.exprListLeftRec`).

Core Lean only (linked into drv_c02).
-/
import UtapModel.Model.Pratt

namespace UtapModel.Pratt

/-- what a client receives for a comma list: the tree of one expression, or COMMA(l, r) -/
inductive CTree where
  | one (e : Expr)
  | comma (l r : CTree)
deriving DecidableEq, Repr, Inhabited

/-- the elements between the commas of the list (a comma inside parentheses or brackets belongs to the element) -/
def parseItems (T : Tbl) : Nat → List Tok → Option (List Expr)
  | 0, _ => none
  | f+1, ts =>
    match parseE T (ts.length + 1) 0 ts with
    | some (e, []) => some [e]
    | some (e, .comma :: r) =>
      match parseItems T f r with
      | some es => some (e :: es)
      | none => none
    | _ => none

/-- reductions of the left-recursive rule: `acc` is the list read so far -/
def nestLeft (acc : CTree) : List Expr → CTree
  | [] => acc
  | x :: es => nestLeft (.comma acc (.one x)) es

/-- reductions of the right-recursive rule -/
def nestRight (e : Expr) : List Expr → CTree
  | [] => .one e
  | x :: es => .comma (.one e) (nestRight x es)

def nest (leftRec : Bool) (e : Expr) (es : List Expr) : CTree := if leftRec then nestLeft (.one e) es else nestRight e es

/-- whole-input parse of a comma list -/
def parseList (T : Tbl) (leftRec : Bool) (ts : List Tok) : Option CTree :=
  match parseItems T (ts.length + 1) ts with
  | some (e :: es) => some (nest leftRec e es)
  | _ => none

/-- the elements rendered as `render` renders them, separated by commas -/
def renderList (T : Tbl) (mt : Nat) (full : Bool) : Expr → List Expr → List Tok
  | e, [] => render T mt full 0 e
  | e, x :: es => render T mt full 0 e ++ [.comma] ++ renderList T mt full x es

end UtapModel.Pratt
