/- The renderings of Model/Pratt.lean are admissible (`R`), hence parse back (`main`). -/
import UtapModel.Lemmas.PrattMain

namespace UtapModel.Pratt

variable (T : Tbl) (mt : Nat)

theorem wrapR {full : Bool} {ctx l : Nat} {e : Expr} {body : List Tok}
    (h : ∀ c, c ≤ l → R T mt false c e body) : R T mt false ctx e (wrap (full || decide (l < ctx)) body) := by
  unfold wrap
  split
  · exact R.paren (h 0 (Nat.zero_le _))
  · rename_i hc
    simp only [Bool.or_eq_true, decide_eq_true_eq, not_or] at hc
    exact h ctx (by omega)

theorem render_acons_nil (full x) (c : Nat) :
    render T mt full c (.acons x .anil) = render T mt full 0 x := by
  simp only [render]

theorem render_acons_cons (full x rest) (c : Nat) (h : rest ≠ .anil) :
    render T mt full c (.acons x rest) = render T mt full 0 x ++ [.comma] ++ render T mt full 0 rest := by
  cases rest <;> first | exact absurd rfl h | simp only [render]

theorem render_R (full : Bool) : ∀ (e : Expr),
    (wf T mt false e = true → ∀ ctx, R T mt false ctx e (render T mt full ctx e)) ∧
    (wf T mt true e = true → ∀ c, R T mt true 0 e (render T mt full c e)) := by
  intro e
  induction e with
  | atom a =>
    refine ⟨fun h ctx => ?_, fun h => by simp [wf] at h⟩
    by_cases ha : a = .intMin
    · subst ha
      simp only [wf, if_true, Bool.and_eq_true] at h
      simp only [render, atomToks]
      exact R.intMin h.1 h.2
    · have : atomToks mt a = [.atom a] := by cases a <;> first | rfl | exact absurd rfl ha
      simp only [render, this]
      exact R.atom ha
  | pre t x ih =>
    refine ⟨fun h ctx => ?_, fun h => by simp [wf] at h⟩
    simp only [wf, Bool.and_eq_true, Bool.not_eq_true'] at h
    simp only [render]
    exact wrapR T mt (fun c hc => R.pre h.1.1 h.1.2 hc (ih.1 h.2 _))
  | quant k id ty x ih =>
    refine ⟨fun h ctx => ?_, fun h => by simp [wf] at h⟩
    simp only [wf] at h
    simp only [render]
    exact wrapR T mt (fun c hc => R.quant hc (ih.1 h _))
  | post t x ih =>
    refine ⟨fun h ctx => ?_, fun h => by simp [wf] at h⟩
    simp only [wf, Bool.and_eq_true, Bool.not_eq_true'] at h
    simp only [render]
    exact wrapR T mt (fun c hc => R.post h.1.1 h.1.2 hc (ih.1 h.2 _))
  | dot n x ih =>
    refine ⟨fun h ctx => ?_, fun h => by simp [wf] at h⟩
    simp only [wf] at h
    simp only [render]
    exact wrapR T mt (fun c hc => R.dot hc (ih.1 h _))
  | dotLoc x ih =>
    refine ⟨fun h ctx => ?_, fun h => by simp [wf] at h⟩
    simp only [wf] at h
    simp only [render]
    exact wrapR T mt (fun c hc => R.dotLoc hc (ih.1 h _))
  | bin t l r ihl ihr =>
    refine ⟨fun h ctx => ?_, fun h => by simp [wf] at h⟩
    simp only [wf, Bool.and_eq_true, Bool.not_eq_true'] at h
    simp only [render]
    exact wrapR T mt (fun c hc => R.bin h.1.1.1.1 h.1.1.1.2 h.1.1.2 hc (ihl.1 h.1.2 _) (ihr.1 h.2 _))
  | tern c a b ihc iha ihb =>
    refine ⟨fun h ctx => ?_, fun h => by simp [wf] at h⟩
    simp only [wf, Bool.and_eq_true] at h
    simp only [render]
    exact wrapR T mt (fun c' hc => R.tern hc (ihc.1 h.1.1 _) (iha.1 h.1.2 _) (ihb.1 h.2 _))
  | index a i iha ihi =>
    refine ⟨fun h ctx => ?_, fun h => by simp [wf] at h⟩
    simp only [wf, Bool.and_eq_true] at h
    simp only [render]
    exact wrapR T mt (fun c hc => R.index hc (iha.1 h.1 _) (ihi.1 h.2 _))
  | fn1 k a iha =>
    refine ⟨fun h ctx => ?_, fun h => by simp [wf] at h⟩
    simp only [wf] at h
    simp only [render]
    exact R.fn1 (iha.1 h _)
  | fn2 k a b iha ihb =>
    refine ⟨fun h ctx => ?_, fun h => by simp [wf] at h⟩
    simp only [wf, Bool.and_eq_true] at h
    simp only [render]
    exact R.fn2 (iha.1 h.1 _) (ihb.1 h.2 _)
  | fn3 k a b c iha ihb ihc =>
    refine ⟨fun h ctx => ?_, fun h => by simp [wf] at h⟩
    simp only [wf, Bool.and_eq_true] at h
    simp only [render]
    exact R.fn3 (iha.1 h.1.1 _) (ihb.1 h.1.2 _) (ihc.1 h.2 _)
  | call f args ihf iha =>
    refine ⟨fun h ctx => ?_, fun h => by simp [wf] at h⟩
    simp only [wf, Bool.and_eq_true] at h
    simp only [render]
    exact wrapR T mt (fun c hc => R.call hc (ihf.1 h.1 _) (iha.2 h.2 0))
  | anil =>
    refine ⟨fun h => by simp [wf] at h, fun _ c => ?_⟩
    simp only [render]
    exact R.anil
  | acons x rest ihx ihr =>
    refine ⟨fun h => by simp [wf] at h, fun h c => ?_⟩
    simp only [wf, Bool.and_eq_true] at h
    by_cases hr : rest = .anil
    · subst hr
      rw [render_acons_nil]
      exact R.aone (ihx.1 h.1 0)
    · rw [render_acons_cons T mt full x rest c hr]
      exact R.acons (ihx.1 h.1 0) (ihr.2 h.2 0) hr

/-- **Round trip** for the two renderings of Model/Pratt.lean: minimal (`full = false`) and fully parenthesised. -/
theorem roundtrip (hT : T.ternL ≤ T.questL) (full : Bool) (e : Expr) (h : wf T mt false e = true) :
    parseTop T (render T mt full 0 e) = some e := by
  have hR := (render_R T mt full e).1 h 0
  have hm := main T mt hT hR
  simp only [Goal] at hm
  have := hm 0 [] (e, []) (Nat.le_refl 0) (safe_nil T 0) (stopAll T 0 e [] rfl)
    ((render T mt full 0 e).length + 1) (by simp)
  simp only [List.append_nil] at this
  simp only [parseTop, this]

/-- more generally: *any* admissible rendering (redundant parentheses anywhere) parses back to the tree -/
theorem roundtrip_R (hT : T.ternL ≤ T.questL) {e : Expr} {ts : List Tok} (hR : R T mt false 0 e ts) :
    parseTop T ts = some e := by
  have hm := main T mt hT hR
  simp only [Goal] at hm
  have := hm 0 [] (e, []) (Nat.le_refl 0) (safe_nil T 0) (stopAll T 0 e [] rfl) (ts.length + 1) (by simp)
  simp only [List.append_nil] at this
  simp only [parseTop, this]

end UtapModel.Pratt

namespace UtapModel.Pratt
variable (T : Tbl) (mt : Nat)

/-- unary plus is the identity: `+ e` parses to the tree of `e` -/
theorem unary_plus (hT : T.ternL ≤ T.questL) {t : Nat} {e : Expr} {ts : List Tok}
    (h1 : T.isPre t = true) (h2 : T.prePlus t = true) (hR : R T mt false (T.mn (T.pp t)) e ts) :
    parseTop T (.sym t :: ts) = some e := by
  have hm := main T mt hT hR
  simp only [Goal] at hm
  have hin := hm (T.mn (T.pp t)) [] (e, []) (Nat.le_refl _) (safe_nil T _) (stopAll T _ e [] (by rfl))
  have hstart := (R_start T mt hR rfl []).2
  simp only [List.append_nil] at hin hstart
  unfold parseTop
  simp only [List.length_cons]
  rw [parseE_sym T _ 0 t ts hstart]
  simp only [h1, if_true, hin (ts.length + 1) (by simp), h2]
  rw [loop_stop T _ 0 e [] rfl]

/-- `a imply b` is parsed as `(not a) or b` (the tree the builder makes of it) -/
theorem imply_parse (hT : T.ternL ≤ T.questL) {t : Nat} {a b : Expr} {ta tb : List Tok}
    (h1 : T.isBin t = true) (h2 : T.isImply t = true) (h3 : T.isPost t = false)
    (ha : R T mt false (T.lctx (T.bp t)) a ta) (hb : R T mt false (T.mn (T.bp t)) b tb) :
    parseTop T (ta ++ [.sym t] ++ tb) = some (.bin T.orTok (.pre T.notTok a) b) := by
  have hma := main T mt hT ha
  have hmb := main T mt hT hb
  simp only [Goal] at hma hmb
  have e1 : ta ++ [Tok.sym t] ++ tb = ta ++ (Tok.sym t :: (tb ++ [])) := by simp
  unfold parseTop
  rw [e1]
  have := hma 0 (Tok.sym t :: (tb ++ [])) (.bin T.orTok (.pre T.notTok a) b, []) (Nat.zero_le _) (safe_sym_bin T h3)
    (by
      intro g hg
      obtain ⟨g', rfl⟩ := succ_of_le hg
      rw [loop_sym]
      simp only [h1, Bool.true_and, decide_eq_true_eq, Nat.zero_le, if_true]
      have hin := hmb (T.mn (T.bp t)) [] (b, []) (Nat.le_refl _) (safe_nil T _) (stopAll T _ b [] (by rfl)) g'
        (by simp only [List.length_cons, List.length_append, List.length_nil] at hg ⊢; omega)
      simp only [hin, Tbl.mkBin, h2, if_true]
      obtain ⟨g'', rfl⟩ := succ_of_le (n := 0) (f := g') (by simp only [List.length_cons] at hg; omega)
      exact loop_stop T g'' 0 _ [] rfl)
    ((ta ++ Tok.sym t :: (tb ++ [])).length + 1) (Nat.le_refl _)
  simp only [this]

end UtapModel.Pratt
