/-
C06 — every diagnostic points into the element, line and columns that caused it.

What is proved here, for *all* inputs of the models (no bounds):

  (find)     on every monotone table the binary search of position.cpp returns the last entry `≤ pos`;
  (linecol)  the line table the lexer builds while scanning *any* text resolves every settled position (every lexeme
             boundary, every position inside a lexeme before its first newline) to the reference
             "count the newlines" line and column — for the rule table regenerated from lexer.l, under the single
             hypothesis that no string literal of the text contains a newline (exception shape `string-newline`);
  (xpath)    the XPath string `Path::str` prints for the node the reader stands on selects exactly that node,
             provided the rows of `Path::str` used on the way agree with `tag_map` (exception shape `xpath-name:<TAG>`);
  (ranges)   token locations lie in the block and are ordered; YYLLOC_DEFAULT keeps both;
  (token)    a one-line token's diagnostic covers exactly the token: same line, columns `c` and `c + length`.

The definitions are tied to /repo on every run: `Gen/LexRules.lean`, `Gen/PosGen.lean`, `Gen/PathTable.lean` are
regenerated from lexer.l, libparser.h, position.cpp, document.cpp, xmlreader.cpp, and the `tie_*` theorems below say
that the regenerated definitions are the hand-written model the general theorems speak about.
-/
import UtapModel.Model.Loc
import UtapModel.Gen.LexRules
import UtapModel.Gen.PosGen
import UtapModel.Gen.PathTable
import UtapModel.Model.PathCheck
import UtapModel.Lemmas.LexAll
import UtapModel.Lemmas.XPath

namespace UtapModel.C06
open UtapModel.Pos UtapModel.LexLines UtapModel.Loc

/-! ### ties: the regenerated definitions are the model -/

theorem tie_setPath0 (t : Tracker) (s : String) : PosGen.setPath0 t s = (t.setPath s, [(t.setPath s).entry]) := by
  simp [PosGen.setPath0, Tracker.setPath, Tracker.entry, W]

theorem tie_setPath1 (t : Tracker) (s : String) : PosGen.setPath1 t s = (t.setPath s, [(t.setPath s).entry]) := by
  simp [PosGen.setPath1, Tracker.setPath, Tracker.entry, W]

theorem tie_increment (t : Tracker) (n : Nat) :
    PosGen.increment t n = (t.increment n, [], some (t.position % W, (t.position + n) % W)) := by
  simp [PosGen.increment, Tracker.increment]

theorem tie_newline (t : Tracker) (n : Nat) : PosGen.newline t n = (t.newline n, [(t.newline n).entry]) := by
  simp [PosGen.newline, Tracker.newline, Tracker.entry]

theorem tie_add (idx : Index) (e : Line) : PosGen.add idx e = idx.add e := rfl

theorem tie_findLoop (idx : Index) (pos : Nat) : ∀ (n first last : Nat), last - first = n →
    PosGen.findLoop idx pos first last = findLoop idx pos first last := by
  intro n
  induction n using Nat.strongRecOn with
  | _ n ih =>
    intro first last hn
    unfold PosGen.findLoop findLoop
    by_cases hc : first + 1 < last
    · simp only [hc, ↓reduceDIte]
      split
      · exact ih _ (by omega) _ _ rfl
      · exact ih _ (by omega) _ _ rfl
    · simp only [hc, ↓reduceDIte]

theorem tie_find (idx : Index) (pos : Nat) : PosGen.find idx pos = idx.find pos := by
  simp only [PosGen.find, Index.find, tie_findLoop idx pos _ 0 idx.length rfl]

/-- `Document::add_error` resolves the start of the range for `error_t::start` and the end for `error_t::end` -/
theorem tie_add_error (idx : Index) (a b : Nat) (ea eb : Line) (ha : idx.find a = .ok ea) (hb : idx.find b = .ok eb) :
    PosGen.add_error idx a b = .ok (ea, eb) := by
  simp [PosGen.add_error, tie_find, ha, hb]

theorem tie_add_warning (idx : Index) (a b : Nat) (ea eb : Line) (ha : idx.find a = .ok ea) (hb : idx.find b = .ok eb) :
    PosGen.add_warning idx a b = .ok (ea, eb) := by
  simp [PosGen.add_warning, tie_find, ha, hb]

/-- every rule of today's lexer.l reports exactly the newlines its pattern matches (the string rule aside) -/
theorem tie_rules_faithful : Faithful LexRulesGen.rules = true := by decide

/-- in both start conditions every character is matched by some rule: the scanner never jams -/
theorem tie_rules_covering : Covering LexRulesGen.rules = true := by decide

/-! ### (find) -/

/-- **C06_find**: on a monotone, non-empty table the binary search returns the last entry whose position is `≤ pos`
    (the first entry when there is none). -/
theorem C06_find (idx : Index) (hm : Monotone idx) (hne : idx ≠ []) (pos : Nat) :
    ∃ r, IsLastLE idx pos r ∧ idx.find pos = .ok (idx.getD r default) ∧
      ∀ r', IsLastLE idx pos r' → r' = r := by
  have hlen : 0 < idx.length := by
    cases idx with
    | nil => exact absurd rfl hne
    | cons _ _ => simp
  have hemp : idx.isEmpty = false := by
    cases idx with
    | nil => exact absurd rfl hne
    | cons _ _ => rfl
  have h := findLoop_spec idx hm pos idx.length 0 idx.length rfl hlen (Nat.le_refl _) (Or.inl rfl)
    (by intro j h1 h2; omega)
  exact ⟨_, h, by simp [Index.find, hemp], fun r' hr' => hr'.unique h⟩

example : Monotone [⟨1, 0, 1, "/p"⟩, ⟨8, 7, 2, "/p"⟩, ⟨8, 7, 3, "/p"⟩, ⟨20, 19, 5, "/p"⟩] ∧
    (Index.find [⟨1, 0, 1, "/p"⟩, ⟨8, 7, 2, "/p"⟩, ⟨8, 7, 3, "/p"⟩, ⟨20, 19, 5, "/p"⟩] 9).toOption = some ⟨8, 7, 3, "/p"⟩ := by
  decide +kernel

/-! ### (linecol) -/

/-- `resolve` (binary search, uint32 column) agrees with the reference resolution on monotone tables below 2^32 -/
theorem resolve_eq_spec (idx : Index) (hm : Monotone idx) (pos : Nat) (l : Loc) (hpos : pos < W)
    (h : resolveSpec idx pos = some l) (hle : ∀ e, findSpec idx pos = some e → e.position ≤ pos) :
    resolve idx pos = .ok l := by
  have hne : idx ≠ [] := by
    intro hnil; rw [hnil] at h; simp [resolveSpec, findSpec] at h
  obtain ⟨e, hf, hs⟩ := find_eq_findSpec idx hm hne pos
  have hep := hle e hs
  simp only [resolveSpec, hs, Option.map_some, Option.some.injEq] at h
  simp only [resolve, hf]
  rw [← h]
  congr 2
  have : pos + W - e.position = (pos - e.position) + W := by omega
  rw [this, Nat.add_mod_right, Nat.mod_eq_of_lt (by omega)]

/-- the state right after `tracker.setPath(ch, path)` at the start of a block, on any earlier table `idx0` whose
    positions lie below the block -/
def blockStart (idx0 : Index) (p0 : Nat) (path : String) : St :=
  { tr := { line := 1, offset := 0, position := p0 + 1, path := path },
    idx := idx0 ++ [{ position := p0 + 1, offset := 0, line := 1, path := path }] }

theorem blockStart_inv (idx0 : Index) (p0 : Nat) (path : String) (hm : Monotone idx0)
    (hlt : ∀ l, idx0.getLast? = some l → l.position ≤ p0 + 1) : Inv p0 path [] (blockStart idx0 p0 path) := by
  refine ⟨rfl, rfl, rfl, ?_, ⟨{ position := p0 + 1, offset := 0, line := 1, path := path }, by simp [blockStart], rfl, rfl,
    by simp [colOf]⟩⟩
  cases h : idx0.getLast? with
  | none =>
    have : idx0 = [] := List.getLast?_eq_none_iff.mp h
    subst this; simp [blockStart, Monotone]
  | some l => exact Monotone.append_one idx0 l _ hm h (hlt l h)

/-- **C06_linecol (lexeme level)**: whatever sequence of honest lexemes the scanner produces for a block, after any
    number `m` of them every settled position already scanned — `u` a newline-free prefix of the lexeme `lx` that
    follows the lexemes `a` — resolves, through the real binary search, to the block's path, the reference line
    `1 + #newlines before` and the reference column `#characters after the last newline`.
    Nothing throws below 2^32. -/
theorem C06_linecol_lexemes (idx0 : Index) (p0 : Nat) (path : String) (hm : Monotone idx0)
    (hlt : ∀ l, idx0.getLast? = some l → l.position ≤ p0 + 1)
    (ls : List Lexeme) (hon : ∀ lx ∈ ls, Honest lx) (hfit : p0 + 1 + (flat ls).length < W)
    (a : List Lexeme) (lx : Lexeme) (b : List Lexeme) (u v : List Char)
    (hsplit : ls = a ++ lx :: b) (hchars : lx.chars = u ++ v) (hu : noNl u) :
    ∃ s', runLexemes (blockStart idx0 p0 path) ls = .ok s' ∧
      resolve s'.idx (p0 + 1 + (flat a).length + u.length) =
        .ok { path := path, line := refLine (flat a ++ u), col := refCol (flat a ++ u) } := by
  obtain ⟨s', more, hrun, hinv, hidx, hmore, hset⟩ :=
    run_inv p0 path ls [] (blockStart idx0 p0 path) (blockStart_inv idx0 p0 path hm hlt) hon (by simpa using hfit)
  refine ⟨s', hrun, ?_⟩
  have hs := hset a lx b u v hsplit hchars hu
  simp only [List.length_nil, Nat.add_zero, List.nil_append] at hs
  have hlen : (flat a).length + u.length ≤ (flat ls).length := by
    rw [hsplit, flat_append, flat_cons, hchars]
    simp only [List.length_append]
    omega
  apply resolve_eq_spec s'.idx hinv.mono _ _ (by omega) hs
  intro e he
  -- the entry found is at or before the position: the column of the reference is a natural number difference
  simp only [resolveSpec, he, Option.map_some, Option.some.injEq] at hs
  have hcol : p0 + 1 + (flat a).length + u.length - e.position = refCol (flat a ++ u) := by
    have := congrArg Loc.col hs; simpa using this
  -- if the entry were beyond the position the difference would be 0 and the entry the first of the table … it is not:
  -- the block's own first entry `p0 + 1` is `≤` the position and the search returns the last entry `≤ pos`
  rcases Nat.lt_or_ge (p0 + 1 + (flat a).length + u.length) e.position with hgt | hge
  · exfalso
    -- findSpec returns an entry `> pos` only when it is the head of the table and no entry is `≤ pos`
    have hne : s'.idx ≠ [] := by intro hn; rw [hn] at he; simp [findSpec] at he
    obtain ⟨e', hf, hs'⟩ := find_eq_findSpec s'.idx hinv.mono hne (p0 + 1 + (flat a).length + u.length)
    rw [he] at hs'
    have hee : e' = e := (Option.some.inj hs').symm
    subst hee
    obtain ⟨r, hr, hfr, _⟩ := C06_find s'.idx hinv.mono hne (p0 + 1 + (flat a).length + u.length)
    rw [hf] at hfr
    have her : e' = s'.idx.getD r default := Except.ok.inj hfr
    obtain ⟨hrlt, hr0, hrgt⟩ := hr
    -- the block's first entry sits at index |idx0| and has position p0 + 1 ≤ pos
    have hidx' : s'.idx = idx0 ++ ({ position := p0 + 1, offset := 0, line := 1, path := path } :: more) := by
      rw [hidx]; simp [blockStart]
    have hk : idx0.length < s'.idx.length := by rw [hidx']; simp
    have hget : (s'.idx.getD idx0.length default).position = p0 + 1 := by
      rw [hidx']; simp [List.getD_eq_getElem?_getD]
    rcases hr0 with h0 | hle
    · subst h0
      rcases Nat.eq_zero_or_pos idx0.length with hz | hpos
      · rw [hz] at hget; rw [her] at hgt; omega
      · have := hrgt idx0.length hpos hk
        omega
    · rw [her] at hgt; omega
  · exact hge

/-- no string literal of the segmentation contains a newline -/
def NoNewlineInStringLiteral (ls : List Lexeme) : Prop := ∀ lx ∈ ls, lx.rule.pat = .str → noNl lx.chars

theorem str_honest (lx : Lexeme) (hr : lx.rule ∈ LexRulesGen.rules) (hp : lx.rule.pat = .str)
    (hnl : ∃ n, lx.nl = nlValue lx.rule.nl n) (hno : noNl lx.chars) : Honest lx := by
  have hok : lx.rule.pat.nlOK lx.rule.nl = true := by
    have := tie_rules_faithful
    simp only [Faithful, List.all_eq_true] at this
    exact this lx.rule hr
  rw [hp] at hok
  simp only [Pat.nlOK, beq_iff_eq] at hok
  obtain ⟨n, hnl⟩ := hnl
  rw [hok] at hnl
  have h0 : lx.nl = 0 := by rw [hnl]; rfl
  exact ⟨by rw [h0, countNl_noNl hno], fun h => absurd h0 h⟩

/-- **C06_linecol**: for *every* block text whose string literals contain no newline, scanned with the rule table
    regenerated from today's lexer.l: the scanner consumes the whole text, nothing throws below 2^32, and for every
    split `text = pre ++ post` at a settled position (`pre` ends at a lexeme boundary followed by a newline-free part
    of the next lexeme) a diagnostic end at absolute position `p0 + 1 + |pre|` is reported at
    (path, 1 + newlines in `pre`, characters after the last newline of `pre`). -/
theorem C06_linecol (idx0 : Index) (p0 : Nat) (path : String) (hm : Monotone idx0)
    (hlt : ∀ l, idx0.getLast? = some l → l.position ≤ p0 + 1) (text : List Char)
    (hstr : NoNewlineInStringLiteral (lexAll LexRulesGen.rules .initial text).1)
    (hfit : p0 + 1 + text.length < W)
    (a : List Lexeme) (lx : Lexeme) (b : List Lexeme) (u v : List Char)
    (hsplit : (lexAll LexRulesGen.rules .initial text).1 = a ++ lx :: b) (hchars : lx.chars = u ++ v) (hu : noNl u) :
    flat (lexAll LexRulesGen.rules .initial text).1 = text ∧
    ∃ s', runLexemes (blockStart idx0 p0 path) (lexAll LexRulesGen.rules .initial text).1 = .ok s' ∧
      resolve s'.idx (p0 + 1 + (flat a ++ u).length) =
        .ok { path := path, line := refLine (flat a ++ u), col := refCol (flat a ++ u) } := by
  have hflat := lexAll_complete LexRulesGen.rules tie_rules_covering .initial text
  refine ⟨hflat, ?_⟩
  have hon : ∀ lx ∈ (lexAll LexRulesGen.rules .initial text).1, Honest lx := by
    intro lx' hlx'
    by_cases hp : lx'.rule.pat = .str
    · obtain ⟨hr, t', _, _, hn⟩ := lexAll_lexemes LexRulesGen.rules .initial text lx' hlx'
      exact str_honest lx' hr hp ⟨_, hn⟩ (hstr lx' hlx' hp)
    · exact lexAll_honest LexRulesGen.rules tie_rules_faithful .initial text lx' hlx' hp
  obtain ⟨s', hrun, hres⟩ := C06_linecol_lexemes idx0 p0 path hm hlt _ hon (by rw [hflat]; exact hfit) a lx b u v hsplit hchars hu
  refine ⟨s', hrun, ?_⟩
  rw [List.length_append, ← Nat.add_assoc]
  exact hres

/-- the text of the example below: a comment over two lines, a continuation, CRLF, a blank line -/
def exampleText : List Char := "/* c\n */ x \\\n\r\n\n @".toList

/-- a block with comments, CRLF, a continuation and blank lines satisfies the hypotheses (they are not vacuous):
    `@` is the last lexeme, the reference puts it at line 5, column 1 -/
example : (lexAll LexRulesGen.rules .initial exampleText).1 =
      (lexAll LexRulesGen.rules .initial exampleText).1.dropLast ++
        ((lexAll LexRulesGen.rules .initial exampleText).1.getLast?.getD default) :: [] ∧
    ((lexAll LexRulesGen.rules .initial exampleText).1.getLast?.getD default).chars = ['@'] ∧
    refLine (flat (lexAll LexRulesGen.rules .initial exampleText).1.dropLast) = 5 ∧
    refCol (flat (lexAll LexRulesGen.rules .initial exampleText).1.dropLast) = 1 ∧
    (∀ lx ∈ (lexAll LexRulesGen.rules .initial exampleText).1, lx.rule.pat ≠ .str) := by
  decide +kernel

/-- what a resolution prints, as plain data -/
def locTriple (r : Except Err Loc) : Option (String × Nat × Nat) :=
  match r with
  | .ok l => some (l.path, l.line, l.col)
  | .error _ => none

/-- resolution of the character at offset `k` of a block text scanned from a fresh tracker (position 0) -/
def resolveInBlock (text : List Char) (k : Nat) : Option (String × Nat × Nat) :=
  match runLexemes (blockStart [] 0 "/p") (lexAll LexRulesGen.rules .initial text).1 with
  | .ok s => locTriple (resolve s.idx (1 + k))
  | .error _ => none

/-- **exception shape `string-newline`** (DESIGN F-C06-1): the string rule `\"[^\"]+\"` of today's lexer.l swallows
    newlines without telling the tracker, so a token after a two-line string literal is reported one line early and
    with a column that lies outside its line.  Text `"a⏎b" @`: the reference puts `@` (offset 6) at line 2, column 3;
    the model of the code resolves it to line 1, column 6. -/
theorem C06_string_newline_witness :
    resolveInBlock "\"a\nb\" @".toList 6 = some ("/p", 1, 6) ∧
      (refLine "\"a\nb\" ".toList, refCol "\"a\nb\" ".toList) = (2, 3) := by
  decide +kernel

/-! ### (xpath) -/

/-- **C06_xpath**: when the reader stands on the node at address `i :: addr` the XPath string printed by `Path::str`
    selects, in the same document, exactly that node — for every document and node whose path levels are `LevelOK`
    (the row of the `switch` exists, prints the element's real name, counts its own tag, and an un-indexed step
    is unambiguous among the siblings). -/
theorem C06_xpath (table : List TagRow) (nameOf : String → String) (roots : List XNode) (i : Nat) (addr : Addr)
    (h : PathOK table nameOf roots (i :: addr)) :
    ∃ ss, (Path.run Path.init (prefixTo roots (i :: addr))).steps table none = some ss ∧
      select nameOf roots ss = [i :: addr] := by
  obtain ⟨ss, hss, hsel⟩ := select_specLevels table nameOf (i :: addr) roots h
  refine ⟨ss, ?_, hsel⟩
  have := run_prefixTo addr roots [] i h.valid
  simp only [Path.steps, Path.init]
  rw [this]
  simpa using hss

/-- the hypothesis `PathOK` is satisfiable: the second template of `<nta><declaration/><template/><template/></nta>`
    with today's table and `tag_map` -/
example : PathOK PathTableGen.table PathCheck.elementName
    [.elem "NTA" [.elem "DECLARATION" [], .elem "TEMPLATE" [], .elem "TEMPLATE" []]] [0, 2] := by
  refine ⟨.elem "NTA" [.elem "DECLARATION" [], .elem "TEMPLATE" [], .elem "TEMPLATE" []],
    ⟨rfl, ⟨"NTA", "nta", none⟩, by decide, by decide, by decide⟩,
    .elem "TEMPLATE" [], ⟨rfl, ⟨"TEMPLATE", "template", some "TEMPLATE"⟩, by decide, by decide, by decide⟩, trivial⟩

/-- every row of `Path::str` outside the computed exception set `PathCheck.badRows` prints the element's own name and
    counts its own tag — the table-level part of `LevelOK` (the rest is a property of the document) -/
theorem C06_xpath_rows : ∀ r ∈ PathTableGen.table, r ∉ PathCheck.badRows →
    r.name = PathCheck.elementName r.tag ∧ (r.counted = none ∨ r.counted = some r.tag) := by
  intro r hr hbad
  have : PathCheck.rowOK r = true := by
    by_cases h : PathCheck.rowOK r = true
    · exact h
    · exfalso; apply hbad
      simp only [PathCheck.badRows, List.mem_filter]
      exact ⟨hr, by simpa using h⟩
  simp only [PathCheck.rowOK, Bool.and_eq_true, Bool.or_eq_true, beq_iff_eq] at this
  exact this

/-- the second template's third location's second label: what the model prints with today's table -/
example : ((Path.run Path.init (prefixTo
      [.elem "NTA" [.elem "DECLARATION" [], .elem "TEMPLATE" [], .elem "TEMPLATE" [.elem "NAME" [], .elem "LOCATION" [],
        .elem "LOCATION" [], .elem "LOCATION" [.elem "NAME" [], .elem "LABEL" [], .elem "LABEL" []]], .elem "SYSTEM" []]]
      [0, 2, 3, 2])).steps PathTableGen.table none).map renderSteps = some "/nta/template[2]/location[3]/label[2]" := by
  decide +kernel

/-- **exception shape `xpath-name`**: a step whose printed name is not the name of any child selects nothing, so a path
    through a row that prints a wrong element name (`lscTemplate` for `<lsc>`) selects no element at all. -/
theorem C06_xpath_wrong_name_selects_nothing (nameOf : String → String) (kids : List XNode) (s : Step) (rest : List Step)
    (h : ∀ x ∈ kids, nameOf x.tag ≠ s.name) : select nameOf kids (s :: rest) = [] := by
  have hnamed : idxs (fun n => nameOf n.tag == s.name) kids 0 = [] := by
    apply idxs_nil_of_filter
    apply List.filter_eq_nil_iff.mpr
    intro x hx; simpa using h x hx
  simp only [select, selectStep, selectStep_range, hnamed]
  cases s.index with
  | none => simp
  | some i => by_cases hi : i = 0 <;> simp [hi]

/-! ### (ranges) -/

/-- all ranges lie in `[lo, hi]`, each has start ≤ stop, and they follow one another -/
def Chain (lo hi : Nat) : List Range → Prop
  | [] => lo ≤ hi
  | r :: rest => lo ≤ r.start ∧ r.start ≤ r.stop ∧ r.stop ≤ hi ∧ Chain r.stop hi rest

/-- **C06_ranges (tokens)**: the `yylloc` values of the lexemes of a block form a chain inside the block's range. -/
theorem C06_ranges_tokens : ∀ (ls : List Lexeme) (pos : Nat), Chain pos (pos + (flat ls).length) (tokenRanges pos ls) := by
  intro ls
  induction ls with
  | nil => intro pos; simp [tokenRanges, Chain, flat]
  | cons lx rest ih =>
    intro pos
    simp only [tokenRanges, Chain, flat_cons, List.length_append]
    refine ⟨Nat.le_refl _, by omega, by omega, ?_⟩
    have := ih (pos + lx.chars.length)
    rw [Nat.add_assoc] at this
    exact this

theorem Chain.bounds {lo hi : Nat} : ∀ {l : List Range}, Chain lo hi l → lo ≤ hi := by
  intro l
  induction l generalizing lo with
  | nil => intro h; exact h
  | cons r rest ih => intro h; have := ih h.2.2.2; have := h.1; have := h.2.1; omega

theorem Chain.last_stop {lo hi : Nat} : ∀ {l : List Range} {r : Range}, Chain lo hi (r :: l) →
    r.start ≤ ((r :: l).getLast?.getD r).stop ∧ ((r :: l).getLast?.getD r).stop ≤ hi := by
  intro l
  induction l generalizing lo with
  | nil => intro r h; simp; exact ⟨h.2.1, h.2.2.1⟩
  | cons r' rest ih =>
    intro r h
    have h' := ih h.2.2.2
    have e : ((r :: r' :: rest).getLast?.getD r) = ((r' :: rest).getLast?.getD r') := by
      have hl : (r' :: rest).getLast? = some ((r' :: rest).getLast (by simp)) := List.getLast?_eq_some_getLast (by simp)
      simp only [List.getLast?_cons_cons, hl, Option.getD_some]
    rw [e]
    exact ⟨by have := h.2.1; have := h.2.2.2.1; omega, h'.2⟩

/-- **C06_ranges_partial (productions)**: YYLLOC_DEFAULT applied to a chain of right-hand-side locations that follows a
    location `prev` inside the block yields a location inside the block with start ≤ stop; hence every
    `CALL(@i, @j, …)` with `i ≤ j` sets a range inside the block with start ≤ end.
    *Partial*: the location below the first symbol of a parse (the start token `T_NEW_…`) is whatever `yylloc` held
    before the call (the previous parse's last token, or INT_MAX in a fresh process) — an empty production reduced
    directly above the start token therefore gets that stale location.  The full statement
    "every position assigned while parsing a block lies in the block" needs `prev` in range, which is what is
    assumed here; the harness observes every `set_position` call and reports ranges outside the block. -/
theorem C06_ranges_partial (lo hi : Nat) (prev : Range) (rhs : List Range)
    (hprev : lo ≤ prev.stop ∧ prev.stop ≤ hi) (hchain : Chain prev.stop hi rhs) :
    lo ≤ (yyllocDefault prev rhs).start ∧ (yyllocDefault prev rhs).start ≤ (yyllocDefault prev rhs).stop ∧
      (yyllocDefault prev rhs).stop ≤ hi := by
  cases rhs with
  | nil => simp only [yyllocDefault]; omega
  | cons r rest =>
    simp only [yyllocDefault]
    have := hchain.last_stop
    have := hchain.1
    omega

example : Chain 4 20 [⟨5, 8⟩, ⟨9, 9⟩, ⟨12, 20⟩] ∧ yyllocDefault ⟨3, 4⟩ [⟨5, 8⟩, ⟨9, 9⟩, ⟨12, 20⟩] = ⟨5, 20⟩ :=
  ⟨by simp [Chain], by simp [yyllocDefault]⟩

/-! ### (token) a diagnostic attached to one token covers exactly that token -/

/-- **C06_token_range**: for every token `lx` without a newline (an identifier, say — the range `CALL(@1, @1,
    expr_identifier(…))` gives to an unknown-identifier error is the token's own `yylloc`): both ends resolve to the
    reference line of the token, the start to the reference column `c` and the end to `c + length`. -/
theorem C06_token_range (idx0 : Index) (p0 : Nat) (path : String) (hm : Monotone idx0)
    (hlt : ∀ l, idx0.getLast? = some l → l.position ≤ p0 + 1)
    (ls : List Lexeme) (hon : ∀ lx ∈ ls, Honest lx) (hfit : p0 + 1 + (flat ls).length < W)
    (a : List Lexeme) (lx : Lexeme) (b : List Lexeme) (hsplit : ls = a ++ lx :: b) (hno : noNl lx.chars) :
    ∃ s', runLexemes (blockStart idx0 p0 path) ls = .ok s' ∧
      resolve s'.idx (p0 + 1 + (flat a).length) =
        .ok { path := path, line := refLine (flat a), col := refCol (flat a) } ∧
      resolve s'.idx (p0 + 1 + (flat a).length + lx.chars.length) =
        .ok { path := path, line := refLine (flat a), col := refCol (flat a) + lx.chars.length } := by
  obtain ⟨s1, hrun1, hres1⟩ := C06_linecol_lexemes idx0 p0 path hm hlt ls hon hfit a lx b [] lx.chars hsplit (by simp)
    (by intro c hc; simp at hc)
  obtain ⟨s2, hrun2, hres2⟩ := C06_linecol_lexemes idx0 p0 path hm hlt ls hon hfit a lx b lx.chars [] hsplit (by simp) hno
  rw [hrun1] at hrun2
  have : s1 = s2 := Except.ok.inj hrun2
  subst this
  refine ⟨s1, hrun1, by simpa using hres1, ?_⟩
  rw [hres2]
  simp only [refLine, refCol, countNl_append, countNl_noNl hno, colOf_append_noNl _ _ hno, Nat.add_zero]

end UtapModel.C06
