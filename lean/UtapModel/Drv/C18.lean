/- Line-protocol driver for the generated `range_t` model (property C18).
   One operation per input line, one canonical result per output line; the C++ harness `harness/c18.cpp`
   answers the same lines by calling the real `UTAP::range_t<int32_t>`. -/
import UtapModel.Gen.RangeGen
open UtapModel.RangeGen

def showR (r : Range) : String := s!"[{r.start},{r.finish}]"
def showB (b : Bool) : String := if b then "true" else "false"

def stepLine (line : String) : String :=
  let ws := (line.trimAscii.toString.splitOn " ").filter (· ≠ "")
  match ws with
  | [] => "bad-op"
  | op :: args =>
    match args.mapM String.toInt? with
    | none => "bad-op"
    | some xs =>
      match op, xs with
      | "gt", [a, b, e] => showR ((Range.mk a b).gt e)
      | "geq", [a, b, e] => showR ((Range.mk a b).geq e)
      | "lt", [a, b, e] => showR ((Range.mk a b).lt e)
      | "leq", [a, b, e] => showR ((Range.mk a b).leq e)
      | "andT", [a, b, e] => showR ((Range.mk a b).andT e)
      | "orT", [a, b, e] => showR ((Range.mk a b).orT e)
      | "addT", [a, b, e] => showR ((Range.mk a b).add_opT e)
      | "subT", [a, b, e] => showR ((Range.mk a b).sub_opT e)
      | "mulT", [a, b, e] => showR ((Range.mk a b).mul_opT e)
      | "contains", [a, b, e] => showB ((Range.mk a b).contains e)
      | "eqT", [a, b, e] => showB ((Range.mk a b).eq_opT e)
      | "andR", [a, b, c, d] => showR ((Range.mk a b).andR ⟨c, d⟩)
      | "orR", [a, b, c, d] => showR ((Range.mk a b).orR ⟨c, d⟩)
      | "addR", [a, b, c, d] => showR ((Range.mk a b).add_opR ⟨c, d⟩)
      | "subR", [a, b, c, d] => showR ((Range.mk a b).sub_opR ⟨c, d⟩)
      | "mulR", [a, b, c, d] => showR ((Range.mk a b).mul_opR ⟨c, d⟩)
      | "intersects", [a, b, c, d] => showB ((Range.mk a b).intersects ⟨c, d⟩)
      | "eqR", [a, b, c, d] => showB ((Range.mk a b).eq_opR ⟨c, d⟩)
      | "ltop", [a, b, c, d] => showB ((Range.mk a b).lt_op ⟨c, d⟩)
      | "gtop", [a, b, c, d] => showB ((Range.mk a b).gt_op ⟨c, d⟩)
      | "leop", [a, b, c, d] => showB ((Range.mk a b).le_op ⟨c, d⟩)
      | "geop", [a, b, c, d] => showB ((Range.mk a b).ge_op ⟨c, d⟩)
      | "minR", [a, b, c, d] => showR (Range.minR ⟨a, b⟩ ⟨c, d⟩)
      | "maxR", [a, b, c, d] => showR (Range.maxR ⟨a, b⟩ ⟨c, d⟩)
      | "addSelf", [a, b] => showR ((Range.mk a b).addAssignRSelf)
      | "subSelf", [a, b] => showR ((Range.mk a b).subAssignRSelf)
      | "mulSelf", [a, b] => showR ((Range.mk a b).mulAssignRSelf)
      | "andSelf", [a, b] => showR ((Range.mk a b).andAssignRSelf)
      | "orSelf", [a, b] => showR ((Range.mk a b).orAssignRSelf)
      | "size", [a, b] => toString ((Range.mk a b).size)
      | "empty", [a, b] => showB ((Range.mk a b).empty)
      | _, _ => "bad-op"

partial def loop (h : IO.FS.Stream) (out : IO.FS.Stream) : IO Unit := do
  let line ← h.getLine
  if line.isEmpty then return ()
  out.putStrLn (stepLine line)
  loop h out

def main : IO Unit := do
  let out ← IO.getStdout
  loop (← IO.getStdin) out
