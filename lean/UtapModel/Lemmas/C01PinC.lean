/- C01: pinned exception set, stacks P, C (finite check over the generated table; split over several modules so that
   lake checks them in parallel). -/
import UtapModel.Lemmas.C01Pin
namespace UtapModel.C01
theorem pinned_P : pinnedOn .P = true := by decide +kernel
theorem pinned_C : pinnedOn .C = true := by decide +kernel
end UtapModel.C01
