/-
C09 — texts as lexemes separated by trivia (the vocabulary of the lexer theorems; core Lean only).
-/
import UtapModel.Model.C09Lex
namespace UtapModel.C09

/-- the span stops inside `w`, or the next character does not satisfy `p` -/
def stopsIn (p : Ch → Bool) (w rest : List Ch) : Bool :=
  spanLen p w < w.length || (match rest with | [] => true | d :: _ => !p d)

def headNot (rest : List Ch) (bad : Ch → Bool) : Bool :=
  match rest with
  | [] => true
  | d :: _ => !bad d

/-- no literal rule has `w ++ [next character]` as a prefix (so no literal can match beyond `w`) -/
def noLit (rules : List Rule) (w rest : List Ch) : Bool :=
  match rest with
  | [] => true
  | d :: _ => rules.all fun r =>
      match r with
      | .lit l _ => !(pre (w ++ [d]) l)
      | .litOld l _ => !(pre (w ++ [d]) l)
      | _ => true

/-- `Closed rules w rest`: a sufficient, *local* condition (it looks at `w` and at most ONE following character) for
    "every rule of the INITIAL state matches `w ++ rest` exactly as it matches `w`" — no rule can extend the lexeme `w`.
    It excludes lexemes starting with a backslash, a double quote or a blank, `/` directly followed by `/` or `*`,
    an identifier directly followed by an identifier character, a number (integer or float literal: `floatLen w = |w|`)
    directly followed by a digit, `.`, `e` or `E`, and any adjacency that is the prefix of a longer literal rule
    (`-` `u`, `<` `<`, `A` `[`). -/
def Closed (rules : List Rule) (w rest : List Ch) : Bool :=
  match w with
  | [] => false
  | c0 :: w' =>
    c0 != 92 && c0 != 34 && !isBlank c0 && c0 != 10 && c0 != 13 &&
    !(pre [47, 47] (w ++ rest.take 1)) && !(pre [47, 42] (w ++ rest.take 1)) &&
    (!isAlpha c0 || stopsIn isIdChr w' rest) &&
    stopsIn isDigit w rest &&
    (!isDigit c0 || (floatLen w == w.length && headNot rest (fun d => isDigit d || d == 46 || d == 101 || d == 69))) &&
    noLit rules w rest

/-- the text of a block comment may be followed by `*/`: at no position inside it does the `EXPECT:` rule or the `*/` rule fire -/
def bodyOK : List Ch → Bool
  | [] => true
  | c :: b => !(pre expectLit (c :: b)) && !(pre [42, 47] (c :: b ++ [42])) && bodyOK b

/-- one trivia lexeme -/
inductive Triv
  | blanks (c : Ch) (b : List Ch)     -- `[ \t]+`
  | newlines (nl : List Ch)           -- `\n+`            text = '\n' :: nl
  | line (body : List Ch)             -- `"//"[^\n]*`     text = "//" ++ body
  | block (body : List Ch)            -- `/* body */`
  | cont (b : List Ch)                -- `"\\"[\t ]*"\n"` text = '\\' :: b ++ "\n"
  deriving Repr

def Triv.text : Triv → List Ch
  | .blanks c b => c :: b
  | .newlines nl => 10 :: nl
  | .line body => 47 :: 47 :: body
  | .block body => 47 :: 42 :: (body ++ [42, 47])
  | .cont b => 92 :: (b ++ [10])

/-- the item is well formed and maximal with respect to the text that follows it -/
def Triv.ok (t : Triv) (after : List Ch) : Bool :=
  match t with
  | .blanks c b => isBlank c && b.all isBlank && headNot after isBlank
  | .newlines nl => nl.all (fun c => c == 10) && headNot after (fun c => c == 10)
  | .line body => body.all (fun c => c != 10) && headNot after (fun c => c != 10)
  | .block body => bodyOK body
  | .cont b => b.all isBlank

def sepText : List Triv → List Ch
  | [] => []
  | t :: ts => t.text ++ sepText ts

def sepOK : List Triv → List Ch → Bool
  | [], _ => true
  | t :: ts, after => t.ok (sepText ts ++ after) && sepOK ts after

/-- a lexeme (its text and the rule that matches it when it stands alone) followed by a separator -/
structure Item where
  w : List Ch
  r : Rule
  sep : List Triv
  deriving Repr

def renderItems : List Item → List Ch
  | [] => []
  | it :: rest => it.w ++ (sepText it.sep ++ renderItems rest)

/-- the tokens of the lexemes, separators play no role -/
def tokensOf (cfg : Cfg) (n : Nat) : List Item → List Tok
  | [] => []
  | it :: rest => (action cfg n it.r it.w).1 ++ tokensOf cfg (n + (action cfg n it.r it.w).1.length) rest

/-- hypotheses of `lex_render`: every lexeme alone is matched completely by its rule, every lexeme is `Closed`
    with respect to the character that follows it, every separator is a well-formed maximal trivia sequence -/
def Renderable (cfg : Cfg) : List Item → Bool
  | [] => true
  | it :: rest =>
    best cfg.rules it.w == some (it.r, it.w.length) && it.r != .commentOpen &&
    Closed cfg.rules it.w (sepText it.sep ++ renderItems rest) && sepOK it.sep (renderItems rest) && Renderable cfg rest

/-! ### renaming -/

def renTok (ρ : List Ch → List Ch) : Tok → Tok
  | .id s => .id (ρ s)
  | .typename s => .typename (ρ s)
  | t => t

/-- a lexeme matched by the identifier rule that is no keyword under the current syntax: a user-chosen name -/
def isUserId (cfg : Cfg) (it : Item) : Bool := it.r == .ident && (kwTok cfg it.w).isNone

def renItems (cfg : Cfg) (ρ : List Ch → List Ch) (items : List Item) : List Item :=
  items.map fun it => if isUserId cfg it then { it with w := ρ it.w } else it

end UtapModel.C09
