/-
S-expression reader (used by the C17 and C19 drivers) and the decoder of `harness/c17.cpp`'s abstract document dump.
Core Lean only.
-/
import UtapModel.Model.Feature

namespace UtapModel.Sexp

inductive Sx where
  | atom (s : String)
  | list (xs : List Sx)
deriving Repr, Inhabited

/-- tokens: "(" , ")" , atoms (no white space / parentheses); double-quoted strings are one atom, quotes kept -/
partial def tokenize (cs : List Char) (cur : List Char) (acc : Array String) : Array String :=
  let flush (acc : Array String) := if cur.isEmpty then acc else acc.push (String.ofList cur.reverse)
  match cs with
  | [] => flush acc
  | '(' :: r => tokenize r [] ((flush acc).push "(")
  | ')' :: r => tokenize r [] ((flush acc).push ")")
  | '"' :: r =>
    let rec str (cs : List Char) (s : List Char) : List Char × List Char :=
      match cs with
      | [] => (s, [])
      | '\\' :: c :: r => str r (c :: '\\' :: s)
      | '"' :: r => ('"' :: s, r)
      | c :: r => str r (c :: s)
    let (s, rest) := str r ['"']
    tokenize rest [] ((flush acc).push (String.ofList s.reverse))
  | c :: r => if c == ' ' || c == '\n' || c == '\t' || c == '\r' then tokenize r [] (flush acc) else tokenize r (c :: cur) acc

/-- parses a token stream into a list of S-expressions (stack machine, total) -/
def parseToks (toks : Array String) : Option (List Sx) := Id.run do
  let mut stack : List (List Sx) := [[]]
  for t in toks do
    if t == "(" then stack := [] :: stack
    else if t == ")" then
      match stack with
      | top :: next :: rest => stack := (Sx.list top.reverse :: next) :: rest
      | _ => return none
    else
      match stack with
      | top :: rest => stack := (Sx.atom t :: top) :: rest
      | [] => return none
  match stack with
  | [top] => return some top.reverse
  | _ => return none

def parse (s : String) : Option (List Sx) := parseToks (tokenize s.toList [] #[])

end UtapModel.Sexp

namespace UtapModel.Feature
open UtapModel.Sexp

def decodeFlags (s : String) : Flags :=
  { dbl := s.contains 'D', hyb := s.contains 'H', clk := s.contains 'C', symHyb := s.contains 'S' }

def decodeVal (s : String) : CVal :=
  if s == "-" then .none
  else if s == "d0" then .dbl 0
  else if s == "d1" then .dbl 1
  else if s == "dx" then .dbl 2
  else match s.toInt? with
    | some v => .int v
    | none => .none

partial def decodeExpr : Sx → Option FExpr
  | .list [] => some .empty
  | .list (.atom k :: .atom fl :: .atom v :: sub) => do
    let kind ← Kind.ofName? k
    let subs ← sub.mapM decodeExpr
    pure (.node kind (decodeFlags fl) (decodeVal v) subs)
  | _ => none

def decodeSymFlags (s : String) : SymFlags :=
  { clkD := s.contains 'c', clkS := s.contains 'C', chD := s.contains 'h', bcD := s.contains 'b',
    chS := s.contains 'H', bcS := s.contains 'B', ref := s.contains 'r' }

def decodeSym : Sx → Option FSym
  | .list [.atom "var", .atom fl, e] => do pure (.var (decodeSymFlags fl) (← decodeExpr e))
  | .list [.atom "loc", .atom fl, e] => do pure (.loc (decodeSymFlags fl) (← decodeExpr e))
  | .list [.atom "tdef", .atom fl] => some (.tdef (decodeSymFlags fl))
  | .list [.atom "other", .atom fl] => some (.other (decodeSymFlags fl))
  | _ => none

def decodeFrame : Sx → Option (List FSym)
  | .list (.atom "frame" :: syms) => syms.mapM decodeSym
  | _ => none

def decodeEdge : Sx → Option Edge
  | .list [.atom "edge", g, a] => do pure { guard := ← decodeExpr g, assign := ← decodeExpr a }
  | _ => none

def decodeTempl : Sx → Option Templ
  | .list [.atom "templ", .atom i, .atom d, fr, .list (.atom "edges" :: es)] => do
    pure { inst := i == "1", dynamic := d == "1", frame := ← decodeFrame fr, edges := ← es.mapM decodeEdge }
  | _ => none

def decodeDoc : Sx → Option Doc
  | .list (.atom "doc" :: .atom d :: .atom p :: fr :: ts) => do
    pure { dyn := d == "1", prio := p == "1", gframe := ← decodeFrame fr, templs := ← ts.mapM decodeTempl }
  | _ => none

end UtapModel.Feature
