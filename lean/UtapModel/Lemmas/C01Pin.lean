/- C01: definitions shared by the pinned-exception lemmas (instance of the generic check for today's parser.y). -/
import UtapModel.Model.C01Effect
namespace UtapModel.C01
open UtapModel.Gen.Grammar

def utapSig (s : Stack) (B : NT) : Sig := (sigOf B).get s
def utapEff (s : Stack) (cb : CB) : Eff := effect cb s

/-- the productions that satisfy the obligation on stack `s` -/
def utapGood (s : Stack) : List P := prods.filter (fun p => lbProd (utapSig s) (utapEff s) p)

/-- **computed exception set** of stack `s`: ids of the productions that fail the obligation -/
def utapExceptionsOn (s : Stack) : List Nat :=
  (prods.filter (fun p => !lbProd (utapSig s) (utapEff s) p)).map (·.id)

/-- keys of the known offending shapes: (production name, stack).  Each is confirmed against the real library by a
    witness input (checks/c01.py replays it under ASan) and listed in known_findings.d/C01.json. -/
def knownExceptionKeys : List (String × Stack) := [
  ("IfCondition#2", .F),
  ("ArrayDecl2#3", .C),
  ("StrategyAssignment#1", .Q),
  ("SelectList#1", .E),
  ("SelectList#2", .E),
  ("InstanceLineExpression#1", .L),
  ("InstanceLineExpression#2", .L),
  ("Uppaal#29", .M)
]

def pinnedOn (s : Stack) : Bool :=
  (utapExceptionsOn s).all (fun i => knownExceptionKeys.contains (prodKey i, s))

end UtapModel.C01
