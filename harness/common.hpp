// Shared pieces of the correspondence harnesses: canonical dumps of the real library's objects.
// Canonical = no pointers, no addresses, no std::set<symbol_t> iteration order, doubles as bit patterns.
#pragma once
#include "utap/utap.h"
#include "utap/builder.h"
#include "utap/document.h"
#include "utap/DocumentBuilder.hpp"
#include "utap/StatementBuilder.hpp"
#include "utap/expression.h"
#include "utap/featurechecker.h"
#include "utap/property.h"
#include "utap/typechecker.h"

#include <cstdint>
#include <cstring>
#include <fstream>
#include <iostream>
#include <sstream>
#include <string>
#include <vector>

namespace vh {
using namespace UTAP;
using namespace UTAP::Constants;

// kinds.inc is generated on every run from include/utap/common.h (translate/kinds.py): one `K(NAME)` per enumerator
inline const char* kindName(int k)
{
    switch (k) {
#define K(name) \
    case Constants::name: return #name;
#include "kinds.inc"
#undef K
    default: return "?KIND";
    }
}

inline std::string quote(const std::string& s)
{
    std::string o = "\"";
    for (unsigned char c : s) {
        if (c == '"' || c == '\\') { o += '\\'; o += (char)c; }
        else if (c == '\n') o += "\\n";
        else if (c == '\r') o += "\\r";
        else if (c == '\t') o += "\\t";
        else if (c < 32 || c > 126) { char b[8]; std::snprintf(b, sizeof b, "\\x%02x", c); o += b; }
        else o += (char)c;
    }
    return o + "\"";
}

inline std::string hexDouble(double d)
{
    uint64_t u;
    std::memcpy(&u, &d, 8);
    char b[24];
    std::snprintf(b, sizeof b, "%016llx", (unsigned long long)u);
    return b;
}

std::string tsexp(const type_t& t, int depth = 0);

/// S-expression of an expression tree: (KIND [attrs] children...)
inline std::string sexp(const expression_t& e, bool with_types = false)
{
    if (e.empty()) return "()";
    std::ostringstream os;
    auto k = e.get_kind();
    os << "(" << kindName(k);
    try {
        if (k == IDENTIFIER) {
            os << " " << e.get_symbol().get_name();
        } else if (k == CONSTANT) {
            type_t t = e.get_type();
            if (t.is(Constants::DOUBLE)) os << " double " << hexDouble(e.get_double_value());
            else if (t.is_string()) os << " string " << quote(std::string(e.get_string_value()));
            else if (t.is(Constants::BOOL)) os << " bool " << e.get_value();
            else os << " int " << e.get_value();
        } else if (k == DOT) {
            os << " #" << e.get_index();
        } else if (k == SYNC) {
            os << (e.get_sync() == SYNC_QUE ? " ?" : e.get_sync() == SYNC_BANG ? " !" : " csp");
        } else if (k == VAR_INDEX) {
            os << " " << e.get_value();
        }
    } catch (std::exception& ex) {
        os << " <attr-exception>";
    }
    if (with_types) os << " :" << tsexp(e.get_type());
    for (size_t i = 0; i < e.get_size(); ++i) os << " " << sexp(e[i], with_types);
    os << ")";
    return os.str();
}

/// S-expression of a type: (KIND [label] children...)   ranges carry their bound expressions
inline std::string tsexp(const type_t& t, int depth)
{
    if (t.unknown()) return "(UNKNOWN)";
    if (depth > 40) return "(...)";
    std::ostringstream os;
    auto k = t.get_kind();
    os << "(" << kindName(k);
    if (k == RANGE) {
        os << " " << tsexp(t.get(0), depth + 1);
        auto r = t.get_range();
        os << " " << sexp(r.first) << " " << sexp(r.second);
    } else if (k == LABEL) {
        os << " " << t.get_label(0) << " " << tsexp(t.get(0), depth + 1);
    } else if (k == PROCESS || k == INSTANCE || k == LSC_INSTANCE || k == PROCESS_SET) {
        os << " #" << t.size();   // fields of a process type are its template's symbols: do not recurse
    } else {
        for (uint32_t i = 0; i < t.size(); ++i) {
            if ((k == RECORD || k == FUNCTION || k == FUNCTION_EXTERNAL) && !t.get_label(i).empty()) os << " " << t.get_label(i) << ":";
            else os << " ";
            os << tsexp(t.get(i), depth + 1);
        }
    }
    os << ")";
    return os.str();
}

/// diagnostics in canonical form
inline std::string diagLine(const char* tag, const UTAP::error_t& e, bool with_pos = true)
{
    std::ostringstream os;
    os << tag << " " << quote(e.msg);
    if (with_pos)
        os << " path=" << quote(e.start.path ? *e.start.path : std::string()) << " " << e.start.line << ":"
           << (e.position.start - e.start.position) << "-" << e.end.line << ":" << (e.position.end - e.end.position);
    return os.str();
}

inline void dumpDiags(std::ostream& os, Document& doc, bool with_pos = true)
{
    for (auto& e : doc.get_errors()) os << diagLine("ERROR", e, with_pos) << "\n";
    for (auto& e : doc.get_warnings()) os << diagLine("WARNING", e, with_pos) << "\n";
}

inline std::string frameDump(const frame_t& f)
{
    std::ostringstream os;
    os << "[";
    for (uint32_t i = 0; i < f.get_size(); ++i) os << (i ? " " : "") << f[i].get_name() << ":" << tsexp(f[i].get_type());
    os << "]";
    return os.str();
}

inline std::string endpoint(const edge_t& e, bool src)
{
    if (src) return e.src ? "L:" + e.src->uid.get_name() : e.srcb ? "B:" + e.srcb->uid.get_name() : "NONE";
    return e.dst ? "L:" + e.dst->uid.get_name() : e.dstb ? "B:" + e.dstb->uid.get_name() : "NONE";
}

/// canonical, order-defined dump of a Document (structure, not positions)
inline void dumpDocument(std::ostream& os, Document& doc, bool with_types = false)
{
    auto decls = [&](declarations_t& d, const char* ind) {
        for (auto& v : d.variables)
            os << ind << "var " << v.uid.get_name() << " " << tsexp(v.uid.get_type()) << " init=" << sexp(v.init, with_types) << "\n";
        for (auto& f : d.functions) os << ind << "fun " << f.uid.get_name() << " " << tsexp(f.uid.get_type()) << "\n";
        // typedefs and other symbols live only in the frame
        for (uint32_t i = 0; i < d.frame.get_size(); ++i) {
            auto s = d.frame[i];
            if (s.get_type().get_kind() == TYPEDEF) os << ind << "typedef " << s.get_name() << " " << tsexp(s.get_type()) << "\n";
        }
    };
    os << "globals\n";
    decls(doc.get_globals(), "  ");
    for (auto& t : doc.get_templates()) {
        os << "template " << t.uid.get_name() << " params=" << frameDump(t.parameters) << " isTA=" << t.is_TA
           << " init=" << (t.init == symbol_t() ? std::string("NONE") : t.init.get_name()) << "\n";
        decls(t, "  ");
        for (auto& l : t.locations) {
            type_t lt = l.uid.get_type();
            os << "  location " << l.uid.get_name() << " nr=" << l.nr << " urgent=" << lt.is(URGENT) << " committed=" << lt.is(COMMITTED)
               << " inv=" << sexp(l.invariant, with_types) << " exprate=" << sexp(l.exp_rate, with_types)
               << " costrate=" << sexp(l.cost_rate, with_types) << "\n";
        }
        for (auto& b : t.branchpoints) os << "  branchpoint " << b.uid.get_name() << " nr=" << b.bpNr << "\n";
        for (auto& e : t.edges) {
            os << "  edge nr=" << e.nr << " " << endpoint(e, true) << " -> " << endpoint(e, false) << " control=" << e.control
               << " select=" << frameDump(e.select) << " guard=" << sexp(e.guard, with_types) << " sync=" << sexp(e.sync, with_types)
               << " assign=" << sexp(e.assign, with_types) << " prob=" << sexp(e.prob, with_types) << "\n";
        }
    }
    auto inst = [&](instance_t& p, const char* tag) {
        os << tag << " " << p.uid.get_name() << " templ=" << (p.templ ? p.templ->uid.get_name() : "NONE") << " unbound=" << p.unbound
           << " arguments=" << p.arguments << " params=" << frameDump(p.parameters) << " mapping={";
        // mapping is keyed by symbol_t (pointer order): print in parameter order instead
        bool first = true;
        for (uint32_t i = 0; i < p.parameters.get_size(); ++i) {
            auto it = p.mapping.find(p.parameters[i]);
            if (it != p.mapping.end()) {
                os << (first ? "" : " ") << p.parameters[i].get_name() << "=" << sexp(it->second, with_types);
                first = false;
            }
        }
        os << "}\n";
    };
    for (auto& p : doc.get_processes()) inst(p, "process");
}

inline std::string slurp(const std::string& path)
{
    std::ifstream f(path, std::ios::binary);
    std::stringstream ss;
    ss << f.rdbuf();
    return ss.str();
}

/// Parses one expression (or query) text in the scope of an already built document and keeps the tree.
class ExprGrabber : public StatementBuilder
{
public:
    expression_t result;
    bool got = false;
    explicit ExprGrabber(Document& d, frame_t scope = {}): StatementBuilder{d}
    {
        if (!(scope == frame_t())) frames.push(scope);
    }
    void property() override
    {
        if (fragments.size() == 0) return;
        result = fragments[0];
        got = true;
        fragments.pop();
    }
    void strategy_declaration(const char*) override {}
    variable_t* addVariable(type_t, const std::string&, expression_t, position_t) override { throw NotSupportedException("addVariable"); }
    bool addFunction(type_t, const std::string&, position_t) override { throw NotSupportedException("addFunction"); }
    size_t nfragments() { return fragments.size(); }
    expression_t top() { return fragments[0]; }
};

/// parse `text` as an S_EXPRESSION in doc's global scope (or `scope`); returns empty expression on failure
inline expression_t parseExpr(Document& doc, const std::string& text, bool newxta = true, frame_t scope = {})
{
    ExprGrabber g(doc, scope);
    parse_XTA(text.c_str(), &g, newxta, S_EXPRESSION, "");
    if (g.nfragments() == 0) return expression_t();
    return g.top();
}

inline expression_t parseQuery(Document& doc, const std::string& text)
{
    ExprGrabber g(doc);
    parseProperty(text.c_str(), &g);
    return g.got ? g.result : expression_t();
}

}  // namespace vh
