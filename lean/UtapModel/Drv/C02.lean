/- stub: line-protocol driver for C02 (to be written) -/
def main : IO Unit := pure ()
