/- Line-protocol driver for the expression heap model (property C19).  Same operations, same canonical output as
   harness/c19.cpp:   T <k> <tree>   registers tree k;   clone_deeper k | clone k | clone_sym k a b | subst k s j |
   equal k j | sizes k   are answered from Model/Heap.lean.
   Trees: (id KIND val sym ty child...), () = empty.  In results, nodes allocated by the operation are renamed n0, n1, …
   in order of first occurrence; nodes of registered trees keep their number (sharing is visible). -/
import UtapModel.Drv.FeatureSexp
import UtapModel.Model.Heap
open UtapModel UtapModel.Heap UtapModel.Sexp

def hexVal (s : String) : Nat :=
  s.toList.foldl (fun acc c =>
    let d := if c.isDigit then c.toNat - '0'.toNat else if 'a' ≤ c && c ≤ 'f' then c.toNat - 'a'.toNat + 10
             else if 'A' ≤ c && c ≤ 'F' then c.toNat - 'A'.toNat + 10 else 0
    acc * 16 + d) 0

def hexStr16 (n : Nat) : String :=
  let digs := (List.range 16).map (fun i => (n / 16 ^ (15 - i)) % 16)
  String.ofList (digs.map (fun d => if d < 10 then Char.ofNat ('0'.toNat + d) else Char.ofNat ('a'.toNat + d - 10)))

def decVal (s : String) : Option Val :=
  let body := (s.drop 1).toString
  match s.toList.head? with
  | some 'i' => body.toInt?.map Val.int
  | some 's' => body.toNat?.map Val.sync
  | some 'd' => some (Val.dbl (hexVal body))
  | some 't' => body.toNat?.map Val.str
  | _ => none

def decTy (s : String) : Ty :=
  if s == "B" then .bool else if s == "I" then .int else if s == "D" then .double else if s == "S" then .string else .other

partial def decTree : Sx → Option HExpr
  | .list [] => some .null
  | .list (.atom i :: .atom k :: .atom v :: .atom s :: .atom t :: sub) => do
    let id ← i.toNat?
    let kind ← Kind.ofName? k
    let val ← decVal v
    let sym ← (if s == "-" then some none else ((s.drop 1).toString.toNat?).map some)
    let subs ← sub.mapM decTree
    pure (.node id { kind := kind, val := val, sym := sym, ty := decTy t } subs)
  | _ => none

def showVal : Val → String
  | .int v => s!"i{v}"
  | .sync v => s!"s{v}"
  | .dbl b => "d" ++ hexStr16 b
  | .str i => s!"t{i}"

def showTy : Ty → String
  | .bool => "B" | .int => "I" | .double => "D" | .string => "S" | .other => "-"

/-- canonical output: ids below `next` are registered nodes; others are renamed in order of first occurrence -/
partial def showTree (next : Nat) (e : HExpr) (fresh : List Nat) : String × List Nat :=
  match e with
  | .null => ("()", fresh)
  | .node i a sub =>
    let (name, fresh) :=
      if i < next then (toString i, fresh)
      else match fresh.idxOf? i with
        | some k => (s!"n{k}", fresh)
        | none => (s!"n{fresh.length}", fresh ++ [i])
    let (subs, fresh) := sub.foldl (fun (acc : List String × List Nat) c =>
      let (s, f) := showTree next c acc.2
      (acc.1 ++ [s], f)) ([], fresh)
    let symS := match a.sym with | some s => s!"#{s}" | none => "-"
    let head := s!"({name} {a.kind.name} {showVal a.val} {symS} {showTy a.ty}"
    (subs.foldl (fun acc s => acc ++ " " ++ s) head ++ ")", fresh)

structure St where
  trees : List (Nat × HExpr) := []
  next : Nat := 0
  resolve : List (Nat × Option Nat) := []     -- frame_t::resolve by name, as the harness reported it

def St.get (st : St) (k : Nat) : Option HExpr := (st.trees.find? (·.1 == k)).map (·.2)

def maxId (e : HExpr) : Nat := (ids e).foldl max 0

def step (st : St) (line : String) : St × String :=
  let l := line.trimAscii.toString
  let ws := (l.splitOn " ").filter (· ≠ "")
  match ws with
  | "T" :: k :: _ =>
    let rest := ((l.drop 2).toString.trimAscii.toString.dropWhile (· != ' ')).toString
    match k.toNat?, parse rest with
    | some kk, some [sx] =>
      match decTree sx with
      | some t => ({ st with trees := (kk, t) :: st.trees, next := max st.next (maxId t + 1) },
                   s!"ok parseBuilt={parseBuilt t} noNaN={noNaN t}")
      | none => (st, "bad-tree")
    | _, _ => (st, "bad-sexp")
  | "RESET" :: _ => ({}, "ok")
  | "RESOLVE" :: ms =>
    let tbl := ms.filterMap (fun m => match m.splitOn ">" with
      | [a, b] => a.toNat?.map (fun x => (x, b.toNat?))
      | _ => none)
    ({ st with resolve := tbl }, "ok")
  | [op, k] =>
    match k.toNat?.bind st.get with
    | none => (st, "no-tree")
    | some e =>
      if op == "clone_deeper" then (st, (showTree st.next (cloneDeeper st.next e).1 []).1)
      else if op == "clone" then (st, (showTree st.next (clone st.next e).1 []).1)
      else if op == "clone_frame" then
        let res := fun (x : Nat) => ((st.resolve.find? (·.1 == x)).map (·.2)).getD none
        (st, (showTree st.next (cloneDeeperFrame res st.next e).1 []).1)
      else if op == "sizes" then
        (st, ((subtrees e).filter (fun x => x.id?.isSome)).foldl (fun acc n => acc ++ " " ++ toString (getSize n)) "sizes")
      else (st, "bad-op")
  | [op, k, j] =>
    match k.toNat?.bind st.get, j.toNat?.bind st.get with
    | some a, some b => if op == "equal" then (st, if equal a b then "true" else "false") else (st, "bad-op")
    | _, _ => (st, "no-tree")
  | [op, k, x, y] =>
    match k.toNat?.bind st.get, x.toNat?, y.toNat? with
    | some e, some a, some b =>
      if op == "clone_sym" then (st, (showTree st.next (cloneDeeperSym (some a) (some b) st.next e).1 []).1)
      else if op == "subst" then
        match st.get b with
        | some r => (st, (showTree st.next (subst a r st.next e).1 []).1)
        | none => (st, "no-tree")
      else (st, "bad-op")
    | _, _, _ => (st, "no-tree")
  | _ => (st, "bad-op")

partial def loop (st : St) (h : IO.FS.Stream) (out : IO.FS.Stream) : IO Unit := do
  let line ← h.getLine
  if line.isEmpty then return ()
  let (st', o) := step st line
  out.putStrLn o
  loop st' h out

def main : IO Unit := do
  let out ← IO.getStdout
  loop {} (← IO.getStdin) out
