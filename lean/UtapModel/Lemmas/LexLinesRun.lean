/- The invariant of the lexer's line accounting: helper lemmas for `Props/C06.lean` and `Props/C15.lean`. -/
import UtapModel.Model.LexLines
import UtapModel.Lemmas.PosFind

namespace UtapModel.LexLines
open UtapModel.Pos

/-- no newline character -/
def noNl (u : List Char) : Prop := ∀ c ∈ u, c ≠ '\n'

/-- A lexeme is *honest* when the number it passes to `tracker.newline` is the number of newline characters it
    contains, and a lexeme that contains newlines ends with one. -/
def Honest (lx : Lexeme) : Prop :=
  lx.nl = countNl lx.chars ∧ (lx.nl ≠ 0 → ∃ w, lx.chars = w ++ ['\n'])

theorem countNl_append (a b : List Char) : countNl (a ++ b) = countNl a + countNl b := by
  simp [countNl, List.filter_append]

theorem countNl_le (t : List Char) : countNl t ≤ t.length := by
  simp only [countNl]; exact List.length_filter_le _ _

theorem countNl_noNl {u : List Char} (h : noNl u) : countNl u = 0 := by
  simp only [countNl, List.length_eq_zero_iff, List.filter_eq_nil_iff]
  intro c hc; simpa using h c hc

theorem colOf_append_noNl (a u : List Char) (h : noNl u) : colOf (a ++ u) = colOf a + u.length := by
  simp only [colOf, List.reverse_append]
  rw [List.takeWhile_append_of_pos]
  · simp [Nat.add_comm]
  · intro c hc
    have := h c (by simpa using hc)
    simpa using this

theorem colOf_append_nl (a w : List Char) : colOf (a ++ (w ++ ['\n'])) = 0 := by
  simp [colOf, List.reverse_append]

theorem colOf_le (t : List Char) : colOf t ≤ t.length := by
  simp only [colOf]
  have := (List.takeWhile_sublist (fun c => c != '\n') (l := t.reverse)).length_le
  simpa using this

theorem flat_cons (lx : Lexeme) (ls : List Lexeme) : flat (lx :: ls) = lx.chars ++ flat ls := by
  simp [flat]

theorem flat_nil : flat [] = [] := rfl

theorem flat_append (a b : List Lexeme) : flat (a ++ b) = flat a ++ flat b := by
  simp [flat]

theorem findSpec_append_gt_resolve (idx more : Index) (pos : Nat) (hne : idx ≠ [])
    (hgt : ∀ e ∈ more, pos < e.position) : resolveSpec (idx ++ more) pos = resolveSpec idx pos := by
  simp only [resolveSpec, findSpec_append_gt idx more pos hne hgt]

/-- the state after lexing the prefix `pre` of a block that started at absolute position `p0 + 1` -/
structure Inv (p0 : Nat) (path : String) (pre : List Char) (s : St) : Prop where
  pos : s.tr.position = p0 + 1 + pre.length
  line : s.tr.line = 1 + countNl pre
  hpath : s.tr.path = path
  mono : Monotone s.idx
  last : ∃ l, s.idx.getLast? = some l ∧ l.path = path ∧ l.line = 1 + countNl pre ∧
    l.position + colOf pre = p0 + 1 + pre.length

theorem Inv.resolve_here {p0 : Nat} {path : String} {pre : List Char} {s : St} (h : Inv p0 path pre s)
    (u : List Char) (hu : noNl u) :
    resolveSpec s.idx (p0 + 1 + pre.length + u.length) = some ⟨path, refLine (pre ++ u), refCol (pre ++ u)⟩ := by
  obtain ⟨l, hl, hp, hln, hpos⟩ := h.last
  have hf := findSpec_last s.idx l (p0 + 1 + pre.length + u.length) h.mono hl (by omega)
  simp only [resolveSpec, hf, Option.map_some, refLine, refCol, countNl_append, countNl_noNl hu,
    colOf_append_noNl pre u hu, hp, hln]
  congr 2
  omega

/-- one lexeme: YY_USER_ACTION and the rule's `tracker.newline` -/
theorem Inv.step {p0 : Nat} {path : String} {pre : List Char} {s : St} (h : Inv p0 path pre s)
    (lx : Lexeme) (hh : Honest lx) (hfit : p0 + 1 + pre.length + lx.chars.length < W) :
    ∃ s1 more, s.lexeme lx.chars.length lx.nl = .ok s1 ∧ Inv p0 path (pre ++ lx.chars) s1 ∧ s1.idx = s.idx ++ more ∧
      (∀ e ∈ more, e.position = p0 + 1 + pre.length + lx.chars.length ∧ 1 ≤ lx.chars.length ∧ lx.nl ≠ 0) := by
  obtain ⟨l, hl, hp, hln, hpos⟩ := h.last
  have hmod : (s.tr.position + lx.chars.length) % W = p0 + 1 + pre.length + lx.chars.length := by
    rw [h.pos]; exact Nat.mod_eq_of_lt hfit
  by_cases hnl : lx.nl = 0
  · -- no newline in the lexeme
    have hc : countNl lx.chars = 0 := by rw [← hh.1]; exact hnl
    have hno : noNl lx.chars := by
      intro c hc' heq
      subst heq
      have : 0 < countNl lx.chars := by
        simp only [countNl]
        exact List.length_pos_of_mem (List.mem_filter.mpr ⟨hc', by simp⟩)
      omega
    refine ⟨{ s with tr := s.tr.increment lx.chars.length }, [], ?_, ?_, by simp, by simp⟩
    · simp [St.lexeme, hnl]
    · refine ⟨?_, ?_, ?_, h.mono, ⟨l, hl, hp, ?_, ?_⟩⟩
      · simp only [Tracker.increment, hmod, List.length_append]; omega
      · simp only [Tracker.increment, h.line, countNl_append, hc]; omega
      · simp only [Tracker.increment, h.hpath]
      · rw [hln, countNl_append, hc]; omega
      · rw [colOf_append_noNl pre lx.chars hno, List.length_append]; omega
  · -- the lexeme ends with a newline; one entry is added after it
    obtain ⟨w, hw⟩ := hh.2 hnl
    have hlen : 1 ≤ lx.chars.length := by rw [hw]; simp
    have hcl := countNl_le lx.chars
    have hcp := countNl_le pre
    have hlinemod : (s.tr.line + lx.nl) % W = 1 + countNl (pre ++ lx.chars) := by
      rw [h.line, hh.1, countNl_append, Nat.mod_eq_of_lt (by omega)]
      omega
    let tr1 := (s.tr.increment lx.chars.length).newline lx.nl
    have hentry : tr1.entry.position = p0 + 1 + pre.length + lx.chars.length := by
      simp only [tr1, Tracker.entry, Tracker.newline, Tracker.increment, hmod]
    have hnotlt : ¬ tr1.entry.position < l.position := by
      rw [hentry]; omega
    have hadd : s.idx.add tr1.entry = .ok (s.idx ++ [tr1.entry]) := by
      simp only [Index.add, hl, hnotlt, ↓reduceIte]
    refine ⟨{ tr := tr1, idx := s.idx ++ [tr1.entry] }, [tr1.entry], ?_, ?_, rfl, ?_⟩
    · simp only [St.lexeme, hnl, ↓reduceIte]
      show (match s.idx.add tr1.entry with
        | .ok idx => (Except.ok ({ tr := tr1, idx := idx } : St) : Except Err St)
        | .error e => Except.error e) = _
      rw [hadd]
    · refine ⟨?_, ?_, ?_, ?_, ⟨tr1.entry, by simp, ?_, ?_, ?_⟩⟩
      · simp only [tr1, Tracker.newline, Tracker.increment, hmod, List.length_append]; omega
      · simp only [tr1, Tracker.newline, Tracker.increment, hlinemod]
      · simp only [tr1, Tracker.newline, Tracker.increment, h.hpath]
      · exact Monotone.append_one s.idx l tr1.entry h.mono hl (by rw [hentry]; omega)
      · simp only [tr1, Tracker.entry, Tracker.newline, Tracker.increment, h.hpath]
      · simp only [tr1, Tracker.entry, Tracker.newline, Tracker.increment, hlinemod]
      · rw [hentry, hw, colOf_append_nl, List.length_append]
        simp only [List.length_append, List.length_cons, List.length_nil] at *
        omega
    · intro e he
      simp only [List.mem_singleton] at he
      subst he
      exact ⟨hentry, hlen, hnl⟩

/-- **the main invariant**: lexing any honest lexeme sequence never throws below 2^32, keeps `Inv`, only appends
    entries with larger positions, and every settled position of the sequence resolves to the reference line/column. -/
theorem run_inv (p0 : Nat) (path : String) : ∀ (ls : List Lexeme) (pre : List Char) (s : St),
    Inv p0 path pre s → (∀ lx ∈ ls, Honest lx) → p0 + 1 + pre.length + (flat ls).length < W →
    ∃ s' more, runLexemes s ls = .ok s' ∧ Inv p0 path (pre ++ flat ls) s' ∧ s'.idx = s.idx ++ more ∧
      (∀ e ∈ more, p0 + 1 + pre.length < e.position) ∧
      ∀ a lx b u v, ls = a ++ lx :: b → lx.chars = u ++ v → noNl u →
        resolveSpec s'.idx (p0 + 1 + pre.length + (flat a).length + u.length) =
          some ⟨path, refLine (pre ++ flat a ++ u), refCol (pre ++ flat a ++ u)⟩ := by
  intro ls
  induction ls with
  | nil =>
    intro pre s h _ _
    refine ⟨s, [], rfl, by simpa [flat_nil] using h, by simp, by simp, ?_⟩
    intro a lx b u v hsplit
    cases a <;> simp at hsplit
  | cons lx0 rest ih =>
    intro pre s h hon hfit
    rw [flat_cons, List.length_append] at hfit
    obtain ⟨s1, more1, hstep, hinv1, hidx1, hmore1⟩ := h.step lx0 (hon lx0 (by simp)) (by omega)
    obtain ⟨s', more2, hrun, hinv', hidx', hmore2, hset⟩ :=
      ih (pre ++ lx0.chars) s1 hinv1 (fun lx hlx => hon lx (by simp [hlx])) (by rw [List.length_append]; omega)
    refine ⟨s', more1 ++ more2, ?_, ?_, ?_, ?_, ?_⟩
    · simp only [runLexemes, hstep]; exact hrun
    · simpa [flat_cons, List.append_assoc] using hinv'
    · rw [hidx', hidx1, List.append_assoc]
    · intro e he
      rcases List.mem_append.mp he with he | he
      · have := hmore1 e he; omega
      · have := hmore2 e he; rw [List.length_append] at this; omega
    · intro a lx b u v hsplit hchars hu
      cases a with
      | nil =>
        simp only [List.nil_append, List.cons.injEq] at hsplit
        obtain ⟨hlx, _⟩ := hsplit
        subst hlx
        simp only [flat_nil, List.length_nil, Nat.add_zero, List.append_nil]
        -- resolved in the table before this lexeme; later entries lie beyond
        have hbase := h.resolve_here u hu
        have hne : s.idx ≠ [] := by
          obtain ⟨l, hl, _⟩ := h.last
          intro hnil; rw [hnil] at hl; simp at hl
        have hulen : u.length ≤ lx0.chars.length := by rw [hchars]; simp
        have hgt : ∀ e ∈ more1 ++ more2, p0 + 1 + pre.length + u.length < e.position := by
          intro e he
          rcases List.mem_append.mp he with he | he
          · obtain ⟨hpos, _, hnl⟩ := hmore1 e he
            -- the lexeme ends with a newline, `u` has none, so `u` is a proper prefix
            obtain ⟨w, hw⟩ := (hon lx0 (by simp)).2 hnl
            have : u.length < lx0.chars.length := by
              rcases Nat.lt_or_ge u.length lx0.chars.length with hlt | hge
              · exact hlt
              · exfalso
                have hv : v = [] := by
                  have : (u ++ v).length = lx0.chars.length := by rw [hchars]
                  rw [List.length_append] at this
                  exact List.eq_nil_of_length_eq_zero (by omega)
                rw [hv, List.append_nil] at hchars
                have : '\n' ∈ u := by rw [← hchars, hw]; simp
                exact hu '\n' this rfl
            omega
          · have := hmore2 e he; rw [List.length_append] at this; omega
        rw [hidx', hidx1, List.append_assoc, findSpec_append_gt_resolve s.idx (more1 ++ more2) _ hne hgt]
        exact hbase
      | cons a0 a' =>
        simp only [List.cons_append, List.cons.injEq] at hsplit
        obtain ⟨ha0, hrest⟩ := hsplit
        subst ha0
        have := hset a' lx b u v hrest hchars hu
        simp only [flat_cons, List.length_append, List.append_assoc] at this ⊢
        rw [← this]
        congr 1
        omega

end UtapModel.LexLines
