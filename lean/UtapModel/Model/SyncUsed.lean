/-
M-SYNCUSED — the model-wide check "CSP and IO synchronisations cannot be mixed" of `TypeChecker::visitEdge` (C16, known finding
`diag:sync:$CSP_and_IO_synchronisations_cannot_be_mixed`): one state `syncUsed` for the whole document (0 none seen, 1 input/output,
2 CSP, -1 mixed), stepped by the synchronisation label of every edge in visiting order; the diagnostic is put on the current label whenever
the state is -1 after the step.  The transition table is regenerated from the source (Gen/SyncUsedTbl.lean).  Core Lean only.
-/
import UtapModel.Gen.SyncUsedTbl

namespace UtapModel.SyncUsed

inductive SK where
  | bang | que | csp
deriving DecidableEq, Repr, Inhabited

def SK.name : SK → String
  | .bang => "bang" | .que => "que" | .csp => "csp"

def SK.isIO : SK → Bool
  | .csp => false
  | _ => true

/-- one step of `switch (syncUsed)` with table `tbl`; a state / kind the table does not mention is left alone (`default:`) -/
def step (tbl : List (Int × String × Int)) (s : Int) (k : SK) : Int :=
  match tbl.find? (fun r => r.1 == s && r.2.1 == k.name) with
  | some r => r.2.2
  | none => s

/-- for every synchronisation label in visiting order: is the mix reported on it? -/
def diags (tbl : List (Int × String × Int)) : Int → List SK → List Bool
  | _, [] => []
  | s, k :: r => let s' := step tbl s k; (s' == -1) :: diags tbl s' r

/-- the table the theorems are about -/
def pinned : List (Int × String × Int) :=
  [(0, "bang", 1), (0, "que", 1), (0, "csp", 2), (1, "bang", 1), (1, "que", 1), (1, "csp", -1), (2, "bang", -1), (2, "que", -1), (2, "csp", 2)]

end UtapModel.SyncUsed
