/- Line-protocol driver of C05: reads abstract models (format of checks/c04_model.py `lean_lines`, plus a line
   `prefs b b b ...` choosing where the XTA rendering uses chained transitions) and prints the callback trace the model
   of the XTA grammar predicts for the XTA rendering, the one the model of the XML reader predicts for the XML rendering,
   and the canonical dump of the document (the same for both by theorem C05_equivalent; the driver reports if not). -/
import UtapModel.Model.AModelIO
import UtapModel.Model.Xta
open UtapModel.AM

def report (id : String) (M : AModel) (prefs : List Bool) : List String :=
  let xta := xtaRead (renderXta prefs M)
  let xml := readXml (renderXml M)
  let sx := build xta
  let sm := build xml
  [s!"BEGIN {id}", s!"SUBSET {b01 M.inCommonSubset}", s!"SAME-DOC {b01 (decide (sx.doc = sm.doc))}"] ++
  (traceLines {} xta).map ("XTATRACE " ++ ·) ++ (traceLines {} xml).map ("XMLTRACE " ++ ·) ++ docLines sx.doc ++ [s!"END {id}"]

partial def loop (h out : IO.FS.Stream) (id : String) (ps : PS) (prefs : List Bool) : IO Unit := do
  let line ← h.getLine
  if line.isEmpty then return ()
  let ws := (line.trimAscii.toString.splitOn " ").filter (· ≠ "")
  match ws with
  | ["model", i] => loop h out i {} []
  | "prefs" :: bs => loop h out id ps (bs.map (· = "1"))
  | ["end"] =>
    for l in report id ps.m prefs do out.putStrLn l
    loop h out id {} []
  | _ => loop h out id (feed ps ws) prefs

def main : IO Unit := do
  loop (← IO.getStdin) (← IO.getStdout) "?" {} []
