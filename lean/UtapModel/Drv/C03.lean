/- stub: line-protocol driver for C03 (to be written) -/
def main : IO Unit := pure ()
