/- C01: pinned exception set, stacks R, S (finite check over the generated table; split over several modules so that
   lake checks them in parallel). -/
import UtapModel.Lemmas.C01Pin
namespace UtapModel.C01
theorem pinned_R : pinnedOn .R = true := by decide +kernel
theorem pinned_S : pinnedOn .S = true := by decide +kernel
end UtapModel.C01
