"""Abstract models (AModel) of UPPAAL systems shared by C04 / C05 / C20: seeded generator, XML-text and XTA-text
renderers, the line format read by the Lean drivers, and the table  text -> (key, expected canonical S-expression).

An AModel is a plain dict (JSON-able, so it can be stored as a replay):
  {"gdecls":[decl], "templates":[templ], "insts":[inst], "procs":[{"name","lt"}]}
  decl  = {"cat":"var|fun|typedef", "name", "text", "trace":[trace lines], "dump": dump line}
  templ = {"name","params":[param],"decls":[decl],"locs":[loc],"bps":[id],"init":id,"edges":[edge]}
  param = {"name","ref":bool,"text","dump"}
  loc   = {"id","name":str|None,"labels":[[kind,expr]], "urgent":bool,"committed":bool}     kind: invariant|exponentialrate
  edge  = {"src":id,"tgt":id,"ctrl":None|True|False,"labels":[[kind,payload]]}
          kind: select (payload=[[id,type]]) | guard | synchronisation (payload=[expr,dir]; dir "!" | "?", C20 also "" = CSP style)
                | assignment | probability
  inst  = {"name","params":[param],"templ","args":[expr]}
Expressions / types are nested lists ["LE",["id","x"],["int",5]] rendered to text *and* to the canonical S-expression
the harness prints, so the placement of every label can be checked without trusting the expression parser of the
library for more than these few shapes.
"""
import random

INT = "(RANGE (INT) (CONSTANT int -32768) (CONSTANT int 32767))"
BINOPS = {"LE": "<=", "GE": ">=", "LT": "<", "GT": ">", "EQ": "==", "NEQ": "!=", "AND": "&&", "PLUS": "+", "MULT": "*",
          "ASSIGN": "=", "COMMA": ",", "FRACTION": ":", "MINUS": "-", "MOD": "%"}


# ------------------------------------------------------------------------------------------------ expressions
def etext(e):
    k = e[0]
    if k == "int":
        return str(e[1])
    if k == "id":
        return e[1]
    if k == "str":
        return '"%s"' % e[1]        # a string literal (no quote or backslash inside); only C20 puts these into labels
    if k == "ARRAY":
        return "%s[%s]" % (etext(e[1]), etext(e[2]))
    if k == "FUN_CALL":
        return "%s(%s)" % (etext(e[1]), ", ".join(etext(a) for a in e[2:]))
    if k in ("COMMA", "FRACTION"):
        return "%s %s %s" % (etext(e[1]), BINOPS[k], etext(e[2])) if k == "FRACTION" else "%s, %s" % (etext(e[1]), etext(e[2]))
    if k in ("AND",):
        return "%s && %s" % (etext(e[1]), etext(e[2]))
    if k in BINOPS:
        return "%s %s %s" % (etext(e[1]), BINOPS[k], etext(e[2]))
    raise ValueError(e)


def esexp(e):
    k = e[0]
    if k == "int":
        return "(CONSTANT int %d)" % e[1]
    if k == "id":
        return "(IDENTIFIER %s)" % e[1]
    if k == "str":
        return '(CONSTANT string "%s")' % e[1]
    return "(" + k + "".join(" " + esexp(a) for a in e[1:]) + ")"


def ttext(t):
    if t[0] == "range":
        return "int[%d,%d]" % (t[1], t[2])
    if t[0] == "named":
        return t[1]
    raise ValueError(t)


def tsexp(t, typedefs):
    if t[0] == "range":
        return "(RANGE (INT) (CONSTANT int %d) (CONSTANT int %d))" % (t[1], t[2])
    if t[0] == "named":
        return "(LABEL %s %s)" % (t[1], tsexp(typedefs[t[1]], typedefs))
    raise ValueError(t)


# ------------------------------------------------------------------------------------------------ generator
class Gen:
    def __init__(self, rng, size=1.0, xta_safe=False, accepted_bias=True):
        self.r = rng
        self.size = size
        self.xta_safe = xta_safe       # only identifiers usable in both formats (C05), probability only on full transitions
        self.k = 100
        self.used = set()

    def K(self):
        # unique constants make every label text (and its S-expression) unique within a model
        self.k += self.r.randint(1, 7)
        if self.k in (32767, 32768):
            self.k += 2
        return self.k

    def decl(self, cat, name, text, dump, trace=None):
        return {"cat": cat, "name": name, "text": text, "dump": dump,
                "trace": trace if trace is not None else ["decl_%s %s" % ("func" if cat == "fun" else cat, name)]}

    def vdecl(self, kind, name):
        K = self.K
        if kind == "int":
            return self.decl("var", name, "int %s;" % name, "var %s %s init=()" % (name, INT))
        if kind == "intinit":
            k = K()
            return self.decl("var", name, "int %s = %d;" % (name, k), "var %s %s init=(CONSTANT int %d)" % (name, INT, k))
        if kind == "const":
            k = K()
            return self.decl("var", name, "const int %s = %d;" % (name, k),
                             "var %s (CONSTANT (INT)) init=(CONSTANT int %d)" % (name, k))
        if kind == "clock":
            return self.decl("var", name, "clock %s;" % name, "var %s (CLOCK) init=()" % name)
        if kind == "bool":
            return self.decl("var", name, "bool %s;" % name, "var %s (BOOL) init=()" % name)
        if kind == "arr":
            k = K()
            return self.decl("var", name, "int %s[%d];" % (name, k),
                             "var %s (ARRAY %s (RANGE (INT) (CONSTANT int 0) (MINUS (CONSTANT int %d) (CONSTANT int 1)))) init=()"
                             % (name, INT, k))
        if kind == "fun":
            k = K()
            return self.decl("fun", name, "int %s(int a) { return a + %d; }" % (name, k),
                             "fun %s (FUNCTION %s a:%s)" % (name, INT, INT), ["decl_parameter a 0", "decl_func %s" % name])
        if kind == "typedef":
            k = K()
            return self.decl("typedef", name, "typedef int[0,%d] %s;" % (k, name),
                             "typedef %s (TYPEDEF (RANGE (INT) (CONSTANT int 0) (CONSTANT int %d)))" % (name, k))
        raise ValueError(kind)

    def model(self):
        r = self.r
        self.typedefs = {"idT": ["range", 0, 3]}
        g = []
        # fixed prelude the labels refer to
        g.append(self.vdecl("int", "gn"))
        g.append(self.vdecl("clock", "gc"))
        g.append(self.decl("var", "ch", "chan ch[10000];",
                           "var ch (ARRAY (CHANNEL) (RANGE (INT) (CONSTANT int 0) (MINUS (CONSTANT int 10000) (CONSTANT int 1)))) init=()"))
        g.append(self.decl("typedef", "idT", "typedef int[0,3] idT;", "typedef idT (TYPEDEF (RANGE (INT) (CONSTANT int 0) (CONSTANT int 3)))"))
        for i in range(3):
            g.append(self.vdecl("int", "gv%d" % i))
        for i in range(r.randint(0, int(4 * self.size))):
            kind = r.choice(["int", "intinit", "const", "clock", "bool", "arr", "fun", "typedef"])
            g.append(self.vdecl(kind, "g%s%d" % (kind[0], i)))
        r.shuffle(g)
        # typedef idT must precede its uses: keep prelude typedef first
        g.sort(key=lambda d: 0 if d["name"] == "idT" else 1)
        nt = r.choice([0, 1, 1, 2, 2, 3, 4]) if self.size <= 1 else r.randint(0, 6)
        templates = [self.template(i) for i in range(nt)]
        insts, procs = self.system(templates)
        return {"gdecls": g, "templates": templates, "insts": insts, "procs": procs}

    def param(self, kind, name):
        table = {
            "int": ("int %s" % name, False, "%s:%s" % (name, INT)),
            "intref": ("int &%s" % name, True, "%s:(REF %s)" % (name, INT)),
            "constint": ("const int %s" % name, False, "%s:(CONSTANT (INT))" % name),
            "idT": ("const idT %s" % name, False, "%s:(CONSTANT (LABEL idT (RANGE (INT) (CONSTANT int 0) (CONSTANT int 3))))" % name),
            "constintref": ("const int &%s" % name, True, "%s:(REF (CONSTANT (INT)))" % name),
            "clockref": ("clock &%s" % name, True, "%s:(REF (CLOCK))" % name),
            "chanref": ("chan &%s" % name, True, "%s:(REF (CHANNEL))" % name),
        }
        text, ref, dump = table[kind]
        return {"name": name, "ref": ref, "text": text, "dump": dump, "kind": kind}

    def ident_id(self, scheme, t, i):
        if scheme == 0:
            self.idc += 1
            return "id%d" % self.idc
        if scheme == 1:
            return "L%d_%d" % (t, i)
        if scheme == 2:
            return "x-%d.%d" % (t, i)       # not an identifier: fine in XML, the derived name is "_x-0.1"
        if scheme == 3:
            return str(1000 * t + 7 * i + 3)
        if scheme == 5:
            return "id%d" % i                # the same ids in every template (what the library's own XML writer emits)
        return "n%dq%d" % (i, t)

    idc = -1

    def template(self, t):
        r = self.r
        name = "T%d" % t
        pk = ["int", "intref", "constint", "constintref", "idT", "clockref", "chanref"]
        bounded_only = r.random() < 0.25
        np_ = r.choice([0, 0, 1, 2, 3, 4] if self.size <= 1 else [0, 1, 2, 3, 4, 5, 6, 7])
        params = []
        for i in range(np_):
            kind = "idT" if bounded_only else r.choice(pk)
            params.append(self.param(kind, "p%s%d" % (kind[0], i)))
        decls = [self.vdecl("clock", "x"), self.vdecl("int", "m")]
        for i in range(r.randint(0, int(3 * self.size))):
            kind = r.choice(["int", "intinit", "const", "clock", "bool", "arr", "fun", "typedef"])
            decls.append(self.vdecl(kind, "l%s%d_%d" % (kind[0], t, i)))
        if r.random() < 0.5:
            r.shuffle(decls)
        scheme = r.choice([0, 0, 1, 3, 4] if self.xta_safe else [0, 0, 1, 2, 3, 4, 5])
        nl = r.randint(1, max(1, int(6 * self.size)))
        locs = []
        for i in range(nl):
            lid = self.ident_id(scheme, t, i)
            named = r.random() < 0.6
            labels = []
            if r.random() < 0.4:
                labels.append(["invariant", ["LE", ["id", r.choice(["x", "gc"])], ["int", self.K()]]])
            if r.random() < 0.3:
                labels.append(["exponentialrate", ["int", self.K()] if r.random() < 0.6 else ["FRACTION", ["int", self.K()], ["int", self.K()]]])
            flag = r.choice(["", "", "", "U", "C"])
            special = {0: "Err", 1: "lpmin"}.get(i) if r.random() < 0.05 else None      # names the XML writer special-cases
            if special is None and named and r.random() < 0.08:
                special = r.choice(["S$%d", "S#%d", "s%d$x#"]) % i       # `$` and `#` are identifier characters
            if special is None and t > 0 and i == nl - 1 and r.random() < 0.15:
                special = "T%d" % r.randrange(t)      # a location may carry a name that is visible in an enclosing scope (an earlier template)
            locs.append({"id": lid, "name": (special or ("S%d" % i)) if named else None, "labels": labels,
                         "urgent": flag == "U", "committed": flag == "C"})
        nb = r.choice([0, 0, 0, 1, 2])
        bps = [self.ident_id(scheme, t, nl + i) for i in range(nb)]
        init = r.choice(locs)["id"]
        ne = r.randint(0, int(10 * self.size))
        edges = []
        for _ in range(ne):
            edges.append(self.edge(locs, bps, params))
        # every branchpoint used at least sometimes; parallel edges and self loops arise naturally, force some
        if edges and r.random() < 0.3:
            e = dict(r.choice(edges))
            e2 = self.edge(locs, bps, params)
            e2["src"], e2["tgt"] = e["src"], e["tgt"]
            edges.append(e2)
        return {"name": name, "params": params, "decls": decls, "locs": locs, "bps": bps, "init": init, "edges": edges}

    def edge(self, locs, bps, params):
        r = self.r
        lids = [l["id"] for l in locs]
        src_bp = bps and r.random() < 0.25
        src = r.choice(bps) if src_bp else r.choice(lids)
        tgt = r.choice(bps) if (bps and not src_bp and r.random() < 0.25) else (src if (not src_bp and r.random() < 0.15) else r.choice(lids))
        if src_bp and len(bps) > 1 and r.random() < 0.3:
            tgt = r.choice([b for b in bps if b != src])      # a chained probabilistic choice: both endpoints are branchpoints
        ctrl = r.choice([None, None, True, False])
        labels = []
        sel = []
        if not src_bp and r.random() < 0.35:
            for i in range(r.choice([1, 1, 2, 3])):
                c = r.random()
                # (an upper bound equal to the default limit of `int` is still a bound of its own)
                ty = ["named", "idT"] if c < 0.3 else ["range", r.choice([0, 1]), 32767] if c < 0.4 else ["range", 0, self.K()]
                # a binder may shadow a template-local or a global variable (the reader warns and still binds it)
                nm = "i%d" % i
                if r.random() < 0.12 and not any(b[0] in ("m", "gn") for b in sel):
                    nm = r.choice(["m", "gn"])
                sel.append([nm, ty])
            labels.append(["select", sel])
        rest = []
        if not src_bp and r.random() < 0.5:
            c = r.random()
            if sel and c < 0.4:
                g = ["EQ", ["id", "m"], ["PLUS", ["id", sel[0][0]], ["int", self.K()]]]
            elif c < 0.5 and [p for p in params if p["kind"] in ("int", "constint", "idT")]:
                # a template parameter used in a label (it has to be visible in the template's frame)
                pn = r.choice([p for p in params if p["kind"] in ("int", "constint", "idT")])["name"]
                g = ["EQ", ["id", "m"], ["PLUS", ["id", pn], ["int", self.K()]]]
            elif c < 0.55:
                # `%` followed by a name that starts like a printf conversion (`% gn`, `% gv0`): label texts are data, never a format
                g = ["EQ", ["MOD", ["id", "m"], ["id", r.choice(["gn", "gv0"])]], ["int", 0]]
            elif c < 0.6:
                g = ["GE", ["id", "m"], ["int", self.K()]]
            elif c < 0.8:
                g = ["GE", ["id", "x"], ["int", self.K()]]
            else:
                g = ["AND", ["EQ", ["id", "m"], ["int", self.K()]], ["GT", ["id", "x"], ["int", self.K()]]]
            rest.append(["guard", g])
        if not src_bp and r.random() < 0.4:
            rest.append(["synchronisation", [["ARRAY", ["id", "ch"], ["int", self.K()]], r.choice("!?")]])
        if r.random() < 0.5:
            c = r.random()
            if c < 0.1:
                u = ["ASSIGN", ["id", "m"], ["MOD", ["id", "m"], ["id", "gn"]]]
            elif c < 0.5:
                u = ["ASSIGN", ["id", "m"], ["int", self.K()]]
            elif c < 0.8:
                u = ["COMMA", ["ASSIGN", ["id", "m"], ["int", self.K()]], ["ASSIGN", ["id", "x"], ["int", 0]]]
            else:
                u = ["COMMA", ["ASSIGN", ["id", "x"], ["int", 0]], ["ASSIGN", ["id", "gn"], ["PLUS", ["id", "m"], ["int", self.K()]]]]
            rest.append(["assignment", u])
        if src_bp and r.random() < 0.8:
            rest.append(["probability", ["int", self.K()]])
        if not self.xta_safe and r.random() < 0.3:
            r.shuffle(rest)        # any order of the non-select labels in the XML
        return {"src": src, "tgt": tgt, "ctrl": ctrl, "labels": labels + rest}

    def arg_for(self, p, newparams):
        r = self.r
        kind = p["kind"]
        same = [q for q in newparams if q["kind"] == kind]
        if same and r.random() < 0.6:
            return ["id", r.choice(same)["name"]]
        if kind in ("int", "constint"):
            return ["int", self.K()]
        if kind == "intref":
            return ["id", "gv%d" % r.randint(0, 2)]
        if kind == "constintref":
            return ["id", "gv%d" % r.randint(0, 2)] if r.random() < 0.5 else ["int", self.K()]
        if kind == "idT":
            return ["int", r.randint(2, 3)]      # not 1: "(CONSTANT int 1)" is also the default guard/update/weight
        if kind == "clockref":
            return ["id", "gc"]
        if kind == "chanref":
            return ["ARRAY", ["id", "ch"], ["int", self.K()]]
        raise ValueError(kind)

    def system(self, templates):
        r = self.r
        insts = []
        instances = {}     # name -> list of unbound params (with kinds)
        for t in templates:
            instances[t["name"]] = list(t["params"])
        names = [t["name"] for t in templates]
        ni = r.randint(0, int(4 * self.size)) if templates else 0
        for i in range(ni):
            base = r.choice(names)
            bp = instances[base]
            nm = "P%d" % i
            newparams = []
            if r.random() < 0.35:
                for j in range(r.choice([1, 1, 2])):
                    kind = r.choice(["idT", "constint", "idT"])
                    newparams.append(self.param(kind, "q%s%d_%d" % (kind[0], i, j)))
            args = [self.arg_for(p, newparams) for p in bp]
            insts.append({"name": nm, "params": newparams, "templ": base, "args": args})
            instances[nm] = newparams
            names.append(nm)
        # processes: complete instances, or instances all of whose free parameters are bounded
        cand = [n for n in names if all(p["kind"] == "idT" for p in instances[n])]
        r.shuffle(cand)
        k = r.randint(1, max(1, min(len(cand), int(4 * self.size)))) if cand else 0
        procs = []
        for i, n in enumerate(cand[:k]):
            procs.append({"name": n, "lt": (i > 0 and r.random() < 0.3)})
        return insts, procs


# ------------------------------------------------------------------------------------------------ text -> key table
class Keys:
    """text <-> key.  e-keys: expressions, t-keys: select types, p-keys: parameters, d-keys: declaration items."""

    def __init__(self):
        self.by_text = {}
        self.sexp = {}     # key -> canonical S-expression / dump text expected from the real library

    def key(self, prefix, text, sexp):
        k = self.by_text.get((prefix, text))
        if k is None:
            k = "%s%d" % (prefix, len(self.by_text))
            self.by_text[(prefix, text)] = k
            self.sexp[k] = sexp
        return k


def node_name(t, ref):
    for l in t["locs"]:
        if l["id"] == ref:
            return l["name"] if l["name"] else "_" + l["id"]
    for b in t["bps"]:
        if b == ref:
            return "_" + b
    return None


def lean_lines(M, keys, typedefs=None):
    """The line format of the Lean drivers (see lean/UtapModel/Model/AModelIO.lean)."""
    typedefs = typedefs or {"idT": ["range", 0, 3]}
    out = []

    def tok(s):
        return s if s else "-"

    def decl(tag, d):
        k = keys.key("d", d["text"], d["dump"])
        out.append("%s %s %s %s %d %s" % (tag, d["cat"], d["name"], k, len(d["trace"]), " ".join(x.replace(" ", "~") for x in d["trace"])))

    def param(tag, p):
        k = keys.key("p", p["text"], p["dump"])
        out.append("%s %s %d %s" % (tag, p["name"], 1 if p["ref"] else 0, k))

    for d in M["gdecls"]:
        decl("gdecl", d)
    for t in M["templates"]:
        out.append("templ %s" % t["name"])
        for p in t["params"]:
            param("param", p)
        for d in t["decls"]:
            decl("ldecl", d)
        for l in t["locs"]:
            out.append("loc %s %s %s" % (l["id"], tok(l["name"]), "U" if l["urgent"] else "C" if l["committed"] else "-"))
            for kind, e in l["labels"]:
                out.append("llabel %s %s" % (kind, keys.key("e", etext(e), esexp(e))))
        for b in t["bps"]:
            out.append("bp %s" % b)
        out.append("init %s" % tok(t["init"]))
        for e in t["edges"]:
            out.append("edge %s %s %s" % (e["src"], e["tgt"], "-" if e["ctrl"] is None else "1" if e["ctrl"] else "0"))
            for kind, pl in e["labels"]:
                if kind == "select":
                    out.append("elabel select %d %s" % (len(pl), " ".join(
                        "%s %s" % (i, keys.key("t", ttext(ty), tsexp(ty, typedefs))) for i, ty in pl)))
                elif kind == "synchronisation":
                    out.append("elabel synchronisation %s %s" % (keys.key("e", etext(pl[0]), esexp(pl[0])), pl[1]))
                else:
                    out.append("elabel %s %s" % (kind, keys.key("e", etext(pl), esexp(pl))))
        out.append("endtempl")
    for i in M["insts"]:
        out.append("inst %s %s" % (i["name"], i["templ"]))
        for p in i["params"]:
            param("iparam", p)
        for a in i["args"]:
            out.append("iarg %s" % keys.key("e", etext(a), esexp(a)))
        out.append("endinst")
    for p in M["procs"]:
        out.append("proc %s %d" % (p["name"], 1 if p["lt"] else 0))
    out.append("end")
    return out


# ------------------------------------------------------------------------------------------------ renderers
def xesc(s, r=None):
    out = []
    for c in s:
        if c == "&":
            out.append("&amp;")
        elif c == "<":
            out.append("&lt;" if (r is None or r.random() < 0.7) else "&#60;")
        elif c == ">":
            out.append("&gt;" if (r is None or r.random() < 0.5) else ">")
        else:
            out.append(c)
    return "".join(out)


class XmlText:
    """AModel -> XML text.  With vary=rng the text layer is perturbed in ways that must not matter: whitespace between
    elements, attribute order and GUI attributes, comments between elements, CDATA sections, character references,
    unknown elements, nails, empty optional elements, instantiations in <instantiation> or in <system>."""

    def __init__(self, vary=None):
        self.v = vary

    def ch(self, p):
        return self.v is not None and self.v.random() < p

    def ws(self):
        if self.v is None:
            return "\n"
        return self.v.choice(["", "\n", "\n  ", " ", "\t\n", "\n<!-- c -->\n" if self.ch(0.3) else "\n"])

    def text(self, s):
        if self.ch(0.15) and "]]>" not in s:
            return "<![CDATA[" + s + "]]>"
        if self.ch(0.2):
            s = self.v.choice([" ", "\n", ""]) + s + self.v.choice([" ", "\n  ", ""])
        return xesc(s, self.v)

    def attrs(self, pairs):
        pairs = list(pairs)
        if self.ch(0.5):
            pairs += [("x", str(self.v.randint(-300, 300))), ("y", str(self.v.randint(-300, 300)))]
        if self.ch(0.3):
            self.v.shuffle(pairs)
        q = "'" if self.ch(0.2) else '"'
        return "".join(" %s=%s%s%s" % (k, q, xesc(v), q) for k, v in pairs)

    def junk(self):
        if self.ch(0.08):
            return "<frobnicate a=\"1\"><inner>t</inner></frobnicate>" + self.ws()
        return ""

    def label(self, kind, text):
        return "<label%s>%s</label>" % (self.attrs([("kind", kind)]), self.text(text))

    def render(self, M):
        o = []
        w = self.ws
        o.append('<?xml version="1.0" encoding="utf-8"?>\n')
        root = "project" if self.ch(0.1) else "nta"
        if not self.ch(0.3) and root == "nta":
            o.append("<!DOCTYPE nta PUBLIC '-//Uppaal Team//DTD Flat System 1.1//EN' 'http://www.it.uu.se/research/group/darts/uppaal/flat-1_1.dtd'>\n")
        o.append("<%s>" % root + w())
        gtext = "\n".join(d["text"] for d in M["gdecls"])
        if gtext or not self.ch(0.5):
            o.append("<declaration>%s</declaration>" % self.text(gtext) + w())
        for t in M["templates"]:
            o.append(self.junk())
            o.append("<template>" + w())
            o.append("<name%s>%s</name>" % (self.attrs([]), self.text(t["name"])) + w())
            ptext = ", ".join(p["text"] for p in t["params"])
            if ptext or self.ch(0.5):
                o.append("<parameter>%s</parameter>" % self.text(ptext) + w())
            dtext = "\n".join(d["text"] for d in t["decls"])
            if dtext or self.ch(0.5):
                o.append("<declaration>%s</declaration>" % self.text(dtext) + w())
            for l in t["locs"]:
                o.append("<location%s>" % self.attrs([("id", l["id"])]) + w())
                if l["name"] is not None:
                    o.append("<name%s>%s</name>" % (self.attrs([]), self.text(l["name"])) + w())
                elif self.ch(0.2):
                    o.append("<name/>" + w())
                for kind, e in l["labels"]:
                    o.append(self.label(kind, etext(e)) + w())
                    if self.ch(0.1):
                        o.append(self.label("comments", "a comment") + w())
                if l["urgent"]:
                    o.append("<urgent/>" + w())
                if l["committed"]:
                    o.append("<committed/>" + w())
                o.append("</location>" + w())
            for b in t["bps"]:
                o.append(("<branchpoint%s/>" if not self.ch(0.3) else "<branchpoint%s></branchpoint>") % self.attrs([("id", b)]) + w())
            if t["init"] is not None:
                o.append("<init%s/>" % self.attrs([("ref", t["init"])]) + w())
            for e in t["edges"]:
                at = [] if e["ctrl"] is None else [("controllable", "true" if e["ctrl"] else "false")]
                o.append(self.junk())
                o.append("<transition%s>" % self.attrs(at) + w())
                o.append("<source%s/>" % self.attrs([("ref", e["src"])]) + w())
                o.append("<target%s/>" % self.attrs([("ref", e["tgt"])]) + w())
                for kind, pl in e["labels"]:
                    if kind == "select":
                        txt = ", ".join("%s : %s" % (i, ttext(ty)) for i, ty in pl)
                    elif kind == "synchronisation":
                        txt = etext(pl[0]) + pl[1]
                    else:
                        txt = etext(pl)
                    o.append(self.label(kind, txt) + w())
                    if self.ch(0.05):
                        o.append("<label kind=\"guard\"/>" + w())        # empty labels are skipped
                    if self.ch(0.05):
                        o.append(self.label("comments", "note") + w())
                for _ in range(self.v.randint(0, 2) if self.v else 0):
                    o.append("<nail x=\"1\" y=\"2\"/>" + w())
                o.append("</transition>" + w())
            o.append("</template>" + w())
        itext = "".join("%s%s = %s(%s);\n" % (i["name"], ("(" + ", ".join(p["text"] for p in i["params"]) + ")") if i["params"] or self.ch(0.3) else "",
                                               i["templ"], ", ".join(etext(a) for a in i["args"])) for i in M["insts"])
        stext = "system "
        for k, p in enumerate(M["procs"]):
            stext += ("" if k == 0 else (" < " if p["lt"] else ", ")) + p["name"]
        stext += ";"
        if not M["procs"]:
            stext = ""
        if itext and self.ch(0.4):
            o.append("<instantiation>%s</instantiation>" % self.text(itext) + w())
            itext = ""
        # (no comment between </system> and </nta>: the reader then runs off the end of the document -- reported
        #  separately as finding text:comment-after-system)
        stext += M.get("system_tail", "")        # (C05: text after the system line, e.g. a comment that is never closed)
        o.append("<system>%s</system>" % self.text(itext + stext) + self.v.choice(["", "\n", " \n "]) if self.v else "<system>%s</system>\n" % self.text(itext + stext))
        if self.ch(0.2):
            o.append("<queries>\n<query><formula>A[] true</formula><comment>c</comment></query>\n</queries>\n")
        o.append("</%s>\n" % root)
        return "".join(o)


def render_xta(M, prefs=(), vary=None):
    """AModel -> XTA text (common subset: identifiers as location names, labels in grammar order).  prefs[i] asks for the
    chained form `, -> T {..}` for the i-th edge of a template; it is used where the grammar allows it (same source as
    the last full transition, no probability section) -- the same rule as renderTrans in lean/UtapModel/Model/Xta.lean."""
    o = []
    for d in M["gdecls"]:
        o.append(d["text"])
    for t in M["templates"]:
        o.append("process %s(%s) {" % (t["name"], ", ".join(p["text"] for p in t["params"])))
        for d in t["decls"]:
            o.append("  " + d["text"])
        st = []
        for l in t["locs"]:
            nm = node_name(t, l["id"])
            lab = dict((k, e) for k, e in l["labels"])
            if "invariant" in lab and "exponentialrate" in lab:
                st.append("%s {%s ; %s}" % (nm, etext(lab["invariant"]), etext(lab["exponentialrate"])))
            elif "invariant" in lab:
                st.append("%s {%s}" % (nm, etext(lab["invariant"])))
            elif "exponentialrate" in lab:
                st.append("%s {; %s}" % (nm, etext(lab["exponentialrate"])))
            else:
                st.append(nm)
        o.append("  state " + ", ".join(st) + ";")
        if t["bps"]:
            o.append("  branchpoint " + ", ".join("_" + b for b in t["bps"]) + ";")
        com = [node_name(t, l["id"]) for l in t["locs"] if l["committed"]]
        urg = [node_name(t, l["id"]) for l in t["locs"] if l["urgent"]]
        flags = []
        if vary is not None and vary.random() < 0.3 and len(com) > 1:      # several commit lists
            flags += ["  commit " + com[0] + ";", "  commit " + ", ".join(com[1:]) + ";"]
        elif com:
            flags.append("  commit " + ", ".join(com) + ";")
        if urg:
            flags.append("  urgent " + ", ".join(urg) + ";")
        if vary is not None and vary.random() < 0.5:
            flags.reverse()                                                # the grammar takes the lists in any order
        o += flags
        if vary is not None and vary.random() < 0.3:
            o.append("  // a comment\n  /* and\n another */")
        o.append("  init %s;" % node_name(t, t["init"]))
        tr = []
        root = None
        for i, e in enumerate(t["edges"]):
            body = []
            for kind, pl in e["labels"]:
                if kind == "select":
                    body.append("select " + ", ".join("%s : %s" % (b, ttext(ty)) for b, ty in pl) + ";")
                elif kind == "guard":
                    body.append("guard " + etext(pl) + ";")
                elif kind == "synchronisation":
                    body.append("sync " + etext(pl[0]) + pl[1] + ";")
                elif kind == "assignment":
                    body.append("assign " + etext(pl) + ";")
                elif kind == "probability":
                    body.append("probability " + etext(pl) + ";")
            arrow = "-u->" if e["ctrl"] is False else "->"
            src, tgt = node_name(t, e["src"]), node_name(t, e["tgt"])
            want = i < len(prefs) and prefs[i]
            if want and root == src and not any(k == "probability" for k, _ in e["labels"]):
                tr.append("%s %s { %s }" % (arrow, tgt, " ".join(body)))
            else:
                tr.append("%s %s %s { %s }" % (src, arrow, tgt, " ".join(body)))
                root = src
        if tr:
            o.append("  trans\n    " + ",\n    ".join(tr) + ";")
        o.append("}")
    for i in M["insts"]:
        o.append("%s%s = %s(%s);" % (i["name"], ("(" + ", ".join(p["text"] for p in i["params"]) + ")") if i["params"] else "",
                                      i["templ"], ", ".join(etext(a) for a in i["args"])))
    stext = "system "
    for k, p in enumerate(M["procs"]):
        stext += ("" if k == 0 else (" < " if p["lt"] else ", ")) + p["name"]
    o.append(stext + ";" + M.get("system_tail", ""))
    return "\n".join(o) + "\n"


# ------------------------------------------------------------------------------------------------ running both sides
import re

REF_XML = "<nta><declaration></declaration><system>system ;</system></nta>"


def frame(op, cid, text):
    data = text.encode()
    return ("%s %s %d\n" % (op, cid, len(data))).encode() + data + b"\n"


def split_blocks(out):
    """BEGIN <id> ... END <id>  ->  {id: [lines]} ; an unterminated last block (crash) is kept under its id with a
    trailing marker line '<<UNTERMINATED>>'."""
    blocks, cur, cid = {}, None, None
    for l in out.split("\n"):
        if l.startswith("BEGIN "):
            cid = l.split()[1]
            cur = []
        elif l.startswith("END ") and cur is not None:
            blocks[cid] = cur
            cur = None
        elif cur is not None:
            cur.append(l)
    if cur is not None:
        blocks[cid] = cur + ["<<UNTERMINATED>>"]
    return blocks


class Normalizer:
    """Turns the harness output for one model into the key-level lines the Lean driver prints."""

    def __init__(self, ref_lines):
        self.builtin_trace = [l for l in ref_lines if l.startswith("TRACE decl_")]
        g = []
        on = False
        for l in ref_lines:
            if l == "globals":
                on = True
                continue
            if on and l.startswith("  "):
                g.append(l)
            elif on:
                break
        self.builtin_globals = g

    def normalize(self, lines, keys):
        rep = []
        for k, sx in keys.sexp.items():
            if k[0] == "d":
                continue
            rep.append((sx, k))
            if k[0] == "t" and not sx.startswith("(CONSTANT "):
                rep.append(("(CONSTANT " + sx + ")", k))
        rep.sort(key=lambda x: -len(x[0]))
        dmap = {sx: k for k, sx in keys.sexp.items() if k[0] == "d"}
        trace, doc, rest = [], [], []
        bt = list(self.builtin_trace)
        bg = list(self.builtin_globals)
        section_globals = False
        for l in lines:
            if l.startswith("TRACE "):
                if bt and l == bt[0]:
                    bt.pop(0)
                    continue
                trace.append(self.subst(l, rep))
                continue
            if l.startswith(("ERROR ", "WARNING ", "VERDICT ", "hasPriorities ", "ACTNAMES", "EXCEPTION", "TRACE-EXCEPTION", "TRACED-", "END-TRACED", "<<UNTERMINATED")):
                rest.append(l)
                continue
            if rest and rest[-1].startswith("TRACED-DOCUMENT-DIFFERS") and not l.startswith("END-TRACED"):
                continue
            if l == "globals":
                section_globals = True
            elif not l.startswith("  "):
                section_globals = False
            if section_globals and bg and l == bg[0]:
                bg.pop(0)
                continue
            if l.startswith("  ") and l.strip() in dmap:
                doc.append("  decl " + dmap[l.strip()])
                continue
            l2 = self.subst(l, rep)
            l2 = re.sub(r"inv=\(AND \(CONSTANT int 1\) (e\d+)\)", r"inv=\1", l2)
            doc.append(l2)
        return trace, doc, rest

    @staticmethod
    def subst(l, rep):
        for sx, k in rep:
            if sx in l:
                l = l.replace(sx, k)
        return l


def first_diff(a, b):
    for i in range(max(len(a), len(b))):
        x = a[i] if i < len(a) else "<missing>"
        y = b[i] if i < len(b) else "<missing>"
        if x != y:
            return i, x, y
    return None


# ------------------------------------------------------------------------------------------------ batch runner
def run_batches(exe, args, frames, nproc=8, timeout=900):
    """frames: list of (cid, bytes).  Runs the harness on chunks in parallel; a chunk whose process dies is re-run case
    by case so that the crashing case is identified.  Returns ({cid: [lines]}, {cid: (rc, stderr)} for crashed cases)."""
    from concurrent.futures import ThreadPoolExecutor
    import subprocess, os, tempfile
    from vlib import core
    env = dict(os.environ)
    env.update(core.SAN_ENV)
    scratch = os.path.join(core.CACHE, "c04tmp")
    os.makedirs(scratch, exist_ok=True)

    def run(chunk, idx):
        tmp = os.path.join(scratch, "w%d_%d.xml" % (os.getpid(), idx))
        data = b"".join(f for _, f in chunk)
        try:
            r = subprocess.run([exe] + list(args) + [tmp], input=data, stdout=subprocess.PIPE, stderr=subprocess.PIPE, env=env, timeout=timeout)
            rc, out, err = r.returncode, r.stdout.decode(errors="replace"), r.stderr.decode(errors="replace")
        except subprocess.TimeoutExpired as ex:
            rc, out, err = -999, (ex.stdout or b"").decode(errors="replace"), "timeout"
        try:
            os.remove(tmp)
        except OSError:
            pass
        return rc, out, err

    n = max(1, min(nproc, len(frames)))
    size = (len(frames) + n - 1) // n
    chunks = [frames[i:i + size] for i in range(0, len(frames), size)]
    blocks, crashed = {}, {}
    with ThreadPoolExecutor(n) as ex:
        res = list(ex.map(lambda p: run(p[1], p[0]), enumerate(chunks)))
    for chunk, (rc, out, err) in zip(chunks, res):
        b = split_blocks(out)
        if rc == 0:
            blocks.update(b)
            continue
        # find the crashing case: everything before it is fine
        done = [cid for cid, _ in chunk if cid in b and "<<UNTERMINATED>>" not in b[cid]]
        for cid in done:
            blocks[cid] = b[cid]
        rest = [(cid, f) for cid, f in chunk if cid not in done]
        for k, (cid, f) in enumerate(rest):
            rc1, out1, err1 = run([(cid, f)], 1000 + k)
            b1 = split_blocks(out1)
            blocks[cid] = b1.get(cid, ["<<NO-OUTPUT>>"])
            if rc1 != 0:
                crashed[cid] = (rc1, err1[-3000:])
    return blocks, crashed


def run_lean(exe, lines, timeout=900):
    from vlib import core
    rc, out, err, _ = core.run_exe(exe, [], stdin_text="\n".join(lines) + "\n", timeout=timeout)
    return rc, split_blocks(out), err


# ------------------------------------------------------------------------------------------------ shrinking
def shrink_candidates(M):
    """smaller variants of M (each still a consistent AModel)"""
    import copy

    def without_template(k):
        N = copy.deepcopy(M)
        name = N["templates"][k]["name"]
        del N["templates"][k]
        dead = {name}
        keep = []
        for i in N["insts"]:
            if i["templ"] in dead:
                dead.add(i["name"])
            else:
                keep.append(i)
        N["insts"] = keep
        N["procs"] = [p for p in N["procs"] if p["name"] not in dead]
        if N["procs"]:
            N["procs"][0]["lt"] = False
        return N

    for k in range(len(M["templates"])):
        yield without_template(k)
    for k in range(len(M["procs"])):
        if len(M["procs"]) > 1:
            N = copy.deepcopy(M)
            del N["procs"][k]
            N["procs"][0]["lt"] = False
            yield N
    for k in reversed(range(len(M["insts"]))):
        nm = M["insts"][k]["name"]
        if not any(i["templ"] == nm for i in M["insts"]) and not any(p["name"] == nm for p in M["procs"]):
            N = copy.deepcopy(M)
            del N["insts"][k]
            yield N
    for ti, t in enumerate(M["templates"]):
        for k in range(len(t["edges"])):
            N = copy.deepcopy(M)
            del N["templates"][ti]["edges"][k]
            yield N
        for k, e in enumerate(t["edges"]):
            for j in range(len(e["labels"])):
                N = copy.deepcopy(M)
                del N["templates"][ti]["edges"][k]["labels"][j]
                yield N
        used = {e["src"] for e in t["edges"]} | {e["tgt"] for e in t["edges"]} | {t["init"]}
        for k, l in enumerate(t["locs"]):
            if l["id"] not in used:
                N = copy.deepcopy(M)
                del N["templates"][ti]["locs"][k]
                yield N
            for j in range(len(l["labels"])):
                N = copy.deepcopy(M)
                del N["templates"][ti]["locs"][k]["labels"][j]
                yield N
            if l["urgent"] or l["committed"]:
                N = copy.deepcopy(M)
                N["templates"][ti]["locs"][k]["urgent"] = N["templates"][ti]["locs"][k]["committed"] = False
                yield N
        for k, b in enumerate(t["bps"]):
            if b not in used:
                N = copy.deepcopy(M)
                del N["templates"][ti]["bps"][k]
                yield N
        for k, d in enumerate(t["decls"]):
            if d["name"] not in ("x", "m"):
                N = copy.deepcopy(M)
                del N["templates"][ti]["decls"][k]
                yield N
    for k, d in enumerate(M["gdecls"]):
        if d["name"] not in ("gn", "gc", "ch", "idT", "gv0", "gv1", "gv2"):
            N = copy.deepcopy(M)
            del N["gdecls"][k]
            yield N


def shrink(M, still_fails, budget=120):
    cur = M
    progress = True
    while progress and budget > 0:
        progress = False
        for N in shrink_candidates(cur):
            budget -= 1
            if budget <= 0:
                break
            try:
                if still_fails(N):
                    cur = N
                    progress = True
                    break
            except Exception:
                continue
    return cur


def model_stats(M):
    ne = sum(len(t["edges"]) for t in M["templates"])
    return {"templates": len(M["templates"]), "locations": sum(len(t["locs"]) for t in M["templates"]),
            "branchpoints": sum(len(t["bps"]) for t in M["templates"]), "edges": ne,
            "insts": len(M["insts"]), "procs": len(M["procs"])}


# ------------------------------------------------------------------------------------------------ tie T
def regen_tables(ctx):
    """translate/xml_tables.py: tables of xmlreader.cpp / DocumentBuilder.cpp / document.cpp / parser.y / xmlwriter.cpp of the
    current tree -> lean/UtapModel/Gen/XmlTables.lean (every run).  Returns False (after reporting) if the source has a
    shape the translator does not recognise."""
    import os, sys
    from vlib import core
    sys.path.insert(0, os.path.join(core.VERIF, "translate"))
    import xml_tables
    try:
        text = xml_tables.translate(core.REPO)
    except xml_tables.TranslateError as ex:
        ctx.proof_broken("translate/xml_tables.py", str(ex), "the tables could not be regenerated from the current source")
        return False
    changed = core.write_if_changed(os.path.join(core.LEAN_DIR, "UtapModel", "Gen", "XmlTables.lean"), text)
    ctx.coverage["tables_regenerated"] = {"changed_since_last_run": bool(changed), "bytes": len(text)}
    return True
