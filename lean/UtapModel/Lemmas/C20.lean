/- Helper lemmas of C20: the independent reader on the written tree of one location / edge / template. -/
import UtapModel.Model.XmlWrite
import Std.Data.String.ToNat
namespace UtapModel.AM

theorem idOf_injective {a b : Nat} (h : idOf a = idOf b) : a = b := by
  have h2 : toString a = toString b := by
    have := congrArg String.toList h
    simp only [idOf, String.toList_append] at this
    exact String.toList_inj.mp (List.append_cancel_left this)
  exact Nat.repr_injective h2

theorem allSome_map_some {α β} (f : α → Option β) (g : α → β) (l : List α) (h : ∀ x ∈ l, f x = some (g x)) :
    allSome (l.map f) = some (l.map g) := by
  induction l with
  | nil => rfl
  | cons x r ih =>
    simp only [List.map_cons, h x (by simp), allSome, ih (fun y hy => h y (by simp [hy]))]
    rfl

theorem allSome_none_of_mem {α} (l : List (Option α)) (h : none ∈ l) : allSome l = none := by
  induction l with
  | nil => cases h
  | cons x r ih =>
    cases x with
    | none => rfl
    | some a =>
      have : none ∈ r := by simpa using h
      simp [allSome, ih this]

/-! ### labels -/

def lblF (x : Xml) : Option (String × String) :=
  match x with
  | .elem t la lk => if t = "label" then some ((la.lookup "kind").getD "", contentOf lk) else none
  | .text _ => none

theorem filterMap_wOptLabel (kind : String) (t : Option LTxt) :
    (wOptLabel kind t).filterMap lblF = optLabel kind t := by
  cases t with
  | none => rfl
  | some x => cases x <;> simp [wOptLabel, wLabel, optLabel, nontrivial, lblF, contentOf, txtStr, List.lookup]

theorem labelOf_wOptLabel_hit (kind : String) (t : Option LTxt) (rest : List Xml) (s : String) (h : nontrivial t = some s) :
    labelOf kind (wOptLabel kind t ++ rest) = some s := by
  cases t with
  | none => simp [nontrivial] at h
  | some x =>
    cases x <;> simp [nontrivial] at h <;>
      simp [wOptLabel, wLabel, labelOf, List.findSome?, contentOf, txtStr, List.lookup, h]

theorem labelOf_wOptLabel_miss (kind kind' : String) (t : Option LTxt) (rest : List Xml)
    (h : nontrivial t = none ∨ kind' ≠ kind) :
    labelOf kind (wOptLabel kind' t ++ rest) = labelOf kind rest := by
  cases t with
  | none => rfl
  | some x =>
    cases x with
    | one => rfl
    | andOne r =>
      rcases h with h | h
      · simp [nontrivial] at h
      · simp [wOptLabel, wLabel, labelOf, List.findSome?, List.lookup, h]
    | plain k =>
      rcases h with h | h
      · simp [nontrivial] at h
      · simp [wOptLabel, wLabel, labelOf, List.findSome?, List.lookup, h]

/-! ### one location -/

theorem labelOf_flags (kind : String) (u c : Bool) :
    labelOf kind (if c = true then [Xml.elem "committed" [] []] else if u = true then [Xml.elem "urgent" [] []] else []) = none := by
  cases u <;> cases c <;> simp [labelOf, List.findSome?]

theorem gLoc_wLoc (nl : WLoc × Nat) (h : (nl.1.urgent && nl.1.committed) = false) :
    gLoc (wLocAttrs nl) (wLocKids nl) = glocOf nl := by
  obtain ⟨⟨name, inv, rate, u, c⟩, n⟩ := nl
  simp only at h
  have hinv : labelOf "invariant" (wLocKids (⟨name, inv, rate, u, c⟩, n)) = nontrivial inv := by
    simp only [wLocKids, List.append_assoc, List.cons_append, List.nil_append]
    rw [show labelOf "invariant" (Xml.elem "name" [] [Xml.text (Txt.str name)] :: (wOptLabel "invariant" inv ++
          (wOptLabel "exponentialrate" rate ++ (if c = true then [Xml.elem "committed" [] []] else if u = true then [Xml.elem "urgent" [] []] else []))))
        = labelOf "invariant" (wOptLabel "invariant" inv ++
          (wOptLabel "exponentialrate" rate ++ (if c = true then [Xml.elem "committed" [] []] else if u = true then [Xml.elem "urgent" [] []] else [])))
        by simp [labelOf, List.findSome?]]
    cases hn : nontrivial inv with
    | some s => exact labelOf_wOptLabel_hit _ _ _ _ hn
    | none =>
      rw [labelOf_wOptLabel_miss _ _ _ _ (Or.inl hn), labelOf_wOptLabel_miss _ _ _ _ (Or.inr (by decide)), labelOf_flags]
  have hrate : labelOf "exponentialrate" (wLocKids (⟨name, inv, rate, u, c⟩, n)) = nontrivial rate := by
    simp only [wLocKids, List.append_assoc, List.cons_append, List.nil_append]
    rw [show labelOf "exponentialrate" (Xml.elem "name" [] [Xml.text (Txt.str name)] :: (wOptLabel "invariant" inv ++
          (wOptLabel "exponentialrate" rate ++ (if c = true then [Xml.elem "committed" [] []] else if u = true then [Xml.elem "urgent" [] []] else []))))
        = labelOf "exponentialrate" (wOptLabel "invariant" inv ++
          (wOptLabel "exponentialrate" rate ++ (if c = true then [Xml.elem "committed" [] []] else if u = true then [Xml.elem "urgent" [] []] else [])))
        by simp [labelOf, List.findSome?]]
    rw [labelOf_wOptLabel_miss _ _ _ _ (Or.inr (by decide))]
    cases hn : nontrivial rate with
    | some s => exact labelOf_wOptLabel_hit _ _ _ _ hn
    | none => rw [labelOf_wOptLabel_miss _ _ _ _ (Or.inl hn), labelOf_flags]
  have hflag : ∀ tag, tag = "urgent" ∨ tag = "committed" →
      hasChild tag (wLocKids (⟨name, inv, rate, u, c⟩, n)) =
        hasChild tag (if c = true then [Xml.elem "committed" [] []] else if u = true then [Xml.elem "urgent" [] []] else []) := by
    intro tag htag
    have hl : ∀ kind t, hasChild tag (wOptLabel kind t) = false := by
      intro kind t
      cases t with
      | none => rfl
      | some x => rcases htag with rfl | rfl <;> cases x <;> simp [wOptLabel, wLabel, hasChild]
    have happ : ∀ a b, hasChild tag (a ++ b) = (hasChild tag a || hasChild tag b) := by
      intro a b; simp [hasChild, List.any_append]
    simp only [wLocKids, happ, hl, Bool.or_false, Bool.false_or]
    rcases htag with rfl | rfl <;> simp [hasChild]
  simp only [gLoc, glocOf, hinv, hrate, hflag "urgent" (Or.inl rfl), hflag "committed" (Or.inr rfl)]
  cases u <;> cases c <;> simp_all [wLocAttrs, wLocKids, childText, List.findSome?, contentOf, txtStr, hasChild, flagOf, List.lookup]

end UtapModel.AM
