import sys, html
def model(gdecl="", tdecl="", guard=None, inv=None, upd=None, sync=None, sel=None, prob=None, params="", system="P = T(); system P;", extra_templates=""):
    labels=""
    if sel is not None: labels+=f'<label kind="select">{html.escape(sel)}</label>'
    if guard is not None: labels+=f'<label kind="guard">{html.escape(guard)}</label>'
    if sync is not None: labels+=f'<label kind="synchronisation">{html.escape(sync)}</label>'
    if upd is not None: labels+=f'<label kind="assignment">{html.escape(upd)}</label>'
    if prob is not None: labels+=f'<label kind="probability">{html.escape(prob)}</label>'
    invl = f'<label kind="invariant">{html.escape(inv)}</label>' if inv is not None else ""
    return f'''<?xml version="1.0" encoding="utf-8"?>
<nta>
<declaration>{html.escape(gdecl)}</declaration>
<template><name>T</name><parameter>{html.escape(params)}</parameter><declaration>{html.escape(tdecl)}</declaration>
<location id="id0"><name>L0</name>{invl}</location>
<location id="id1"><name>L1</name></location>
<init ref="id0"/>
<transition><source ref="id0"/><target ref="id1"/>{labels}</transition>
</template>{extra_templates}
<system>{html.escape(system)}</system>
</nta>
'''
if __name__=="__main__":
    import json
    cases=json.load(open(sys.argv[1]))
    for name,kw in cases.items():
        open(name+".xml","w").write(model(**kw))
